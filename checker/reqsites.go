package main

import (
	"fmt"
	"go/token"
	"go/types"

	"golang.org/x/tools/go/ssa"
)

// A reqSite is one request/acknowledgement exchange: a function (possibly specialised to one QoS) that writes a
// request packet and waits for its acknowledgement.
type reqSite struct {
	F     *ssa.Function
	Name  string // stable key, e.g. publishImpl[QoS1]
	Kind  string // publish, pubrel, subscribe, unsubscribe, ping, connect
	QoS   int    // -1 if not specialised
	Q     PathQ
	Ctx   ssa.Value
	Cli   ssa.Value
	Msg   ssa.Value // the *Message of publish/pubrel
	Write *ssa.Call
	AckT  string // packet type name of the acknowledgement (empty: none awaited)

	// derived
	Reg          ssa.Instruction // registration instruction (MapUpdate or Store) or nil
	RegChan      ssa.Value       // registered channel (resolved)
	RegKey       ssa.Value       // map key (nil for slot fields)
	SigBase      ssa.Value
	RegViaHelper *ssa.Function // registration performed by this helper (which takes the signaller's lock itself)
	Selects      []*ssa.Select // blocking selects reachable from the write
}

// MQTT 3.1.1 request -> acknowledgement table (spec sections 3.1-3.12), by packet struct type.
var ackTable = map[string]string{
	"pktPubRel":      "pktPubComp",
	"pktSubscribe":   "pktSubAck",
	"pktUnsubscribe": "pktUnsubAck",
	"pktConnect":     "pktConnAck",
}

// qosEdgeFilter folds comparisons of msg.QoS with constants for an assumed QoS value.
func (c *Ctx) qosEdgeFilter(f *ssa.Function, msg ssa.Value, q int) func(*ssa.BasicBlock, int) bool {
	type dec struct{ taken int }
	decided := map[*ssa.BasicBlock]int{}
	for _, b := range f.Blocks {
		iff := blockIf(b)
		if iff == nil {
			continue
		}
		bin, ok := iff.Cond.(*ssa.BinOp)
		if !ok {
			continue
		}
		x, y := bin.X, bin.Y
		op := bin.Op
		kv, isK := constInt(y)
		if !isK {
			if kv2, ok2 := constInt(x); ok2 {
				kv = kv2
				x = y
				switch op {
				case token.LSS:
					op = token.GTR
				case token.GTR:
					op = token.LSS
				case token.LEQ:
					op = token.GEQ
				case token.GEQ:
					op = token.LEQ
				}
				isK = true
			}
		}
		if !isK {
			continue
		}
		base, ok := isFieldLoad(x, "Message", "QoS")
		if !ok || c.Resolve(base) != c.Resolve(msg) {
			continue
		}
		var val bool
		qq := int64(q)
		switch op {
		case token.EQL:
			val = qq == kv
		case token.NEQ:
			val = qq != kv
		case token.LSS:
			val = qq < kv
		case token.GTR:
			val = qq > kv
		case token.LEQ:
			val = qq <= kv
		case token.GEQ:
			val = qq >= kv
		default:
			continue
		}
		if val {
			decided[b] = 0
		} else {
			decided[b] = 1
		}
	}
	return func(from *ssa.BasicBlock, succ int) bool {
		if t, ok := decided[from]; ok {
			return succ != t
		}
		return false
	}
}

// ResolveQ resolves v like Resolve, but a phi is narrowed to the incoming edges feasible under q.
func (c *Ctx) ResolveQ(f *ssa.Function, v ssa.Value, q PathQ) ssa.Value {
	v = c.Resolve(v)
	phi, ok := v.(*ssa.Phi)
	if !ok || phi.Parent() != f {
		return v
	}
	reach := map[*ssa.BasicBlock]bool{f.Blocks[0]: true}
	work := []*ssa.BasicBlock{f.Blocks[0]}
	for len(work) > 0 {
		b := work[len(work)-1]
		work = work[:len(work)-1]
		for k, s := range b.Succs {
			if q.BlockEdge != nil && q.BlockEdge(b, k) {
				continue
			}
			if !reach[s] {
				reach[s] = true
				work = append(work, s)
			}
		}
	}
	var first ssa.Value
	for i, p := range phi.Block().Preds {
		if !reach[p] {
			continue
		}
		feasible := false
		for k, s := range p.Succs {
			if s == phi.Block() && !(q.BlockEdge != nil && q.BlockEdge(p, k)) {
				feasible = true
			}
		}
		if !feasible {
			continue
		}
		r := c.ResolveQ(f, phi.Edges[i], q)
		if first == nil {
			first = r
		} else if r != first {
			return v
		}
	}
	if first != nil {
		return first
	}
	return v
}

// packedType: operand of write() resolves to T.Pack() (returns T's name and the packet alloc) or pack(const...) (returns "pack", const type byte).
func (c *Ctx) packedType(v ssa.Value) (string, *ssa.Call) {
	call, callee := c.asCall(v)
	if call == nil || callee == nil {
		return "", nil
	}
	if callee.Signature.Recv() != nil && callee.Name() == "Pack" {
		return typeName(callee.Signature.Recv().Type()), call
	}
	if callee == c.Func("pack") {
		return "pack", call
	}
	return "", call
}

// packTypeByte evaluates the first operand of a pack(...) call when it is constant (possibly via packetType.b()).
func (c *Ctx) packTypeByte(call *ssa.Call) (int64, bool) {
	if len(call.Call.Args) == 0 {
		return 0, false
	}
	return c.constByte(call.Call.Args[0])
}

// constByte folds constants through x.b(), conversions and | of constants.
func (c *Ctx) constByte(v ssa.Value) (int64, bool) {
	if k, ok := constInt(v); ok {
		return k, true
	}
	switch x := v.(type) {
	case *ssa.Convert:
		return c.constByte(x.X)
	case *ssa.ChangeType:
		return c.constByte(x.X)
	case *ssa.BinOp:
		a, ok1 := c.constByte(x.X)
		b, ok2 := c.constByte(x.Y)
		if ok1 && ok2 {
			switch x.Op {
			case token.OR:
				return a | b, true
			case token.AND:
				return a & b, true
			case token.ADD:
				return a + b, true
			case token.SHL:
				if b >= 0 && b < 56 {
					return a << uint(b), true
				}
			}
		}
	case *ssa.Call:
		callee := c.StaticCalleeOf(&x.Call)
		if callee != nil && callee.Name() == "b" && len(x.Call.Args) == 1 {
			return c.constByte(x.Call.Args[0])
		}
	}
	return 0, false
}

func (c *Ctx) requestSites() ([]*reqSite, []string) {
	var sites []*reqSite
	var problems []string
	write := c.Method("BaseClient", "write")
	if write == nil {
		return nil, []string{"(*BaseClient).write not found"}
	}
	pingReq, _, _ := c.ConstVal("packetPingReq")
	for _, f := range c.Funcs {
		var writes []*ssa.Call
		eachInstr(f, func(in ssa.Instruction) {
			if c.isCallTo(in, write) {
				writes = append(writes, in.(*ssa.Call))
			}
		})
		for _, w := range writes {
			if len(w.Call.Args) != 2 {
				continue
			}
			pt, pcall := c.packedType(w.Call.Args[1])
			s := &reqSite{F: f, Write: w, QoS: -1, Cli: c.clientOperand(w.Call.Args[0])}
			// context parameter of f
			for _, p := range f.Params {
				if types.TypeString(p.Type(), nil) == "context.Context" {
					s.Ctx = p
				}
			}
			switch pt {
			case "pktPublish":
				s.Kind = "publish"
				// message = Message field of the packet literal
				if pcall != nil && len(pcall.Call.Args) == 1 {
					if mv := c.packetField(pcall.Call.Args[0], "Message"); mv != nil {
						s.Msg = c.Resolve(mv)
					}
				}
				if s.Msg == nil {
					problems = append(problems, "publish site in "+FuncName(f)+": cannot find the message of the packet")
					continue
				}
				for q := 0; q <= 2; q++ {
					s2 := *s
					s2.QoS = q
					s2.Q = PathQ{BlockEdge: c.qosEdgeFilter(f, s.Msg, q)}
					// a function with one PUBLISH write per QoS level: this write belongs to the levels that reach it
					if _, reaches := CanReach(f, nil, func(in ssa.Instruction) bool { return in == ssa.Instruction(w) }, s2.Q); !reaches {
						continue
					}
					s2.Name = fmt.Sprintf("%s[QoS%d]", FuncName(f), q)
					switch q {
					case 1:
						s2.AckT = "pktPubAck"
					case 2:
						s2.AckT = "pktPubRec"
					}
					sites = append(sites, &s2)
				}
				continue
			case "pktPubRel":
				s.Kind = "pubrel"
			case "pktSubscribe":
				s.Kind = "subscribe"
			case "pktUnsubscribe":
				s.Kind = "unsubscribe"
			case "pktConnect":
				s.Kind = "connect"
			case "pack":
				if k, ok := c.packTypeByte(pcall); ok && pingReq != nil {
					if pv, _ := constantInt64(pingReq); pv == k {
						s.Kind = "ping"
						s.AckT = "pktPingResp"
					}
				}
			default:
				// a packet type of its own for PINGREQ: its Pack emits the PINGREQ header constant
				if pt != "" && pingReq != nil {
					if k, ok := c.packHeaderConst(pt); ok {
						if pv, _ := constantInt64(pingReq); pv == k {
							s.Kind = "ping"
							s.AckT = "pktPingResp"
						}
					}
				}
			}
			if s.Kind == "" {
				continue // acknowledgements written by serve, DISCONNECT
			}
			if s.AckT == "" {
				s.AckT = ackTable[pt]
			}
			if s.Kind == "pubrel" {
				// message: base of the load stored into pktPubRel.ID
				if pcall != nil && len(pcall.Call.Args) == 1 {
					if idv := c.packetField(pcall.Call.Args[0], "ID"); idv != nil {
						if b, ok := isFieldLoad(c.Resolve(idv), "Message", "ID"); ok {
							s.Msg = c.Resolve(b)
						}
					}
				}
			}
			s.Name = FuncName(f)
			sites = append(sites, s)
		}
	}
	for _, s := range sites {
		c.fillSite(s)
	}
	return sites, problems
}

// storedField: the (single) value stored into field `name` of the struct allocated by a.
func (c *Ctx) storedField(a *ssa.Alloc, name string) ssa.Value {
	var out ssa.Value
	n := 0
	for _, u := range *a.Referrers() {
		if fa, ok := u.(*ssa.FieldAddr); ok {
			if _, fld := fieldOf(fa); fld != nil && fld.Name() == name {
				for _, uu := range *fa.Referrers() {
					if st, ok := uu.(*ssa.Store); ok && st.Addr == ssa.Value(fa) {
						out = st.Val
						n++
					}
				}
			}
		}
	}
	if n != 1 {
		return nil
	}
	return out
}

func chanElemName(t types.Type) string {
	ch, ok := t.Underlying().(*types.Chan)
	if !ok {
		return ""
	}
	return typeName(ch.Elem())
}

// fillSite finds the waiter registration and the selects that follow the write.
func (c *Ctx) fillSite(s *reqSite) {
	f := s.F
	if s.AckT != "" {
		eachInstr(f, func(in ssa.Instruction) {
			switch x := in.(type) {
			case *ssa.MapUpdate:
				ld, ok := x.Map.(*ssa.UnOp)
				if !ok {
					return
				}
				fa, ok := ld.X.(*ssa.FieldAddr)
				if !ok || !inSignaller(fa) {
					return
				}
				kind, idv, ok := c.waiterEntry(x.Map, x.Key)
				if !ok || kind != s.AckT {
					return
				}
				// feasible under the specialisation?
				if _, ok := CanReach(f, nil, func(i ssa.Instruction) bool { return i == in }, s.Q); !ok {
					return
				}
				s.Reg = in
				s.RegChan = c.ResolveQ(f, x.Value, s.Q)
				s.RegKey = idv
				sb, _ := signallerBase(fa)
				s.SigBase = c.Resolve(sb)
			case *ssa.Store:
				fa, ok := x.Addr.(*ssa.FieldAddr)
				if !ok || !inSignaller(fa) {
					return
				}
				_, fld := fieldOf(fa)
				if fld == nil || chanElemName(fld.Type()) != s.AckT {
					return
				}
				s.Reg = in
				s.RegChan = c.ResolveQ(f, x.Val, s.Q)
				sb, _ := signallerBase(fa)
				s.SigBase = c.Resolve(sb)
			}
		})
	}
	if s.AckT != "" && s.Reg == nil {
		// registration through a helper method of the signaller: sig.registerX(key, ch)
		eachInstr(f, func(in ssa.Instruction) {
			call, ok := in.(*ssa.Call)
			if !ok {
				return
			}
			g := c.StaticCalleeOf(&call.Call)
			if g == nil || g.Pkg != c.Pkg {
				return
			}
			sum := c.regSummary(g)
			if sum == nil || sum.AckT != s.AckT {
				return
			}
			if _, ok := CanReach(f, nil, func(i ssa.Instruction) bool { return i == in }, s.Q); !ok {
				return
			}
			s.Reg = in
			s.RegViaHelper = g
			s.SigBase = c.Resolve(call.Call.Args[sum.SigIdx])
			if sum.ChanIdx >= 0 {
				s.RegChan = c.ResolveQ(f, call.Call.Args[sum.ChanIdx], s.Q)
			} else {
				s.RegChan = call
			}
			if sum.KeyIdx >= 0 {
				s.RegKey = call.Call.Args[sum.KeyIdx]
			}
		})
	}
	reach := ReachableInstrs(f, s.Write, s.Q)
	eachInstr(f, func(in ssa.Instruction) {
		if sel, ok := in.(*ssa.Select); ok && sel.Blocking && reach[in] {
			s.Selects = append(s.Selects, sel)
		}
	})
}

func constantInt64(v interface{ String() string }) (int64, bool) {
	var n int64
	_, err := fmt.Sscan(v.String(), &n)
	return n, err == nil
}

// clientOperand: the *BaseClient a method call is made on; a value-receiver call passes *p, which is normalised to p.
func (c *Ctx) clientOperand(v ssa.Value) ssa.Value {
	if u, ok := v.(*ssa.UnOp); ok && u.Op == token.MUL {
		if n, isNamed := u.Type().(*types.Named); isNamed && n.Obj().Name() == "BaseClient" {
			if _, isPtr := u.X.Type().Underlying().(*types.Pointer); isPtr {
				if _, isField := u.X.(*ssa.FieldAddr); !isField {
					return c.Resolve(u.X)
				}
			}
		}
	}
	return c.Resolve(v)
}

// regSummary: g registers a waiter: on every path it stores parameter ChanIdx into a signaller field (slot, or map under key
// parameter KeyIdx) of the signaller given as parameter SigIdx, inside that signaller's exclusive lock.
type regSum struct {
	AckT                    string
	SigIdx, KeyIdx, ChanIdx int // ChanIdx == -1: the helper makes a fresh buffered channel itself and returns it
}

func (c *Ctx) regSummary(g *ssa.Function) *regSum {
	if g.Blocks == nil || len(g.Params) < 2 {
		return nil
	}
	paramIdx := func(v ssa.Value) int {
		v = c.Resolve(v)
		for i, p := range g.Params {
			if v == ssa.Value(p) {
				return i
			}
		}
		return -1
	}
	var out *regSum
	eachInstr(g, func(in ssa.Instruction) {
		var sigBase ssa.Value
		var key, val ssa.Value
		var fld *types.Var
		switch x := in.(type) {
		case *ssa.MapUpdate:
			ld, ok := x.Map.(*ssa.UnOp)
			if !ok {
				return
			}
			fa, ok := ld.X.(*ssa.FieldAddr)
			if !ok || !inSignaller(fa) {
				return
			}
			_, fld = fieldOf(fa)
			sb, _ := signallerBase(fa)
			sigBase, key, val = sb, x.Key, x.Value
		case *ssa.Store:
			fa, ok := x.Addr.(*ssa.FieldAddr)
			if !ok || !inSignaller(fa) {
				return
			}
			_, fld = fieldOf(fa)
			if chanElemName(fld.Type()) == "" {
				return
			}
			sb, _ := signallerBase(fa)
			sigBase, val = sb, x.Val
		default:
			return
		}
		si, ci := paramIdx(sigBase), paramIdx(val)
		if ci < 0 {
			// fresh channel made here with capacity >= 1 and returned on every path
			if mk, ok := c.Resolve(val).(*ssa.MakeChan); ok && mk.Parent() == g {
				if n, ok := constInt(mk.Size); ok && n >= 1 {
					allRet := true
					for _, ret := range returnsOf(g) {
						if len(ret.Results) != 1 || c.Resolve(c.RetVal(ret, 0)) != ssa.Value(mk) {
							allRet = false
						}
					}
					if allRet {
						ci = -2
					}
				}
			}
		}
		ki := -1
		if key != nil {
			ki = paramIdx(key)
			if ki < 0 {
				return
			}
		}
		if si < 0 || ci == -1 {
			return
		}
		if ci == -2 {
			ci = -1
		}
		ack := ""
		if mt, ok := fld.Type().Underlying().(*types.Map); ok {
			ack = chanElemName(mt.Elem())
		} else {
			ack = chanElemName(fld.Type())
		}
		if ack == "" {
			return
		}
		// on every path, under the signaller's exclusive lock
		if _, skip := CanReach(g, nil, realExit, PathQ{BlockInstr: func(i ssa.Instruction) bool { return i == in }}); skip {
			return
		}
		muF := c.structField("signaller", "mu")
		if muF == nil || !c.heldAt(g, in, g.Params[si], muF, "w") {
			return
		}
		out = &regSum{AckT: ack, SigIdx: si, KeyIdx: ki, ChanIdx: ci}
	})
	return out
}

// packetLiteral: v is a packet literal (&pktX{...}) or the result of a helper that builds and returns one; returns the
// literal's Alloc and a mapping from the helper's parameters to the call's arguments.
func (c *Ctx) packetLiteral(v ssa.Value) (*ssa.Alloc, map[ssa.Value]ssa.Value) {
	r := c.Resolve(v)
	if al, ok := r.(*ssa.Alloc); ok {
		return al, nil
	}
	call, ok := r.(*ssa.Call)
	if !ok {
		return nil, nil
	}
	g := c.StaticCalleeOf(&call.Call)
	if g == nil || g.Pkg != c.Pkg || g.Blocks == nil {
		return nil, nil
	}
	var lit *ssa.Alloc
	for _, ret := range returnsOf(g) {
		if len(ret.Results) != 1 {
			return nil, nil
		}
		al, ok := c.Resolve(ret.Results[0]).(*ssa.Alloc)
		if !ok || (lit != nil && lit != al) {
			return nil, nil
		}
		lit = al
	}
	if lit == nil {
		return nil, nil
	}
	m := map[ssa.Value]ssa.Value{}
	for i, p := range g.Params {
		if i < len(call.Call.Args) {
			m[p] = call.Call.Args[i]
		}
	}
	return lit, m
}

// packetField: the value stored into field `name` of the packet v denotes, expressed in the caller's values where the
// packet is built by a helper from its parameters.
func (c *Ctx) packetField(v ssa.Value, name string) ssa.Value {
	lit, m := c.packetLiteral(v)
	if lit == nil {
		return nil
	}
	fv := c.storedField(lit, name)
	if fv == nil || m == nil {
		return fv
	}
	if a, ok := m[c.Resolve(fv)]; ok {
		return a
	}
	return fv
}

// waiterEntry classifies an access m[key] to a waiter table of the signaller: the acknowledgement kind the entry is for and
// the packet-identifier part of the key. The kind is either the element type of a per-kind table (map[uint16]chan *pktPubAck)
// or, for a table shared by several kinds, a packetType constant combined with the identifier into the key in a way that
// keeps both recoverable (identifier in the low bits, constant shifted above the identifier's width).
func (c *Ctx) waiterEntry(m ssa.Value, key ssa.Value) (kind string, id ssa.Value, ok bool) {
	mt, isMap := m.Type().Underlying().(*types.Map)
	if !isMap {
		return "", nil, false
	}
	if k := chanElemName(mt.Elem()); k != "" && c.NamedType(k) != nil && specKind(k) {
		return k, key, true
	}
	if _, isChan := mt.Elem().Underlying().(*types.Chan); !isChan {
		return "", nil, false
	}
	kv, idv, ok := c.splitKindKey(key)
	if !ok {
		return "", nil, false
	}
	name, known := specPacketType[kv]
	if !known {
		return "", nil, false
	}
	return name, idv, true
}

func specKind(name string) bool {
	for _, n := range specPacketType {
		if n == name {
			return true
		}
	}
	return false
}

func uintBits(t types.Type) int {
	b, ok := t.Underlying().(*types.Basic)
	if !ok {
		return 0
	}
	switch b.Kind() {
	case types.Uint8:
		return 8
	case types.Uint16:
		return 16
	case types.Uint32:
		return 32
	case types.Uint64, types.Uint, types.Uintptr:
		return 64
	}
	return 0
}

// splitKindKey: key == K<<s | id (or +, or operands swapped) with K a packetType constant, id an unsigned value of width
// w <= s, and K<<s representable in the key type: (K, id) -> key is injective.
func (c *Ctx) splitKindKey(key ssa.Value) (int64, ssa.Value, bool) {
	bin, ok := stripTypeChange(key).(*ssa.BinOp)
	if !ok || (bin.Op != token.OR && bin.Op != token.ADD && bin.Op != token.XOR) {
		return 0, nil, false
	}
	kw := uintBits(bin.Type())
	if kw == 0 {
		return 0, nil, false
	}
	try := func(hi, lo ssa.Value) (int64, ssa.Value, bool) {
		sh, ok := stripTypeChange(hi).(*ssa.BinOp)
		if !ok || sh.Op != token.SHL {
			return 0, nil, false
		}
		s, ok := constInt(sh.Y)
		if !ok {
			return 0, nil, false
		}
		kc, ok := stripTypeChange(sh.X).(*ssa.Const)
		if !ok {
			if cv, isConv := stripTypeChange(sh.X).(*ssa.Convert); isConv {
				kc, ok = stripTypeChange(cv.X).(*ssa.Const)
			}
		}
		if !ok || kc.Value == nil {
			return 0, nil, false
		}
		kv, ok := constInt(kc)
		if !ok || kv <= 0 || kv > 0xFF {
			return 0, nil, false
		}
		if int(s)+8 > kw {
			return 0, nil, false // the constant would be truncated
		}
		idv := lo
		w := 0
		if cv, isConv := stripTypeChange(lo).(*ssa.Convert); isConv {
			w = uintBits(cv.X.Type())
			idv = cv.X
		} else {
			w = uintBits(lo.Type())
		}
		if w == 0 || int64(w) > s {
			return 0, nil, false // identifier bits overlap the constant: two (kind, id) pairs can share a key
		}
		return kv, idv, true
	}
	if kv, idv, ok := try(bin.X, bin.Y); ok {
		return kv, idv, true
	}
	return try(bin.Y, bin.X)
}

func stripTypeChange(v ssa.Value) ssa.Value {
	for {
		ct, ok := v.(*ssa.ChangeType)
		if !ok {
			return v
		}
		v = ct.X
	}
}

// inSignaller: fa addresses a field of the signaller, directly or inside a struct the signaller holds by value
// (sig.waiters.chPubAck).
func inSignaller(fa *ssa.FieldAddr) bool {
	_, ok := signallerBase(fa)
	return ok
}

// signallerBase: the *signaller the field address is rooted in.
func signallerBase(fa *ssa.FieldAddr) (ssa.Value, bool) {
	cur := fa
	for i := 0; i < 4; i++ {
		if typeName(cur.X.Type()) == "signaller" {
			return cur.X, true
		}
		outer, ok := cur.X.(*ssa.FieldAddr)
		if !ok {
			return nil, false
		}
		cur = outer
	}
	return nil, false
}

// packHeaderConst: the constant first byte of the packets T.Pack emits: the first operand of its pack() call, or the first
// element of the byte-slice literal it returns.
func (c *Ctx) packHeaderConst(t string) (int64, bool) {
	f := c.Method(t, "Pack")
	if f == nil || f.Blocks == nil {
		return 0, false
	}
	pack := c.Func("pack")
	var out int64
	found := false
	eachInstr(f, func(in ssa.Instruction) {
		if k, ok := in.(*ssa.Call); ok && pack != nil && c.StaticCalleeOf(&k.Call) == pack {
			if v, ok := c.packTypeByte(k); ok {
				out, found = v, true
			}
		}
	})
	if found {
		return out, true
	}
	for _, ret := range returnsOf(f) {
		if len(ret.Results) != 1 {
			continue
		}
		if sl, ok := c.Resolve(ret.Results[0]).(*ssa.Slice); ok {
			if al, ok := sl.X.(*ssa.Alloc); ok {
				if es := arrayElems(al); len(es) > 0 && es[0] != nil {
					if v, ok := c.constByte(es[0]); ok {
						return v, true
					}
				}
			}
		}
	}
	return 0, false
}
