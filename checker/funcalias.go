package main

import (
	"go/types"
	"strings"

	"golang.org/x/tools/go/ssa"
)

// sigString renders a function's signature without parameter names and package qualifiers.
func sigString(f *ssa.Function) string {
	sig := f.Signature
	var sb strings.Builder
	q := func(*types.Package) string { return "" }
	sb.WriteString("(")
	for i := 0; i < sig.Params().Len(); i++ {
		if i > 0 {
			sb.WriteString(", ")
		}
		t := sig.Params().At(i).Type()
		if sig.Variadic() && i == sig.Params().Len()-1 {
			sb.WriteString("..." + types.TypeString(t.(*types.Slice).Elem(), q))
		} else {
			sb.WriteString(types.TypeString(t, q))
		}
	}
	sb.WriteString(") (")
	for i := 0; i < sig.Results().Len(); i++ {
		if i > 0 {
			sb.WriteString(", ")
		}
		sb.WriteString(types.TypeString(sig.Results().At(i).Type(), q))
	}
	sb.WriteString(")")
	return sb.String()
}

// refSigs: signature of the unexported functions/methods the rules anchor in, as on the reference tree. When a lookup
// by name fails (the function was renamed), the unique unexported function (or method of the same receiver type) with
// this signature is used instead.
var refSigs = map[string]string{
	"publishImpl":        "(Context, *BaseClient, *Message, bool) (error)",
	"subscribeImpl":      "(Context, *BaseClient, ...Subscription) ([]Subscription, error)",
	"unsubscribeImpl":    "(Context, *BaseClient, ...string) (error)",
	"readPacket":         "(Reader) (packetType, byte, []byte, error)",
	"unpackString":       "([]byte) (int, string, error)",
	"unpackUint16":       "([]byte) (int, uint16)",
	"wrapErrorImpl":      "(error, string) (error)",
	"wrapError":          "(error, string) (error)",
	"wrapErrorf":         "(error, string, ...interface{}) (error)",
	"wrapErrorWithRetry": "(error, retryFn, string) (error)",
	"pack":               "(byte, ...[]byte) ([]byte)",
	"remainingLength":    "(int) ([]byte)",
	"appendBytes":        "([]byte, []byte) ([]byte)",
	"appendString":       "([]byte, string) ([]byte)",
	"appendUint16":       "([]byte, uint16) ([]byte)",
	"packUint16":         "(uint16) ([]byte)",
	"newTopicFilter":     "(string) (topicFilter, error)",

	"BaseClient.write":               "([]byte) (error)",
	"BaseClient.signaller":           "() (*signaller, error)",
	"BaseClient.newID":               "() (uint16)",
	"BaseClient.connStateUpdate":     "(ConnState) ()",
	"BaseClient.serve":               "() (error)",
	"RetryClient.pushTask":           "(Context, func(ctx Context, cli *BaseClient)) (error)",
	"RetryClient.requestContext":     "(Context) (Context, func())",
	"RetryClient.withRequestContext": "(retryFn) (retryFn)",
	"RetryClient.onError":            "(error) ()",
	"RetryClient.publish":            "(Context, *BaseClient, *Message) ()",
	"RetryClient.subscribe":          "(Context, bool, *BaseClient, ...Subscription) ()",
	"RetryClient.unsubscribe":        "(Context, *BaseClient, ...string) ()",
	"Message.clone":                  "() (*Message)",
}

func (c *Ctx) funcByRole(name string) *ssa.Function {
	want, ok := refSigs[name]
	if !ok {
		return nil
	}
	var hit *ssa.Function
	n := 0
	for _, f := range c.Funcs {
		if f.Parent() != nil || f.Signature.Recv() != nil || f.Object() == nil || f.Object().Exported() {
			continue
		}
		if _, taken := refSigs[f.Name()]; taken {
			continue // still carries a reference name of its own
		}
		if sigString(f) == want {
			hit = f
			n++
		}
	}
	// wrapError and wrapErrorImpl share a signature: distinguish by who calls whom
	if n == 2 && (name == "wrapError" || name == "wrapErrorImpl") {
		var a, b *ssa.Function
		for _, f := range c.Funcs {
			if f.Parent() == nil && f.Signature.Recv() == nil && f.Object() != nil && !f.Object().Exported() && sigString(f) == want {
				if _, taken := refSigs[f.Name()]; taken {
					continue
				}
				if a == nil {
					a = f
				} else {
					b = f
				}
			}
		}
		calls := func(x, y *ssa.Function) bool {
			for _, g := range c.calleesOf(x, false) {
				if g == y {
					return true
				}
			}
			return false
		}
		if a != nil && b != nil {
			if calls(a, b) {
				if name == "wrapError" {
					return a
				}
				return b
			}
			if calls(b, a) {
				if name == "wrapError" {
					return b
				}
				return a
			}
		}
		return nil
	}
	if n == 1 {
		return hit
	}
	return nil
}

func (c *Ctx) methodByRole(typ, name string) *ssa.Function {
	want, ok := refSigs[typ+"."+name]
	if !ok {
		return nil
	}
	var hit *ssa.Function
	n := 0
	for _, f := range c.Funcs {
		if f.Parent() != nil || f.Signature.Recv() == nil || typeName(f.Signature.Recv().Type()) != typ || f.Object() == nil || f.Object().Exported() {
			continue
		}
		if _, taken := refSigs[typ+"."+f.Name()]; taken {
			continue
		}
		if sigString(f) == want {
			hit = f
			n++
		}
	}
	if n == 1 {
		return hit
	}
	return nil
}

// isWrapFn: f is one of the library's error wrappers.
func (c *Ctx) isWrapFn(f *ssa.Function) bool {
	if f == nil {
		return false
	}
	for _, n := range []string{"wrapError", "wrapErrorf", "wrapErrorWithRetry", "wrapErrorImpl"} {
		if f == c.Func(n) {
			return true
		}
	}
	return false
}
