package main

import (
	"go/types"
	"strings"

	"golang.org/x/tools/go/ssa"
)

// sigString renders a function's signature without parameter names and package qualifiers.
func sigString(f *ssa.Function) string {
	sig := f.Signature
	var sb strings.Builder
	q := func(*types.Package) string { return "" }
	sb.WriteString("(")
	for i := 0; i < sig.Params().Len(); i++ {
		if i > 0 {
			sb.WriteString(", ")
		}
		t := sig.Params().At(i).Type()
		if sig.Variadic() && i == sig.Params().Len()-1 {
			sb.WriteString("..." + types.TypeString(t.(*types.Slice).Elem(), q))
		} else {
			sb.WriteString(types.TypeString(t, q))
		}
	}
	sb.WriteString(") (")
	for i := 0; i < sig.Results().Len(); i++ {
		if i > 0 {
			sb.WriteString(", ")
		}
		sb.WriteString(types.TypeString(sig.Results().At(i).Type(), q))
	}
	sb.WriteString(")")
	return sb.String()
}

// refSigs: signature of the unexported functions/methods the rules anchor in, as on the reference tree. When a lookup
// by name fails (the function was renamed), the unique unexported function (or method of the same receiver type) with
// this signature is used instead.
var refSigs = map[string]string{
	"publishImpl":        "(Context, *BaseClient, *Message, bool) (error)",
	"subscribeImpl":      "(Context, *BaseClient, ...Subscription) ([]Subscription, error)",
	"unsubscribeImpl":    "(Context, *BaseClient, ...string) (error)",
	"readPacket":         "(Reader) (packetType, byte, []byte, error)",
	"unpackString":       "([]byte) (int, string, error)",
	"unpackUint16":       "([]byte) (int, uint16)",
	"wrapErrorImpl":      "(error, string) (error)",
	"wrapError":          "(error, string) (error)",
	"wrapErrorf":         "(error, string, ...interface{}) (error)",
	"wrapErrorWithRetry": "(error, retryFn, string) (error)",
	"pack":               "(byte, ...[]byte) ([]byte)",
	"remainingLength":    "(int) ([]byte)",
	"appendBytes":        "([]byte, []byte) ([]byte)",
	"appendString":       "([]byte, string) ([]byte)",
	"appendUint16":       "([]byte, uint16) ([]byte)",
	"packUint16":         "(uint16) ([]byte)",
	"newTopicFilter":     "(string) (topicFilter, error)",

	"BaseClient.write":               "([]byte) (error)",
	"BaseClient.signaller":           "() (*signaller, error)",
	"BaseClient.newID":               "() (uint16)",
	"BaseClient.connStateUpdate":     "(ConnState) ()",
	"BaseClient.serve":               "() (error)",
	"RetryClient.pushTask":           "(Context, func(ctx Context, cli *BaseClient)) (error)",
	"RetryClient.requestContext":     "(Context) (Context, func())",
	"RetryClient.withRequestContext": "(retryFn) (retryFn)",
	"RetryClient.onError":            "(error) ()",
	"RetryClient.publish":            "(Context, *BaseClient, *Message) ()",
	"RetryClient.subscribe":          "(Context, bool, *BaseClient, ...Subscription) ()",
	"RetryClient.unsubscribe":        "(Context, *BaseClient, ...string) ()",
	"Message.clone":                  "() (*Message)",
}

func (c *Ctx) funcByRole(name string) *ssa.Function {
	want, ok := refSigs[name]
	if !ok {
		return nil
	}
	var hit *ssa.Function
	n := 0
	for _, f := range c.Funcs {
		if f.Parent() != nil || f.Signature.Recv() != nil || f.Object() == nil || f.Object().Exported() {
			continue
		}
		if _, taken := refSigs[f.Name()]; taken {
			continue // still carries a reference name of its own
		}
		if sigString(f) == want {
			hit = f
			n++
		}
	}
	// wrapError and wrapErrorImpl share a signature: distinguish by who calls whom
	if n == 2 && (name == "wrapError" || name == "wrapErrorImpl") {
		var a, b *ssa.Function
		for _, f := range c.Funcs {
			if f.Parent() == nil && f.Signature.Recv() == nil && f.Object() != nil && !f.Object().Exported() && sigString(f) == want {
				if _, taken := refSigs[f.Name()]; taken {
					continue
				}
				if a == nil {
					a = f
				} else {
					b = f
				}
			}
		}
		calls := func(x, y *ssa.Function) bool {
			for _, g := range c.calleesOf(x, false) {
				if g == y {
					return true
				}
			}
			return false
		}
		if a != nil && b != nil {
			if calls(a, b) {
				if name == "wrapError" {
					return a
				}
				return b
			}
			if calls(b, a) {
				if name == "wrapError" {
					return b
				}
				return a
			}
		}
		return nil
	}
	if n == 1 {
		return hit
	}
	return nil
}

func (c *Ctx) methodByRole(typ, name string) *ssa.Function {
	want, ok := refSigs[typ+"."+name]
	if !ok {
		return nil
	}
	var hit *ssa.Function
	n := 0
	for _, f := range c.Funcs {
		if f.Parent() != nil || f.Signature.Recv() == nil || typeName(f.Signature.Recv().Type()) != typ || f.Object() == nil || f.Object().Exported() {
			continue
		}
		if _, taken := refSigs[typ+"."+f.Name()]; taken {
			continue
		}
		if sigString(f) == want {
			hit = f
			n++
		}
	}
	if n == 1 {
		return hit
	}
	return nil
}

// isWrapFn: f is one of the library's error wrappers (the four of the reference tree, or a new wrapper entry point built on
// them, see wrapInfoOf).
func (c *Ctx) isWrapFn(f *ssa.Function) bool {
	_, ok := c.wrapInfoOf(f)
	return ok
}

// wrapInfo: which parameter of an error wrapper is the cause and which (if any) the retry handle.
type wrapInfo struct {
	cause, handle int
}

var wrapInfoCache = map[*Ctx]map[*ssa.Function]*wrapInfo{}

// wrapInfoOf: the four wrappers of the reference tree, plus any other package function `g(err error, …) error` (cause first)
// every return of which is (a) a call of a wrapper with g's cause (and handle) passed on, (b) an *errorWithRetry built from
// such a wrapped cause and g's handle parameter, or (c) the wrapped cause itself where it is not an *Error (nil / io.EOF).
func (c *Ctx) wrapInfoOf(f *ssa.Function) (wrapInfo, bool) {
	if f == nil {
		return wrapInfo{}, false
	}
	m := wrapInfoCache[c]
	if m == nil {
		m = map[*ssa.Function]*wrapInfo{}
		wrapInfoCache[c] = m
		for _, n := range []string{"wrapError", "wrapErrorf", "wrapErrorImpl"} {
			if g := c.Func(n); g != nil {
				m[g] = &wrapInfo{0, -1}
			}
		}
		if g := c.Func("wrapErrorWithRetry"); g != nil {
			// the handle is the parameter of the retry-handle type, wherever it stands
			h := 1
			for i, p := range g.Params {
				if typeName(p.Type()) == "retryFn" {
					h = i
				} else if sig, ok := p.Type().Underlying().(*types.Signature); ok && sig.Params().Len() == 2 && sig.Results().Len() == 1 {
					h = i
				}
			}
			m[g] = &wrapInfo{0, h}
		}
	}
	if wi, ok := m[f]; ok {
		if wi == nil {
			return wrapInfo{}, false
		}
		return *wi, true
	}
	m[f] = nil // in progress / not a wrapper
	if f.Pkg != c.Pkg || f.Blocks == nil || f.Parent() != nil || f.Signature.Recv() != nil || len(f.Params) == 0 {
		return wrapInfo{}, false
	}
	if f.Signature.Results().Len() != 1 || f.Signature.Results().At(0).Type().String() != "error" || f.Params[0].Type().String() != "error" {
		return wrapInfo{}, false
	}
	cause := ssa.Value(f.Params[0])
	handle := -1
	for i, p := range f.Params {
		if typeName(p.Type()) == "retryFn" {
			handle = i
		}
	}
	// wrapped: v is a wrapper applied to g's cause
	var wrapped func(v ssa.Value, depth int) bool
	wrapped = func(v ssa.Value, depth int) bool {
		if depth > 4 {
			return false
		}
		call, callee := c.asCall(v)
		if call == nil || callee == nil || callee == f {
			return false
		}
		wi, ok := c.wrapInfoOf(callee)
		if !ok || wi.cause >= len(call.Call.Args) {
			return false
		}
		a := c.Resolve(call.Call.Args[wi.cause])
		if a != cause && !wrapped(a, depth+1) {
			return false
		}
		if wi.handle >= 0 {
			if handle < 0 || c.Resolve(call.Call.Args[wi.handle]) != ssa.Value(f.Params[handle]) {
				return false
			}
		}
		return true
	}
	usesHandle := false
	for _, ret := range returnsOf(f) {
		rv := c.Resolve(ret.Results[0])
		if wrapped(rv, 0) {
			if call, callee := c.asCall(rv); call != nil {
				if wi, _ := c.wrapInfoOf(callee); wi.handle >= 0 {
					usesHandle = true
				}
			}
			continue
		}
		if al, ok := rv.(*ssa.Alloc); ok && typeName(al.Type()) == "errorWithRetry" && handle >= 0 {
			if c.Resolve(c.storedField(al, "retryFn")) == ssa.Value(f.Params[handle]) {
				inner := c.Resolve(c.storedField(al, "errorInterface"))
				if ex, isEx := inner.(*ssa.Extract); isEx {
					if ta, isTA := ex.Tuple.(*ssa.TypeAssert); isTA && wrapped(c.Resolve(ta.X), 0) {
						usesHandle = true
						continue
					}
				}
			}
		}
		return wrapInfo{}, false
	}
	wi := &wrapInfo{0, -1}
	if usesHandle {
		wi.handle = handle
	}
	m[f] = wi
	return *wi, true
}
