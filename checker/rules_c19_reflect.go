package main

import (
	"go/constant"
	"go/token"
	"go/types"

	"golang.org/x/tools/go/ssa"
)

// ruleReflectDerefGuarded (R-C19-7): the chain walk of (*Error).Is looks for an exported Err field by reflection.
// reflect.Value.Elem panics on anything but a pointer or an interface, and the errors in a chain are not all pointers
// (context.DeadlineExceeded is a struct value): every Elem() call reachable from Is has to be dominated by the edge of a
// test `Kind() == reflect.Ptr` made on the same error. Structural part only: that the walk then visits the right
// errors is not decided here.
func (c *Ctx) ruleReflectDerefGuarded(rr *RuleRep) {
	is := c.Method("Error", "Is")
	if is == nil {
		return
	}
	kinds := map[int64]bool{}
	for _, p := range c.Prog.AllPackages() {
		if p.Pkg.Path() != "reflect" {
			continue
		}
		for _, n := range []string{"Ptr", "Pointer", "Interface"} {
			if k, ok := p.Pkg.Scope().Lookup(n).(*types.Const); ok {
				if v, exact := constant.Int64Val(k.Val()); exact {
					kinds[v] = true
				}
			}
		}
	}
	// the functions of the package the walk can enter
	seen := map[*ssa.Function]bool{is: true}
	work := []*ssa.Function{is}
	for len(work) > 0 {
		f := work[len(work)-1]
		work = work[:len(work)-1]
		eachInstr(f, func(in ssa.Instruction) {
			k, ok := in.(*ssa.Call)
			if !ok {
				return
			}
			if g := c.StaticCalleeOf(&k.Call); g != nil && g.Pkg == is.Pkg && !seen[g] && len(g.Blocks) > 0 {
				seen[g] = true
				work = append(work, g)
			}
		})
		for _, an := range f.AnonFuncs {
			if !seen[an] {
				seen[an] = true
				work = append(work, an)
			}
		}
	}
	strip := func(v ssa.Value) ssa.Value {
		for {
			switch x := v.(type) {
			case *ssa.MakeInterface:
				v = x.X
			case *ssa.ChangeInterface:
				v = x.X
			case *ssa.ChangeType:
				v = x.X
			case *ssa.TypeAssert:
				// asserted to another interface: the same dynamic value (`switch e := err.(type) { … default: … e … }`)
				if !types.IsInterface(x.AssertedType) {
					return v
				}
				v = x.X
			case *ssa.Extract:
				ta, ok := x.Tuple.(*ssa.TypeAssert)
				if !ok || x.Index != 0 || !types.IsInterface(ta.AssertedType) {
					return v
				}
				v = ta.X
			default:
				r := c.Resolve(v)
				if r == v {
					return v
				}
				v = r
			}
		}
	}
	// subjectOf: the value a reflect.Value / reflect.Type was made from
	subjectOf := func(v ssa.Value, ctor string) (ssa.Value, bool) {
		k, ok := c.Resolve(v).(*ssa.Call)
		if !ok || !isStdCall(&k.Call, "reflect", ctor) || k.Call.IsInvoke() || len(k.Call.Args) != 1 {
			return nil, false
		}
		return strip(k.Call.Args[0]), true
	}
	n := 0
	for f := range seen {
		f := f
		eachInstr(f, func(in ssa.Instruction) {
			k, ok := in.(*ssa.Call)
			if !ok || k.Call.IsInvoke() || !isStdCall(&k.Call, "reflect", "Elem") || len(k.Call.Args) != 1 {
				return
			}
			if nt, isN := k.Call.Args[0].Type().(*types.Named); !isN || nt.Obj().Name() != "Value" {
				return
			}
			n++
			key := FuncName(f) + "/reflect-deref"
			recv := c.Resolve(k.Call.Args[0])
			subj, hasSubj := subjectOf(recv, "ValueOf")
			guarded := false
			for _, b := range f.Blocks {
				iff := blockIf(b)
				if iff == nil {
					continue
				}
				bin, ok := iff.Cond.(*ssa.BinOp)
				if !ok || (bin.Op != token.EQL && bin.Op != token.NEQ) {
					continue
				}
				kc, kv := bin.X, bin.Y
				if _, isK := constInt(kc); isK {
					kc, kv = kv, kc
				}
				want, isK := constInt(kv)
				kcall, isCall := c.Resolve(kc).(*ssa.Call)
				if !isK || !kinds[want] || !isCall || !isStdCall(&kcall.Call, "reflect", "Kind") {
					continue
				}
				same := false
				if kcall.Call.IsInvoke() {
					// reflect.TypeOf(err).Kind()
					if s2, ok := subjectOf(kcall.Call.Value, "TypeOf"); ok && hasSubj && s2 == subj {
						same = true
					}
				} else if len(kcall.Call.Args) == 1 {
					// v.Kind() on the same reflect.Value, or on another one made from the same error
					r2 := c.Resolve(kcall.Call.Args[0])
					if r2 == recv {
						same = true
					} else if s2, ok := subjectOf(r2, "ValueOf"); ok && hasSubj && s2 == subj {
						same = true
					}
				}
				if !same {
					continue
				}
				edge := 0
				if bin.Op == token.NEQ {
					edge = 1
				}
				if DominatedByEdge(f, k, b, edge, PathQ{}) {
					guarded = true
				}
			}
			if guarded {
				rr.OK(key, k.Pos(), "reflect.Value.Elem() is reached only after Kind() == reflect.Ptr held for the same error")
			} else {
				rr.Bad(key, k.Pos(), "the chain walk of (*Error).Is calls reflect.Value.Elem() on an error it has not tested to be a pointer: a chain that ends in a non-pointer error without Unwrap (context.DeadlineExceeded, a struct value) makes errors.Is panic instead of answering false")
			}
		})
	}
	if n == 0 {
		rr.OK("(*Error).Is/reflect-deref", is.Pos(), "the chain walk dereferences nothing by reflection")
	}
}
