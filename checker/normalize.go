package main

// Normalisation: before the rules run, calls to NEW helper functions (functions that exist neither on the reference tree
// nor as a renamed reference function, see headfuncs.go) are inlined at source level, so that a behaviour-preserving
// "extract helper" refactoring presents the same shape to the rules as the code it came from, and a slip hidden in the
// extracted helper (a wrong argument, a dropped check) is seen in the context of its caller. The transformation is the
// textbook one and is semantics-preserving: arguments are evaluated once, in order, into temporaries; the callee's body is
// copied into a fresh block with its parameters bound to the temporaries; `return e` becomes an assignment to result
// temporaries followed by a break out of a labelled single-case switch (or stays a return in tail position). A call site
// that does not fit one of the supported statement forms, or whose inlining would change name resolution, is left alone.
// The result is handed to go/packages as an overlay; if it does not type-check the tree is analysed as written.
// On the reference tree there is no new helper and the step is the identity.

import (
	"bytes"
	"fmt"
	"go/ast"
	"go/build"
	"go/constant"
	"go/parser"
	"go/printer"
	"go/token"
	"go/types"
	"os"
	"path/filepath"
	"reflect"
	"sort"
	"strings"

	"golang.org/x/tools/go/packages"
)

type textEdit struct {
	start, end int
	text       string
	seq        int
}

type normalizer struct {
	dir     string
	goarch  string
	tags    []string
	overlay map[string][]byte
	notes   []string
	counter int

	// per round
	fset    *token.FileSet
	pp      *packages.Package
	info    *types.Info
	decls   map[*types.Func]*ast.FuncDecl
	fileOf  map[*ast.FuncDecl]*ast.File
	helpers map[*types.Func]bool // new helpers that can be inlined
	newFns  map[*types.Func]bool // all new functions
	edits   map[string][]textEdit
	imports map[string]map[string]string // file -> path -> name to add
	seq     int

	hoistFirst  []ast.Expr // effectful operands evaluated before a call that is being hoisted (set by hoistable)
	noConcrete  bool       // do not bind interface parameters with the argument's own type
	hasDefer    map[*ast.FuncDecl]bool
	varDef      map[types.Object]ast.Expr        // local variable defined once by this expression
	varBad      map[types.Object]bool            // reassigned / address taken / unknown definition
	present     map[string]bool                  // the functions the tree has, by reference-tree key
	curTypeText func(types.Type) (string, bool)  // renders a type at the site being inlined (set around bodyText)
	varAssign   map[types.Object]*ast.AssignStmt // for `var x T; x = e`: the single assignment
	varDefNode  map[types.Object]ast.Node        // the `x := e` statement that defines a local
	keptAlive   map[types.Object]bool            // closure variables given a `_ = x` because their calls were inlined
}

func sigOfTypes(sig *types.Signature) string {
	var sb strings.Builder
	q := func(*types.Package) string { return "" }
	sb.WriteString("(")
	for i := 0; i < sig.Params().Len(); i++ {
		if i > 0 {
			sb.WriteString(", ")
		}
		t := sig.Params().At(i).Type()
		if sig.Variadic() && i == sig.Params().Len()-1 {
			sb.WriteString("..." + types.TypeString(t.(*types.Slice).Elem(), q))
		} else {
			sb.WriteString(types.TypeString(t, q))
		}
	}
	sb.WriteString(") (")
	for i := 0; i < sig.Results().Len(); i++ {
		if i > 0 {
			sb.WriteString(", ")
		}
		sb.WriteString(types.TypeString(sig.Results().At(i).Type(), q))
	}
	sb.WriteString(")")
	return sb.String()
}

func recvBaseName(t types.Type) string {
	if p, ok := t.(*types.Pointer); ok {
		t = p.Elem()
	}
	if n, ok := t.(*types.Named); ok {
		return n.Obj().Name()
	}
	return ""
}

func funcKeyOf(fn *types.Func) string {
	sig := fn.Type().(*types.Signature)
	if sig.Recv() != nil {
		return recvBaseName(sig.Recv().Type()) + "." + fn.Name()
	}
	return fn.Name()
}

// quickHasNewFuncs parses the package's non-test files and reports whether any function declaration is absent from headFuncs.
func quickHasNewFuncs(dir, goarch string, tags []string) bool {
	ctxt := build.Default
	ctxt.GOARCH = goarch
	ctxt.GOOS = "linux"
	ctxt.BuildTags = tags
	ents, err := os.ReadDir(dir)
	if err != nil {
		return true
	}
	fset := token.NewFileSet()
	seen := map[string]bool{}
	for _, e := range ents {
		name := e.Name()
		if e.IsDir() || !strings.HasSuffix(name, ".go") || strings.HasSuffix(name, "_test.go") {
			continue
		}
		if ok, err := ctxt.MatchFile(dir, name); err != nil || !ok {
			continue
		}
		f, err := parser.ParseFile(fset, filepath.Join(dir, name), nil, parser.SkipObjectResolution)
		if err != nil {
			return true
		}
		for _, d := range f.Decls {
			if gd, isGen := d.(*ast.GenDecl); isGen && gd.Tok == token.TYPE {
				// a type the reference tree does not have (parameters and locals of such types are split by field)
				for _, sp := range gd.Specs {
					if ts, ok := sp.(*ast.TypeSpec); ok && !headTypes[ts.Name.Name] && ts.Name.Name != "_" {
						return true
					}
				}
			}
			fd, ok := d.(*ast.FuncDecl)
			if !ok || fd.Name.Name == "init" || fd.Name.Name == "_" {
				continue
			}
			key := fd.Name.Name
			if fd.Recv != nil && len(fd.Recv.List) == 1 {
				t := fd.Recv.List[0].Type
				for {
					switch x := t.(type) {
					case *ast.StarExpr:
						t = x.X
						continue
					case *ast.ParenExpr:
						t = x.X
						continue
					case *ast.IndexExpr:
						t = x.X
						continue
					}
					break
				}
				if id, ok := t.(*ast.Ident); ok {
					key = id.Name + "." + key
				}
			}
			if _, known := headFuncs[key]; !known {
				return true
			}
			seen[key] = true
		}
	}
	for _, spec := range outlineSpecs {
		// a request unit of the retry client written into its task closure (see outlineRound)
		if !seen["RetryClient."+spec.req] && seen["RetryClient."+spec.api] {
			return true
		}
	}
	return false
}

// Normalize returns an overlay (nil when nothing had to be done) and notes describing what was inlined.
func Normalize(dir, goarch string, tags []string) (map[string][]byte, []string) {
	if goarch == "" {
		goarch = "amd64"
	}
	if !quickHasNewFuncs(dir, goarch, tags) {
		return nil, nil
	}
	n := &normalizer{dir: dir, goarch: goarch, tags: tags, overlay: map[string][]byte{}}
	loaded := false
	for round := 0; round < 32; round++ {
		if !loaded {
			if err := n.load(); err != nil {
				n.notes = append(n.notes, fmt.Sprintf("normalisation stopped: %v", err))
				if round == 0 {
					return nil, n.notes
				}
				break
			}
		}
		loaded = false
		if os.Getenv("MQTTCHECK_DEBUG_NORM") != "" {
			fmt.Fprintf(os.Stderr, "normalise: round %d\n", round)
		}
		n.classify()
		changed := n.methodValueClosureRound()
		if !changed {
			changed = n.pureExprRound()
		}
		if !changed {
			changed = n.switchInitRound()
		}
		if !changed {
			changed = n.condHoistRound()
		}
		if !changed {
			changed = n.forCondRound()
		}
		if !changed {
			changed = n.forPostRound()
		}
		if !changed {
			changed = n.inlineRound()
		}
		if !changed {
			changed = n.methodValueRound()
		}
		if !changed {
			changed = n.funcVarRound()
		}
		if !changed {
			changed = n.constIfRound()
		}
		if !changed {
			changed = n.tableRound()
		}
		if !changed {
			changed = n.cleanupRound()
		}
		if !changed {
			changed = n.deleteRound()
		}
		if !changed {
			changed = n.zeroDeclRound()
		}
		if !changed {
			changed = n.paramSplitRound()
		}
		if !changed {
			changed = n.sroaRound()
		}
		if !changed {
			changed = n.copyPropRound()
		}
		if !changed {
			changed = n.structAssignRound()
		}
		if !changed {
			changed = n.sinkRound()
		}
		if !changed {
			changed = n.outlineRound()
		}
		if !changed {
			changed = n.unwrapRound() // last: locals of such a type have been split by field where that is possible
		}
		if !changed {
			break
		}
		prev := map[string][]byte{}
		for k, v := range n.overlay {
			prev[k] = v
		}
		if err := n.apply(); err != nil {
			n.notes = append(n.notes, fmt.Sprintf("normalisation round %d rolled back: %v", round, err))
			n.overlay = prev
			break
		}
		// verify
		if err := n.load(); err != nil {
			n.overlay = prev
			if !n.noConcrete {
				n.noConcrete = true // retry this round with interface-typed parameter temporaries
				continue
			}
			n.notes = append(n.notes, fmt.Sprintf("normalisation round %d rolled back (does not type-check): %v", round, err))
			break
		}
		loaded = true // the verified state is the next round's input
	}
	if len(n.overlay) == 0 {
		return nil, n.notes
	}
	return n.overlay, n.notes
}

func (n *normalizer) load() error {
	env := append(baseEnv(), "GOARCH="+n.goarch)
	cfg := &packages.Config{
		Mode:    packages.LoadSyntax,
		Dir:     n.dir,
		Env:     env,
		Tests:   false,
		Overlay: n.overlay,
	}
	if len(n.tags) > 0 {
		cfg.BuildFlags = []string{"-tags=" + strings.Join(n.tags, ",")}
	}
	pkgs, err := packages.Load(cfg, ".")
	if err != nil {
		return err
	}
	if len(pkgs) != 1 {
		return fmt.Errorf("expected 1 package, got %d", len(pkgs))
	}
	pp := pkgs[0]
	if len(pp.Errors) > 0 {
		var es []string
		for _, e := range pp.Errors {
			es = append(es, e.Error())
		}
		return fmt.Errorf("%s", strings.Join(es, "; "))
	}
	n.pp = pp
	n.fset = pp.Fset
	n.info = pp.TypesInfo
	return nil
}

func (n *normalizer) content(filename string) []byte {
	if b, ok := n.overlay[filename]; ok {
		return b
	}
	b, _ := os.ReadFile(filename)
	return b
}

func (n *normalizer) classify() {
	n.decls = map[*types.Func]*ast.FuncDecl{}
	n.fileOf = map[*ast.FuncDecl]*ast.File{}
	n.helpers = map[*types.Func]bool{}
	n.newFns = map[*types.Func]bool{}
	n.edits = map[string][]textEdit{}
	n.imports = map[string]map[string]string{}
	n.hasDefer = map[*ast.FuncDecl]bool{}
	n.indexVars()
	present := map[string]bool{}
	for _, f := range n.pp.Syntax {
		for _, d := range f.Decls {
			fd, ok := d.(*ast.FuncDecl)
			if !ok {
				continue
			}
			fn, _ := n.info.Defs[fd.Name].(*types.Func)
			if fn == nil {
				continue
			}
			n.decls[fn] = fd
			n.fileOf[fd] = f
			present[funcKeyOf(fn)] = true
		}
	}
	n.present = present
	var valueUsed map[*types.Func]bool
	for fn, fd := range n.decls {
		key := funcKeyOf(fn)
		if _, known := headFuncs[key]; known || fn.Exported() || fn.Name() == "init" || fn.Name() == "_" {
			continue
		}
		sig := sigOfTypes(fn.Type().(*types.Signature))
		recv := ""
		if i := strings.Index(key, "."); i >= 0 {
			recv = key[:i]
		}
		renamed := false
		for k, s := range headFuncs {
			if s != sig || present[k] {
				continue
			}
			kr := ""
			if i := strings.Index(k, "."); i >= 0 {
				kr = k[:i]
			}
			if kr == recv && n.usedLike(fn, k) {
				renamed = true
			}
		}
		if renamed {
			continue
		}
		n.newFns[fn] = true
		if valueUsed == nil {
			valueUsed = n.funcValueUses()
		}
		if valueUsed[fn] {
			continue // its value is taken (a method value handed out as a retry handle, a callback): a unit of its own, not a helper
		}
		if n.inlinable(fn, fd) {
			n.helpers[fn] = true
		}
	}
}

// inlinable: structural conditions on the callee.
func (n *normalizer) inlinable(fn *types.Func, fd *ast.FuncDecl) bool {
	if fd.Body == nil {
		return false
	}
	if fn != nil && n.wrapEntryLike(fn, fd) {
		return false // a new error-wrapper entry point: kept as a function and recognised by its summary (wrapInfoOf)
	}
	if fn != nil && requestCtxLike(fn) && !n.present["RetryClient.requestContext"] {
		// derives the context of one request: with the reference tree's requestContext gone, this is the unit the timeout
		// rules anchor in (while requestContext is still there, a function of this shape is one of its helpers)
		return false
	}
	if fn != nil && packetReadLike(fn) {
		return false // the function that reads one packet off the transport: the unit the serve model and the codec rules anchor in
	}
	ok := true
	defer func() {
		if !ok {
			delete(n.hasDefer, fd)
		}
	}()
	var visit func(node ast.Node, inLit bool)
	visit = func(node ast.Node, inLit bool) {
		ast.Inspect(node, func(x ast.Node) bool {
			if !ok || x == nil {
				return false
			}
			switch y := x.(type) {
			case *ast.FuncLit:
				if x != node {
					visit(y.Body, true)
					return false
				}
			case *ast.DeferStmt:
				if !inLit {
					n.hasDefer[fd] = true // only inlinable in tail position
				}
			case *ast.LabeledStmt:
				// labels are renamed per site (inlineSite), so that two copies in one function do not clash
			case *ast.BranchStmt:
				if y.Tok == token.GOTO {
					ok = false
				}
			case *ast.CallExpr:
				if id, isId := y.Fun.(*ast.Ident); isId && id.Name == "recover" {
					if _, isB := n.info.Uses[id].(*types.Builtin); isB {
						ok = false
					}
				}
				if callee, _ := n.calleeOf(y); callee != nil && callee == fn {
					ok = false // recursive
				}
			case *ast.Ident:
				if obj := n.info.Uses[y]; obj != nil {
					if tn, isTN := obj.(*types.TypeName); isTN {
						if _, isTP := tn.Type().(*types.TypeParam); isTP {
							// body mentions a type parameter: replaced by the instantiation's type argument at each site
							_ = isTP
						}
					}
				}
			}
			return true
		})
	}
	visit(fd.Body, false)
	return ok
}

// wrapEntryLike: `func g(err error, …, msg string, …) error` all of whose returns are calls that involve one of the
// library's error wrappers: a sibling of wrapError/wrapErrorWithRetry rather than a helper extracted from some caller.
func (n *normalizer) wrapEntryLike(fn *types.Func, fd *ast.FuncDecl) bool {
	sig := fn.Type().(*types.Signature)
	if sig.Recv() != nil || sig.Results().Len() != 1 || sig.Results().At(0).Type().String() != "error" || sig.Params().Len() < 2 {
		return false
	}
	if sig.Params().At(0).Type().String() != "error" {
		return false
	}
	hasString := false
	for i := 0; i < sig.Params().Len(); i++ {
		if b, ok := sig.Params().At(i).Type().(*types.Basic); ok && b.Kind() == types.String {
			hasString = true
		}
	}
	if !hasString {
		return false
	}
	// its body applies one of the library's wrappers to its own cause parameter
	var causeObj types.Object
	if fd.Type.Params != nil && len(fd.Type.Params.List) > 0 && len(fd.Type.Params.List[0].Names) > 0 {
		causeObj = n.info.Defs[fd.Type.Params.List[0].Names[0]]
	}
	found := false
	ast.Inspect(fd.Body, func(x ast.Node) bool {
		k, isK := x.(*ast.CallExpr)
		if !isK || len(k.Args) == 0 {
			return true
		}
		callee, _ := n.calleeOf(k)
		if callee == nil || callee.Pkg() != n.pp.Types {
			return true
		}
		switch callee.Name() {
		case "wrapErrorImpl", "wrapError", "wrapErrorf", "wrapErrorWithRetry":
			if id, ok := ast.Unparen(k.Args[0]).(*ast.Ident); ok && causeObj != nil && n.info.Uses[id] == causeObj {
				found = true
			}
		}
		return true
	})
	return found
}

func (n *normalizer) calleeOf(call *ast.CallExpr) (*types.Func, *ast.Ident) {
	fun := call.Fun
	for {
		switch x := fun.(type) {
		case *ast.ParenExpr:
			fun = x.X
			continue
		case *ast.IndexExpr:
			if tv, ok := n.info.Types[x.X]; ok {
				if _, isSig := tv.Type.(*types.Signature); isSig {
					fun = x.X
					continue
				}
			}
		case *ast.IndexListExpr:
			fun = x.X
			continue
		}
		break
	}
	switch x := fun.(type) {
	case *ast.Ident:
		if fn, ok := n.info.Uses[x].(*types.Func); ok {
			return fn, x
		}
	case *ast.SelectorExpr:
		if fn, ok := n.info.Uses[x.Sel].(*types.Func); ok {
			return fn, x.Sel
		}
	}
	return nil, nil
}

type site struct {
	fd       *ast.FuncDecl    // callee declaration (synthesised around a function literal for literal calls)
	sig      *types.Signature // callee signature (instantiated)
	lit      *ast.FuncLit
	chain    map[types.Object]bool
	call     *ast.CallExpr
	callee   *types.Func
	id       *ast.Ident
	stmt     ast.Stmt
	parent   ast.Node // parent of stmt
	encl     ast.Node // enclosing FuncDecl / FuncLit
	file     *ast.File
	stack    []ast.Node  // ancestors of the call, outermost first
	form     string      // expr, assign, return, nested
	wrapIf   *ast.IfStmt // statement is the Init of / nested in the header of this if
	recvInst *types.Var  // receiver of the instantiated method (methods of generic types)
}

func (n *normalizer) off(p token.Pos) int { return n.fset.PositionFor(p, false).Offset }

func (n *normalizer) src(file string, from, to token.Pos) string {
	b := n.content(file)
	return string(b[n.off(from):n.off(to)])
}

func (n *normalizer) addEdit(file string, start, end int, text string) {
	n.seq++
	n.edits[file] = append(n.edits[file], textEdit{start, end, text, n.seq})
}

func (n *normalizer) overlaps(file string, start, end int) bool {
	for _, e := range n.edits[file] {
		if start < e.end && e.start < end {
			return true
		}
		if start == end && e.start < start && start < e.end {
			return true
		}
		if e.start == e.end && start < e.start && e.start < end {
			return true
		}
	}
	return false
}

// inlineRound collects the call sites of inlinable helpers and produces the edits. Reports whether anything was changed.
func (n *normalizer) inlineRound() bool {
	changed := false
	for _, f := range n.pp.Syntax {
		filename := n.fset.File(f.Pos()).Name()
		var stack []ast.Node
		var sites []*site
		ast.Inspect(f, func(x ast.Node) bool {
			if x == nil {
				stack = stack[:len(stack)-1]
				return true
			}
			stack = append(stack, x)
			call, ok := x.(*ast.CallExpr)
			if !ok {
				return true
			}
			callee, id := n.calleeOf(call)
			var s *site
			var instSig *types.Signature
			if callee != nil && callee.Origin() != callee {
				// a method of an instantiated generic type: the declaration is the origin's, the signature the instance's
				instSig, _ = callee.Type().(*types.Signature)
				callee = callee.Origin()
			}
			if callee != nil && n.helpers[callee] {
				s = &site{call: call, callee: callee, id: id, file: f, fd: n.decls[callee]}
				s.sig = callee.Type().(*types.Signature)
				if instSig != nil {
					s.sig = instSig
					s.recvInst = instSig.Recv()
				}
				if inst, ok := n.info.Instances[id]; ok {
					if isig, ok := inst.Type.(*types.Signature); ok {
						s.sig = isig
					}
				}
			} else if fid, isId := ast.Unparen(call.Fun).(*ast.Ident); isId && callee == nil {
				lit, chain := n.resolveLit(fid)
				if lit == nil {
					return true
				}
				sig, _ := n.info.TypeOf(lit).(*types.Signature)
				if sig == nil {
					return true
				}
				fd := &ast.FuncDecl{Name: ast.NewIdent("func literal bound to " + fid.Name), Type: lit.Type, Body: lit.Body}
				n.fileOf[fd] = f
				if !n.inlinable(nil, fd) {
					return true
				}
				selfRef := false
				ast.Inspect(lit.Body, func(y ast.Node) bool {
					if yi, ok := y.(*ast.Ident); ok && chain[n.info.Uses[yi]] {
						selfRef = true
					}
					return !selfRef
				})
				if selfRef {
					return true
				}
				s = &site{call: call, id: fid, file: f, fd: fd, sig: sig, lit: lit, chain: chain}
			} else {
				return true
			}
			// innermost statement and enclosing function
			for i := len(stack) - 2; i >= 0; i-- {
				if st, isStmt := stack[i].(ast.Stmt); isStmt && s.stmt == nil {
					s.stmt = st
					if i > 0 {
						s.parent = stack[i-1]
					}
				}
				switch stack[i].(type) {
				case *ast.FuncLit, *ast.FuncDecl:
					if s.encl == nil {
						s.encl = stack[i]
					}
				}
				if s.encl != nil {
					break
				}
			}
			if s.stmt == nil || s.encl == nil {
				return true
			}
			s.stack = append([]ast.Node{}, stack...)
			if fd, isFD := s.encl.(*ast.FuncDecl); isFD && callee != nil {
				if fn, _ := n.info.Defs[fd.Name].(*types.Func); fn == callee {
					return true
				}
			}
			if s.lit != nil && s.lit.Pos() <= call.Pos() && call.End() <= s.lit.End() {
				return true
			}
			sites = append(sites, s)
			return true
		})
		sort.SliceStable(sites, func(i, j int) bool { return sites[i].call.Pos() < sites[j].call.Pos() })
		for _, s := range sites {
			if n.inlineSite(filename, s) {
				changed = true
			}
		}
	}
	return changed
}

func isListParent(parent ast.Node, st ast.Stmt) bool {
	switch p := parent.(type) {
	case *ast.BlockStmt:
		return true
	case *ast.CaseClause:
		return true
	case *ast.CommClause:
		return p.Comm != st
	}
	return false
}

func pureExpr(e ast.Expr, info *types.Info) bool {
	switch x := e.(type) {
	case nil:
		return true
	case *ast.Ident, *ast.BasicLit, *ast.FuncLit:
		return true
	case *ast.SelectorExpr:
		return pureExpr(x.X, info)
	case *ast.ParenExpr:
		return pureExpr(x.X, info)
	case *ast.StarExpr:
		return pureExpr(x.X, info)
	case *ast.UnaryExpr:
		return x.Op != token.ARROW && pureExpr(x.X, info)
	case *ast.BinaryExpr:
		return pureExpr(x.X, info) && pureExpr(x.Y, info)
	case *ast.IndexExpr:
		return pureExpr(x.X, info) && pureExpr(x.Index, info)
	case *ast.TypeAssertExpr:
		return pureExpr(x.X, info)
	case *ast.KeyValueExpr:
		return pureExpr(x.Key, info) && pureExpr(x.Value, info)
	case *ast.CompositeLit:
		for _, el := range x.Elts {
			if !pureExpr(el, info) {
				return false
			}
		}
		return true
	case *ast.CallExpr:
		if tv, ok := info.Types[x.Fun]; ok && tv.IsType() && len(x.Args) == 1 {
			return pureExpr(x.Args[0], info)
		}
		if id, ok := x.Fun.(*ast.Ident); ok && (id.Name == "len" || id.Name == "cap") {
			if _, isB := info.Uses[id].(*types.Builtin); isB && len(x.Args) == 1 {
				return pureExpr(x.Args[0], info)
			}
		}
		return false
	case *ast.ArrayType, *ast.MapType, *ast.ChanType, *ast.FuncType, *ast.InterfaceType, *ast.StructType:
		return true
	}
	return false
}

// hoistable: the call is the first effectful thing evaluated by stmt, unconditionally.
func (n *normalizer) hoistable(stmt ast.Stmt, call *ast.CallExpr) bool {
	info := n.info
	n.hoistFirst = nil
	rvalueCtx := true // false while scanning assignment targets
	var within func(e ast.Expr) (found, ok bool)
	contains := func(e ast.Node) bool {
		if e == nil {
			return false
		}
		return e.Pos() <= call.Pos() && call.End() <= e.End()
	}
	// seq: ordered operands; returns whether call found in one of them and everything before it is pure
	seq := func(es ...ast.Expr) (bool, bool) {
		for _, e := range es {
			if e == nil {
				continue
			}
			if contains(e) {
				return within(e)
			}
			if !pureExpr(e, info) {
				// an effectful operand evaluated before the call: it is hoisted first, in order, if it is a plain
				// single-valued rvalue
				tv, known := info.Types[e]
				if !rvalueCtx || !known || tv.Type == nil || tv.IsType() {
					return true, false
				}
				if _, isTuple := tv.Type.(*types.Tuple); isTuple {
					return true, false
				}
				if b, isB := tv.Type.(*types.Basic); isB && (b.Info()&types.IsUntyped != 0 || b.Kind() == types.Invalid) {
					return true, false
				}
				n.hoistFirst = append(n.hoistFirst, e)
			}
		}
		return false, true
	}
	within = func(e ast.Expr) (bool, bool) {
		if e == ast.Expr(call) {
			return true, true
		}
		switch x := e.(type) {
		case *ast.ParenExpr:
			return within(x.X)
		case *ast.SelectorExpr:
			return within(x.X)
		case *ast.StarExpr:
			return within(x.X)
		case *ast.UnaryExpr:
			return within(x.X)
		case *ast.TypeAssertExpr:
			return within(x.X)
		case *ast.BinaryExpr:
			if x.Op == token.LAND || x.Op == token.LOR {
				if contains(x.X) {
					return within(x.X)
				}
				return true, false
			}
			return seq(x.X, x.Y)
		case *ast.IndexExpr:
			return seq(x.X, x.Index)
		case *ast.SliceExpr:
			return seq(x.X, x.Low, x.High, x.Max)
		case *ast.KeyValueExpr:
			return seq(x.Key, x.Value)
		case *ast.CompositeLit:
			return seq(x.Elts...)
		case *ast.CallExpr:
			es := append([]ast.Expr{x.Fun}, x.Args...)
			return seq(es...)
		}
		return true, false
	}
	var found, ok bool
	switch s := stmt.(type) {
	case *ast.ExprStmt:
		found, ok = within(s.X)
	case *ast.AssignStmt:
		rvalueCtx = false
		f2, ok2 := seq(s.Lhs...)
		if !ok2 {
			return false
		}
		if f2 {
			// inside an index or pointer operand of an assignment target: operands of the targets are evaluated, in order,
			// before anything on the right-hand side
			found, ok = true, true
			break
		}
		rvalueCtx = true
		found, ok = seq(s.Rhs...)
	case *ast.ReturnStmt:
		found, ok = seq(s.Results...)
	case *ast.SendStmt:
		found, ok = seq(s.Chan, s.Value)
	case *ast.IfStmt:
		if s.Init != nil || !contains(s.Cond) {
			return false
		}
		found, ok = within(s.Cond)
	case *ast.SwitchStmt:
		if s.Init != nil || s.Tag == nil || !contains(s.Tag) {
			return false
		}
		found, ok = within(s.Tag)
	case *ast.RangeStmt:
		if !contains(s.X) {
			return false
		}
		found, ok = within(s.X)
	case *ast.GoStmt:
		if s.Call == call {
			return false
		}
		found, ok = within(s.Call)
	case *ast.DeferStmt:
		if s.Call == call {
			return false
		}
		found, ok = within(s.Call)
	default:
		return false
	}
	return found && ok
}

func (n *normalizer) enclResults(encl ast.Node) *types.Tuple {
	switch x := encl.(type) {
	case *ast.FuncDecl:
		if fn, ok := n.info.Defs[x.Name].(*types.Func); ok {
			return fn.Type().(*types.Signature).Results()
		}
	case *ast.FuncLit:
		if tv, ok := n.info.Types[x]; ok {
			if sig, ok := tv.Type.(*types.Signature); ok {
				return sig.Results()
			}
		}
	}
	return nil
}

// typeText renders a type in the context of file; records imports the file lacks.
func (n *normalizer) typeText(t types.Type, file *ast.File, filename string) (string, bool) {
	ok := true
	var need [][2]string
	q := func(p *types.Package) string {
		if p == n.pp.Types {
			return ""
		}
		for _, imp := range file.Imports {
			path := strings.Trim(imp.Path.Value, "\"")
			if path != p.Path() {
				continue
			}
			if imp.Name != nil {
				if imp.Name.Name == "_" || imp.Name.Name == "." {
					continue
				}
				return imp.Name.Name
			}
			return p.Name()
		}
		if n.pp.Types.Scope().Lookup(p.Name()) != nil {
			ok = false
		}
		need = append(need, [2]string{p.Path(), p.Name()})
		return p.Name()
	}
	hasTP := false
	var walk func(t types.Type, depth int)
	walk = func(t types.Type, depth int) {
		if depth > 6 {
			return
		}
		switch x := t.(type) {
		case *types.TypeParam:
			hasTP = true
		case *types.Pointer:
			walk(x.Elem(), depth+1)
		case *types.Slice:
			walk(x.Elem(), depth+1)
		case *types.Array:
			walk(x.Elem(), depth+1)
		case *types.Chan:
			walk(x.Elem(), depth+1)
		case *types.Map:
			walk(x.Key(), depth+1)
			walk(x.Elem(), depth+1)
		case *types.Signature:
			for i := 0; i < x.Params().Len(); i++ {
				walk(x.Params().At(i).Type(), depth+1)
			}
			for i := 0; i < x.Results().Len(); i++ {
				walk(x.Results().At(i).Type(), depth+1)
			}
		case *types.Named:
			if x.Obj().Pkg() != nil && x.Obj().Pkg() != n.pp.Types && !x.Obj().Exported() {
				ok = false
			}
			if ta := x.TypeArgs(); ta != nil {
				for i := 0; i < ta.Len(); i++ {
					walk(ta.At(i), depth+1)
				}
			}
		}
	}
	walk(t, 0)
	if hasTP {
		return "", false
	}
	s := types.TypeString(t, q)
	if !ok {
		return "", false
	}
	for _, nd := range need {
		if n.imports[filename] == nil {
			n.imports[filename] = map[string]string{}
		}
		n.imports[filename][nd[0]] = nd[1]
	}
	return s, true
}

// checkFreeNames: package-level / universe / imported names used by the callee body resolve identically at the call site.
func (n *normalizer) checkFreeNames(fd *ast.FuncDecl, s *site, filename string) bool {
	ok := true
	calleeFile := n.fileOf[fd]
	scope := n.pp.Types.Scope().Innermost(s.stmt.Pos())
	if scope == nil {
		return false
	}
	lo, hi := fd.Body.Pos(), fd.Body.End()
	if fd.Type != nil && fd.Type.Pos().IsValid() && fd.Type.Pos() < lo {
		lo = fd.Type.Pos()
	}
	if fd.Recv != nil && fd.Recv.Pos().IsValid() && fd.Recv.Pos() < lo {
		lo = fd.Recv.Pos()
	}
	ast.Inspect(fd.Body, func(x ast.Node) bool {
		id, isId := x.(*ast.Ident)
		if !isId || !ok {
			return ok
		}
		obj := n.info.Uses[id]
		if obj == nil {
			return true
		}
		switch o := obj.(type) {
		case *types.PkgName:
			_, found := scope.LookupParent(id.Name, s.stmt.Pos())
			if fp, isP := found.(*types.PkgName); isP {
				if fp.Imported() != o.Imported() {
					ok = false
				}
				return true
			}
			if found != nil {
				ok = false
				return true
			}
			// not imported in the caller's file: add it (unless the name is taken there)
			if calleeFile != s.file {
				for _, imp := range s.file.Imports {
					if strings.Trim(imp.Path.Value, "\"") == o.Imported().Path() {
						ok = false // imported under another name
						return true
					}
				}
				if n.imports[filename] == nil {
					n.imports[filename] = map[string]string{}
				}
				n.imports[filename][o.Imported().Path()] = id.Name
			}
		default:
			if _, isField := obj.(*types.Var); isField && obj.(*types.Var).IsField() {
				return true
			}
			if _, isFn := obj.(*types.Func); isFn && obj.Parent() == nil {
				return true // method
			}
			if obj.Pkg() != nil && obj.Pkg() != n.pp.Types {
				return true // qualified identifier of another package
			}
			if obj.Pos().IsValid() && lo <= obj.Pos() && obj.Pos() < hi && obj.Parent() != n.pp.Types.Scope() && obj.Parent() != types.Universe {
				return true // declared inside the callee
			}
			_, found := scope.LookupParent(id.Name, s.stmt.Pos())
			if found != obj && !n.sameValue(found, obj) {
				ok = false
			}
		}
		return true
	})
	return ok
}

// aliasRoot follows single-assignment copies `a := b` of local variables back to the variable they copy.
func (n *normalizer) aliasRoot(obj types.Object) types.Object {
	for depth := 0; depth < 12; depth++ {
		v, ok := obj.(*types.Var)
		if !ok || v.IsField() || v.Parent() == nil || v.Parent() == n.pp.Types.Scope() || n.varBad[v] {
			return obj
		}
		e, has := n.varDef[v]
		if !has || n.varAssign[v] != nil {
			return obj
		}
		id, isId := ast.Unparen(e).(*ast.Ident)
		if !isId {
			return obj
		}
		next := n.info.Uses[id]
		if next == nil {
			return obj
		}
		obj = next
	}
	return obj
}

// sameValue: a and b are local variables that always hold the same value wherever both are in scope: one is a
// single-assignment copy of the other (the parameter bindings that inlining introduces), and the copied variable is
// itself never reassigned.
func (n *normalizer) sameValue(a, b types.Object) bool {
	if a == nil || b == nil {
		return false
	}
	ra, rb := n.aliasRoot(a), n.aliasRoot(b)
	if ra != rb {
		return false
	}
	v, ok := ra.(*types.Var)
	if !ok || v.IsField() || v.Parent() == nil || v.Parent() == n.pp.Types.Scope() || n.varBad[v] || n.varAssign[v] != nil {
		return false
	}
	return true
}

// paramOnlyCalled: inside the callee the parameter is only the receiver of method calls, an argument, or a returned value.
func (n *normalizer) paramOnlyCalled(fd *ast.FuncDecl, pid *ast.Ident) bool {
	obj := n.info.Defs[pid]
	if obj == nil || n.varBad[obj] {
		return false
	}
	ok := true
	var stack []ast.Node
	ast.Inspect(fd.Body, func(x ast.Node) bool {
		if x == nil {
			stack = stack[:len(stack)-1]
			return true
		}
		stack = append(stack, x)
		id, isId := x.(*ast.Ident)
		if !isId || n.info.Uses[id] != obj || len(stack) < 2 {
			return true
		}
		switch p := stack[len(stack)-2].(type) {
		case *ast.SelectorExpr:
			if p.X == ast.Expr(id) && len(stack) >= 3 {
				if call, isCall := stack[len(stack)-3].(*ast.CallExpr); isCall && call.Fun == ast.Expr(p) {
					return true
				}
			}
			ok = false
		case *ast.CallExpr:
			for _, a := range p.Args {
				if a == ast.Expr(id) {
					return true
				}
			}
			ok = false
		case *ast.ReturnStmt:
		default:
			ok = false
		}
		return true
	})
	return ok
}

// selectHoist: the call is (inside) the channel operand of a select case and is the first effectful evaluation of the whole
// select statement; returns the select statement when the hoisted code can be placed in front of it.
func (n *normalizer) selectHoist(s *site, cc *ast.CommClause) *ast.SelectStmt {
	var sel *ast.SelectStmt
	var selParent ast.Node
	for i := len(s.stack) - 1; i >= 0; i-- {
		if x, ok := s.stack[i].(*ast.SelectStmt); ok {
			sel = x
			if i > 0 {
				selParent = s.stack[i-1]
			}
			break
		}
	}
	if sel == nil || !isListParent(selParent, sel) {
		return nil
	}
	operands := func(comm ast.Stmt) []ast.Expr {
		switch c := comm.(type) {
		case *ast.ExprStmt:
			if u, ok := ast.Unparen(c.X).(*ast.UnaryExpr); ok && u.Op == token.ARROW {
				return []ast.Expr{u.X}
			}
		case *ast.AssignStmt:
			if len(c.Rhs) == 1 {
				if u, ok := ast.Unparen(c.Rhs[0]).(*ast.UnaryExpr); ok && u.Op == token.ARROW {
					return []ast.Expr{u.X}
				}
			}
		case *ast.SendStmt:
			return []ast.Expr{c.Chan, c.Value}
		}
		return nil
	}
	for _, cl := range sel.Body.List {
		c2 := cl.(*ast.CommClause)
		if c2.Comm == nil {
			continue
		}
		ops := operands(c2.Comm)
		if ops == nil {
			return nil
		}
		if c2 != cc {
			for _, o := range ops {
				if !pureExpr(o, n.info) {
					return nil
				}
			}
			continue
		}
		// the clause of the call: everything evaluated before the call must be pure, the call unconditional
		for _, o := range ops {
			if o.Pos() <= s.call.Pos() && s.call.End() <= o.End() {
				if !n.hoistable(&ast.ExprStmt{X: o}, s.call) || len(n.hoistFirst) > 0 {
					return nil
				}
				return sel
			}
			if !pureExpr(o, n.info) {
				return nil
			}
		}
		return nil
	}
	return nil
}

// simpleDefers: every defer of the callee is a top-level statement of its body and the callee has no named results, so that
// the deferred calls can be made explicitly at each of its returns (argument and function values captured where the defer
// statement stood). Executions in which the callee panics are the only ones that differ.
func (n *normalizer) simpleDefers(fd *ast.FuncDecl) bool {
	// named results: fine as long as no function literal of the callee can see them (a deferred closure could change
	// what is returned)
	named := map[types.Object]bool{}
	for _, id := range fieldIdents(fd.Type.Results) {
		if id != nil && id.Name != "_" {
			if obj := n.info.Defs[id]; obj != nil {
				named[obj] = true
			}
		}
	}
	ok := true
	if len(named) > 0 {
		ast.Inspect(fd.Body, func(x ast.Node) bool {
			if lit, isLit := x.(*ast.FuncLit); isLit {
				ast.Inspect(lit.Body, func(y ast.Node) bool {
					if id, isId := y.(*ast.Ident); isId && named[n.info.Uses[id]] {
						ok = false
					}
					return ok
				})
				return false
			}
			return ok
		})
		if !ok {
			return false
		}
	}
	// every defer: a statement executed at most once per call (not inside a loop); those nested in branches are made
	// conditional on a flag set where the defer statement stood
	var visit func(node ast.Node, inLoop bool)
	visit = func(node ast.Node, inLoop bool) {
		ast.Inspect(node, func(x ast.Node) bool {
			if !ok || x == nil {
				return false
			}
			switch y := x.(type) {
			case *ast.FuncLit:
				return false
			case *ast.ForStmt:
				if x != node {
					visit(y.Body, true)
					return false
				}
			case *ast.RangeStmt:
				if x != node {
					visit(y.Body, true)
					return false
				}
			case *ast.DeferStmt:
				if inLoop {
					ok = false
				}
			case *ast.BranchStmt:
				if y.Tok == token.GOTO {
					ok = false
				}
			}
			return ok
		})
	}
	visit(fd.Body, false)
	return ok
}

func firstOrNil(args []ast.Expr) ast.Expr {
	if len(args) == 0 {
		return nil
	}
	return args[0]
}

func (n *normalizer) reject(s *site, code int) bool {
	if os.Getenv("MQTTCHECK_DEBUG_NORM") != "" {
		fmt.Fprintf(os.Stderr, "normalise: site %s at %s not inlined (reason #%d)\n", s.calleeName(), n.fset.Position(s.call.Pos()), code)
	}
	return false
}

func (s *site) calleeName() string {
	if s.callee != nil {
		return funcKeyOf(s.callee)
	}
	return s.fd.Name.Name
}

// indexVars records, for local variables, the single expression that defines them (or that they are not single-assignment).
func (n *normalizer) indexVars() {
	n.varDef = map[types.Object]ast.Expr{}
	n.varDefNode = map[types.Object]ast.Node{}
	n.varBad = map[types.Object]bool{}
	n.varAssign = map[types.Object]*ast.AssignStmt{}
	declOnly := map[types.Object]bool{}
	assigned := map[types.Object][]*ast.AssignStmt{}
	defer func() {
		// `var x T` followed by exactly one plain assignment `x = e` behaves like a definition
		for obj := range declOnly {
			as := assigned[obj]
			if len(as) == 1 && !n.varBad[obj] {
				n.varDef[obj] = as[0].Rhs[0]
				n.varAssign[obj] = as[0]
			} else if len(as) > 1 {
				n.varBad[obj] = true
			}
		}
	}()
	bad := func(e ast.Expr) {
		if id, ok := ast.Unparen(e).(*ast.Ident); ok {
			if obj := n.info.ObjectOf(id); obj != nil {
				n.varBad[obj] = true
			}
		}
	}
	for _, f := range n.pp.Syntax {
		ast.Inspect(f, func(x ast.Node) bool {
			switch y := x.(type) {
			case *ast.AssignStmt:
				if y.Tok == token.DEFINE && len(y.Lhs) == len(y.Rhs) {
					for i, l := range y.Lhs {
						id, ok := l.(*ast.Ident)
						if !ok {
							continue
						}
						if obj := n.info.Defs[id]; obj != nil {
							n.varDef[obj] = y.Rhs[i]
							n.varDefNode[obj] = y
						} else {
							bad(l)
						}
					}
				} else if y.Tok == token.DEFINE {
					for _, l := range y.Lhs {
						if id, ok := l.(*ast.Ident); ok && n.info.Defs[id] == nil {
							bad(l)
						}
					}
				} else if y.Tok == token.ASSIGN && len(y.Lhs) == 1 && len(y.Rhs) == 1 {
					if id, ok := y.Lhs[0].(*ast.Ident); ok && id.Name != "_" {
						if obj := n.info.Uses[id]; obj != nil {
							assigned[obj] = append(assigned[obj], y)
							if _, hasDef := n.varDef[obj]; hasDef {
								n.varBad[obj] = true
							}
						}
					} else {
						bad(y.Lhs[0])
					}
				} else {
					for _, l := range y.Lhs {
						bad(l)
					}
				}
			case *ast.ValueSpec:
				if len(y.Names) == len(y.Values) {
					for i, id := range y.Names {
						if obj := n.info.Defs[id]; obj != nil {
							n.varDef[obj] = y.Values[i]
						}
					}
				} else if len(y.Values) == 0 {
					for _, id := range y.Names {
						if obj := n.info.Defs[id]; obj != nil {
							declOnly[obj] = true
						}
					}
				}
			case *ast.UnaryExpr:
				if y.Op == token.AND {
					bad(y.X)
				}
			case *ast.IncDecStmt:
				bad(y.X)
			case *ast.RangeStmt:
				if y.Tok == token.ASSIGN {
					if y.Key != nil {
						bad(y.Key)
					}
					if y.Value != nil {
						bad(y.Value)
					}
				}
			}
			return true
		})
	}
}

// resolveLit: id names a local variable that is (through single-assignment copies, at least one of which was introduced
// by inlining) bound to a function literal.
func (n *normalizer) resolveLit(id *ast.Ident) (*ast.FuncLit, map[types.Object]bool) {
	chain := map[types.Object]bool{}
	viaInl := false
	for depth := 0; depth < 10; depth++ {
		v, ok := n.info.Uses[id].(*types.Var)
		if !ok || v.IsField() || v.Parent() == nil || v.Parent() == n.pp.Types.Scope() || n.varBad[v] || chain[v] {
			return nil, nil
		}
		chain[v] = true
		if strings.HasPrefix(id.Name, "_inl") {
			viaInl = true
		}
		e, ok := n.varDef[v]
		if !ok {
			return nil, nil
		}
		switch x := ast.Unparen(e).(type) {
		case *ast.FuncLit:
			if !viaInl && !forwardingLit(x) {
				return nil, nil
			}
			return x, chain
		case *ast.Ident:
			id = x
		default:
			return nil, nil
		}
	}
	return nil, nil
}

// sroaRound: a local `v := &T{f: a, g: b}` or `v := T{…}` (T a struct of this package) that is only ever used through field
// selectors — directly, through the single-assignment copies that inlining introduces (result temporaries, receivers), or
// through pointers `&v` taken for pointer-receiver methods that were inlined — is replaced by one local variable per
// field. go/ssa then lifts the fields to SSA values, so that state moved into a small helper struct by a refactoring
// (`wait := newReconnectWait(…); wait.reset(); <-wait.after()`, a packet writer/reader cursor) is analysed exactly like the
// locals it replaced. One candidate per round.
func (n *normalizer) sroaRound() bool {
	type use struct {
		id            *ast.Ident
		parent, grand ast.Node
	}
	uses := map[types.Object][]use{}
	defStmt := map[types.Object]*ast.AssignStmt{}
	declStmt := map[types.Object]*ast.DeclStmt{}
	stmtParent := map[ast.Stmt]ast.Node{}
	reassigned := map[types.Object]bool{} // assigned more than once (address-taking does not count here)
	nAssign := map[types.Object]int{}
	for _, f := range n.pp.Syntax {
		var stack []ast.Node
		ast.Inspect(f, func(x ast.Node) bool {
			if x == nil {
				stack = stack[:len(stack)-1]
				return true
			}
			stack = append(stack, x)
			switch y := x.(type) {
			case *ast.Ident:
				if obj := n.info.Uses[y]; obj != nil {
					u := use{id: y}
					if len(stack) >= 2 {
						u.parent = stack[len(stack)-2]
					}
					if len(stack) >= 3 {
						u.grand = stack[len(stack)-3]
					}
					uses[obj] = append(uses[obj], u)
				}
			case *ast.DeclStmt:
				if len(stack) >= 2 {
					stmtParent[y] = stack[len(stack)-2]
				}
				if gd, ok := y.Decl.(*ast.GenDecl); ok && gd.Tok == token.VAR && len(gd.Specs) == 1 {
					if vs := gd.Specs[0].(*ast.ValueSpec); len(vs.Names) == 1 && len(vs.Values) == 0 {
						if obj := n.info.Defs[vs.Names[0]]; obj != nil {
							declStmt[obj] = y
						}
					}
				}
			case *ast.AssignStmt:
				if len(stack) >= 2 {
					stmtParent[y] = stack[len(stack)-2]
				}
				if y.Tok == token.DEFINE && len(y.Lhs) == 1 && len(y.Rhs) == 1 {
					if id, ok := y.Lhs[0].(*ast.Ident); ok {
						if obj := n.info.Defs[id]; obj != nil {
							defStmt[obj] = y
						}
					}
				}
				if y.Tok != token.DEFINE {
					for _, l := range y.Lhs {
						if id, ok := l.(*ast.Ident); ok {
							if obj := n.info.Uses[id]; obj != nil {
								nAssign[obj]++
							}
						}
					}
				}
			case *ast.IncDecStmt:
				if id, ok := y.X.(*ast.Ident); ok {
					if obj := n.info.Uses[id]; obj != nil {
						nAssign[obj] += 2
					}
				}
			}
			return true
		})
	}
	for obj, as := range n.varAssign {
		defStmt[obj] = as
	}
	for obj, k := range nAssign {
		if _, hasDef := n.varDef[obj]; k > 1 || (k == 1 && hasDef && n.varAssign[obj] == nil) {
			reassigned[obj] = true
		}
	}
	// single definition of a variable, disregarding address-taking: n.varDef minus the reassigned ones
	defOf := func(obj types.Object) ast.Expr {
		if reassigned[obj] {
			return nil
		}
		return n.varDef[obj]
	}
	var cands []types.Object
	for obj := range n.varDef {
		cands = append(cands, obj)
	}
	sort.Slice(cands, func(i, j int) bool { return cands[i].Pos() < cands[j].Pos() })
	for _, obj := range cands {
		e := defOf(obj)
		if e == nil || defStmt[obj] == nil || !isListParent(stmtParent[defStmt[obj]], defStmt[obj]) {
			continue
		}
		var lit *ast.CompositeLit
		ptrMode := false
		if ue, isAddr := ast.Unparen(e).(*ast.UnaryExpr); isAddr && ue.Op == token.AND {
			lit, _ = ast.Unparen(ue.X).(*ast.CompositeLit)
			ptrMode = true
		} else {
			lit, _ = ast.Unparen(e).(*ast.CompositeLit)
		}
		if lit == nil {
			continue
		}
		if ptrMode && n.varBad[obj] {
			continue
		}
		named, _ := n.info.TypeOf(lit).(*types.Named)
		if named == nil || named.Obj().Pkg() != n.pp.Types {
			continue
		}
		st, ok := named.Underlying().(*types.Struct)
		if !ok {
			continue
		}
		inits := map[string]ast.Expr{}
		var order []string
		keyed := true
		for _, el := range lit.Elts {
			kv, ok := el.(*ast.KeyValueExpr)
			if !ok {
				keyed = false
				break
			}
			k, ok := kv.Key.(*ast.Ident)
			if !ok {
				keyed = false
				break
			}
			inits[k.Name] = kv.Value
			order = append(order, k.Name)
		}
		if !keyed {
			continue
		}
		// members: variables that denote the struct (value mode: a chain of moves v0 -> v1 -> …, each source dead after the
		// move) and variables that point to it
		role := map[types.Object]string{} // "val" (the struct itself / a moved-from holder) or "ptr"
		if ptrMode {
			role[obj] = "ptr"
		} else {
			role[obj] = "val"
		}
		final := obj // value mode: the variable that holds the struct in the end
		for changed := true; changed; {
			changed = false
			for o2 := range n.varDef {
				if role[o2] != "" {
					continue
				}
				e2 := defOf(o2)
				if e2 == nil {
					continue
				}
				switch y := ast.Unparen(e2).(type) {
				case *ast.Ident:
					src := n.info.Uses[y]
					switch role[src] {
					case "ptr":
						if !n.varBad[o2] {
							role[o2] = "ptr"
							changed = true
						}
					case "val":
						if src == final { // a move: the source must be dead afterwards (checked below)
							role[o2] = "val"
							final = o2
							changed = true
						}
					}
				case *ast.UnaryExpr:
					if id, ok := ast.Unparen(y.X).(*ast.Ident); ok && y.Op == token.AND && !ptrMode && n.info.Uses[id] == final && role[final] == "val" && !n.varBad[o2] {
						role[o2] = "ptr"
						changed = true
					}
				}
			}
		}
		// every use: a field selection (on the final holder or a pointer), a member definition, or `_ = x`
		okAll := true
		sroaWhy := ""
		var sels []*ast.SelectorExpr
		var dropStmts []ast.Stmt
		for a, r := range role {
			if a != obj {
				ds := defStmt[a]
				if ds == nil || !isListParent(stmtParent[ds], ds) {
					okAll = false
					sroaWhy += fmt.Sprintf(" #%d", 1)
					break
				}
				dropStmts = append(dropStmts, ds)
			}
			for _, u := range uses[a] {
				switch p := u.parent.(type) {
				case *ast.SelectorExpr:
					sel := n.info.Selections[p]
					// a holder that was moved from may be accessed before the move (it is dead afterwards)
					movedLater := false
					if r == "val" && a != final {
						for m2, mr := range role {
							if mr != "val" || m2 == a {
								continue
							}
							if d := n.varDef[m2]; d != nil {
								if did, isId := ast.Unparen(d).(*ast.Ident); isId && n.info.Uses[did] == a && p.End() <= did.Pos() {
									movedLater = true
								}
							}
						}
					}
					if p.X != ast.Expr(u.id) || sel == nil || sel.Kind() != types.FieldVal || len(sel.Index()) != 1 || (r == "val" && a != final && !movedLater) {
						okAll = false
						sroaWhy += fmt.Sprintf(" #%d", 2)
					} else {
						sels = append(sels, p)
					}
				case *ast.UnaryExpr:
					// &final as the definition of a pointer member
					okDef := false
					if p.Op == token.AND && a == final && r == "val" {
						for m, mr := range role {
							if mr == "ptr" && n.varDef[m] != nil && ast.Unparen(n.varDef[m]) == ast.Expr(p) {
								okDef = true
							}
						}
					}
					if !okDef {
						okAll = false
						sroaWhy += fmt.Sprintf(" #%d", 3)
					}
				case *ast.ParenExpr:
					// (x).f, as an expression substituted for a helper call writes it: a field selection like x.f
					if gs, isSel := u.grand.(*ast.SelectorExpr); isSel && gs.X == ast.Expr(p) && (r != "val" || a == final) {
						if sel := n.info.Selections[gs]; sel != nil && sel.Kind() == types.FieldVal && len(sel.Index()) == 1 {
							sels = append(sels, gs)
							break
						}
					}
					// (&(x)) / (x): accepted only as part of a member definition
					okDef := false
					for m := range role {
						if d := n.varDef[m]; d != nil && d.Pos() <= p.Pos() && p.End() <= d.End() {
							okDef = true
						}
					}
					if !okDef {
						okAll = false
						sroaWhy += fmt.Sprintf(" #%d", 4)
					}
				case *ast.AssignStmt:
					if p == defStmt[a] && len(p.Lhs) == 1 && p.Lhs[0] == ast.Expr(u.id) {
						break // the defining assignment of `var x T; x = …`
					}
					if len(p.Lhs) != 1 || len(p.Rhs) != 1 || p.Rhs[0] != ast.Expr(u.id) {
						okAll = false
						sroaWhy += fmt.Sprintf(" #%d", 5)
						break
					}
					l, isId := p.Lhs[0].(*ast.Ident)
					switch {
					case isId && l.Name == "_" && p.Tok == token.ASSIGN && isListParent(stmtParent[p], p):
						dropStmts = append(dropStmts, p)
					case isId && p.Tok == token.DEFINE && role[n.info.Defs[l]] != "":
					case isId && p.Tok == token.ASSIGN && role[n.info.Uses[l]] != "" && n.varAssign[n.info.Uses[l]] == p:
					default:
						okAll = false
						sroaWhy += fmt.Sprintf(" #%d", 6)
					}
				case *ast.ValueSpec:
					okDef := false
					for _, nm := range p.Names {
						if role[n.info.Defs[nm]] != "" {
							okDef = true
						}
					}
					if !okDef {
						okAll = false
						sroaWhy += fmt.Sprintf(" #%d", 7)
					}
				default:
					okAll = false
					sroaWhy += fmt.Sprintf(" #8:%T@%d", u.parent, n.fset.Position(u.id.Pos()).Line)
				}
			}
		}
		if !okAll || len(sels) == 0 {
			if os.Getenv("MQTTCHECK_DEBUG_NORM") != "" {
				fmt.Fprintf(os.Stderr, "normalise: struct local %s at %s not split (%s)\n", obj.Name(), n.fset.Position(obj.Pos()), sroaWhy)
			}
			continue
		}
		ds := defStmt[obj]
		filename := n.fset.File(ds.Pos()).Name()
		var file *ast.File
		for _, f := range n.pp.Syntax {
			if n.fset.File(f.Pos()).Name() == filename {
				file = f
			}
		}
		n.counter++
		pfx := fmt.Sprintf("_sroa%d_", n.counter)
		var gen, decl strings.Builder
		okT := true
		// the member declared outermost: the per-field variables are declared where it is declared
		outer := obj
		for a := range role {
			if a == outer || a.Parent() == nil || outer.Parent() == nil {
				continue
			}
			if a.Parent() == outer.Parent() {
				if a.Pos() < outer.Pos() {
					outer = a
				}
			} else if a.Parent().Contains(outer.Pos()) && !outer.Parent().Contains(a.Pos()) {
				outer = a
			} else if a.Parent().Contains(outer.Parent().Pos()) && a.Parent() != outer.Parent() {
				outer = a
			}
		}
		if outer != obj && declStmt[outer] == nil {
			continue
		}
		split := outer != obj || (declStmt[obj] != nil && n.varAssign[obj] != nil) // declared in one place, assigned in another
		emit := func(fname string) {
			var ft types.Type
			for i := 0; i < st.NumFields(); i++ {
				if st.Field(i).Name() == fname {
					ft = st.Field(i).Type()
				}
			}
			if ft == nil {
				okT = false
				return
			}
			tt, ok := n.typeText(ft, file, filename)
			if !ok {
				okT = false
				return
			}
			init, has := inits[fname]
			switch {
			case split:
				fmt.Fprintf(&decl, "var %s%s %s\n_ = %s%s\n", pfx, fname, tt, pfx, fname)
				if has {
					fmt.Fprintf(&gen, "%s%s = %s\n", pfx, fname, n.src(filename, init.Pos(), init.End()))
				} else {
					fmt.Fprintf(&gen, "{\nvar %sz %s\n%s%s = %sz\n}\n", pfx, tt, pfx, fname, pfx)
				}
			case has:
				fmt.Fprintf(&gen, "var %s%s %s = %s\n_ = %s%s\n", pfx, fname, tt, n.src(filename, init.Pos(), init.End()), pfx, fname)
			default:
				fmt.Fprintf(&gen, "var %s%s %s\n_ = %s%s\n", pfx, fname, tt, pfx, fname)
			}
		}
		done := map[string]bool{}
		for _, fname := range order {
			emit(fname)
			done[fname] = true
		}
		for i := 0; i < st.NumFields(); i++ {
			if fn := st.Field(i).Name(); !done[fn] {
				if st.Field(i).Embedded() {
					okT = false
				}
				emit(fn)
			}
		}
		if !okT {
			delete(n.imports, filename)
			continue
		}
		line := n.fset.Position(ds.Pos()).Line
		n.addEdit(filename, n.off(ds.Pos()), n.off(ds.End()), "\n"+n.pinLines(gen.String(), filename, line)+n.lineDirective(filename, n.fset.Position(ds.End()).Line))
		if split {
			d := declStmt[outer]
			dl := n.fset.Position(d.Pos()).Line
			n.addEdit(filename, n.off(d.Pos()), n.off(d.End()), "\n"+n.pinLines(decl.String(), filename, dl)+n.lineDirective(filename, n.fset.Position(d.End()).Line))
		}
		droppedAt := map[ast.Stmt]bool{ds: true}
		for _, d := range dropStmts {
			if droppedAt[d] {
				continue
			}
			droppedAt[d] = true
			fn2 := n.fset.File(d.Pos()).Name()
			n.addEdit(fn2, n.off(d.Pos()), n.off(d.End()), "")
		}
		for a := range role {
			if d := declStmt[a]; d != nil && !(a == outer && split) {
				fn2 := n.fset.File(d.Pos()).Name()
				n.addEdit(fn2, n.off(d.Pos()), n.off(d.End()), "")
			}
		}
		for _, sel := range sels {
			fn2 := n.fset.File(sel.Pos()).Name()
			n.addEdit(fn2, n.off(sel.Pos()), n.off(sel.End()), pfx+sel.Sel.Name)
		}
		n.notes = append(n.notes, fmt.Sprintf("replaced local %s %s by one variable per field (%d field accesses)", named.Obj().Name(), obj.Name(), len(sels)))
		return true
	}
	return false
}

// methodValueRound: `f := x.M` (a method value held by a temporary that inlining introduced for a function-typed parameter)
// followed by calls `f(args)`: the receiver is evaluated where the method value was taken (`r := x`, or `r := &x` when the
// method needs the address) and each call becomes `r.M(args)` — what a bound method value does, spelled as a static call.
func (n *normalizer) methodValueRound() bool {
	defStmtOf := map[types.Object]ast.Stmt{}
	parentOf := map[ast.Stmt]ast.Node{}
	for _, f := range n.pp.Syntax {
		var stack []ast.Node
		ast.Inspect(f, func(x ast.Node) bool {
			if x == nil {
				stack = stack[:len(stack)-1]
				return true
			}
			stack = append(stack, x)
			var par ast.Node
			if len(stack) >= 2 {
				par = stack[len(stack)-2]
			}
			switch y := x.(type) {
			case *ast.AssignStmt:
				parentOf[y] = par
				if y.Tok == token.DEFINE && len(y.Lhs) == 1 && len(y.Rhs) == 1 {
					if id, ok := y.Lhs[0].(*ast.Ident); ok {
						if obj := n.info.Defs[id]; obj != nil {
							defStmtOf[obj] = y
						}
					}
				}
			case *ast.DeclStmt:
				parentOf[y] = par
				if gd, ok := y.Decl.(*ast.GenDecl); ok && gd.Tok == token.VAR && len(gd.Specs) == 1 {
					if vs := gd.Specs[0].(*ast.ValueSpec); len(vs.Names) == 1 && len(vs.Values) == 1 {
						if obj := n.info.Defs[vs.Names[0]]; obj != nil {
							defStmtOf[obj] = y
						}
					}
				}
			}
			return true
		})
	}
	changed := false
	bound := map[types.Object]string{} // root variable -> receiver temporary (created in this round)
	for _, f := range n.pp.Syntax {
		filename := n.fset.File(f.Pos()).Name()
		ast.Inspect(f, func(x ast.Node) bool {
			call, ok := x.(*ast.CallExpr)
			if !ok {
				return true
			}
			id, ok := ast.Unparen(call.Fun).(*ast.Ident)
			if !ok {
				return true
			}
			// follow single-assignment copies to a method value
			viaInl := false
			var root types.Object
			var sel *ast.SelectorExpr
			cur := id
			for depth := 0; depth < 10 && cur != nil; depth++ {
				v, ok := n.info.Uses[cur].(*types.Var)
				if !ok || v.IsField() || v.Parent() == nil || v.Parent() == n.pp.Types.Scope() || n.varBad[v] {
					return true
				}
				if strings.HasPrefix(cur.Name, "_inl") {
					viaInl = true
				}
				e, ok := n.varDef[v]
				if !ok {
					return true
				}
				switch y := ast.Unparen(e).(type) {
				case *ast.Ident:
					cur = y
					continue
				case *ast.SelectorExpr:
					if s := n.info.Selections[y]; s != nil && s.Kind() == types.MethodVal && len(s.Index()) == 1 {
						root, sel = v, y
					}
				}
				break
			}
			if sel == nil || !viaInl || !pureExpr(sel.X, n.info) {
				return true
			}
			if _, isIface := n.info.TypeOf(sel.X).Underlying().(*types.Interface); isIface {
				return true
			}
			ds := defStmtOf[root]
			if ds == nil || !isListParent(parentOf[ds], ds) {
				return true
			}
			rt, done := bound[root]
			if !done {
				n.counter++
				rt = fmt.Sprintf("_inl%dmrecv", n.counter)
				rx := n.src(filename, sel.X.Pos(), sel.X.End())
				fn := n.info.Selections[sel].Obj().(*types.Func)
				_, recvPtr := fn.Type().(*types.Signature).Recv().Type().(*types.Pointer)
				_, argPtr := n.info.TypeOf(sel.X).Underlying().(*types.Pointer)
				if recvPtr && !argPtr {
					rx = "&(" + rx + ")"
				}
				dfile := n.fset.File(ds.Pos()).Name()
				if n.overlaps(dfile, n.off(ds.Pos()), n.off(ds.Pos())) {
					return true
				}
				line := n.fset.Position(ds.Pos()).Line
				n.addEdit(dfile, n.off(ds.Pos()), n.off(ds.Pos()), "\n"+n.pinLines(fmt.Sprintf("%s := %s\n_ = %s\n", rt, rx, rt), dfile, line)+n.lineDirective(dfile, line))
				bound[root] = rt
			}
			if n.overlaps(filename, n.off(call.Fun.Pos()), n.off(call.Fun.End())) {
				return true
			}
			n.addEdit(filename, n.off(call.Fun.Pos()), n.off(call.Fun.End()), rt+"."+sel.Sel.Name)
			n.notes = append(n.notes, fmt.Sprintf("call through method value %s bound to %s.%s made a direct method call", id.Name, types.ExprString(sel.X), sel.Sel.Name))
			changed = true
			return true
		})
	}
	return changed
}

// forwardingLit: a local helper closure whose whole body is one call (`fail := func(err error, msg string) error { return
// wrap(err, retry, msg) }`): calls of it are inlined like calls of a new helper function.
func forwardingLit(lit *ast.FuncLit) bool {
	if lit.Body == nil || len(lit.Body.List) != 1 {
		return false
	}
	switch st := lit.Body.List[0].(type) {
	case *ast.ReturnStmt:
		if len(st.Results) == 0 {
			return false
		}
		for _, r := range st.Results {
			if _, isCall := ast.Unparen(r).(*ast.CallExpr); isCall {
				return true
			}
		}
		return false
	case *ast.ExprStmt:
		_, isCall := ast.Unparen(st.X).(*ast.CallExpr)
		return isCall
	}
	return false
}

// cleanupRound: a function literal held only by inlining temporaries whose calls have all been inlined is replaced by nil,
// so that no uncalled anonymous function remains for the rules to look at.
func (n *normalizer) cleanupRound() bool {
	type useCtx struct{ parent, grand ast.Node }
	uses := map[types.Object][]useCtx{}
	typedSpec := map[types.Object]*ast.ValueSpec{}
	for _, f := range n.pp.Syntax {
		var stack []ast.Node
		ast.Inspect(f, func(x ast.Node) bool {
			if x == nil {
				stack = stack[:len(stack)-1]
				return true
			}
			stack = append(stack, x)
			if vs, ok := x.(*ast.ValueSpec); ok && vs.Type != nil && len(vs.Names) == 1 && len(vs.Values) == 1 {
				if obj := n.info.Defs[vs.Names[0]]; obj != nil {
					typedSpec[obj] = vs
				}
			}
			if id, ok := x.(*ast.Ident); ok {
				if obj := n.info.Uses[id]; obj != nil {
					var u useCtx
					if len(stack) >= 2 {
						u.parent = stack[len(stack)-2]
					}
					if len(stack) >= 3 {
						u.grand = stack[len(stack)-3]
					}
					uses[obj] = append(uses[obj], u)
				}
			}
			return true
		})
	}
	var dead func(obj types.Object, depth int) bool
	dead = func(obj types.Object, depth int) bool {
		if depth > 8 || n.varBad[obj] {
			return false
		}
		for _, u := range uses[obj] {
			switch p := u.parent.(type) {
			case *ast.AssignStmt:
				if len(p.Lhs) == 1 && len(p.Rhs) == 1 {
					if l, ok := p.Lhs[0].(*ast.Ident); ok {
						if l.Name == "_" && p.Tok == token.ASSIGN {
							continue
						}
						if p.Tok == token.DEFINE {
							if lo := n.info.Defs[l]; lo != nil && dead(lo, depth+1) {
								continue
							}
						}
					}
				}
				return false
			default:
				return false
			}
		}
		return true
	}
	changed := false
	for obj, e := range n.varDef {
		if !strings.HasPrefix(obj.Name(), "_inl") {
			continue
		}
		lit, ok := ast.Unparen(e).(*ast.FuncLit)
		if !ok || !dead(obj, 0) {
			continue
		}
		filename := n.fset.File(lit.Pos()).Name()
		if n.overlaps(filename, n.off(lit.Pos()), n.off(lit.End())) {
			continue
		}
		n.addEdit(filename, n.off(lit.Pos()), n.off(lit.End()), "nil")
		n.addEdit(filename, n.off(lit.End()), n.off(lit.End()), "\n"+n.lineDirective(filename, n.fset.Position(lit.End()).Line))
		n.notes = append(n.notes, fmt.Sprintf("dropped function literal held by %s (all its calls inlined)", obj.Name()))
		changed = true
	}
	// `var h F = f` (f a named function or a method expression) with no use left but `_ = h`
	for obj, vs := range typedSpec {
		if _, isVar := obj.(*types.Var); !isVar || obj.Parent() == n.pp.Types.Scope() || !dead(obj, 0) {
			continue
		}
		e := ast.Unparen(vs.Values[0])
		isFn := false
		switch y := e.(type) {
		case *ast.Ident:
			_, isFn = n.info.Uses[y].(*types.Func)
		case *ast.SelectorExpr:
			if sel := n.info.Selections[y]; sel != nil && sel.Kind() == types.MethodExpr {
				isFn = true
			}
		}
		if !isFn {
			continue
		}
		if _, isSig := obj.Type().Underlying().(*types.Signature); !isSig {
			continue
		}
		filename := n.fset.File(e.Pos()).Name()
		if n.overlaps(filename, n.off(e.Pos()), n.off(e.End())) {
			continue
		}
		n.addEdit(filename, n.off(e.Pos()), n.off(e.End()), "nil")
		n.notes = append(n.notes, fmt.Sprintf("dropped function value held by %s (all its calls made directly)", obj.Name()))
		changed = true
	}
	return changed
}

func fieldIdents(fl *ast.FieldList) []*ast.Ident {
	var out []*ast.Ident
	if fl == nil {
		return out
	}
	for _, f := range fl.List {
		if len(f.Names) == 0 {
			out = append(out, nil)
		}
		for _, nm := range f.Names {
			out = append(out, nm)
		}
	}
	return out
}

func nextStmt(parent ast.Node, st ast.Stmt) ast.Stmt {
	var list []ast.Stmt
	switch p := parent.(type) {
	case *ast.BlockStmt:
		list = p.List
	case *ast.CaseClause:
		list = p.Body
	case *ast.CommClause:
		list = p.Body
	}
	for i, x := range list {
		if x == st && i+1 < len(list) {
			return list[i+1]
		}
	}
	return nil
}

// threadable: `lhs… := call` tested by `if X != nil BODY` (no else), X one of the targets, BODY free of labels and of
// break statements that bind outside BODY.
func (n *normalizer) threadable(as *ast.AssignStmt, iff *ast.IfStmt, retForm bool) *threadSpec {
	th := &threadSpec{errIdx: -1, body: iff.Body}
	lhsObj := map[types.Object]int{}
	for i, l := range as.Lhs {
		id, ok := l.(*ast.Ident)
		if !ok {
			return nil
		}
		th.lhs = append(th.lhs, id.Name)
		if id.Name != "_" {
			if o := n.info.ObjectOf(id); o != nil {
				lhsObj[o] = i
			}
		}
	}
	// simple form: `if X != nil BODY` without else, X one of the targets: a `return …, nil` of the callee skips the test
	if be, ok := iff.Cond.(*ast.BinaryExpr); ok && be.Op == token.NEQ && iff.Else == nil {
		if x, ok := be.X.(*ast.Ident); ok {
			if tv, ok := n.info.Types[be.Y]; ok && tv.IsNil() {
				if i, isT := lhsObj[n.info.Uses[x]]; isT {
					th.errIdx = i
					th.cond = x.Name
				}
			}
		}
	}
	if th.errIdx < 0 {
		// general form: any test that mentions a target (`if !ok {…}`, `if err != nil {…} else {…}`): the whole if
		// statement is continued at every return of the callee
		mentions := false
		var scanIn ast.Node = iff.Cond
		if retForm {
			scanIn = iff.Body
		}
		ast.Inspect(scanIn, func(y ast.Node) bool {
			if id, ok := y.(*ast.Ident); ok {
				if _, isT := lhsObj[n.info.Uses[id]]; isT {
					mentions = true
				}
			}
			return true
		})
		if !mentions {
			return nil
		}
		th.whole = &ast.IfStmt{Cond: iff.Cond, Body: iff.Body, Else: iff.Else}
		if retForm {
			th.ret = iff.Body.List[0].(*ast.ReturnStmt)
		}
		// `if t` / `if !t` on a boolean target: the test can be specialised by what each return yields
		th.boolIdx = -1
		cond := ast.Unparen(iff.Cond)
		neg := false
		if ue, isNot := cond.(*ast.UnaryExpr); isNot && ue.Op == token.NOT {
			cond, neg = ast.Unparen(ue.X), true
		}
		if id, isId := cond.(*ast.Ident); isId {
			if i, isT := lhsObj[n.info.Uses[id]]; isT {
				th.boolIdx, th.boolNeg = i, neg
			}
		}
	}
	ok := true
	var walk func(node ast.Node, depth int)
	walk = func(node ast.Node, depth int) {
		ast.Inspect(node, func(y ast.Node) bool {
			if !ok || y == nil {
				return false
			}
			switch z := y.(type) {
			case *ast.FuncLit:
				return false
			case *ast.LabeledStmt:
				ok = false
			case *ast.BranchStmt:
				if (z.Tok == token.BREAK && z.Label == nil && depth == 0) || z.Tok == token.FALLTHROUGH || z.Tok == token.GOTO {
					ok = false
				}
			case *ast.ForStmt, *ast.RangeStmt, *ast.SwitchStmt, *ast.TypeSwitchStmt, *ast.SelectStmt:
				if y != node {
					walk(y, depth+1)
					return false
				}
			}
			return true
		})
	}
	walk(iff.Body, 0)
	if iff.Else != nil {
		walk(iff.Else, 0)
	}
	if !ok {
		return nil
	}
	return th
}

// bodyText prints the callee's body with its return statements rewritten.
//
//	mode "tail": returns are kept (bare returns get the named results spelled out);
//	mode "assign": `return e...` => `{ temps = e...; break label }`; a single final return becomes a plain assignment.
//
// cloneAST deep-copies a syntax tree; m receives original -> copy for every node that is a pointer.
func cloneAST(node ast.Node, m map[ast.Node]ast.Node) ast.Node {
	objT := reflect.TypeOf((*ast.Object)(nil))
	scopeT := reflect.TypeOf((*ast.Scope)(nil))
	var cp func(v reflect.Value) reflect.Value
	cp = func(v reflect.Value) reflect.Value {
		switch v.Kind() {
		case reflect.Ptr:
			if v.IsNil() {
				return v
			}
			if v.Type() == objT || v.Type() == scopeT {
				return reflect.Zero(v.Type())
			}
			nv := reflect.New(v.Type().Elem())
			nv.Elem().Set(cp(v.Elem()))
			if on, ok := v.Interface().(ast.Node); ok {
				m[on] = nv.Interface().(ast.Node)
			}
			return nv
		case reflect.Interface:
			if v.IsNil() {
				return v
			}
			nv := reflect.New(v.Type()).Elem()
			nv.Set(cp(v.Elem()))
			return nv
		case reflect.Slice:
			if v.IsNil() {
				return v
			}
			nv := reflect.MakeSlice(v.Type(), v.Len(), v.Len())
			for i := 0; i < v.Len(); i++ {
				nv.Index(i).Set(cp(v.Index(i)))
			}
			return nv
		case reflect.Struct:
			nv := reflect.New(v.Type()).Elem()
			for i := 0; i < v.NumField(); i++ {
				if nv.Field(i).CanSet() {
					nv.Field(i).Set(cp(v.Field(i)))
				}
			}
			return nv
		}
		return v
	}
	return cp(reflect.ValueOf(node)).Interface().(ast.Node)
}

// eachStmtList calls f on every statement list directly nested in st (not descending into function literals).
func eachStmtList(st ast.Stmt, f func(list *[]ast.Stmt)) {
	switch x := st.(type) {
	case *ast.BlockStmt:
		f(&x.List)
	case *ast.IfStmt:
		f(&x.Body.List)
		if x.Else != nil {
			eachStmtList(x.Else, f)
		}
	case *ast.ForStmt:
		f(&x.Body.List)
	case *ast.RangeStmt:
		f(&x.Body.List)
	case *ast.SwitchStmt:
		for _, cc := range x.Body.List {
			f(&cc.(*ast.CaseClause).Body)
		}
	case *ast.TypeSwitchStmt:
		for _, cc := range x.Body.List {
			f(&cc.(*ast.CaseClause).Body)
		}
	case *ast.SelectStmt:
		for _, cc := range x.Body.List {
			f(&cc.(*ast.CommClause).Body)
		}
	case *ast.LabeledStmt:
		eachStmtList(x.Stmt, f)
	}
}

// threadSpec: the call is the error-returning initialiser of `if …; err != nil BODY` (or is directly followed by such an if).
// Each return of the callee is then continued individually: `return …, nil` skips the test, any other return assigns and
// runs the test with BODY in place, so that no merged result variable (and no spurious path from a failing return into
// the success continuation) is introduced.
type threadSpec struct {
	lhs    []string        // assignment targets, one per result
	errIdx int             // index of the tested result
	cond   string          // name tested against nil
	body   *ast.BlockStmt  // BODY
	whole  *ast.IfStmt     // general form: the complete if statement (without its init) to continue with
	ret    *ast.ReturnStmt // the continuation is a return statement (spelled `if true { return … }` in whole)
	// general form with the condition `t` / `!t` for a boolean target t: index of t, and whether it is negated
	boolIdx int
	boolNeg bool
}

// bodyText prints the callee's body with its return statements rewritten.
//
//	mode "tail": returns are kept (bare returns get the named results spelled out);
//	mode "assign": `return e...` => `{ temps = e...; break label }`; a single final return becomes a plain assignment;
//	mode "thread": see threadSpec.
//
// rename maps objects declared in the callee to fresh names.
func (n *normalizer) bodyText(fd *ast.FuncDecl, mode string, temps []string, resNames []string, label string, rename map[types.Object]string, th *threadSpec) (string, bool, error) {
	m := map[ast.Node]ast.Node{}
	body := cloneAST(fd.Body, m).(*ast.BlockStmt)
	nilRet := map[*ast.ReturnStmt]bool{}    // clone returns whose tested result is the literal nil
	nonNilRet := map[*ast.ReturnStmt]bool{} // … whose tested result is a once-defined name, returned under `if name != nil`
	var knownNonNil func(ret *ast.ReturnStmt, e ast.Expr) bool
	{
		assigns := map[types.Object]int{}
		parent := map[ast.Node]ast.Node{}
		var stack []ast.Node
		ast.Inspect(fd.Body, func(x ast.Node) bool {
			if x == nil {
				stack = stack[:len(stack)-1]
				return true
			}
			if len(stack) > 0 {
				parent[x] = stack[len(stack)-1]
			}
			stack = append(stack, x)
			switch y := x.(type) {
			case *ast.AssignStmt:
				for _, l := range y.Lhs {
					if id, ok := l.(*ast.Ident); ok {
						if o := n.info.Defs[id]; o != nil {
							assigns[o]++
						} else if o := n.info.Uses[id]; o != nil {
							assigns[o]++
						}
					}
				}
			case *ast.IncDecStmt:
				if id, ok := y.X.(*ast.Ident); ok {
					assigns[n.info.Uses[id]] += 2
				}
			case *ast.UnaryExpr:
				if id, ok := ast.Unparen(y.X).(*ast.Ident); ok && y.Op == token.AND {
					assigns[n.info.Uses[id]] += 2
				}
			case *ast.RangeStmt:
				for _, l := range []ast.Expr{y.Key, y.Value} {
					if id, ok := l.(*ast.Ident); ok {
						if o := n.info.Defs[id]; o != nil {
							assigns[o] += 2
						} else if o := n.info.Uses[id]; o != nil {
							assigns[o] += 2
						}
					}
				}
			}
			return true
		})
		knownNonNil = func(ret *ast.ReturnStmt, e ast.Expr) bool {
			id, ok := ast.Unparen(e).(*ast.Ident)
			if !ok {
				return false
			}
			obj, _ := n.info.Uses[id].(*types.Var)
			if obj == nil || assigns[obj] != 1 || obj.Parent() == n.pp.Types.Scope() {
				return false
			}
			// a named result or parameter is not counted by assigns as defined: require a := definition inside the body
			if obj.Pos() < fd.Body.Pos() || obj.Pos() > fd.Body.End() {
				return false
			}
			var child ast.Node = ret
			for p := parent[ret]; p != nil; child, p = p, parent[p] {
				switch y := p.(type) {
				case *ast.FuncLit:
					return false
				case *ast.IfStmt:
					if child != ast.Node(y.Body) {
						continue
					}
					be, ok := ast.Unparen(y.Cond).(*ast.BinaryExpr)
					if !ok || be.Op != token.NEQ {
						continue
					}
					x, okx := ast.Unparen(be.X).(*ast.Ident)
					if tv, ok := n.info.Types[be.Y]; okx && ok && tv.IsNil() && n.info.Uses[x] == types.Object(obj) {
						return true
					}
				}
			}
			return false
		}
	}
	boolRet := map[*ast.ReturnStmt]int{} // clone returns whose tested boolean result is a constant: 1 true, -1 false
	for on, cn := range m {
		switch x := on.(type) {
		case *ast.Ident:
			obj := n.info.Defs[x]
			if obj == nil {
				obj = n.info.Uses[x]
			}
			if nm, ok := rename[obj]; ok && obj != nil {
				cn.(*ast.Ident).Name = nm
			}
		case *ast.ReturnStmt:
			if th != nil && th.errIdx >= 0 && len(x.Results) == len(th.lhs) && th.errIdx < len(x.Results) {
				if tv, ok := n.info.Types[x.Results[th.errIdx]]; ok && tv.IsNil() {
					nilRet[cn.(*ast.ReturnStmt)] = true
				} else if knownNonNil(x, x.Results[th.errIdx]) {
					nonNilRet[cn.(*ast.ReturnStmt)] = true
				}
			}
			if th != nil && th.whole != nil && th.boolIdx >= 0 && len(x.Results) == len(th.lhs) {
				if tv, ok := n.info.Types[x.Results[th.boolIdx]]; ok && tv.Value != nil && tv.Value.Kind() == constant.Bool {
					if constant.BoolVal(tv.Value) {
						boolRet[cn.(*ast.ReturnStmt)] = 1
					} else {
						boolRet[cn.(*ast.ReturnStmt)] = -1
					}
				}
			}
		}
	}
	// count returns outside function literals
	nret := 0
	var count func(list []ast.Stmt)
	count = func(list []ast.Stmt) {
		for _, st := range list {
			if _, ok := st.(*ast.ReturnStmt); ok {
				nret++
			}
			eachStmtList(st, func(l *[]ast.Stmt) { count(*l) })
		}
	}
	count(body.List)
	finalRet := false
	if k := len(body.List); k > 0 {
		_, finalRet = body.List[k-1].(*ast.ReturnStmt)
	}
	single := nret == 0 || (nret == 1 && finalRet)
	usedLabel := false
	idents := func(names []string) []ast.Expr {
		var out []ast.Expr
		for _, s := range names {
			out = append(out, ast.NewIdent(s))
		}
		return out
	}
	// deferred calls (non-tail modes): captured where the defer statement stood, made explicitly at every return
	var active []ast.Stmt // in registration order
	ndefer := 0
	rev := map[ast.Node]ast.Node{} // clone -> original (for type information)
	for on, cn := range m {
		rev[cn] = on
	}
	var nestedDecls []ast.Stmt // declarations of the temporaries of nested defers, put at the top of the body
	nestedOK := true
	typeOfClone := func(e ast.Expr) string {
		orig, _ := rev[e].(ast.Expr)
		if orig == nil || n.curTypeText == nil {
			nestedOK = false
			return "interface{}"
		}
		tt, ok := n.curTypeText(n.info.TypeOf(orig))
		if !ok {
			nestedOK = false
			return "interface{}"
		}
		return tt
	}
	declVar := func(name, typ string) {
		nestedDecls = append(nestedDecls, &ast.DeclStmt{Decl: &ast.GenDecl{Tok: token.VAR, Specs: []ast.Spec{
			&ast.ValueSpec{Names: []*ast.Ident{ast.NewIdent(name)}, Type: ast.NewIdent(typ)}}}})
		nestedDecls = append(nestedDecls, &ast.AssignStmt{Lhs: []ast.Expr{ast.NewIdent("_")}, Tok: token.ASSIGN, Rhs: []ast.Expr{ast.NewIdent(name)}})
	}
	// captureNested: a defer statement inside a branch: its function and operands are evaluated there into variables declared
	// at the top of the callee, a flag records that it was reached, and every later return makes the call if the flag is set
	captureNested := func(d *ast.DeferStmt) []ast.Stmt {
		ndefer++
		var out []ast.Stmt
		call := &ast.CallExpr{}
		fun := d.Call.Fun
		isBuiltin := false
		if id, ok := fun.(*ast.Ident); ok {
			switch id.Name {
			case "close", "delete", "panic", "print", "println", "recover":
				isBuiltin = true
			}
		}
		if isBuiltin {
			call.Fun = fun
		} else {
			fv := fmt.Sprintf("%sd%df", label, ndefer)
			declVar(fv, typeOfClone(fun))
			out = append(out, &ast.AssignStmt{Lhs: []ast.Expr{ast.NewIdent(fv)}, Tok: token.ASSIGN, Rhs: []ast.Expr{fun}})
			call.Fun = ast.NewIdent(fv)
		}
		for i, a := range d.Call.Args {
			av := fmt.Sprintf("%sd%da%d", label, ndefer, i)
			declVar(av, typeOfClone(a))
			out = append(out, &ast.AssignStmt{Lhs: []ast.Expr{ast.NewIdent(av)}, Tok: token.ASSIGN, Rhs: []ast.Expr{a}})
			call.Args = append(call.Args, ast.NewIdent(av))
		}
		if d.Call.Ellipsis.IsValid() && len(call.Args) > 0 {
			call.Ellipsis = 1
		}
		flag := fmt.Sprintf("%sd%dg", label, ndefer)
		declVar(flag, "bool")
		out = append(out, &ast.AssignStmt{Lhs: []ast.Expr{ast.NewIdent(flag)}, Tok: token.ASSIGN, Rhs: []ast.Expr{ast.NewIdent("true")}})
		active = append(active, &ast.IfStmt{Cond: ast.NewIdent(flag), Body: &ast.BlockStmt{List: []ast.Stmt{&ast.ExprStmt{X: call}}}})
		return out
	}
	captureDefer := func(d *ast.DeferStmt) []ast.Stmt {
		ndefer++
		var out []ast.Stmt
		call := &ast.CallExpr{}
		fun := d.Call.Fun
		isBuiltin := false
		if id, ok := fun.(*ast.Ident); ok {
			switch id.Name {
			case "close", "delete", "panic", "print", "println", "recover":
				isBuiltin = true
			}
		}
		if isBuiltin {
			call.Fun = fun
		} else {
			fv := fmt.Sprintf("%sd%df", label, ndefer)
			out = append(out, &ast.AssignStmt{Lhs: []ast.Expr{ast.NewIdent(fv)}, Tok: token.DEFINE, Rhs: []ast.Expr{fun}})
			out = append(out, &ast.AssignStmt{Lhs: []ast.Expr{ast.NewIdent("_")}, Tok: token.ASSIGN, Rhs: []ast.Expr{ast.NewIdent(fv)}})
			call.Fun = ast.NewIdent(fv)
		}
		for i, a := range d.Call.Args {
			av := fmt.Sprintf("%sd%da%d", label, ndefer, i)
			out = append(out, &ast.AssignStmt{Lhs: []ast.Expr{ast.NewIdent(av)}, Tok: token.DEFINE, Rhs: []ast.Expr{a}})
			out = append(out, &ast.AssignStmt{Lhs: []ast.Expr{ast.NewIdent("_")}, Tok: token.ASSIGN, Rhs: []ast.Expr{ast.NewIdent(av)}})
			call.Args = append(call.Args, ast.NewIdent(av))
		}
		if d.Call.Ellipsis.IsValid() && len(call.Args) > 0 {
			call.Ellipsis = 1
		}
		active = append(active, &ast.ExprStmt{X: call})
		return out
	}
	runDefers := func() []ast.Stmt {
		var out []ast.Stmt
		for i := len(active) - 1; i >= 0; i-- {
			out = append(out, active[i])
		}
		return out
	}
	var rewrite func(list *[]ast.Stmt, top bool)
	rewrite = func(list *[]ast.Stmt, top bool) {
		for i := 0; i < len(*list); i++ {
			st := (*list)[i]
			if d, isDefer := st.(*ast.DeferStmt); isDefer && mode != "tail" {
				var caps []ast.Stmt
				if top {
					caps = captureDefer(d)
				} else {
					caps = captureNested(d)
				}
				nl := append([]ast.Stmt{}, (*list)[:i]...)
				nl = append(nl, caps...)
				nl = append(nl, (*list)[i+1:]...)
				*list = nl
				i += len(caps) - 1
				continue
			}
			ret, isRet := st.(*ast.ReturnStmt)
			if !isRet {
				eachStmtList(st, func(l *[]ast.Stmt) { rewrite(l, false) })
				continue
			}
			if mode == "tail" {
				if len(ret.Results) == 0 && len(resNames) > 0 {
					ret.Results = idents(resNames)
				}
				continue
			}
			var repl []ast.Stmt
			targets := temps
			if th != nil {
				targets = th.lhs
			}
			if th != nil && th.whole != nil && th.boolIdx == 0 && len(targets) == 1 && len(ret.Results) == 1 && boolRet[ret] == 0 && len(active) == 0 {
				if st := splitCompare(th, ret); st != nil {
					repl = append(repl, st)
					if !(single && top && i == len(*list)-1) {
						repl = append(repl, &ast.BranchStmt{Tok: token.BREAK, Label: ast.NewIdent(label)})
						usedLabel = true
					}
					(*list)[i] = &ast.BlockStmt{List: repl}
					continue
				}
			}
			if len(targets) > 0 {
				rhs := ret.Results
				if len(rhs) == 0 {
					rhs = idents(resNames)
				}
				// a blank target takes no value: drop the pair when the value is a plain name or literal (`_ = nil` is not Go)
				var lhs2 []ast.Expr
				var rhs2 []ast.Expr
				if len(rhs) == len(targets) {
					for i, tname := range targets {
						if tname == "_" && syntacticallyPure(rhs[i]) {
							continue
						}
						lhs2 = append(lhs2, ast.NewIdent(tname))
						rhs2 = append(rhs2, rhs[i])
					}
				} else {
					lhs2, rhs2 = idents(targets), rhs
				}
				if len(lhs2) > 0 {
					repl = append(repl, &ast.AssignStmt{Lhs: lhs2, Tok: token.ASSIGN, Rhs: rhs2})
				}
			}
			repl = append(repl, runDefers()...)
			if th != nil && th.ret != nil {
				// the statement after the call is a return: it is made here, and nothing follows
				repl = append(repl, th.ret)
				(*list)[i] = &ast.BlockStmt{List: repl}
				continue
			}
			if th != nil && th.whole != nil {
				repl = append(repl, specialiseIf(th, ret, boolRet[ret], len(active) > 0)...)
			} else if th != nil && nonNilRet[ret] && len(active) == 0 {
				repl = append(repl, th.body) // the test `err != nil` is known to hold: the name was tested on the way here
			} else if th != nil && !nilRet[ret] {
				repl = append(repl, &ast.IfStmt{
					Cond: &ast.BinaryExpr{X: ast.NewIdent(th.cond), Op: token.NEQ, Y: ast.NewIdent("nil")},
					Body: th.body,
				})
			}
			if !(single && top && i == len(*list)-1) {
				repl = append(repl, &ast.BranchStmt{Tok: token.BREAK, Label: ast.NewIdent(label)})
				usedLabel = true
			}
			switch len(repl) {
			case 0:
				(*list)[i] = &ast.EmptyStmt{Implicit: false}
			case 1:
				(*list)[i] = repl[0]
			default:
				(*list)[i] = &ast.BlockStmt{List: repl}
			}
		}
	}
	rewrite(&body.List, true)
	if mode != "tail" && len(active) > 0 && !finalRet {
		body.List = append(body.List, runDefers()...) // falling off the end of a result-less callee
	}
	if !nestedOK {
		return "", false, fmt.Errorf("type of a deferred operand cannot be written")
	}
	if len(nestedDecls) > 0 {
		body.List = append(nestedDecls, body.List...)
	}
	var out bytes.Buffer
	for _, st := range body.List {
		if es, ok := st.(*ast.EmptyStmt); ok && !es.Implicit {
			continue
		}
		if err := printer.Fprint(&out, n.fset, st); err != nil {
			return "", false, err
		}
		out.WriteString("\n")
	}
	return out.String(), usedLabel, nil
}

func (n *normalizer) lineDirective(filename string, line int) string {
	return fmt.Sprintf("//line %s:%d\n", filename, line)
}

// pinLines maps every line of generated text to one source line (the call site's).
func (n *normalizer) pinLines(text, filename string, line int) string {
	if strings.Contains(text, "`") {
		return n.lineDirective(filename, line) + text
	}
	var sb strings.Builder
	for _, l := range strings.Split(strings.TrimRight(text, "\n"), "\n") {
		sb.WriteString(n.lineDirective(filename, line))
		sb.WriteString(l)
		sb.WriteString("\n")
	}
	return sb.String()
}

func (n *normalizer) inlineSite(filename string, s *site) (done bool) {
	fd := s.fd
	if fd == nil {
		return n.reject(s, 1)
	}
	savedImports := map[string]string{}
	for k, v := range n.imports[filename] {
		savedImports[k] = v
	}
	defer func() {
		if !done {
			n.imports[filename] = savedImports
		}
	}()
	call := s.call
	sig := s.sig
	nres := sig.Results().Len()
	// ---- statement form
	st := s.stmt
	var wrapIf *ast.IfStmt
	listCtx := isListParent(s.parent, st)
	var selStmt *ast.SelectStmt
	if cc, isComm := s.parent.(*ast.CommClause); isComm && cc.Comm == st {
		// a channel operand of a select case: all operands are evaluated once, in source order, on entering the select
		selStmt = n.selectHoist(s, cc)
		if selStmt == nil {
			return n.reject(s, 30)
		}
		listCtx = true
	}
	if !listCtx {
		pi, ok := s.parent.(*ast.IfStmt)
		switch {
		case ok && pi.Init == st:
			wrapIf = pi
		case ok && pi.Else == st:
			if _, isIf := st.(*ast.IfStmt); !isIf {
				return n.reject(s, 2)
			}
		default:
			return n.reject(s, 3)
		}
	}
	if is, ok := st.(*ast.IfStmt); ok {
		wrapIf = is
	}
	form := "nested"
	switch x := st.(type) {
	case *ast.ExprStmt:
		if x.X == ast.Expr(call) {
			form = "expr"
		}
	case *ast.AssignStmt:
		if len(x.Rhs) == 1 && x.Rhs[0] == ast.Expr(call) && (x.Tok == token.DEFINE || x.Tok == token.ASSIGN) && len(x.Lhs) == nres {
			form = "assign"
			for _, l := range x.Lhs {
				if !pureExpr(l, n.info) {
					return n.reject(s, 4)
				}
			}
		}
	case *ast.ReturnStmt:
		if len(x.Results) == 1 && x.Results[0] == ast.Expr(call) && wrapIf == nil {
			form = "return"
		}
	case *ast.GoStmt:
		// go f(a)  ==  { t := a; go func() { p := t; body }() }  (operands are evaluated by the spawning goroutine)
		if x.Call == call && listCtx {
			form = "go"
		}
	case *ast.DeferStmt:
		if x.Call == call && listCtx {
			form = "defer"
		}
	}
	spawn := form == "go" || form == "defer"
	if selStmt != nil {
		form = "nested"
	}
	if form == "nested" && selStmt != nil {
		if nres != 1 {
			return n.reject(s, 31)
		}
	} else if form == "nested" {
		if nres != 1 || !n.hoistable(st, call) {
			return n.reject(s, 5)
		}
		if len(n.hoistFirst) > 0 && wrapIf != nil {
			return n.reject(s, 35)
		}
	}
	var earlier []ast.Expr
	if form == "nested" && selStmt == nil {
		earlier = append(earlier, n.hoistFirst...)
	}
	if _, isLabeled := s.parent.(*ast.LabeledStmt); isLabeled {
		return n.reject(s, 6)
	}
	// ---- error-check threading
	var th *threadSpec
	var thIf *ast.IfStmt
	retForm := false
	if form == "assign" {
		as := st.(*ast.AssignStmt)
		if wrapIf != nil && wrapIf.Init == st {
			thIf = wrapIf
		} else if listCtx {
			if i2, ok := nextStmt(s.parent, st).(*ast.IfStmt); ok && i2.Init == nil {
				thIf = i2
			} else if r2, ok := nextStmt(s.parent, st).(*ast.ReturnStmt); ok && len(r2.Results) > 0 {
				// `x, err := f(…); return …err…`: the return is continued at every return of the callee, spelled as
				// `if true { return … }` so that the same machinery applies
				thIf = &ast.IfStmt{
					If:   r2.Pos(),
					Cond: ast.NewIdent("true"),
					Body: &ast.BlockStmt{Lbrace: r2.Pos(), List: []ast.Stmt{r2}, Rbrace: r2.End() - 1},
				}
				retForm = true
			}
		}
		if thIf != nil {
			th = n.threadable(as, thIf, retForm)
		}
		if th == nil {
			thIf = nil
		}
	}
	// ---- ranges that will be edited
	stStart, stEnd := n.off(st.Pos()), n.off(st.End())
	if selStmt != nil {
		stStart, stEnd = n.off(selStmt.Pos()), n.off(selStmt.End())
	}
	if th != nil {
		if thIf.Init == st {
			stStart = n.off(thIf.Pos())
		}
		stEnd = n.off(thIf.End())
		wrapIf = nil
	}
	if wrapIf != nil {
		if n.overlaps(filename, n.off(wrapIf.Pos()), n.off(wrapIf.Body.Lbrace)) || n.overlaps(filename, n.off(wrapIf.End()), n.off(wrapIf.End())) {
			return n.reject(s, 7)
		}
	}
	if selStmt != nil {
		if n.overlaps(filename, stStart, stStart) || n.overlaps(filename, n.off(call.Pos()), n.off(call.End())) || n.overlaps(filename, stEnd, stEnd) {
			return n.reject(s, 8)
		}
	} else if n.overlaps(filename, stStart, stEnd) {
		return n.reject(s, 8)
	}
	if !n.checkFreeNames(fd, s, filename) {
		return n.reject(s, 9)
	}
	n.counter++
	pfx := fmt.Sprintf("_inl%d", n.counter)
	var pre strings.Builder
	rename := map[types.Object]string{}
	if s.callee != nil {
		if gsig, ok := s.callee.Type().(*types.Signature); ok && gsig.TypeParams().Len() > 0 {
			inst, hasInst := n.info.Instances[s.id]
			if !hasInst || inst.TypeArgs == nil || inst.TypeArgs.Len() != gsig.TypeParams().Len() {
				return n.reject(s, 33)
			}
			for i := 0; i < gsig.TypeParams().Len(); i++ {
				tt, ok := n.typeText(inst.TypeArgs.At(i), s.file, filename)
				if !ok {
					return n.reject(s, 34)
				}
				rename[gsig.TypeParams().At(i).Obj()] = tt
			}
		}
		// a method of a generic type: the receiver's type parameters stand for the type arguments of the receiver at this site
		if gsig, ok := s.callee.Type().(*types.Signature); ok && gsig.RecvTypeParams().Len() > 0 {
			if s.recvInst == nil {
				return n.reject(s, 37)
			}
			rt := s.recvInst.Type()
			if p, isPtr := rt.(*types.Pointer); isPtr {
				rt = p.Elem()
			}
			named, isNamed := rt.(*types.Named)
			if !isNamed || named.TypeArgs().Len() != gsig.RecvTypeParams().Len() {
				return n.reject(s, 37)
			}
			for i := 0; i < gsig.RecvTypeParams().Len(); i++ {
				tt, ok := n.typeText(named.TypeArgs().At(i), s.file, filename)
				if !ok {
					return n.reject(s, 34)
				}
				rename[gsig.RecvTypeParams().At(i).Obj()] = tt
			}
		}
	}
	ast.Inspect(fd.Body, func(x ast.Node) bool {
		if ls, ok := x.(*ast.LabeledStmt); ok {
			if obj := n.info.Defs[ls.Label]; obj != nil {
				rename[obj] = pfx + "l_" + ls.Label.Name
			}
		}
		return true
	})
	if th != nil {
		used := map[string]bool{th.cond: true}
		for _, l := range th.lhs {
			used[l] = true
		}
		var scan ast.Node = th.body
		if th.whole != nil {
			scan = th.whole
		}
		ast.Inspect(scan, func(x ast.Node) bool {
			if id, ok := x.(*ast.Ident); ok {
				used[id.Name] = true
			}
			return true
		})
		ast.Inspect(fd, func(x ast.Node) bool {
			if id, ok := x.(*ast.Ident); ok {
				if obj := n.info.Defs[id]; obj != nil && used[id.Name] && id.Name != "_" {
					if _, isFn := obj.(*types.Func); !isFn {
						rename[obj] = pfx + "v_" + id.Name
					}
				}
			}
			return true
		})
	}
	nameOf := func(id *ast.Ident) string {
		if id == nil {
			return ""
		}
		if nm, ok := rename[n.info.Defs[id]]; ok {
			return nm
		}
		return id.Name
	}
	// ---- result temporaries
	tail := false
	if spawn {
		tail = true // the body becomes the body of a function literal: its returns stay returns
	}
	if form == "return" {
		er := n.enclResults(s.encl)
		if er != nil && er.Len() == nres {
			tail = true
			for i := 0; i < nres; i++ {
				if !types.Identical(er.At(i).Type(), sig.Results().At(i).Type()) {
					tail = false
				}
			}
		}
	}
	if n.hasDefer[fd] && !tail && !n.simpleDefers(fd) {
		return n.reject(s, 10) // deferred calls of the callee would run later than they do now
	}
	var temps []string
	if th != nil {
		as := st.(*ast.AssignStmt)
		if thIf.Init == st {
			pre.WriteString("{\n")
		}
		for i, l := range as.Lhs {
			id := l.(*ast.Ident)
			if id.Name != "_" && (as.Tok != token.DEFINE || n.info.Defs[id] == nil) {
				// an existing variable: it may lose its last read when the test after the call is specialised
				fmt.Fprintf(&pre, "_ = %s\n", id.Name)
			}
			if id.Name == "_" || as.Tok != token.DEFINE || n.info.Defs[id] == nil {
				continue
			}
			tt, ok := n.typeText(sig.Results().At(i).Type(), s.file, filename)
			if !ok {
				return n.reject(s, 11)
			}
			fmt.Fprintf(&pre, "var %s %s\n_ = %s\n", id.Name, tt, id.Name)
		}
	}
	if !tail && th == nil {
		for i := 0; i < nres; i++ {
			tt, ok := n.typeText(sig.Results().At(i).Type(), s.file, filename)
			if !ok {
				return n.reject(s, 12)
			}
			t := fmt.Sprintf("%sr%d", pfx, i)
			temps = append(temps, t)
			fmt.Fprintf(&pre, "var %s %s\n_ = %s\n", t, tt, t)
		}
	}
	pre.WriteString("{\n")
	// ---- receiver and arguments
	type bind struct{ name, temp string }
	var binds []bind
	if sig.Recv() != nil {
		sel, ok := ast.Unparen(call.Fun).(*ast.SelectorExpr)
		if !ok {
			return n.reject(s, 13)
		}
		if selection := n.info.Selections[sel]; selection == nil || len(selection.Index()) != 1 {
			return n.reject(s, 14)
		}
		rtxt := n.src(filename, sel.X.Pos(), sel.X.End())
		at := n.info.TypeOf(sel.X)
		_, recvPtr := sig.Recv().Type().(*types.Pointer)
		_, argPtr := at.Underlying().(*types.Pointer)
		if _, isNamedPtr := at.(*types.Pointer); isNamedPtr {
			argPtr = true
		}
		switch {
		case recvPtr && !argPtr:
			rtxt = "&(" + rtxt + ")"
		case !recvPtr && argPtr:
			rtxt = "*(" + rtxt + ")"
		}
		rname := ""
		if fd.Recv != nil && len(fd.Recv.List) == 1 && len(fd.Recv.List[0].Names) == 1 {
			rname = nameOf(fd.Recv.List[0].Names[0])
		}
		t := pfx + "recv"
		fmt.Fprintf(&pre, "%s := %s\n_ = %s\n", t, rtxt, t)
		if rname != "" && rname != "_" {
			binds = append(binds, bind{rname, t})
		}
	}
	var pnames []string
	for _, id := range fieldIdents(fd.Type.Params) {
		pnames = append(pnames, nameOf(id))
	}
	np := sig.Params().Len()
	if len(pnames) != np {
		return n.reject(s, 15)
	}
	args := call.Args
	if tv, ok := n.info.Types[firstOrNil(args)]; ok && len(args) == 1 {
		if _, isTuple := tv.Type.(*types.Tuple); isTuple {
			return n.reject(s, 16) // f(g()) with a tuple-valued g
		}
	}
	for i := 0; i < np; i++ {
		pt := sig.Params().At(i).Type()
		t := fmt.Sprintf("%sa%d", pfx, i)
		variadic := sig.Variadic() && i == np-1
		if variadic && !call.Ellipsis.IsValid() {
			tt, ok := n.typeText(pt, s.file, filename)
			if !ok {
				return n.reject(s, 17)
			}
			var elems []string
			for _, a := range args[i:] {
				elems = append(elems, n.src(filename, a.Pos(), a.End()))
			}
			if len(elems) == 0 {
				fmt.Fprintf(&pre, "var %s %s\n_ = %s\n", t, tt, t)
			} else {
				fmt.Fprintf(&pre, "var %s %s = %s{%s}\n_ = %s\n", t, tt, tt, strings.Join(elems, ", "), t)
			}
		} else {
			if i >= len(args) {
				return n.reject(s, 18)
			}
			a := args[i]
			tv, ok := n.info.Types[a]
			if !ok {
				return n.reject(s, 19)
			}
			if _, isTuple := tv.Type.(*types.Tuple); isTuple {
				return n.reject(s, 20)
			}
			atxt := n.src(filename, a.Pos(), a.End())
			typed := tv.IsNil() || !types.Identical(tv.Type, pt)
			if b, isB := tv.Type.(*types.Basic); isB && b.Info()&types.IsUntyped != 0 {
				typed = true
			}
			if tv.Value != nil {
				typed = true // a constant expression: `:=` would give it its default type
			}
			if _, isLit := ast.Unparen(a).(*ast.FuncLit); isLit {
				typed = true // so that the literal can be replaced by nil once its calls are inlined
			}
			if typed && !n.noConcrete && !tv.IsNil() && types.IsInterface(pt) && !types.Identical(tv.Type, pt) {
				if b, isB := tv.Type.(*types.Basic); !isB || b.Info()&types.IsUntyped == 0 {
					if pid := fieldIdents(fd.Type.Params)[i]; pid != nil && n.paramOnlyCalled(fd, pid) {
						typed = false // keep the argument's own type: method calls on it stay resolvable
					}
				}
			}
			if typed {
				tt, ok := n.typeText(pt, s.file, filename)
				if !ok {
					return n.reject(s, 21)
				}
				fmt.Fprintf(&pre, "var %s %s = %s\n_ = %s\n", t, tt, atxt, t)
			} else {
				fmt.Fprintf(&pre, "%s := %s\n_ = %s\n", t, atxt, t)
			}
		}
		if pnames[i] != "" && pnames[i] != "_" {
			binds = append(binds, bind{pnames[i], t})
		}
	}
	if !sig.Variadic() && len(args) != np {
		return n.reject(s, 22)
	}
	// ---- inner block: parameters, named results, body
	if spawn {
		var rts []string
		for i := 0; i < nres; i++ {
			tt, ok := n.typeText(sig.Results().At(i).Type(), s.file, filename)
			if !ok {
				return n.reject(s, 32)
			}
			rts = append(rts, tt)
		}
		res := ""
		if len(rts) > 0 {
			res = " (" + strings.Join(rts, ", ") + ")"
		}
		fmt.Fprintf(&pre, "%s func()%s {\n", form, res)
	} else {
		pre.WriteString("{\n")
	}
	for _, b := range binds {
		fmt.Fprintf(&pre, "%s := %s\n_ = %s\n", b.name, b.temp, b.name)
	}
	var rnames []string
	for _, id := range fieldIdents(fd.Type.Results) {
		rnames = append(rnames, nameOf(id))
	}
	named := len(rnames) > 0 && rnames[0] != ""
	var resNames []string
	if named {
		for i, rn := range rnames {
			if rn == "_" {
				rn = fmt.Sprintf("%sn%d", pfx, i)
			}
			tt, ok := n.typeText(sig.Results().At(i).Type(), s.file, filename)
			if !ok {
				return n.reject(s, 23)
			}
			fmt.Fprintf(&pre, "var %s %s\n_ = %s\n", rn, tt, rn)
			resNames = append(resNames, rn)
		}
	}
	label := pfx + "L"
	mode := "assign"
	if tail {
		mode = "tail"
	}
	if th != nil {
		mode = "thread"
	}
	n.curTypeText = func(t types.Type) (string, bool) { return n.typeText(t, s.file, filename) }
	body, usedLabel, err := n.bodyText(fd, mode, temps, resNames, label, rename, th)
	n.curTypeText = nil
	if err != nil {
		return n.reject(s, 24)
	}
	if usedLabel {
		fmt.Fprintf(&pre, "%s:\nswitch {\ndefault:\n", label)
	}
	pre.WriteString(body)
	if usedLabel {
		pre.WriteString("}\n")
	}
	if spawn {
		pre.WriteString("}()\n}\n")
	} else {
		pre.WriteString("}\n}\n")
	}
	// ---- what replaces the statement
	line := n.fset.Position(st.Pos()).Line
	endLine := n.fset.Position(st.End()).Line
	resync := func(l int) string { return "\n" + n.lineDirective(filename, l) }
	var post string
	switch form {
	case "expr":
		for _, t := range temps {
			post += "_ = " + t + "\n"
		}
	case "assign":
		as := st.(*ast.AssignStmt)
		lhs := n.src(filename, as.Lhs[0].Pos(), as.Lhs[len(as.Lhs)-1].End())
		post = lhs + " " + as.Tok.String() + " " + strings.Join(temps, ", ") + "\n"
	case "return":
		if !tail {
			post = "return " + strings.Join(temps, ", ") + "\n"
		}
	}
	note := fmt.Sprintf("inlined %s at %s:%d (%s)", s.calleeName(), filepath.Base(filename), line, form)
	if th != nil {
		note = fmt.Sprintf("inlined %s at %s:%d (assign + error test threaded through each return)", s.calleeName(), filepath.Base(filename), line)
		gen := pre.String()
		if thIf.Init == st {
			gen += "}\n"
		}
		n.addEdit(filename, stStart, stEnd, "\n"+n.pinLines(gen, filename, line)+n.lineDirective(filename, n.fset.Position(thIf.End()).Line))
		n.keepAlive(s)
		n.notes = append(n.notes, note)
		return true
	}
	switch {
	case wrapIf != nil && wrapIf.Init == st:
		// if INIT; COND {…}  =>  { GEN; if COND {…} }
		gen := pre.String() + post
		if form == "nested" {
			gen = pre.String()
		}
		n.addEdit(filename, n.off(wrapIf.Pos()), n.off(wrapIf.Pos()), "{\n"+n.pinLines(gen, filename, line)+n.lineDirective(filename, line))
		if form == "nested" {
			n.addEdit(filename, n.off(call.Pos()), n.off(call.End()), temps[0])
		} else {
			n.addEdit(filename, stStart, n.off(wrapIf.Cond.Pos()), "")
		}
		n.addEdit(filename, n.off(wrapIf.End()), n.off(wrapIf.End()), "\n}"+resync(n.fset.Position(wrapIf.End()).Line))
	case wrapIf != nil:
		// call nested in the condition of an if without Init
		n.addEdit(filename, n.off(wrapIf.Pos()), n.off(wrapIf.Pos()), "{\n"+n.pinLines(pre.String(), filename, line)+n.lineDirective(filename, line))
		n.addEdit(filename, n.off(call.Pos()), n.off(call.End()), temps[0])
		n.addEdit(filename, n.off(wrapIf.End()), n.off(wrapIf.End()), "\n}"+resync(n.fset.Position(wrapIf.End()).Line))
	case form == "nested":
		var first strings.Builder
		for i, e := range earlier {
			if n.overlaps(filename, n.off(e.Pos()), n.off(e.End())) {
				return n.reject(s, 36)
			}
			t := fmt.Sprintf("%sh%d", pfx, i)
			fmt.Fprintf(&first, "%s := %s\n_ = %s\n", t, n.src(filename, e.Pos(), e.End()), t)
		}
		for i, e := range earlier {
			n.addEdit(filename, n.off(e.Pos()), n.off(e.End()), fmt.Sprintf("%sh%d", pfx, i))
		}
		n.addEdit(filename, stStart, stStart, "\n"+n.pinLines(first.String()+pre.String(), filename, line)+n.lineDirective(filename, line))
		n.addEdit(filename, n.off(call.Pos()), n.off(call.End()), temps[0])
		n.addEdit(filename, stEnd, stEnd, resync(endLine))
	default:
		n.addEdit(filename, stStart, stEnd, "\n"+n.pinLines(pre.String()+post, filename, line)+n.lineDirective(filename, endLine))
	}
	n.keepAlive(s)
	n.notes = append(n.notes, note)
	return true
}

// keepAlive: once the calls of a user-declared closure variable are inlined the variable may be left unused, which does
// not compile: a `_ = f` is put right after its definition (once).
func (n *normalizer) keepAlive(s *site) {
	if s.lit == nil {
		return
	}
	for obj := range s.chain {
		if strings.HasPrefix(obj.Name(), "_inl") || n.keptAlive[obj] {
			continue
		}
		d, ok := n.varDefNode[obj].(*ast.AssignStmt)
		if !ok {
			continue
		}
		fn := n.fset.File(d.Pos()).Name()
		if n.overlaps(fn, n.off(d.End()), n.off(d.End())) {
			continue
		}
		if n.keptAlive == nil {
			n.keptAlive = map[types.Object]bool{}
		}
		n.keptAlive[obj] = true
		n.addEdit(fn, n.off(d.End()), n.off(d.End()), "\n_ = "+obj.Name()+"\n"+n.lineDirective(fn, n.fset.Position(d.End()).Line))
	}
}

// deleteRound removes new functions that are no longer referenced.
func (n *normalizer) deleteRound() bool {
	used := map[types.Object]bool{}
	for _, obj := range n.info.Uses {
		used[obj] = true
		if fn, ok := obj.(*types.Func); ok {
			used[fn.Origin()] = true // a method of an instantiated generic type
		}
	}
	changed := false
	type rng struct{ a, b token.Pos }
	deleted := map[*ast.File][]rng{}
	for fn := range n.newFns {
		if used[fn] {
			if os.Getenv("MQTTCHECK_DEBUG_NORM") != "" {
				for id, obj := range n.info.Uses {
					if obj == types.Object(fn) {
						fmt.Fprintf(os.Stderr, "normalise: helper %s still referenced at %s\n", funcKeyOf(fn), n.fset.Position(id.Pos()))
						break
					}
				}
			}
			continue
		}
		fd := n.decls[fn]
		f := n.fileOf[fd]
		filename := n.fset.File(f.Pos()).Name()
		start := fd.Pos()
		if fd.Doc != nil {
			start = fd.Doc.Pos()
		}
		if n.overlaps(filename, n.off(start), n.off(fd.End())) {
			continue
		}
		n.addEdit(filename, n.off(start), n.off(fd.End()), "\n"+n.lineDirective(filename, n.fset.Position(fd.End()).Line))
		n.notes = append(n.notes, fmt.Sprintf("removed unreferenced helper %s", funcKeyOf(fn)))
		deleted[f] = append(deleted[f], rng{start, fd.End()})
		changed = true
	}
	if n.deleteTables(used) {
		changed = true
	}
	// imports that lose their last use
	for f, rs := range deleted {
		filename := n.fset.File(f.Pos()).Name()
		inDeleted := func(p token.Pos) bool {
			for _, r := range rs {
				if r.a <= p && p < r.b {
					return true
				}
			}
			return false
		}
		live := map[*types.PkgName]bool{}
		ast.Inspect(f, func(x ast.Node) bool {
			if id, ok := x.(*ast.Ident); ok && !inDeleted(id.Pos()) {
				if pn, ok := n.info.Uses[id].(*types.PkgName); ok {
					live[pn] = true
				}
			}
			return true
		})
		for _, imp := range f.Imports {
			if imp.Name != nil && (imp.Name.Name == "_" || imp.Name.Name == ".") {
				continue
			}
			var pn *types.PkgName
			if imp.Name != nil {
				pn, _ = n.info.Defs[imp.Name].(*types.PkgName)
			} else {
				pn, _ = n.info.Implicits[imp].(*types.PkgName)
			}
			if pn == nil || live[pn] {
				continue
			}
			if imp.Name != nil {
				n.addEdit(filename, n.off(imp.Name.Pos()), n.off(imp.Name.End()), "_")
			} else {
				n.addEdit(filename, n.off(imp.Path.Pos()), n.off(imp.Path.Pos()), "_ ")
			}
		}
	}
	return changed
}

// apply rewrites the overlay with the collected edits and import additions.
func (n *normalizer) apply() error {
	files := map[string]bool{}
	for f := range n.edits {
		files[f] = true
	}
	for f := range n.imports {
		files[f] = true
	}
	for filename := range files {
		src := n.content(filename)
		eds := n.edits[filename]
		// import additions: right after the last import declaration (or the package clause)
		if imps := n.imports[filename]; len(imps) > 0 {
			var af *ast.File
			for _, f := range n.pp.Syntax {
				if n.fset.File(f.Pos()).Name() == filename {
					af = f
				}
			}
			if af == nil {
				return fmt.Errorf("no syntax for %s", filename)
			}
			at := af.Name.End()
			for _, d := range af.Decls {
				if gd, ok := d.(*ast.GenDecl); ok && gd.Tok == token.IMPORT {
					at = gd.End()
				}
			}
			var paths []string
			for p := range imps {
				paths = append(paths, p)
			}
			sort.Strings(paths)
			var sb strings.Builder
			for _, p := range paths {
				fmt.Fprintf(&sb, "\nimport %s %q", imps[p], p)
			}
			sb.WriteString("\n" + n.lineDirective(filename, n.fset.Position(at).Line))
			n.seq++
			eds = append(eds, textEdit{n.off(at), n.off(at), sb.String(), n.seq})
		}
		sort.SliceStable(eds, func(i, j int) bool {
			if eds[i].start != eds[j].start {
				return eds[i].start < eds[j].start
			}
			if (eds[i].start == eds[i].end) != (eds[j].start == eds[j].end) {
				return eds[i].start == eds[i].end // insertions before replacements at the same offset
			}
			return eds[i].seq < eds[j].seq
		})
		var out bytes.Buffer
		pos := 0
		for _, e := range eds {
			if e.start < pos {
				return fmt.Errorf("overlapping edits in %s", filepath.Base(filename))
			}
			out.Write(src[pos:e.start])
			out.WriteString(e.text)
			pos = e.end
		}
		out.Write(src[pos:])
		n.overlay[filename] = out.Bytes()
	}
	return nil
}

// packetReadLike: results (packetType, byte, []byte, error) — the role of readPacket.
func packetReadLike(fn *types.Func) bool {
	sig, ok := fn.Type().(*types.Signature)
	if !ok || sig.Results().Len() != 4 {
		return false
	}
	r := sig.Results()
	n0, ok := r.At(0).Type().(*types.Named)
	if !ok || n0.Obj().Name() != "packetType" {
		return false
	}
	if b, ok := r.At(1).Type().(*types.Basic); !ok || b.Kind() != types.Uint8 {
		return false
	}
	sl, ok := r.At(2).Type().(*types.Slice)
	if !ok {
		return false
	}
	if b, ok := sl.Elem().(*types.Basic); !ok || b.Kind() != types.Uint8 {
		return false
	}
	return r.At(3).Type().String() == "error"
}

// specialiseIf: the continuation `if t {A} else {B}` / `if !t {A} else {B}` at a return whose value for t is known to be
// a constant (only the branch taken remains) or a comparison (tested directly, negated if need be).
func specialiseIf(th *threadSpec, ret *ast.ReturnStmt, known int, deferredRan bool) []ast.Stmt {
	whole := th.whole
	if th.boolIdx < 0 || th.boolIdx >= len(ret.Results) {
		return []ast.Stmt{whole}
	}
	if known == 0 && deferredRan {
		return []ast.Stmt{whole} // deferred calls of the callee run between the evaluation of the result and the test
	}
	if known != 0 {
		taken := (known == 1) != th.boolNeg
		if taken {
			return []ast.Stmt{whole.Body}
		}
		if whole.Else != nil {
			return []ast.Stmt{whole.Else}
		}
		return nil
	}
	e := ast.Unparen(ret.Results[th.boolIdx])
	neg := th.boolNeg
	for {
		ue, ok := e.(*ast.UnaryExpr)
		if !ok || ue.Op != token.NOT {
			break
		}
		e, neg = ast.Unparen(ue.X), !neg
	}
	if id, isId := e.(*ast.Ident); isId && !deferredRan {
		// a boolean variable (`return !ok`): tested directly
		var cond ast.Expr = id
		if neg {
			cond = &ast.UnaryExpr{Op: token.NOT, X: id}
		}
		return []ast.Stmt{&ast.IfStmt{Cond: cond, Body: whole.Body, Else: whole.Else}}
	}
	be, ok := e.(*ast.BinaryExpr)
	if !ok {
		return []ast.Stmt{whole}
	}
	op := be.Op
	if neg {
		switch be.Op {
		case token.EQL:
			op = token.NEQ
		case token.NEQ:
			op = token.EQL
		case token.LSS:
			op = token.GEQ
		case token.GEQ:
			op = token.LSS
		case token.GTR:
			op = token.LEQ
		case token.LEQ:
			op = token.GTR
		default:
			return []ast.Stmt{whole}
		}
	} else {
		switch be.Op {
		case token.EQL, token.NEQ, token.LSS, token.GEQ, token.GTR, token.LEQ:
		default:
			return []ast.Stmt{whole}
		}
	}
	// the operands were evaluated by the assignment just before; evaluating them again is the same only if they are pure
	if !syntacticallyPure(be.X) || !syntacticallyPure(be.Y) {
		return []ast.Stmt{whole}
	}
	return []ast.Stmt{&ast.IfStmt{Cond: &ast.BinaryExpr{X: be.X, Op: op, Y: be.Y}, Body: whole.Body, Else: whole.Else}}
}

// syntacticallyPure: evaluating e a second time, right after the first, gives the same value: names and literals only (a
// field or pointer read could see a store made in between by a deferred call of the callee).
func syntacticallyPure(e ast.Expr) bool {
	switch x := e.(type) {
	case *ast.Ident, *ast.BasicLit:
		return true
	case *ast.ParenExpr:
		return syntacticallyPure(x.X)
	}
	return false
}

// splitCompare: `return a OP b` continued by `if t {A} else {B}` / `if !t {A} else {B}` (t the only target):
// `if a OP' b { t = …; A } else { t = …; B }` — the comparison is evaluated once, as before, and decides the branch itself.
func splitCompare(th *threadSpec, ret *ast.ReturnStmt) ast.Stmt {
	e := ast.Unparen(ret.Results[0])
	neg := th.boolNeg
	val := true // value of t when the emitted comparison holds
	for {
		ue, ok := e.(*ast.UnaryExpr)
		if !ok || ue.Op != token.NOT {
			break
		}
		e, neg, val = ast.Unparen(ue.X), !neg, !val
	}
	be, ok := e.(*ast.BinaryExpr)
	if !ok {
		return nil
	}
	switch be.Op {
	case token.EQL, token.NEQ, token.LSS, token.GEQ, token.GTR, token.LEQ:
	default:
		return nil
	}
	tname := th.lhs[0]
	assign := func(v bool) ast.Stmt {
		name := "false"
		if v {
			name = "true"
		}
		return &ast.AssignStmt{Lhs: []ast.Expr{ast.NewIdent(tname)}, Tok: token.ASSIGN, Rhs: []ast.Expr{ast.NewIdent(name)}}
	}
	if tname == "_" {
		assign = func(bool) ast.Stmt { return &ast.EmptyStmt{Implicit: true} }
	}
	whole := th.whole
	block := func(first ast.Stmt, rest ast.Stmt) *ast.BlockStmt {
		b := &ast.BlockStmt{List: []ast.Stmt{first}}
		if rest != nil {
			b.List = append(b.List, rest)
		}
		return b
	}
	// the comparison holds: t == val; the original test `t` (neg: `!t`) is then val != neg
	var thenB, elseB *ast.BlockStmt
	if val != neg {
		thenB, elseB = block(assign(val), whole.Body), block(assign(!val), whole.Else)
	} else {
		thenB, elseB = block(assign(val), whole.Else), block(assign(!val), whole.Body)
	}
	return &ast.IfStmt{Cond: &ast.BinaryExpr{X: be.X, Op: be.Op, Y: be.Y}, Body: thenB, Else: elseB}
}

// funcValueUses: the package's functions and methods whose value is taken somewhere (f or x.m outside call position),
// not counting the entries of package-level function tables (those are expanded into direct calls by tableRound).
func (n *normalizer) funcValueUses() map[*types.Func]bool {
	out := map[*types.Func]bool{}
	for _, f := range n.pp.Syntax {
		var stack []ast.Node
		ast.Inspect(f, func(x ast.Node) bool {
			if x == nil {
				stack = stack[:len(stack)-1]
				return true
			}
			stack = append(stack, x)
			id, ok := x.(*ast.Ident)
			if !ok {
				return true
			}
			fn, ok := n.info.Uses[id].(*types.Func)
			if !ok || fn.Pkg() != n.pp.Types {
				return true
			}
			// the expression denoting the function: id, or sel with id as Sel
			var expr ast.Expr = id
			i := len(stack) - 2
			if i >= 0 {
				if sel, isSel := stack[i].(*ast.SelectorExpr); isSel && sel.Sel == id {
					expr = sel
					i--
				}
			}
			for i >= 0 {
				if p, isParen := stack[i].(*ast.ParenExpr); isParen {
					expr = p
					i--
					continue
				}
				// explicit instantiation of a generic function: f[T](…)
				if ix, isIx := stack[i].(*ast.IndexExpr); isIx && ix.X == expr {
					expr = ix
					i--
					continue
				}
				if ix, isIx := stack[i].(*ast.IndexListExpr); isIx && ix.X == expr {
					expr = ix
					i--
					continue
				}
				break
			}
			if i >= 0 {
				if call, isCall := stack[i].(*ast.CallExpr); isCall && call.Fun == expr {
					return true
				}
			}
			// inside the literal of a package-level variable (a function table)?
			inTable := false
			for j := range stack {
				if gd, isGD := stack[j].(*ast.GenDecl); isGD && gd.Tok == token.VAR && j == 1 {
					inTable = true
				}
			}
			if !inTable {
				out[fn] = true
			}
			return true
		})
	}
	return out
}

// requestCtxLike: results (context.Context, func()) — the role of (*RetryClient).requestContext.
func requestCtxLike(fn *types.Func) bool {
	sig, ok := fn.Type().(*types.Signature)
	if !ok || sig.Results().Len() != 2 || sig.Params().Len() == 0 {
		return false
	}
	if types.TypeString(sig.Results().At(0).Type(), nil) != "context.Context" {
		return false
	}
	r1, ok := sig.Results().At(1).Type().Underlying().(*types.Signature)
	if !ok || r1.Params().Len() != 0 || r1.Results().Len() != 0 {
		return false
	}
	for i := 0; i < sig.Params().Len(); i++ {
		if types.TypeString(sig.Params().At(i).Type(), nil) == "context.Context" {
			return true
		}
	}
	return false
}

// usedLike: fn is mentioned from at least one of the places the reference function headKey was mentioned from (or that
// function was mentioned from nowhere inside the package): what a rename looks like, as opposed to a new function that
// happens to have the signature of a removed one.
func (n *normalizer) usedLike(fn *types.Func, headKey string) bool {
	was := headCallers[headKey]
	if len(was) == 0 {
		return true
	}
	wasSet := map[string]bool{}
	for _, w := range was {
		wasSet[w] = true
	}
	hit := false
	for _, f := range n.pp.Syntax {
		for _, d := range f.Decls {
			fd, ok := d.(*ast.FuncDecl)
			if !ok || fd.Body == nil {
				continue
			}
			top, _ := n.info.Defs[fd.Name].(*types.Func)
			if top == nil {
				continue
			}
			if tk := funcKeyOf(top); !wasSet[tk] {
				// the caller may have been renamed as well: a function the reference tree does not have, with the signature
				// and receiver of a former caller that is gone
				if _, known := headFuncs[tk]; known {
					continue
				}
				tsig := sigOfTypes(top.Type().(*types.Signature))
				trecv := ""
				if i := strings.Index(tk, "."); i >= 0 {
					trecv = tk[:i]
				}
				renamedCaller := false
				for _, w := range was {
					wrecv := ""
					if i := strings.Index(w, "."); i >= 0 {
						wrecv = w[:i]
					}
					if !n.present[w] && headFuncs[w] == tsig && wrecv == trecv {
						renamedCaller = true
					}
				}
				if !renamedCaller {
					continue
				}
			}
			ast.Inspect(fd.Body, func(x ast.Node) bool {
				if id, ok := x.(*ast.Ident); ok && n.info.Uses[id] == types.Object(fn) {
					hit = true
				}
				return !hit
			})
		}
	}
	return hit
}
