package main

import (
	"fmt"
	"go/token"
	"go/types"

	"golang.org/x/tools/go/ssa"
)

func init() {
	register("C09", "Decided: the shape of the reconnect loop, which fixes the sequence of dial / connect / close / wait operations and the dataflow of the back-off value on every path. R-C09-1 the waited value starts at ReconnectWaitBase, is reset to it only on the success edge of Connect, every way round the loop passes the wait whose timer operand is the current value, and the value carried round is a growth by a constant factor >= 2 of the waited value (optionally clamped to ReconnectWaitMax when it exceeds it); R-C09-2 on every path from a successful dial to the next dial the client is closed and its Done() awaited; R-C09-3 every wait of the loop has returning cases on `disconnected` and ctx.Done(), done is closed by a deferred call, Disconnect closes `disconnected` before it disconnects and waits (observing its context), and the loop context is replaced only by context.Background() inside the once-only success block; R-C09-4 a connection that ended with a nil Err() is not redialled; R-C09-5 one CONNECT per connection with the caller's client id and options; R-C09-6 a failed ping makes KeepAlive return a non-nil error, the keep-alive goroutine closes the connection it watched and that connection then reports a non-nil Err(); R-C09-7 the loop returns only behind its context being done, `disconnected`, or a graceful end (every path from entry to a return takes one of those edges). Not decided: elapsed time, races between Disconnect and a dial in progress.", checkC09)
	register("C08", "Whole property (set equality at a broker at quiescence for all call histories and cut placements) depends on slice contents manipulated by index arithmetic and is NOT decided. Decided: the three configuration clauses of the statement. R-C08-1 the resubscribe decision, as a boolean function of (had a successful connection before, session present in this CONNACK, AlwaysResubscribe), equals initialized AND (NOT sessionPresent OR always) on all 8 rows (evaluated from the branch structure, so any equivalent rewriting passes); R-C08-2 'initialized' starts false, is only ever set to true, and only after the resubscribe decision of that iteration; R-C08-4 the order of subscribe/unsubscribe requests survives queuing and retransmission (queue-behind, ordered re-queue in Retry, Resubscribe before Retry); R-C08-3 what is re-subscribed is the client's current view: Resubscribe issues every element of a snapshot of the established list through the queued subscribe path and resets the list; the subscribe/unsubscribe request closures apply their change to the list before issuing the request, and nothing else writes it.", checkC08)
}

// leavesOf follows phis backwards and returns the non-phi leaves with the phi edge (pred block) through which each enters.
type phiLeaf struct {
	V    ssa.Value
	Pred *ssa.BasicBlock // predecessor block of the phi edge carrying the leaf
}

func phiLeaves(v ssa.Value, stop map[ssa.Value]bool) []phiLeaf {
	var out []phiLeaf
	seen := map[ssa.Value]bool{}
	var walk func(v ssa.Value, pred *ssa.BasicBlock)
	walk = func(v ssa.Value, pred *ssa.BasicBlock) {
		phi, ok := v.(*ssa.Phi)
		if !ok || stop[v] {
			out = append(out, phiLeaf{v, pred})
			return
		}
		if seen[v] {
			return
		}
		seen[v] = true
		for i, e := range phi.Edges {
			walk(e, phi.Block().Preds[i])
		}
	}
	walk(v, nil)
	return out
}

func checkC09(r *Run) {
	c := r.C
	r1 := r.Rule("R-C09-1", "back-off dataflow: starts at Base, reset to Base only on the success edge of Connect, every loop round passes the wait on the current value, carried value = growth (factor >= 2) of the waited value, clamped to Max only when it exceeds Max")
	r2 := r.Rule("R-C09-2", "one transport at a time: Close(cli) then <-cli.Done() on every path from a successful dial to the next dial")
	r3 := r.Rule("R-C09-3", "stop conditions: every loop wait has returning `disconnected` and ctx.Done() cases; close(done) deferred; Disconnect: close(disconnected) -> RetryClient.Disconnect -> select{done, ctx.Done()}")
	r4 := r.Rule("R-C09-4", "graceful end (Err() == nil after Done()) returns instead of redialling")
	r5 := r.Rule("R-C09-5", "exactly one CONNECT per dialled connection, carrying the caller's client id and options")
	r6 := r.Rule("R-C09-6", "a keep-alive failure makes the loop come round: KeepAlive classifies a timeout as a non-nil error and the keep-alive goroutine closes the watched connection")
	r7 := r.Rule("R-C09-7", "the loop stops only on request: every return lies behind ctx done, `disconnected`, or a graceful end (Err() == nil)")
	m, why := c.reconnModel()
	if m == nil {
		r1.Lost("reconnect-loop", "%s", why)
		return
	}
	f := m.F
	key := FuncName(f)
	// ---- R-C09-1
	if m.After == nil || m.WaitSel == nil {
		r1.Bad(key+"/wait", m.Dial.Pos(), "the reconnect loop has no timed wait (time.After) before redialling")
	} else {
		waited := m.After.Call.Args[0]
		// the loop-carried phi: the phi in the block of the Dial (or dominating header) among the leaves of `waited`
		var header *ssa.Phi
		for _, in := range m.Dial.Block().Instrs {
			if phi, ok := in.(*ssa.Phi); ok && types.TypeString(phi.Type(), nil) == "time.Duration" {
				header = phi
			}
		}
		isLoopHeader := func(b *ssa.BasicBlock) bool {
			back, entry := false, false
			for _, p := range b.Preds {
				if b.Dominates(p) {
					back = true
				} else {
					entry = true
				}
			}
			return back && entry
		}
		if header != nil && !isLoopHeader(header.Block()) {
			header = nil
		}
		if header == nil {
			// a duration phi at the head of a loop around the dial (the dial need not be the first thing the loop does)
			for _, b := range f.Blocks {
				if !isLoopHeader(b) || !b.Dominates(m.Dial.Block()) {
					continue
				}
				for _, in := range b.Instrs {
					if phi, ok := in.(*ssa.Phi); ok && types.TypeString(phi.Type(), nil) == "time.Duration" {
						header = phi
					}
				}
			}
		}
		if header == nil {
			r1.Bad(key+"/carried", m.After.Pos(), "the wait duration is not carried from one iteration to the next (no loop-carried value): consecutive failures do not back off")
		} else {
			// (a)+(b): leaves of the waited value
			isBase := func(v ssa.Value) bool {
				_, ok := isFieldLoad(c.Resolve(v), "ReconnectOptions", "ReconnectWaitBase")
				return ok
			}
			onSuccess := func(in ssa.Instruction) bool {
				for _, e := range m.ConnOK {
					if DominatedByEdge(f, in, e.B, e.K, PathQ{}) {
						return true
					}
				}
				return false
			}
			lastOf := func(b *ssa.BasicBlock) ssa.Instruction {
				if b == nil || len(b.Instrs) == 0 {
					return nil
				}
				return b.Instrs[len(b.Instrs)-1]
			}
			okLeaves := true
			for _, lf := range phiLeaves(waited, map[ssa.Value]bool{header: true}) {
				switch {
				case lf.V == ssa.Value(header):
				case isBase(lf.V):
					// reset: only on the success edge of Connect — either the load itself sits there, or the value
					// (loaded earlier) enters the waited value through a phi edge that lies there
					in, _ := lf.V.(ssa.Instruction)
					if (in != nil && onSuccess(in)) || (lastOf(lf.Pred) != nil && onSuccess(lastOf(lf.Pred))) {
						continue
					}
					okLeaves = false
					pos := m.After.Pos()
					if in != nil {
						pos = in.Pos()
					}
					r1.Bad(key+"/reset", pos, "the back-off is reset to ReconnectWaitBase on a path that is not the success edge of Connect (e.g. right after a successful dial): consecutive CONNECT-level failures are all retried after only the base delay")
				default:
					okLeaves = false
					r1.Bad(key+"/waited", m.After.Pos(), "the waited duration can be %s, which is neither the carried back-off nor a reset to ReconnectWaitBase", describeVal(lf.V))
				}
			}
			// entry operand
			entryOK := false
			for i, e := range header.Edges {
				p := header.Block().Preds[i]
				if !header.Block().Dominates(p) { // entry edge
					if isBase(e) {
						entryOK = true
					} else {
						okLeaves = false
						r1.Bad(key+"/initial", header.Pos(), "the first wait is not ReconnectWaitBase (%s)", describeVal(e))
					}
				}
			}
			if okLeaves && entryOK {
				r1.OK(key+"/waited", m.After.Pos(), "time.After(w): w starts at ReconnectWaitBase and is reset to it only after a successful Connect")
			}
			// (c) every round passes the wait
			if _, skip := CanReach(f, m.Dial, func(in ssa.Instruction) bool { return in == ssa.Instruction(m.Dial) }, PathQ{BlockInstr: func(in ssa.Instruction) bool { return in == ssa.Instruction(m.WaitSel) }}); skip {
				r1.Bad(key+"/wait-every-round", m.Dial.Pos(), "a path leads from one dial to the next without passing the timed wait: the loop can spin without back-off")
			} else {
				r1.OK(key+"/wait-every-round", m.WaitSel.Pos(), "every way round the loop passes the wait")
			}
			// (d) carried value: every leaf of every back-edge operand is k*waited (k >= 2), or ReconnectWaitMax entering
			// through an edge on which k*waited exceeded it
			isMax := func(v ssa.Value) bool {
				_, ok := isFieldLoad(c.Resolve(v), "ReconnectOptions", "ReconnectWaitMax")
				return ok
			}
			exceeds := func(pred *ssa.BasicBlock) bool {
				last := lastOf(pred)
				if last == nil {
					return false
				}
				for _, b := range f.Blocks {
					iff := blockIf(b)
					if iff == nil {
						continue
					}
					bin, ok := iff.Cond.(*ssa.BinOp)
					if !ok {
						continue
					}
					// doubled > Max, or Max < doubled
					x, y := bin.X, bin.Y
					switch bin.Op {
					case token.GTR, token.GEQ:
					case token.LSS, token.LEQ:
						x, y = y, x
					default:
						continue
					}
					if g, ok := growthOf(x, waited); !ok || g < 2 {
						continue
					}
					if !isMax(y) {
						continue
					}
					if DominatedByEdge(f, last, b, 0, PathQ{}) {
						return true
					}
				}
				return false
			}
			okGrow := true
			n := 0
			for i, e := range header.Edges {
				p := header.Block().Preds[i]
				if !header.Block().Dominates(p) {
					continue
				}
				for _, lf := range phiLeaves(e, map[ssa.Value]bool{header: true}) {
					pred := lf.Pred
					if pred == nil {
						pred = p
					}
					n++
					pos := header.Pos()
					if in, ok := lf.V.(ssa.Instruction); ok && in.Pos().IsValid() {
						pos = in.Pos()
					}
					// the loop may be written with the wait first and the attempt second (`if retrying { wait; double }`): then
					// the value carried round is the header's own value on the way that has not waited yet, and the reset
					// after a successful Connect travels over the back edge as well
					carriedUnwaited := func() bool {
						if lf.V != ssa.Value(header) || lastOf(pred) == nil {
							return false
						}
						_, waitedOnTheWay := CanReach(f, m.WaitSel, func(in ssa.Instruction) bool { return in == lastOf(pred) }, PathQ{BlockInstr: func(in ssa.Instruction) bool { return in.Block() == header.Block() }})
						return !waitedOnTheWay
					}
					resetOnSuccess := func() bool {
						if !isBase(lf.V) {
							return false
						}
						in, _ := lf.V.(ssa.Instruction)
						return (in != nil && onSuccess(in)) || (lastOf(lf.Pred) != nil && onSuccess(lastOf(lf.Pred)))
					}
					switch g, isG := growthOf(lf.V, waited); {
					case isG && g >= 2:
					case carriedUnwaited():
					case resetOnSuccess():
					case isG:
						okGrow = false
						r1.Bad(key+"/growth", pos, "the back-off grows by a factor below 2")
					case isMax(lf.V):
						if !exceeds(pred) {
							okGrow = false
							r1.Bad(key+"/clamp", pos, "the wait is set to ReconnectWaitMax on a path where the doubled value does not exceed it")
						}
					default:
						okGrow = false
						r1.Bad(key+"/growth", pos, "the value carried to the next iteration (%s) is not at least twice the value just waited: the lower bound on the delay does not double per consecutive failure", describeVal(lf.V))
					}
				}
			}
			if okGrow && n > 0 {
				r1.OK(key+"/growth", header.Pos(), "carried value = k*waited (k >= 2), clamped to ReconnectWaitMax only when larger")
			}
		}
	}
	// ---- R-C09-2
	closeM := c.Method("BaseClient", "Close")
	isClose := func(in ssa.Instruction) bool {
		k, ok := in.(*ssa.Call)
		return ok && closeM != nil && c.StaticCalleeOf(&k.Call) == closeM && c.Resolve(k.Call.Args[0]) == m.Cli
	}
	isDoneRecv := func(in ssa.Instruction) bool {
		u, ok := in.(*ssa.UnOp)
		return ok && u.Op == token.ARROW && c.isClosedChanOf(u.X, m.Cli)
	}
	isDial := func(in ssa.Instruction) bool { return in == ssa.Instruction(m.Dial) }
	if len(m.DialOK) != 1 {
		r2.Bad(key+"/dial-ok", m.Dial.Pos(), "no unique success edge of DialContext")
	} else {
		first := m.DialOK[0].B.Succs[m.DialOK[0].K].Instrs[0]
		if _, found := CanReach(f, first, isDial, PathQ{BlockInstr: isClose}); found {
			r2.Bad(key+"/close-before-redial", m.Dial.Pos(), "a path leads from a successful dial to the next dial without closing the previous client: two transports are open at once")
		} else {
			okWait := true
			eachInstr(f, func(in ssa.Instruction) {
				if !isClose(in) {
					return
				}
				if _, found := CanReach(f, in, isDial, PathQ{BlockInstr: isDoneRecv}); found {
					okWait = false
					r2.Bad(key+"/wait-done", in.Pos(), "after closing the client the loop can redial without waiting for its Done(): the old reader goroutine (and its state callbacks) overlaps the new connection")
				}
			})
			if okWait {
				r2.OK(key, m.Dial.Pos(), "every path from a successful dial to the next dial passes cli.Close() and then <-cli.Done()")
			}
		}
	}
	// ---- R-C09-3
	for _, op := range c.blockingOps() {
		if op.F == f {
			c.classifyReconnectOp(r3, m, op, key+"/"+op.Kind)
		}
	}
	// close(done) deferred at entry
	doneF := c.structField("reconnectClient", "done")
	discF := c.structField("reconnectClient", "disconnected")
	deferred := false
	eachInstr(f, func(in ssa.Instruction) {
		d, ok := in.(*ssa.Defer)
		if !ok || in.Block() != f.Blocks[0] {
			return
		}
		if b, ok := d.Call.Value.(*ssa.Builtin); ok && b.Name() == "close" && len(d.Call.Args) == 1 {
			// defer close(c.done): the channel operand is evaluated here, at goroutine entry
			if _, isD := isLoadOfField(c.Resolve(d.Call.Args[0]), doneF); isD {
				deferred = true
			}
			return
		}
		g := c.StaticCalleeOf(&d.Call)
		if g == nil {
			return
		}
		eachInstr(g, func(x ssa.Instruction) {
			if k, ok := x.(*ssa.Call); ok {
				if b, ok := k.Call.Value.(*ssa.Builtin); ok && b.Name() == "close" {
					if _, isD := isLoadOfField(c.Resolve(k.Call.Args[0]), doneF); isD {
						deferred = true
					}
				}
			}
		})
	})
	if deferred {
		r3.OK(key+"/done", f.Pos(), "close(c.done) is deferred at goroutine entry")
	} else {
		r3.Bad(key+"/done", f.Pos(), "the loop goroutine does not signal its end on every exit (no deferred close(done)): Disconnect waits for ever")
	}
	// loop context: stores to the ctx cell
	if cell, _ := c.loopCtxCell(m); cell != nil {
		for _, s2 := range c.cellStores[cell] {
			call, _ := c.asCall(s2.Val)
			if call == nil && s2.Parent() == cell.Parent() {
				continue // the variable's initialisation with the context the loop was started with
			}
			inOnce := false
			for _, mc := range c.makeClosures[s2.Parent()] {
				for _, uu := range *mc.Referrers() {
					if k, ok := uu.(*ssa.Call); ok && isStdCall(&k.Call, "sync", "Do") {
						inOnce = true
					}
				}
			}
			if call != nil && isStdCall(&call.Call, "context", "Background") && inOnce {
				r3.OK(key+"/ctx", s2.Pos(), "the loop context is replaced only by context.Background(), inside the once-only first-success block")
			} else {
				r3.Bad(key+"/ctx", s2.Pos(), "the loop's context is replaced outside the once-only first-success block")
			}
		}
	}
	c.ruleLoopOutlivesConnectCtx(r3)
	// Disconnect ordering
	if d := c.Method("reconnectClient", "Disconnect"); d != nil {
		var closeDisc, rcDisc ssa.Instruction
		var sel *ssa.Select
		rcD := c.Method("RetryClient", "Disconnect")
		eachInstr(d, func(in ssa.Instruction) {
			switch x := in.(type) {
			case *ssa.Call:
				if b, ok := x.Call.Value.(*ssa.Builtin); ok && b.Name() == "close" {
					if _, isD := isLoadOfField(c.Resolve(x.Call.Args[0]), discF); isD {
						closeDisc = in
					}
				}
				if rcD != nil && c.StaticCalleeOf(&x.Call) == rcD {
					rcDisc = in
				}
			case *ssa.Select:
				sel = x
			}
		})
		switch {
		case closeDisc == nil || rcDisc == nil || sel == nil:
			r3.Bad("(*reconnectClient).Disconnect", d.Pos(), "Disconnect does not close `disconnected`, disconnect the retry client and wait for the loop")
		case !Dominated(d, rcDisc, func(x ssa.Instruction) bool { return x == closeDisc }, PathQ{}) || !Dominated(d, sel, func(x ssa.Instruction) bool { return x == rcDisc }, PathQ{}):
			r3.Bad("(*reconnectClient).Disconnect", closeDisc.Pos(), "Disconnect must close `disconnected` before it ends the connection and then wait for the loop: otherwise the loop takes the closed connection for a failure and dials again")
		default:
			hasDone := false
			for _, s := range sel.States {
				if _, ok := isLoadOfField(c.Resolve(s.Chan), doneF); ok {
					hasDone = true
				}
			}
			if hasDone && c.selectHasCtxDone(sel, d) {
				r3.OK("(*reconnectClient).Disconnect", sel.Pos(), "close(disconnected) -> RetryClient.Disconnect -> select{<-done, <-ctx.Done()}")
			} else {
				r3.Bad("(*reconnectClient).Disconnect", sel.Pos(), "Disconnect's wait does not observe both the loop's end and its own context")
			}
		}
	}
	// ---- R-C09-4
	if m.ConnSel != nil {
		errM := c.Method("BaseClient", "Err")
		ok4 := false
		for _, cs := range selectCases(m.ConnSel) {
			if cs.State == nil || !cs.HasEdge || !c.isClosedChanOf(cs.State.Chan, m.Cli) {
				continue
			}
			reach := ReachableViaEdge(f, ifEdge{cs.Edge.B, cs.Edge.K}, PathQ{BlockInstr: isDial})
			for in := range reach {
				k, isCall := in.(*ssa.Call)
				if !isCall || errM == nil || c.StaticCalleeOf(&k.Call) != errM || c.Resolve(k.Call.Args[0]) != m.Cli {
					continue
				}
				decisions := nilEdges(f, k)
				// the outcome carried in a flag (`restart = cli.Err() != nil` … `if !restart { return }`): the edge of the test
				// of the flag on which the comparison says nil
				for _, b := range f.Blocks {
					iff := blockIf(b)
					if iff == nil {
						continue
					}
					cond, neg := iff.Cond, false
					for {
						u, isNot := cond.(*ssa.UnOp)
						if !isNot || u.Op != token.NOT {
							break
						}
						cond, neg = u.X, !neg
					}
					phi, isPhi := cond.(*ssa.Phi)
					if !isPhi {
						continue
					}
					for _, lf := range phiLeaves(phi, map[ssa.Value]bool{}) {
						bin, isBin := lf.V.(*ssa.BinOp)
						if !isBin || (bin.Op != token.NEQ && bin.Op != token.EQL) || !isNilConst(bin.Y) || c.Resolve(bin.X) != ssa.Value(k) {
							continue
						}
						// flag true <=> comparison true; comparison true means nil iff it is ==
						nilWhenTrue := bin.Op == token.EQL
						kNil := 0
						if nilWhenTrue == neg {
							kNil = 1
						}
						decisions = append(decisions, ifEdge{b, kNil})
					}
				}
				for _, e := range decisions {
					// nil edge: returns without redial
					r2 := ReachableViaEdge(f, ifEdge{e.B, e.K}, PathQ{})
					redial, returns := false, false
					for x := range r2 {
						if isDial(x) {
							redial = true
						}
						if _, isRet := x.(*ssa.Return); isRet {
							returns = true
						}
					}
					// non-nil edge: must go on to redial
					r3 := ReachableViaEdge(f, ifEdge{e.B, 1 - e.K}, PathQ{})
					redial2 := false
					for x := range r3 {
						if isDial(x) {
							redial2 = true
						}
					}
					if returns && !redial && redial2 {
						ok4 = true
					}
				}
			}
		}
		if ok4 {
			r4.OK(key+"/graceful", m.ConnSel.Pos(), "after <-cli.Done(): Err() == nil returns; otherwise close-and-wait and redial")
		} else {
			r4.Bad(key+"/graceful", m.ConnSel.Pos(), "after the connection ended, the loop does not distinguish a graceful end (Err() == nil: stop) from a failure (redial)")
		}
	} else {
		r4.Lost(key+"/connected-wait", "connected-phase select not found")
	}
	c.ruleErrBeforeDone(r4)
	c.ruleLoopStopsOnlyOnRequest(r7, m)
	// ---- R-C09-6
	c.ruleKeepAliveReaction(r6, m, "R-C09-6")
	if ka := c.Func("KeepAlive"); ka != nil && len(ka.Params) == 4 {
		var wt, ping *ssa.Call
		eachInstr(ka, func(in ssa.Instruction) {
			if k, ok := in.(*ssa.Call); ok {
				if isStdCall(&k.Call, "context", "WithTimeout") {
					wt = k
				}
				if k.Call.IsInvoke() && k.Call.Method.Name() == "Ping" {
					ping = k
				}
			}
		})
		if wt != nil && ping != nil {
			var ctxTo ssa.Value
			for _, u := range *wt.Referrers() {
				if ex, ok := u.(*ssa.Extract); ok && ex.Index == 0 {
					ctxTo = ex
				}
			}
			if fe := nonNilEdges(ka, ping); len(fe) == 1 && ctxTo != nil {
				// for the reconnect lifecycle only this matters: whatever the classification, a failed ping makes KeepAlive
				// return a non-nil error (which error is C13's and C19's concern)
				okNN := true
				for _, ret := range returnsOf(ka) {
					if !DominatedByEdge(ka, ret, fe[0].B, fe[0].K, PathQ{}) {
						continue
					}
					ev := c.errResult(ret)
					if !c.nonNilAt(ka, ev, ret) {
						okNN = false
						r6.Bad("KeepAlive/failure-non-nil", ret.Pos(), "after a failed ping KeepAlive can return %s, which is not known to be non-nil: the keep-alive goroutine would not close the connection and the loop would not redial", describeVal(c.Resolve(ev)))
					}
				}
				if okNN {
					r6.OK("KeepAlive/failure-non-nil", ping.Pos(), "every return on the failed-ping edge carries a non-nil error")
				}
			}
		}
	}
	// ---- R-C09-5
	outer := m.Outer
	okID := len(m.Connect.Call.Args) >= 4 && len(outer.Params) >= 4 &&
		c.Resolve(m.Connect.Call.Args[2]) == ssa.Value(outer.Params[2]) && c.Resolve(m.Connect.Call.Args[3]) == ssa.Value(outer.Params[3])
	if okID {
		r5.OK(key+"/identity", m.Connect.Pos(), "RetryClient.Connect(ctxConnect, <caller's clientID>, <caller's opts>...)")
	} else {
		r5.Bad(key+"/identity", m.Connect.Pos(), "the loop does not connect with the client id and options the caller passed to Connect")
	}
	if _, twice := CanReach(f, m.Connect, func(in ssa.Instruction) bool { return in == ssa.Instruction(m.Connect) }, PathQ{BlockInstr: isDial}); twice {
		r5.Bad(key+"/once", m.Connect.Pos(), "Connect can be called twice on one dialled connection")
	} else {
		r5.OK(key+"/once", m.Connect.Pos(), "one Connect per dial")
	}
	if rc := c.Method("RetryClient", "Connect"); rc != nil {
		bc := c.Method("BaseClient", "Connect")
		var calls []*ssa.Call
		eachInstr(rc, func(in ssa.Instruction) {
			if c.isCallTo(in, bc) {
				calls = append(calls, in.(*ssa.Call))
			}
		})
		if len(calls) == 1 && len(calls[0].Call.Args) >= 4 && calls[0].Call.Args[1] == ssa.Value(rc.Params[1]) && calls[0].Call.Args[2] == ssa.Value(rc.Params[2]) && calls[0].Call.Args[3] == ssa.Value(rc.Params[3]) {
			r5.OK("(*RetryClient).Connect/forward", calls[0].Pos(), "forwards (ctx, clientID, opts...) unchanged to exactly one BaseClient.Connect")
		} else {
			r5.Bad("(*RetryClient).Connect/forward", rc.Pos(), "RetryClient.Connect does not forward its arguments unchanged to exactly one BaseClient.Connect")
		}
		if bc != nil {
			for _, s := range c.cachedSites() {
				if s.Kind != "connect" {
					continue
				}
				_, pcall := c.packedType(s.Write.Call.Args[1])
				okCID := false
				if pcall != nil {
					if v := c.packetField(pcall.Call.Args[0], "ClientID"); v != nil && c.Resolve(v) == ssa.Value(bc.Params[2]) {
						okCID = true
					}
				}
				nW := 0
				eachInstr(bc, func(in ssa.Instruction) {
					if c.isCallTo(in, c.Method("BaseClient", "write")) {
						nW++
					}
				})
				if okCID && nW == 1 {
					r5.OK("(*BaseClient).Connect/packet", s.Write.Pos(), "exactly one write: CONNECT built from the clientID parameter and the applied options")
				} else {
					r5.Bad("(*BaseClient).Connect/packet", s.Write.Pos(), "BaseClient.Connect does not write exactly one CONNECT carrying the given client id")
				}
			}
		}
	}
}

// ruleLoopStopsOnlyOnRequest (R-C09-7): the reconnect loop's goroutine returns only for a reason the property allows — the
// caller's/loop's own context is done, `disconnected` was closed, or the connection ended gracefully (Err() == nil). Every
// path from the goroutine's entry to a return must take one of those edges; a return reachable otherwise (a CONNACK
// time-out, a particular error value, …) ends reconnecting for good while requests are still queued.
func (c *Ctx) ruleLoopStopsOnlyOnRequest(rr *RuleRep, m *reconnModel) {
	f := m.F
	key := FuncName(f)
	// the loop context: the goroutine's context parameter or the cell holding it
	isLoopCtx := func(v ssa.Value) bool {
		if c.isLoopCtx(m, v) {
			return true
		}
		if len(f.Params) == 0 {
			return false
		}
		p := ssa.Value(f.Params[0])
		if v == p || c.Resolve(v) == p {
			return true
		}
		if u, ok := v.(*ssa.UnOp); ok && u.Op == token.MUL {
			if cell, ok := c.addrRoot(u.X).(*ssa.Alloc); ok {
				for _, st := range c.cellStores[cell] {
					if st.Val == p {
						return true
					}
				}
			}
		}
		return false
	}
	ctxCall := func(v ssa.Value, method string) bool {
		k, ok := c.Resolve(v).(*ssa.Call)
		if !ok || !k.Call.IsInvoke() || k.Call.Method.Name() != method || k.Call.Method.Pkg() == nil || k.Call.Method.Pkg().Path() != "context" {
			return false
		}
		return isLoopCtx(k.Call.Value)
	}
	licensed := map[ifEdge]bool{}
	errM := c.Method("BaseClient", "Err")
	eachInstr(f, func(in ssa.Instruction) {
		switch x := in.(type) {
		case *ssa.Select:
			for _, cs := range selectCases(x) {
				if cs.State == nil || !cs.HasEdge || cs.State.Dir != types.RecvOnly {
					continue
				}
				if _, isDisc := isFieldLoad(c.Resolve(cs.State.Chan), "reconnectClient", "disconnected"); isDisc || ctxCall(cs.State.Chan, "Done") {
					licensed[cs.Edge] = true
				}
			}
		case *ssa.If:
			bin, ok := x.Cond.(*ssa.BinOp)
			if !ok || (bin.Op != token.NEQ && bin.Op != token.EQL) {
				return
			}
			var v ssa.Value
			switch {
			case isNilConst(bin.Y):
				v = bin.X
			case isNilConst(bin.X):
				v = bin.Y
			default:
				return
			}
			nonNil, isNil := ifEdge{x.Block(), 0}, ifEdge{x.Block(), 1}
			if bin.Op == token.EQL {
				nonNil, isNil = isNil, nonNil
			}
			if ctxCall(v, "Err") {
				licensed[nonNil] = true // the loop context is done
			}
			if k, ok := c.Resolve(v).(*ssa.Call); ok && errM != nil && c.StaticCalleeOf(&k.Call) == errM {
				licensed[isNil] = true // graceful end
			}
		}
	})
	// a licence carried in a flag: `restart = cli.Err() != nil` in the connection-ended case, `if !restart { return }` below
	// the select — the test is of a join; on the path at hand the join holds the comparison, and the edge taken says how it
	// came out
	type carried struct {
		b       *ssa.BasicBlock
		phi     *ssa.Phi
		negated bool
	}
	var flags []carried
	for _, b := range f.Blocks {
		iff := blockIf(b)
		if iff == nil {
			continue
		}
		cond, neg := iff.Cond, false
		for {
			u, ok := cond.(*ssa.UnOp)
			if !ok || u.Op != token.NOT {
				break
			}
			cond, neg = u.X, !neg
		}
		if phi, ok := cond.(*ssa.Phi); ok {
			flags = append(flags, carried{b, phi, neg})
		}
	}
	ci := corrOf(f)
	licensedByFlag := func(ret *ssa.Return, dom []ifEdge) bool {
		if ci.cur == nil {
			return false
		}
		for _, fl := range flags {
			for _, e := range dom {
				if e.B != fl.b {
					continue
				}
				phiTrue := (e.K == 0) != fl.negated // the value the flag has on the edge taken
				bin, ok := ci.leafOn(fl.phi, ci.cur).(*ssa.BinOp)
				if !ok || (bin.Op != token.NEQ && bin.Op != token.EQL) || !isNilConst(bin.Y) {
					continue
				}
				isNil := phiTrue == (bin.Op == token.EQL) // what the comparison says about its operand on this path
				if k, isCall := c.Resolve(bin.X).(*ssa.Call); isCall && errM != nil && c.StaticCalleeOf(&k.Call) == errM && isNil {
					return true // graceful end
				}
				if ctxCall(bin.X, "Err") && !isNil {
					return true // the loop context is done
				}
			}
		}
		return false
	}
	n := 0
	for _, ret := range returnsOf(f) {
		n++
		var dom []ifEdge
		for _, fl := range flags {
			for k := 0; k < 2; k++ {
				if DominatedByEdge(f, ret, fl.b, k, PathQ{}) {
					dom = append(dom, ifEdge{fl.b, k})
				}
			}
		}
		ret := ret
		_, reach := CanReach(f, nil, func(in ssa.Instruction) bool {
			return in == ssa.Instruction(ret) && !licensedByFlag(ret, dom)
		}, PathQ{BlockEdge: func(b *ssa.BasicBlock, k int) bool { return licensed[ifEdge{b, k}] }})
		pos := ret.Pos()
		if !pos.IsValid() {
			for _, in := range ret.Block().Instrs {
				if in.Pos().IsValid() {
					pos = in.Pos()
				}
			}
		}
		if reach {
			rr.Bad(key+"/stops", pos, "the reconnect loop can return on a path that neither observed its context done, nor `disconnected`, nor a graceful end (Err() == nil): reconnecting stops for good although nobody asked for it, and everything still queued is never sent")
		} else {
			rr.OK(key+"/stops", pos, "return only behind ctx.Done()/ctx.Err(), `disconnected`, or Err() == nil")
		}
	}
	if n == 0 {
		rr.OK(key+"/stops", f.Pos(), "the loop goroutine has no return")
	}
}

// growthOf: e == k * base (k constant), via MUL / SHL / ADD(base, base).
func growthOf(e, base ssa.Value) (int64, bool) {
	b, ok := e.(*ssa.BinOp)
	if !ok {
		return 0, false
	}
	switch b.Op {
	case token.MUL:
		if b.X == base {
			if k, ok := constInt(b.Y); ok {
				return k, true
			}
		}
		if b.Y == base {
			if k, ok := constInt(b.X); ok {
				return k, true
			}
		}
	case token.SHL:
		if b.X == base {
			if k, ok := constInt(b.Y); ok && k >= 0 && k < 32 {
				return 1 << uint(k), true
			}
		}
	case token.ADD:
		if b.X == base && b.Y == base {
			return 2, true
		}
	}
	return 0, false
}

// ---- C08 ---------------------------------------------------------------------------------------------

func checkC08(r *Run) {
	c := r.C
	r1 := r.Rule("R-C08-1", "resubscribe decision == initialized AND (NOT sessionPresent OR AlwaysResubscribe) on all 8 rows")
	r2 := r.Rule("R-C08-2", "`initialized` starts false, is only set to true, and only after the resubscribe decision of the iteration")
	r3 := r.Rule("R-C08-3", "the established list: applied before each subscribe/unsubscribe request is issued; re-subscribed from a snapshot through the queued subscribe path; written nowhere else")
	r4 := r.Rule("R-C08-4", "call order survives retransmission: subscribe/unsubscribe requests queue behind pending retries, Retry() processes ascending and re-queues [continuation, unattempted tail] in this order, Resubscribe precedes Retry")
	r5 := r.Rule("R-C08-5", "no subscribe/unsubscribe request is lost: failures after registration carry a retry handle (also for a closed connection), the handle is queued, Retry keeps what it does not complete")
	r3.Floor(3)
	{
		var subSites []*reqSite
		for _, s := range c.sitesOrLost(r5) {
			if s.Kind == "subscribe" || s.Kind == "unsubscribe" {
				subSites = append(subSites, s)
			}
		}
		c.ruleRetryableFailures(r5, subSites)
		c.ruleWrapKeepsHandle(r5)
		c.ruleFailedKeptFor(r5, "subscribe", "unsubscribe")
		c.ruleRetryRequeue(r5, nil, "loss")
		// … and what is kept is sent again: the reconnect loop resumes the retry queue after every successful Connect,
		// also when the broker kept the session and nothing has to be re-subscribed (R-C01-8)
		c.ruleReconnectResumes(r5)
	}
	c.ruleRetryRequeue(r4, nil, "order")
	c.ruleTaskQueueing(nil, r4, "subscribe", "unsubscribe")
	m, why := c.reconnModel()
	if m == nil {
		r1.Lost("reconnect-loop", "%s", why)
		return
	}
	f := m.F
	key := FuncName(f)
	if m.Resub != nil && m.Retry != nil {
		if _, found := CanReach(f, m.Retry, func(in ssa.Instruction) bool { return in == ssa.Instruction(m.Resub) }, PathQ{BlockInstr: func(in ssa.Instruction) bool { return in == ssa.Instruction(m.Dial) }}); found {
			r4.Bad(key+"/resub-before-retry", m.Resub.Pos(), "Resubscribe is queued after Retry: a pending Unsubscribe is retransmitted first and then undone by the resubscription")
		} else {
			r4.OK(key+"/resub-before-retry", m.Resub.Pos(), "Resubscribe is queued before Retry")
		}
	}
	if m.Resub == nil {
		r1.Bad(key+"/resubscribe", m.Connect.Pos(), "the reconnect loop never calls Resubscribe: subscriptions are lost whenever the broker did not keep the session")
		return
	}
	if len(m.ConnOK) != 1 {
		r1.Lost(key+"/connect-ok", "no unique success edge of Connect")
		return
	}
	// atoms
	var initPhi *ssa.Phi
	for _, in := range m.Dial.Block().Instrs {
		if phi, ok := in.(*ssa.Phi); ok {
			if b, ok := phi.Type().Underlying().(*types.Basic); ok && b.Kind() == types.Bool {
				initPhi = phi
			}
		}
	}
	// the dial need not be the first thing the loop does: then the flag is the loop-carried boolean the decision tests
	// (a loop may carry other booleans, e.g. "this is not the first attempt")
	loopBools := map[*ssa.Phi]bool{}
	if initPhi == nil {
		for _, b := range f.Blocks {
			back := false
			for _, p := range b.Preds {
				if b.Dominates(p) {
					back = true
				}
			}
			if !back || !b.Dominates(m.Dial.Block()) {
				continue
			}
			for _, in := range b.Instrs {
				if phi, ok := in.(*ssa.Phi); ok {
					if bt, ok := phi.Type().Underlying().(*types.Basic); ok && bt.Kind() == types.Bool {
						loopBools[phi] = true
					}
				}
			}
		}
	}
	atomOf := func(v ssa.Value) string {
		rv := c.Resolve(v)
		if initPhi == nil {
			if phi, ok := v.(*ssa.Phi); ok && loopBools[phi] {
				initPhi = phi
			}
		}
		if initPhi != nil && v == ssa.Value(initPhi) {
			return "initialized"
		}
		if rv == m.Session {
			return "sessionPresent"
		}
		if _, ok := isFieldLoad(rv, "ReconnectOptions", "AlwaysResubscribe"); ok {
			return "always"
		}
		return ""
	}
	start := m.ConnOK[0].B.Succs[m.ConnOK[0].K]
	eval := func(env map[string]bool) (bool, string) {
		b := start
		for steps := 0; steps < 64; steps++ {
			for _, in := range b.Instrs {
				if in == ssa.Instruction(m.Resub) {
					return true, ""
				}
				if in == ssa.Instruction(m.Dial) || realExit(in) {
					return false, ""
				}
			}
			last := b.Instrs[len(b.Instrs)-1]
			switch x := last.(type) {
			case *ssa.Jump:
				b = b.Succs[0]
			case *ssa.If:
				cond := x.Cond
				neg := false
				for {
					if u, ok := cond.(*ssa.UnOp); ok && u.Op == token.NOT {
						neg = !neg
						cond = u.X
						continue
					}
					break
				}
				var val bool
				if k, ok := constBool(cond); ok {
					val = k
				} else if a := atomOf(cond); a != "" {
					val = env[a]
				} else if _, isReach := func() (ssa.Instruction, bool) {
					// a condition unrelated to the decision (e.g. PingInterval > 0 after Retry): resubscribe unreachable from both sides?
					r0 := ReachableViaEdge(f, ifEdge{b, 0}, PathQ{BlockInstr: func(i ssa.Instruction) bool { return i == ssa.Instruction(m.Dial) }})
					r1 := ReachableViaEdge(f, ifEdge{b, 1}, PathQ{BlockInstr: func(i ssa.Instruction) bool { return i == ssa.Instruction(m.Dial) }})
					if !r0[m.Resub] && !r1[m.Resub] {
						return nil, true
					}
					return nil, false
				}(); isReach {
					return false, ""
				} else {
					return false, "the resubscribe decision depends on " + describeVal(cond) + ", which is not one of {had a successful connection, session present, AlwaysResubscribe}"
				}
				if neg {
					val = !val
				}
				if val {
					b = b.Succs[0]
				} else {
					b = b.Succs[1]
				}
			default:
				return false, ""
			}
		}
		return false, "decision walk did not terminate"
	}
	bad := false
	rows := 0
	for i := 0; i < 8; i++ {
		env := map[string]bool{"initialized": i&1 != 0, "sessionPresent": i&2 != 0, "always": i&4 != 0}
		want := env["initialized"] && (!env["sessionPresent"] || env["always"])
		got, und := eval(env)
		rows++
		if und != "" {
			bad = true
			r1.Undecided(key+"/decision", m.Resub.Pos(), "%s", und)
			break
		}
		if got != want {
			bad = true
			r1.Bad(key+"/decision", m.Resub.Pos(), "with initialized=%v sessionPresent=%v AlwaysResubscribe=%v the loop %s, but it must %s", env["initialized"], env["sessionPresent"], env["always"], map[bool]string{true: "re-subscribes", false: "does not re-subscribe"}[got], map[bool]string{true: "re-subscribe", false: "not re-subscribe"}[want])
		}
	}
	if !bad {
		r1.OK(key+"/decision", m.Resub.Pos(), "truth table over (initialized, sessionPresent, AlwaysResubscribe) matches on all %d rows", rows)
	}
	// session atom is this iteration's Connect result
	if m.Session == nil {
		r1.Bad(key+"/session", m.Connect.Pos(), "the session-present result of Connect is ignored")
	}
	// ---- R-C08-2
	if initPhi == nil {
		r2.Bad(key+"/initialized", m.Dial.Pos(), "no loop-carried 'had a successful connection' flag: the loop cannot tell the first connection from a reconnect")
	} else {
		okInit := true
		for i, e := range initPhi.Edges {
			p := initPhi.Block().Preds[i]
			if !initPhi.Block().Dominates(p) {
				if k, ok := constBool(e); !ok || k {
					okInit = false
					r2.Bad(key+"/initialized", initPhi.Pos(), "the flag does not start as false: the first connection re-subscribes")
				}
			}
		}
		for _, lf := range phiLeaves(initPhi, map[ssa.Value]bool{}) {
			k, isK := constBool(lf.V)
			if !isK {
				if lf.V != ssa.Value(initPhi) {
					okInit = false
					r2.Bad(key+"/initialized", initPhi.Pos(), "the flag is computed from %s", describeVal(lf.V))
				}
				continue
			}
			if !k {
				// false only via entry
				if lf.Pred != nil && initPhi.Block().Dominates(lf.Pred) && lf.Pred != initPhi.Block().Preds[0] {
					okInit = false
					r2.Bad(key+"/initialized", initPhi.Pos(), "the flag can be set back to false inside the loop")
				}
				continue
			}
			// true: the assignment point must lie after the resubscribe decision
			if lf.Pred != nil && len(lf.Pred.Instrs) > 0 {
				if _, before := CanReach(f, lf.Pred.Instrs[0], func(in ssa.Instruction) bool { return in == ssa.Instruction(m.Resub) }, PathQ{BlockInstr: func(in ssa.Instruction) bool { return in == ssa.Instruction(m.Dial) }}); before {
					okInit = false
					r2.Bad(key+"/initialized", lf.Pred.Instrs[0].Pos(), "the flag becomes true before the resubscribe decision of the same iteration: the first connection re-subscribes")
				}
				dom := false
				for _, e := range m.ConnOK {
					if DominatedByEdge(f, lf.Pred.Instrs[0], e.B, e.K, PathQ{}) {
						dom = true
					}
				}
				if !dom {
					okInit = false
					r2.Bad(key+"/initialized", lf.Pred.Instrs[0].Pos(), "the flag becomes true without a successful Connect")
				}
			}
		}
		if okInit {
			r2.OK(key+"/initialized", initPhi.Pos(), "flag: false at entry; true only after a successful Connect and after that iteration's resubscribe decision; never reset")
		}
	}
	// ---- R-C08-3
	a := c.retryAnchors()
	if a.lost(r3) {
		return
	}
	c.ruleEstablishedApply(r3, a)
	// Resubscribe task
	if rs := c.Method("RetryClient", "Resubscribe"); rs != nil {
		_, task := c.taskClosureOf(a, rs)
		if task == nil {
			r3.Bad("(*RetryClient).Resubscribe", rs.Pos(), "Resubscribe does not queue a task")
		} else {
			var snap ssa.Value
			eachInstr(task, func(in ssa.Instruction) {
				if mk, ok := in.(*ssa.MakeSlice); ok {
					if src := c.makeCopySource(mk); src != nil {
						if _, isSE := isLoadOfField(stripConv(src), a.SubEst); isSE {
							snap = mk
						}
					}
				}
				call, ok := in.(*ssa.Call)
				if !ok {
					return
				}
				base, elems, ok := c.appendChain(call)
				if ok && len(elems) == 1 && elems[0].Spread != nil && c.isFreshEmptySlice(base) {
					if _, isSE := isLoadOfField(stripConv(elems[0].Spread), a.SubEst); isSE {
						snap = call
					}
				}
			})
			sub := c.Method("RetryClient", "subscribe")
			var issue *ssa.Call
			eachInstr(task, func(in ssa.Instruction) {
				if c.isCallTo(in, sub) {
					issue = in.(*ssa.Call)
				}
			})
			switch {
			case snap == nil:
				r3.Bad(FuncName(task)+"/snapshot", task.Pos(), "Resubscribe does not take a private snapshot of the established list inside the task goroutine")
			case issue == nil:
				r3.Bad(FuncName(task)+"/issue", task.Pos(), "Resubscribe does not issue the snapshot through the queued subscribe path")
			default:
				// element issued = snap[i]
				okElem := false
				last := issue.Call.Args[len(issue.Call.Args)-1]
				if sl, ok := last.(*ssa.Slice); ok {
					if al, ok := sl.X.(*ssa.Alloc); ok {
						for _, u := range *al.Referrers() {
							if ia, ok := u.(*ssa.IndexAddr); ok {
								for _, uu := range *ia.Referrers() {
									if st, ok := uu.(*ssa.Store); ok {
										v := c.Resolve(st.Val)
										if ld, ok := v.(*ssa.UnOp); ok {
											if ia2, ok := ld.X.(*ssa.IndexAddr); ok && ia2.X == snap {
												okElem = true
											}
											// range copies element into a local first
											if al2, ok := ld.X.(*ssa.Alloc); ok {
												for _, s3 := range c.cellStores[al2] {
													if ld3, ok := s3.Val.(*ssa.UnOp); ok {
														if ia3, ok := ld3.X.(*ssa.IndexAddr); ok && ia3.X == snap {
															okElem = true
														}
													}
												}
											}
										}
									}
								}
							}
						}
					}
				}
				if okElem {
					r3.OK(FuncName(task), issue.Pos(), "every element of a snapshot of subEstablished is issued through c.subscribe")
					// … every element: the loop over the snapshot is left only when the snapshot is exhausted, and no way round
					// the loop skips the request
					c.ruleResubscribeExhausts(r3, task, issue, snap)
				} else {
					r3.Bad(FuncName(task)+"/issue", issue.Pos(), "what Resubscribe issues is not the elements of its snapshot of the established list")
				}
			}
		}
	}
	// who may touch subEstablished: code that runs on the task goroutine only
	ctxs, _, _ := c.goroutineContexts()
	taskOnly := func(fn *ssa.Function) bool {
		ref := c.Method("RetryClient", "publish")
		if ref == nil || len(ctxs[ref]) != 1 || ctxs[ref]["api"] {
			return false
		}
		return len(ctxs[fn]) == 1 && ctxString(ctxs[fn]) == ctxString(ctxs[ref])
	}
	for _, fn := range c.Funcs {
		eachInstr(fn, func(in ssa.Instruction) {
			fa, ok := in.(*ssa.FieldAddr)
			if !ok {
				return
			}
			if _, fld := fieldOf(fa); fld != a.SubEst {
				return
			}
			top := enclosingTop(fn)
			okFn := fn.Parent() != nil && (top == c.Method("RetryClient", "subscribe") || top == c.Method("RetryClient", "unsubscribe") || top == c.Method("RetryClient", "Resubscribe"))
			if okFn {
				r3.OKt(FuncName(fn)+"/subEstablished", in.Pos(), "accessed inside a task-goroutine closure of %s", FuncName(top))
			} else if taskOnly(fn) {
				r3.OKt(FuncName(fn)+"/subEstablished", in.Pos(), "accessed in %s, which runs on the task goroutine only", FuncName(fn))
			} else {
				r3.Bad(FuncName(fn)+"/subEstablished", in.Pos(), "the established-subscription list is accessed in %s, outside the request closures / Resubscribe task that own it", FuncName(fn))
			}
		})
	}
}

var _ = fmt.Sprintf

// ruleErrBeforeDone: the reader goroutine records the connection error before it closes Done(): the reconnect loop reads
// Err() right after <-Done() and takes nil for a graceful end (no redial).
func (c *Ctx) ruleErrBeforeDone(rr *RuleRep) {
	conn := c.Method("BaseClient", "Connect")
	setErr := c.Method("BaseClient", "SetErrorOnce")
	var reader *ssa.Function
	if conn != nil {
		eachInstr(conn, func(in ssa.Instruction) {
			if g, ok := in.(*ssa.Go); ok {
				reader = c.StaticCalleeOf(&g.Call)
			}
		})
	}
	if reader == nil || setErr == nil {
		rr.Lost("reader goroutine", "not found")
		return
	}
	fld := c.closedField()
	var se, cl ssa.Instruction
	for _, rec := range c.errRecords(reader) {
		se = rec.At
	}
	eachInstr(reader, func(in ssa.Instruction) {
		if k, ok := in.(*ssa.Call); ok {
			if b, ok := k.Call.Value.(*ssa.Builtin); ok && b.Name() == "close" {
				if _, isF := isLoadOfField(c.Resolve(k.Call.Args[0]), fld); isF {
					cl = in
				}
			}
		}
	})
	if se == nil || cl == nil {
		rr.Bad(FuncName(reader)+"/err-before-done", reader.Pos(), "the reader goroutine does not both record the error and close Done()")
		return
	}
	if _, found := CanReach(reader, cl, func(x ssa.Instruction) bool { return x == se }, PathQ{}); found {
		rr.Bad(FuncName(reader)+"/err-before-done", cl.Pos(), "Done() can be closed before the connection error is recorded: the reconnect loop wakes up, reads Err() == nil, takes the loss for an expected disconnect and never dials again")
		return
	}
	rr.OK(FuncName(reader)+"/err-before-done", se.Pos(), "SetErrorOnce precedes close(Done())")
}

// directListUpdate finds, in the request closure g, a store to the established-list field whose value is
// built from the list itself and the request's own argument: for a subscribe, the list with the argument
// appended; for an unsubscribe, a re-slice of the list in a function that walks the argument.
func (c *Ctx) directListUpdate(g *ssa.Function, fld *types.Var, reqParam *ssa.Parameter, add bool) (*ssa.Store, string) {
	rootedAtList := func(v ssa.Value) bool {
		seen := map[ssa.Value]bool{}
		var walk func(v ssa.Value) bool
		walk = func(v ssa.Value) bool {
			v = stripConv(c.Resolve(v))
			if seen[v] {
				return false
			}
			seen[v] = true
			if _, ok := isLoadOfField(v, fld); ok {
				return true
			}
			switch x := v.(type) {
			case *ssa.Slice:
				return walk(x.X)
			case *ssa.Phi:
				for _, e := range x.Edges {
					if walk(e) {
						return true
					}
				}
			}
			return false
		}
		return walk(v)
	}
	isParam := func(v ssa.Value) bool {
		return c.Resolve(stripConv(c.Resolve(v))) == ssa.Value(reqParam)
	}
	var found *ssa.Store
	why := ""
	eachInstr(g, func(in ssa.Instruction) {
		st, ok := in.(*ssa.Store)
		if !ok || found != nil {
			return
		}
		if _, isSE := isAddrOfField(st.Addr, fld); !isSE {
			return
		}
		if add {
			base, elems, ok := c.appendChain(st.Val)
			if !ok || !rootedAtList(base) {
				return
			}
			for _, e := range elems {
				if e.Spread != nil && isParam(e.Spread) {
					found, why = st, "the list is stored back with the request's own argument appended"
				}
			}
			return
		}
		if _, ok := stripConv(c.Resolve(st.Val)).(*ssa.Slice); !ok || !rootedAtList(st.Val) {
			return
		}
		walked := false
		for _, u := range *reqParam.Referrers() {
			switch u.(type) {
			case *ssa.Range, *ssa.IndexAddr, *ssa.Index:
				walked = true
			}
		}
		eachInstr(g, func(in2 ssa.Instruction) {
			switch x := in2.(type) {
			case *ssa.IndexAddr:
				if isParam(x.X) {
					walked = true
				}
			case *ssa.Range:
				if isParam(x.X) {
					walked = true
				}
			}
		})
		if walked {
			found, why = st, "the list is stored back re-sliced, in a walk over the request's own argument"
		}
	})
	return found, why
}

// ruleResubscribeExhausts: the loop in which Resubscribe issues the elements of its snapshot ends only by running out of
// elements (its only exit is the bound test of the loop against len(snapshot)), and every iteration issues its element.
func (c *Ctx) ruleResubscribeExhausts(rr *RuleRep, task *ssa.Function, issue *ssa.Call, snap ssa.Value) {
	key := FuncName(task) + "/all"
	header, blocks := innermostLoop(issue.Block())
	if header == nil {
		rr.Bad(key, issue.Pos(), "Resubscribe issues one element of its snapshot, not each of them in a loop")
		return
	}
	isLenOfSnap := func(v ssa.Value) bool {
		call, ok := stripConv(v).(*ssa.Call)
		if !ok {
			return false
		}
		bi, isB := call.Call.Value.(*ssa.Builtin)
		return isB && bi.Name() == "len" && len(call.Call.Args) == 1 && c.Resolve(call.Call.Args[0]) == c.Resolve(snap)
	}
	for b := range blocks {
		for k, s := range b.Succs {
			if blocks[s] || edgeInfeasible(b, k) {
				continue
			}
			// an edge out of the loop: the bound test, on the edge where the index has reached len(snapshot)
			iff := blockIf(b)
			good := false
			if iff != nil {
				if bin, ok := iff.Cond.(*ssa.BinOp); ok {
					switch {
					case (bin.Op == token.LSS || bin.Op == token.NEQ) && isLenOfSnap(bin.Y) && k == 1,
						(bin.Op == token.GEQ || bin.Op == token.EQL) && isLenOfSnap(bin.Y) && k == 0,
						(bin.Op == token.GTR) && isLenOfSnap(bin.X) && k == 1,
						(bin.Op == token.LEQ) && isLenOfSnap(bin.X) && k == 0:
						good = true
					}
				}
			}
			if !good {
				pos := issue.Pos()
				if len(b.Instrs) > 0 && b.Instrs[len(b.Instrs)-1].Pos().IsValid() {
					pos = b.Instrs[len(b.Instrs)-1].Pos()
				}
				rr.Bad(key, pos, "the loop that re-issues the established subscriptions can be left before the snapshot is exhausted: the list was reset when the snapshot was taken, so the subscriptions not reached are in neither the list nor the retry queue and are never re-established")
				return
			}
		}
	}
	// every way round the loop passes the request
	for _, s := range header.Succs {
		if !blocks[s] || s == header {
			continue
		}
		via := -1
		for i, p := range s.Preds {
			if p == header {
				via = i
			}
		}
		if via < 0 {
			continue
		}
		if _, skip := canReachFrom(task, nil, s, via, func(in ssa.Instruction) bool {
			return in == header.Instrs[0]
		}, PathQ{BlockInstr: func(in ssa.Instruction) bool { return in == ssa.Instruction(issue) }}); skip {
			rr.Bad(key, issue.Pos(), "an iteration of the loop over the snapshot can skip the request: that subscription is dropped from the client's view without being re-established")
			return
		}
	}
	rr.OK(key, issue.Pos(), "the loop over the snapshot ends only when the snapshot is exhausted and every iteration issues its element")
}

// ruleEstablishedApply (R-C08-3, R-C05-11): the subscribe/unsubscribe request closures record the request's own argument in
// the established-subscription list before the request is issued (Subscribe overwrites the requested QoS in place).
func (c *Ctx) ruleEstablishedApply(r3 *RuleRep, a *retryAnchors) {
	for _, api := range retryAPIs {
		if api.API == "Publish" {
			continue
		}
		req := c.Method("RetryClient", api.Req)
		base := c.Method("BaseClient", api.Base)
		g, call := c.requestClosure(req, base)
		if g == nil {
			r3.Lost("(*RetryClient)."+api.Req+"/closure", "request closure not found")
			continue
		}
		k := FuncName(g) + "/applyTo"
		var apply *ssa.Call
		eachInstr(g, func(in ssa.Instruction) {
			kk, ok := in.(*ssa.Call)
			if !ok {
				return
			}
			callee := c.StaticCalleeOf(&kk.Call)
			if callee == nil || callee.Name() != "applyTo" {
				return
			}
			for _, arg := range kk.Call.Args {
				if _, isSE := isAddrOfField(arg, a.SubEst); isSE {
					apply = kk
				}
			}
		})
		if apply == nil {
			// the update written out in the request itself: a store to the list of a value built from
			// the list and the request's own argument
			if st, why := c.directListUpdate(g, a.SubEst, req.Params[len(req.Params)-1], api.Req == "subscribe"); st != nil {
				if !Dominated(g, call, func(in ssa.Instruction) bool { return in == ssa.Instruction(st) }, PathQ{}) {
					r3.Bad(k, st.Pos(), "the established list is updated only after BaseClient.%s returned: by then the request's arguments may have been rewritten by the library (Subscribe overwrites the requested QoS with the granted one), and a failed request is not recorded at all", api.Base)
					continue
				}
				r3.OK(k, st.Pos(), "%s; the store dominates BaseClient.%s", why, api.Base)
				continue
			}
			r3.Bad(k, g.Pos(), "the %s request does not record its effect in the established-subscription list: a later reconnect without session re-subscribes a stale view", api.Req)
			continue
		}
		// operand = the enclosing request's own parameter
		reqParam := req.Params[len(req.Params)-1]
		src := apply.Call.Args[0]
		if c.Resolve(stripConv(c.Resolve(src))) != ssa.Value(reqParam) {
			r3.Bad(k, apply.Pos(), "what is applied to the established list is not the request's own argument")
			continue
		}
		if wantRecv := map[string]string{"subscribe": "subscriptions", "unsubscribe": "unsubscriptions"}[api.Req]; typeName(apply.Call.Args[0].Type()) != wantRecv {
			r3.Bad(k, apply.Pos(), "the %s request applies a %s change to the established list", api.Req, typeName(apply.Call.Args[0].Type()))
			continue
		}
		if !Dominated(g, call, func(in ssa.Instruction) bool { return in == ssa.Instruction(apply) }, PathQ{}) {
			r3.Bad(k, apply.Pos(), "the established list is updated only after BaseClient.%s returned: by then the request's arguments may have been rewritten by the library (Subscribe overwrites the requested QoS with the granted one), and a failed request is not recorded at all", api.Base)
			continue
		}
		r3.OK(k, apply.Pos(), "applyTo(&c.subEstablished) with the request's own argument dominates BaseClient.%s", api.Base)
	}
}
