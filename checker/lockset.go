package main

import (
	"fmt"
	"go/token"
	"go/types"
	"sort"
	"strings"

	"golang.org/x/tools/go/ssa"
)

// lockID identifies a mutex by (owner struct type, field); instance identity is not tracked (type-level),
// except that a mutex living in a by-value copy of the struct (a local Alloc) is not a lock of the shared object.
type lockID string

type lockSet map[lockID]byte // value: 'w' exclusive, 'r' shared

func (s lockSet) clone() lockSet {
	o := lockSet{}
	for k, v := range s {
		o[k] = v
	}
	return o
}

func (s lockSet) String() string {
	var ks []string
	for k, v := range s {
		ks = append(ks, fmt.Sprintf("%s:%c", k, v))
	}
	sort.Strings(ks)
	return "{" + strings.Join(ks, ",") + "}"
}

func intersect(a, b lockSet) lockSet {
	o := lockSet{}
	for k, v := range a {
		if w, ok := b[k]; ok {
			if v == 'r' || w == 'r' {
				o[k] = 'r'
			} else {
				o[k] = 'w'
			}
		}
	}
	return o
}

func equalLS(a, b lockSet) bool {
	if len(a) != len(b) {
		return false
	}
	for k, v := range a {
		if b[k] != v {
			return false
		}
	}
	return true
}

type lockAnalysis struct {
	c        *Ctx
	entry    map[*ssa.Function]lockSet           // lock-set at function entry (intersection over call sites)
	at       map[ssa.Instruction]lockSet         // lock-set just before each instruction
	copyLock []ssa.Instruction                   // Lock calls on a mutex inside a by-value copy
	acquires []acquireEv                         // every Lock/RLock with the set held at that point
	callers  map[*ssa.Function][]ssa.Instruction // resolved call sites per callee
	dynEdges map[*ssa.Function][]*ssa.Function   // extra call edges (task / retry closures invoked dynamically)
	dynSites map[*ssa.Function][]ssa.Instruction // the dynamic call instruction standing for those edges
}

type acquireEv struct {
	In   ssa.Instruction
	ID   lockID
	Mode byte
	Held lockSet
}

func (c *Ctx) lockIDOf(lo *lockOp) (lockID, bool) {
	owner := ""
	isCopy := false
	if fa, ok := callCommon(lo.In).Args[0].(*ssa.FieldAddr); ok {
		owner = typeName(fa.X.Type())
		if a, ok := fa.X.(*ssa.Alloc); ok {
			if _, isStruct := a.Type().Underlying().(*types.Pointer).Elem().Underlying().(*types.Struct); isStruct && !a.Heap {
				// local by-value copy (e.g. value receiver spilled to the stack)
				isCopy = true
			}
			if a.Comment != "complit" && a.Comment != "new" {
				// a parameter/receiver copy
				for _, st := range c.cellStores[a] {
					if _, isParam := st.Val.(*ssa.Parameter); isParam {
						isCopy = true
					}
				}
			}
		}
	}
	return lockID(owner + "." + lo.Field.Name()), isCopy
}

var lockCache = map[*Ctx]*lockAnalysis{}

func (c *Ctx) locks() *lockAnalysis {
	if la, ok := lockCache[c]; ok {
		return la
	}
	la := &lockAnalysis{c: c, entry: map[*ssa.Function]lockSet{}, at: map[ssa.Instruction]lockSet{}, callers: map[*ssa.Function][]ssa.Instruction{}, dynEdges: map[*ssa.Function][]*ssa.Function{}, dynSites: map[*ssa.Function][]ssa.Instruction{}}
	lockCache[c] = la
	la.buildDynamicEdges()
	// call sites
	for _, f := range c.Funcs {
		eachInstr(f, func(in ssa.Instruction) {
			cc := callCommon(in)
			if cc == nil {
				return
			}
			if _, isGo := in.(*ssa.Go); isGo {
				return // a new goroutine starts with nothing held
			}
			if g := c.StaticCalleeOf(cc); g != nil && g.Pkg == c.Pkg {
				la.callers[g] = append(la.callers[g], in)
			}
		})
	}
	for g, sites := range la.dynSites {
		la.callers[g] = append(la.callers[g], sites...)
	}
	// fixpoint: entry sets start at "unknown" (nil = top)
	for iter := 0; iter < 20; iter++ {
		changed := false
		for _, f := range c.Funcs {
			la.flow(f)
		}
		for _, f := range c.Funcs {
			var e lockSet
			known := false
			if la.isRoot(f) {
				e = lockSet{}
				known = true
			}
			for _, site := range la.callers[f] {
				s, ok := la.at[site]
				if !ok {
					continue
				}
				if !known {
					e = s.clone()
					known = true
				} else {
					e = intersect(e, s)
				}
			}
			if !known {
				e = lockSet{}
			}
			if old, ok := la.entry[f]; !ok || !equalLS(old, e) {
				la.entry[f] = e
				changed = true
			}
		}
		if !changed {
			break
		}
	}
	for _, f := range c.Funcs {
		la.flow(f)
	}
	// collect acquire events
	for _, f := range c.Funcs {
		eachInstr(f, func(in ssa.Instruction) {
			lo := c.lockOpOf(in)
			if lo == nil || lo.Defer || (lo.Op != "Lock" && lo.Op != "RLock") {
				return
			}
			id, isCopy := c.lockIDOf(lo)
			if isCopy {
				la.copyLock = append(la.copyLock, in)
				return
			}
			mode := byte('w')
			if lo.Op == "RLock" {
				mode = 'r'
			}
			la.acquires = append(la.acquires, acquireEv{in, id, mode, la.at[in]})
		})
	}
	return la
}

// isRoot: callable from outside the package's own call sites with nothing held: exported API, goroutine bodies,
// closures whose invocation cannot be resolved (handles invoked by users).
func (la *lockAnalysis) isRoot(f *ssa.Function) bool {
	if f.Parent() == nil {
		if f.Object() != nil && f.Object().Exported() {
			return true
		}
		if f.Signature.Recv() != nil {
			// methods callable through interfaces (Serve, Error, ...)
			return f.Object() != nil && f.Object().Exported()
		}
		return len(la.callers[f]) == 0
	}
	// closure: root if started by `go`, or never called at a resolvable site
	for _, mc := range la.c.makeClosures[f] {
		for _, u := range *mc.Referrers() {
			if _, ok := u.(*ssa.Go); ok {
				return true
			}
		}
	}
	return len(la.callers[f]) == 0
}

// buildDynamicEdges: task closures are invoked by the task goroutine; retry-queue entries by the Retry task.
func (la *lockAnalysis) buildDynamicEdges() {
	c := la.c
	a := c.retryAnchors()
	if len(a.problems) > 0 {
		return
	}
	g := c.taskGoroutine(a)
	var taskCall, retryCall ssa.Instruction
	if g != nil {
		eachInstr(g, func(in ssa.Instruction) {
			k, ok := in.(*ssa.Call)
			if !ok || k.Call.IsInvoke() || k.Call.StaticCallee() != nil {
				return
			}
			if ld, ok := c.ResolveAt(k.Call.Value, in).(*ssa.UnOp); ok {
				if ia, ok := ld.X.(*ssa.IndexAddr); ok {
					if _, isTQ := isLoadOfField(ia.X, a.TaskQueue); isTQ {
						taskCall = in
					}
				}
			}
		})
	}
	var retryTask *ssa.Function
	if m := c.Method("RetryClient", "Retry"); m != nil {
		_, retryTask = c.taskClosureOf(a, m)
	}
	if retryTask != nil {
		eachInstr(retryTask, func(in ssa.Instruction) {
			k, ok := in.(*ssa.Call)
			if !ok || k.Call.IsInvoke() || c.StaticCalleeOf(&k.Call) != nil {
				return
			}
			if len(k.Call.Args) == 2 {
				retryCall = in
			}
		})
	}
	for _, f := range c.Funcs {
		eachInstr(f, func(in ssa.Instruction) {
			switch x := in.(type) {
			case *ssa.Call:
				if c.StaticCalleeOf(&x.Call) == a.PushTask && pushTaskArg(x) != nil && taskCall != nil {
					if fn, _ := c.closureOf(pushTaskArg(x)); fn != nil {
						la.dynEdges[g] = append(la.dynEdges[g], fn)
						la.dynSites[fn] = append(la.dynSites[fn], taskCall)
					}
				}
			case *ssa.Store:
				if _, isRQ := isAddrOfField(x.Addr, a.RetryQueue); isRQ && retryCall != nil {
					_, elems, ok := c.appendChain(x.Val)
					if !ok {
						return
					}
					for _, e := range elems {
						if e.Single == nil {
							continue
						}
						if fn, _ := c.closureOf(e.Single); fn != nil {
							la.dynEdges[retryTask] = append(la.dynEdges[retryTask], fn)
							la.dynSites[fn] = append(la.dynSites[fn], retryCall)
						}
						// wrapped handle: withRequestContext(h) -> closure of withRequestContext
						if call, ok := c.Resolve(e.Single).(*ssa.Call); ok && a.WithReqCtx != nil && c.StaticCalleeOf(&call.Call) == a.WithReqCtx {
							for _, w := range a.WithReqCtx.AnonFuncs {
								la.dynEdges[retryTask] = append(la.dynEdges[retryTask], w)
								la.dynSites[w] = append(la.dynSites[w], retryCall)
							}
						}
					}
				}
			}
		})
	}
	// retry handles (closures passed to wrapErrorWithRetry) are invoked from withRequestContext's closure,
	// from (*errorWithRetry).Retry (API users) and from the Retry task
	wrapRetry := c.Func("wrapErrorWithRetry")
	var invokers []ssa.Instruction
	var invokerFns []*ssa.Function
	seenInv := map[ssa.Instruction]bool{}
	if a.WithReqCtx != nil {
		for _, w := range a.WithReqCtx.AnonFuncs {
			eachInstr(w, func(in ssa.Instruction) {
				if k, ok := in.(*ssa.Call); ok && !k.Call.IsInvoke() && c.StaticCalleeOf(&k.Call) == nil && len(k.Call.Args) == 2 {
					invokers = append(invokers, in)
					invokerFns = append(invokerFns, w)
					seenInv[in] = true
				}
			})
		}
	}
	for _, bc := range c.boundingClosures(a) {
		if !seenInv[bc.Invoke] {
			invokers = append(invokers, bc.Invoke)
			invokerFns = append(invokerFns, bc.Fn)
		}
	}
	if er := c.Method("errorWithRetry", "Retry"); er != nil {
		eachInstr(er, func(in ssa.Instruction) {
			if k, ok := in.(*ssa.Call); ok && !k.Call.IsInvoke() && c.StaticCalleeOf(&k.Call) == nil {
				invokers = append(invokers, in)
				invokerFns = append(invokerFns, er)
			}
		})
	}
	for _, f := range c.Funcs {
		eachInstr(f, func(in ssa.Instruction) {
			k, ok := in.(*ssa.Call)
			if !ok || wrapRetry == nil {
				return
			}
			wi, isWrap := c.wrapInfoOf(c.StaticCalleeOf(&k.Call))
			if !isWrap || wi.handle < 0 || len(k.Call.Args) <= wi.handle {
				return
			}
			h, _ := c.closureOf(k.Call.Args[wi.handle])
			if h == nil {
				return
			}
			for i, inv := range invokers {
				la.dynEdges[invokerFns[i]] = append(la.dynEdges[invokerFns[i]], h)
				la.dynSites[h] = append(la.dynSites[h], inv)
			}
		})
	}
}

// flow computes the held set before each instruction of f (forward must-analysis, merge = intersection).
func (la *lockAnalysis) flow(f *ssa.Function) {
	c := la.c
	entry := la.entry[f]
	if entry == nil {
		entry = lockSet{}
	}
	in := map[*ssa.BasicBlock]lockSet{}
	in[f.Blocks[0]] = entry.clone()
	work := []*ssa.BasicBlock{f.Blocks[0]}
	for len(work) > 0 {
		b := work[0]
		work = work[1:]
		cur := in[b].clone()
		for _, ins := range b.Instrs {
			la.at[ins] = cur.clone()
			lo := c.lockOpOf(ins)
			if lo == nil || lo.Defer {
				continue
			}
			id, isCopy := c.lockIDOf(lo)
			if isCopy {
				continue
			}
			switch lo.Op {
			case "Lock":
				cur[id] = 'w'
			case "RLock":
				if cur[id] != 'w' {
					cur[id] = 'r'
				}
			case "Unlock", "RUnlock":
				delete(cur, id)
			}
		}
		for _, s := range b.Succs {
			if f.Recover != nil && s == f.Recover {
				continue
			}
			old, ok := in[s]
			var nw lockSet
			if !ok {
				nw = cur.clone()
			} else {
				nw = intersect(old, cur)
			}
			if !ok || !equalLS(old, nw) {
				in[s] = nw
				work = append(work, s)
			}
		}
	}
}

// ---- R-C11-3: waits under locks -----------------------------------------------------------------------

func (c *Ctx) ruleWaitUnderLock(rr *RuleRep) {
	la := c.locks()
	heldAcross := map[lockID]bool{}
	n := 0
	for _, op := range c.blockingOps() {
		held := la.at[op.In]
		n++
		key := FuncName(op.F) + "/" + op.Kind
		bad := false
		for id := range held {
			heldAcross[id] = true
			if string(id) != "BaseClient."+aliasField("BaseClient", "muConnecting") {
				bad = true
				rr.Bad(key, op.In.Pos(), "blocking channel operation while holding %s: every other user of that lock (Done(), Handle(), the reader goroutine...) is blocked for as long as this wait lasts", id)
			}
		}
		if !bad {
			rr.OK(key, op.In.Pos(), "held at the wait: %s (muConnecting is the by-design exception: requests exclude Connect)", held)
		}
	}
	// exclusive acquisition of a lock that is held across waits
	connect := c.Method("BaseClient", "Connect")
	for _, ev := range la.acquires {
		if ev.Mode != 'w' || !heldAcross[ev.ID] {
			continue
		}
		f := ev.In.Parent()
		key := FuncName(f) + "/Lock(" + string(ev.ID) + ")"
		if f == connect {
			rr.OKt(key, ev.In.Pos(), "table: Connect takes %s exclusively by design (no request may run while connecting); its own wait observes its context", ev.ID)
		} else {
			rr.Bad(key, ev.In.Pos(), "%s acquires %s exclusively, but that lock is held (shared) by every request for the whole time it waits for its acknowledgement: this call blocks — ignoring its context — until all outstanding requests end, and they may be waiting for this very call to end the connection", FuncName(f), ev.ID)
		}
	}
}

// ---- R-C11-5: lock order ------------------------------------------------------------------------------

func (c *Ctx) ruleLockOrder(rr *RuleRep) {
	la := c.locks()
	edges := map[lockID]map[lockID]ssa.Instruction{}
	for _, ev := range la.acquires {
		for h, hm := range ev.Held {
			if h == ev.ID {
				if hm == 'r' && ev.Mode == 'r' {
					rr.Bad(FuncName(ev.In.Parent())+"/recursive-rlock", ev.In.Pos(), "%s is read-locked again while already read-locked on this path: with a writer waiting in between both block for ever", ev.ID)
				} else {
					rr.Bad(FuncName(ev.In.Parent())+"/self-deadlock", ev.In.Pos(), "%s is acquired while already held on this path", ev.ID)
				}
				continue
			}
			if edges[h] == nil {
				edges[h] = map[lockID]ssa.Instruction{}
			}
			if _, ok := edges[h][ev.ID]; !ok {
				edges[h][ev.ID] = ev.In
			}
		}
	}
	// edges through calls: held at the call site -> acquired inside the callee
	sum := la.acqSummary()
	for _, f := range c.Funcs {
		eachInstr(f, func(in ssa.Instruction) {
			cc := callCommon(in)
			if cc == nil {
				return
			}
			if _, isGo := in.(*ssa.Go); isGo {
				return
			}
			g := c.StaticCalleeOf(cc)
			if g == nil || g.Pkg != c.Pkg {
				return
			}
			for h := range la.at[in] {
				for id := range sum[g] {
					if id == h {
						continue
					}
					if edges[h] == nil {
						edges[h] = map[lockID]ssa.Instruction{}
					}
					if _, ok := edges[h][id]; !ok {
						edges[h][id] = in
					}
				}
			}
		})
	}
	for _, ra := range la.reacquisitions() {
		rr.Bad(FuncName(ra.Site.Parent())+"/self-deadlock", ra.Site.Pos(), "%s is held (mode %c) across the call of %s, which acquires it again (mode %c)", ra.ID, ra.Held, FuncName(ra.Callee), ra.Want)
	}
	// cycle detection
	var order []lockID
	for k := range edges {
		order = append(order, k)
	}
	sort.Slice(order, func(i, j int) bool { return order[i] < order[j] })
	state := map[lockID]int{}
	var cyc []string
	var dfs func(n lockID, path []lockID) bool
	dfs = func(n lockID, path []lockID) bool {
		state[n] = 1
		var nx []lockID
		for m := range edges[n] {
			nx = append(nx, m)
		}
		sort.Slice(nx, func(i, j int) bool { return nx[i] < nx[j] })
		for _, m := range nx {
			if state[m] == 1 {
				for _, p := range append(path, n, m) {
					cyc = append(cyc, string(p))
				}
				return true
			}
			if state[m] == 0 && dfs(m, append(path, n)) {
				return true
			}
		}
		state[n] = 2
		return false
	}
	found := false
	for _, n := range order {
		if state[n] == 0 && dfs(n, nil) {
			found = true
			break
		}
	}
	nEdges := 0
	var desc []string
	for _, h := range order {
		for m := range edges[h] {
			nEdges++
			desc = append(desc, string(h)+"->"+string(m))
		}
	}
	sort.Strings(desc)
	if found {
		rr.Bad("lock-order", token.NoPos, "lock-order cycle: %s", strings.Join(cyc, " -> "))
	} else {
		rr.OK("lock-order", token.NoPos, "held->acquired graph over %d acquisitions has %d edges and no cycle: %s", len(la.acquires), nEdges, strings.Join(desc, ", "))
	}
}

// ruleSelfDeadlock: no mutex is acquired while the same mutex is already held on that path (sync mutexes are not reentrant).
func (c *Ctx) ruleSelfDeadlock(rr *RuleRep) {
	la := c.locks()
	bad := false
	for _, ev := range la.acquires {
		if hm, held := ev.Held[ev.ID]; held {
			bad = true
			rr.Bad(FuncName(ev.In.Parent())+"/self-deadlock", ev.In.Pos(), "%s is acquired (mode %c) while it is already held (mode %c) on this path, possibly through a caller: Go mutexes are not reentrant, the goroutine blocks for ever", ev.ID, ev.Mode, hm)
		}
	}
	for _, ra := range la.reacquisitions() {
		bad = true
		rr.Bad(FuncName(ra.Site.Parent())+"/self-deadlock", ra.Site.Pos(), "%s calls %s while holding %s (mode %c), and %s acquires that mutex again (mode %c): Go mutexes are not reentrant — a write lock blocks for ever, a read lock blocks as soon as a writer is waiting", FuncName(ra.Site.Parent()), FuncName(ra.Callee), ra.ID, ra.Held, FuncName(ra.Callee), ra.Want)
	}
	if !bad {
		rr.OK("self-deadlock", token.NoPos, "none of the %d lock acquisitions (nor any call made under a lock) re-acquires a lock already held", len(la.acquires))
	}
}

// acqSummary: the locks function g may acquire, directly or through its static callees (with mode).
func (la *lockAnalysis) acqSummary() map[*ssa.Function]map[lockID]byte {
	c := la.c
	sum := map[*ssa.Function]map[lockID]byte{}
	for _, f := range c.Funcs {
		sum[f] = map[lockID]byte{}
	}
	for _, ev := range la.acquires {
		f := ev.In.Parent()
		if m, ok := sum[f][ev.ID]; !ok || (m == 'r' && ev.Mode == 'w') {
			sum[f][ev.ID] = ev.Mode
		}
	}
	for changed := true; changed; {
		changed = false
		for _, f := range c.Funcs {
			for _, g := range c.calleesOf(f, false) {
				for id, m := range sum[g] {
					if om, ok := sum[f][id]; !ok || (om == 'r' && m == 'w') {
						sum[f][id] = m
						changed = true
					}
				}
			}
		}
	}
	return sum
}

// mayDeadlocks: call sites at which the caller holds a lock that the callee (transitively) acquires again.
type reacquire struct {
	Site   ssa.Instruction
	Callee *ssa.Function
	ID     lockID
	Held   byte
	Want   byte
}

func (la *lockAnalysis) reacquisitions() []reacquire {
	c := la.c
	sum := la.acqSummary()
	var out []reacquire
	for _, f := range c.Funcs {
		eachInstr(f, func(in ssa.Instruction) {
			cc := callCommon(in)
			if cc == nil {
				return
			}
			if _, isGo := in.(*ssa.Go); isGo {
				return
			}
			if _, isDefer := in.(*ssa.Defer); isDefer {
				return
			}
			g := c.StaticCalleeOf(cc)
			if g == nil || g.Pkg != c.Pkg {
				return
			}
			for id, hm := range la.at[in] {
				if wm, ok := sum[g][id]; ok {
					out = append(out, reacquire{in, g, id, hm, wm})
				}
			}
		})
	}
	return out
}
