package main

import (
	"go/token"
	"go/types"

	"golang.org/x/tools/go/ssa"
)

func init() {
	register("C11", "Decided: a call can block for ever only at a blocking operation, and the package has a small enumerable set of them. R-C11-1 every wait for an acknowledgement is a three-way select (connection-closed channel of the client written to / Done() of the call's own context / the registered waiter) whose non-waiter cases return errors, the cancelled case reporting ctx.Err() of that context; R-C11-2 every other blocking channel operation of the package is classified by a table with one reason each, anything unclassified is a violation; R-C11-3 no channel wait happens while a mutex is held except under muConnecting, and a mutex that is held across a wait is acquired exclusively only by Connect; R-C11-4 the reader goroutine closes the transport and then closes the Done() channel on every path without blocking in between, and that close has exactly one site; R-C11-5 the lock-order graph is acyclic; R-C11-6 user callbacks run with no library mutex held; R-C11-7 closing is unconditional: BaseClient.Close closes the transport on every path and so does Disconnect once DISCONNECT was written (otherwise a peer that keeps its side open leaves Done() open). R-C11-8 the remaining-length field is bounded (a malformed length is a protocol error that ends the link, not a 256 MiB read). Not decided: blocking inside Transport.Read/Write or user callbacks; 'promptly' as a duration.", checkC11)
}

type blockingOp struct {
	In   ssa.Instruction
	F    *ssa.Function
	Kind string // select, recv, send
}

func (c *Ctx) blockingOps() []blockingOp {
	var out []blockingOp
	for _, f := range c.Funcs {
		eachInstr(f, func(in ssa.Instruction) {
			switch x := in.(type) {
			case *ssa.Select:
				if x.Blocking {
					out = append(out, blockingOp{in, f, "select"})
				}
			case *ssa.UnOp:
				if x.Op == token.ARROW {
					out = append(out, blockingOp{in, f, "recv"})
				}
			case *ssa.Send:
				out = append(out, blockingOp{in, f, "send"})
			}
		})
	}
	return out
}

func checkC11(r *Run) {
	c := r.C
	r1 := r.Rule("R-C11-1", "every acknowledgement wait is a three-way select: closed(client written to) / ctx.Done() of own context / registered waiter; non-waiter cases return errors; cancelled case reports ctx.Err()")
	r2 := r.Rule("R-C11-2", "every other blocking channel operation is classified by table (one reason each); unclassified => violation")
	r3 := r.Rule("R-C11-3", "no channel wait under a mutex other than muConnecting; a mutex held across a wait is locked exclusively only by Connect")
	r4 := r.Rule("R-C11-4", "reader goroutine: serve() -> Close() -> close(connClosed) on every path, no blocking channel operation in between, single close site, Done() returns that channel")
	r5 := r.Rule("R-C11-5", "lock order acyclic; no RWMutex read-locked twice on one path")
	r6 := r.Rule("R-C11-6", "user callbacks (ConnState, OnError, Handler.Serve) are invoked with no library mutex held other than muConnecting")
	r7 := r.Rule("R-C11-7", "closing is unconditional: BaseClient.Close closes the transport on every path, and so does Disconnect once DISCONNECT was written — otherwise a peer that keeps the connection open leaves Done() open and every blocked call hanging")
	r1.Floor(5)
	r2.Floor(5)
	c.ruleCallbacksUnlocked(r6)
	c.ruleCloseUnconditional(r7)
	r8 := r.Rule("R-C11-8", "a malformed length ends the link instead of stalling it: the remaining-length field is bounded to four bytes (R-C06-2), so the reader never waits for a body the peer cannot have meant to send")
	c.ruleBodyLengthBound(r8)
	sites := c.sitesOrLost(r1)
	c.ruleThreeWaySelect(r1, nil, sites)

	// --- R-C11-2 classification
	siteSel := map[ssa.Instruction]bool{}
	for _, s := range sites {
		for _, sel := range s.Selects {
			siteSel[sel] = true
		}
	}
	a := c.retryAnchors()
	taskG := c.taskGoroutine(a)
	rm, _ := c.reconnModel()
	inReadSide := map[*ssa.Function]bool{}
	if serve := c.Method("BaseClient", "serve"); serve != nil {
		inReadSide = c.reachableFuncs([]*ssa.Function{serve}, false)
	}
	for _, op := range c.blockingOps() {
		if siteSel[op.In] {
			continue // R-C11-1
		}
		key := FuncName(op.F) + "/" + op.Kind
		switch {
		case taskG != nil && op.F == taskG:
			// task goroutine: not an API call; every wait has a case that ends it (connection switch / closed chTask)
			sel, ok := op.In.(*ssa.Select)
			if !ok {
				r2.Bad(key, op.In.Pos(), "bare channel operation in the task goroutine")
				continue
			}
			hasSwitch := false
			for _, s := range sel.States {
				if b, ok := isFieldLoad(c.Resolve(s.Chan), "RetryClient", "chConnSwitch"); ok && b != nil {
					hasSwitch = true
				}
			}
			if hasSwitch {
				r2.OKt(key, op.In.Pos(), "table: task goroutine wait (not an API call); woken by SetClient's connection switch")
			} else {
				r2.Bad(key, op.In.Pos(), "a wait of the task goroutine has no case on the connection-switch channel: it is not woken when the connection is replaced")
			}
		case rm != nil && op.F == rm.F:
			c.classifyReconnectOp(r2, rm, op, key)
		case rm != nil && op.F == rm.Outer:
			// final select of reconnectClient.Connect: done / ctx.Done()
			sel, ok := op.In.(*ssa.Select)
			if ok && c.selectHasCtxDone(sel, op.F) {
				r2.OK(key, op.In.Pos(), "table: reconnectClient.Connect waits for the first connection or its own context")
			} else {
				r2.Bad(key, op.In.Pos(), "reconnectClient.Connect blocks without observing its context")
			}
		case op.F == c.Method("reconnectClient", "Disconnect"):
			sel, ok := op.In.(*ssa.Select)
			if ok && c.selectHasCtxDone(sel, op.F) {
				r2.OK(key, op.In.Pos(), "table: reconnectClient.Disconnect waits for the loop's end or its own context")
			} else {
				r2.Bad(key, op.In.Pos(), "reconnectClient.Disconnect blocks without observing its context")
			}
		case op.F.Name() == "KeepAlive" && op.Kind == "recv":
			// <-ticker.C
			u := op.In.(*ssa.UnOp)
			if ld, ok := u.X.(*ssa.UnOp); ok {
				if fa, ok := ld.X.(*ssa.FieldAddr); ok && typeName(fa.X.Type()) == "Ticker" {
					r2.OKt(key, op.In.Pos(), "table: <-ticker.C is bounded by the keep-alive interval")
					continue
				}
			}
			r2.Bad(key, op.In.Pos(), "unclassified blocking receive in KeepAlive")
		case op.Kind == "send" && inReadSide[op.F]:
			r2.Bad(key, op.In.Pos(), "blocking send in the reader goroutine: a peer that repeats an acknowledgement (or answers a request that was abandoned) fills the waiter's buffer and then blocks the reader for ever — Close, peer close and protocol errors no longer end the connection or close Done()")
		case op.Kind == "send":
			c.classifySend(r2, op, key)
		default:
			r2.Bad(key, op.In.Pos(), "unclassified blocking channel operation: nothing guarantees it ends when the context is cancelled or the connection closes")
		}
	}

	// --- R-C11-4 reader goroutine
	c.ruleReaderExit(r4)

	// --- R-C11-3 / R-C11-5 lock rules
	c.ruleWaitUnderLock(r3)
	c.ruleLockOrder(r5)
}

func (c *Ctx) selectHasCtxDone(sel *ssa.Select, f *ssa.Function) bool {
	var own ssa.Value
	for _, p := range f.Params {
		if p.Type().String() == "context.Context" {
			own = p
		}
	}
	if own == nil {
		return false
	}
	for _, cs := range selectCases(sel) {
		if cs.State != nil && cs.State.Dir == types.RecvOnly && c.isCtxMethodOf(cs.State.Chan, "Done", own) {
			// the case must return
			if cs.HasEdge {
				reach := ReachableViaEdge(f, cs.Edge, PathQ{})
				for in := range reach {
					if _, ok := in.(*ssa.Return); ok {
						return true
					}
				}
			}
		}
	}
	return false
}

// classifyReconnectOp: R-C09-3 shape for the loop goroutine's waits.
func (c *Ctx) classifyReconnectOp(rr *RuleRep, m *reconnModel, op blockingOp, key string) {
	switch x := op.In.(type) {
	case *ssa.Select:
		hasDisc, hasCtx := false, false
		for _, cs := range selectCases(x) {
			if cs.State == nil || cs.State.Dir != types.RecvOnly || !cs.HasEdge {
				continue
			}
			returns := false
			// (whole paths through the case's edge: a case that only sets a flag tested below the select is followed with it)
			edge := cs.Edge
			for in := range ReachableViaEdge(m.F, edge, PathQ{BlockInstr: func(i ssa.Instruction) bool { return i == ssa.Instruction(m.Dial) }}) {
				if _, ok := in.(*ssa.Return); ok {
					returns = true
				}
			}
			dialAgain := false
			if _, ok := CanReach(m.F, nil, func(i ssa.Instruction) bool { return i == ssa.Instruction(m.Dial) }, PathQ{MustEdge: &edge}); ok {
				dialAgain = true
			}
			if _, ok := isFieldLoad(c.Resolve(cs.State.Chan), "reconnectClient", "disconnected"); ok && returns && !dialAgain {
				hasDisc = true
			}
			if c.isCtxMethodOf(cs.State.Chan, "Done", nil) && returns && !dialAgain {
				hasCtx = true
			}
		}
		if hasDisc && hasCtx {
			rr.OK(key, op.In.Pos(), "table: reconnect loop wait with `disconnected` and ctx.Done() cases that end the loop")
		} else {
			rr.Bad(key, op.In.Pos(), "a wait of the reconnect loop lacks a returning case on the disconnected channel or on ctx.Done(): Disconnect (or cancellation) arriving in this phase does not stop the loop — it dials again and Disconnect never returns")
		}
	case *ssa.UnOp:
		// <-baseCli.Done() right after baseCli.Close()
		closeM := c.Method("BaseClient", "Close")
		if c.isClosedChanOf(x.X, m.Cli) && Dominated(m.F, op.In, func(i ssa.Instruction) bool {
			k, ok := i.(*ssa.Call)
			return ok && closeM != nil && c.StaticCalleeOf(&k.Call) == closeM && c.Resolve(k.Call.Args[0]) == m.Cli
		}, PathQ{BlockInstr: func(i ssa.Instruction) bool { return i == ssa.Instruction(m.Dial) }}) {
			rr.OKt(key, op.In.Pos(), "table: <-cli.Done() after cli.Close() — bounded by R-C11-4 (the reader goroutine closes Done() once the transport is closed)")
		} else {
			rr.Bad(key, op.In.Pos(), "bare receive in the reconnect loop that is not the wait for a client just closed")
		}
	default:
		c.classifySend(rr, op, key)
	}
}

// classifySend: a blocking send is acceptable on a channel whose every creation site has constant capacity >= 1
// and which is written once (under sync.Once, or once per freshly created channel).
func (c *Ctx) classifySend(rr *RuleRep, op blockingOp, key string) {
	s, ok := op.In.(*ssa.Send)
	if !ok {
		rr.Bad(key, op.In.Pos(), "unclassified blocking operation")
		return
	}
	ch := c.Resolve(s.Chan)
	caps := []ssa.Value{}
	if mk, ok := ch.(*ssa.MakeChan); ok {
		caps = append(caps, mk.Size)
	} else if ld, ok := ch.(*ssa.UnOp); ok {
		if fa, ok := ld.X.(*ssa.FieldAddr); ok {
			_, fld := fieldOf(fa)
			for _, f := range c.Funcs {
				for _, st := range storesToField(f, fld) {
					if mk, ok := c.Resolve(st.Val).(*ssa.MakeChan); ok {
						caps = append(caps, mk.Size)
					} else {
						caps = append(caps, nil)
					}
				}
			}
		}
	}
	if len(caps) == 0 {
		rr.Bad(key, op.In.Pos(), "blocking send on a channel whose creation cannot be found")
		return
	}
	for _, k := range caps {
		if k == nil {
			rr.Bad(key, op.In.Pos(), "blocking send on a channel that is not always freshly made")
			return
		}
		if n, ok := constInt(k); !ok || n < 1 {
			rr.Bad(key, op.In.Pos(), "blocking send on an unbuffered channel: if the receiver has already gone (its context was cancelled) the sending goroutine blocks for ever and everything it was supposed to do afterwards never happens")
			return
		}
	}
	rr.OK(key, op.In.Pos(), "table: single send on a channel created with capacity >= 1 at every creation site")
}

// ruleReaderExit: R-C11-4.
func (c *Ctx) ruleReaderExit(rr *RuleRep) {
	conn := c.Method("BaseClient", "Connect")
	if conn == nil {
		rr.Lost("(*BaseClient).Connect", "not found")
		return
	}
	var g *ssa.Function
	var goI *ssa.Go
	eachInstr(conn, func(in ssa.Instruction) {
		if x, ok := in.(*ssa.Go); ok {
			g = c.StaticCalleeOf(&x.Call)
			goI = x
		}
	})
	if g == nil {
		rr.Lost("(*BaseClient).Connect/go", "reader goroutine not found")
		return
	}
	serve := c.Method("BaseClient", "serve")
	closeM := c.Method("BaseClient", "Close")
	fld := c.closedField()
	var serveCall, closeCall ssa.Instruction
	var closeChans []ssa.Instruction
	eachInstr(g, func(in ssa.Instruction) {
		k, ok := in.(*ssa.Call)
		if !ok {
			return
		}
		switch c.StaticCalleeOf(&k.Call) {
		case serve:
			serveCall = in
		case closeM:
			closeCall = in
		default:
			if closeCall == nil && c.closesTransport(in, 0) {
				closeCall = in // the transport closed directly
			}
		}
	})
	// all close(connClosed) sites in the package
	for _, f := range c.Funcs {
		eachInstr(f, func(in ssa.Instruction) {
			k, ok := in.(*ssa.Call)
			if !ok {
				return
			}
			b, ok := k.Call.Value.(*ssa.Builtin)
			if !ok || b.Name() != "close" {
				return
			}
			if _, isF := isLoadOfField(c.Resolve(k.Call.Args[0]), fld); isF {
				closeChans = append(closeChans, in)
			}
		})
	}
	key := FuncName(g)
	if serveCall == nil {
		rr.Bad(key+"/serve", g.Pos(), "the goroutine started by Connect does not run serve()")
		return
	}
	if len(closeChans) != 1 || closeChans[0].Parent() != g {
		rr.Bad(key+"/close-done", g.Pos(), "the Done() channel must be closed at exactly one site, in the reader goroutine (found %d sites)", len(closeChans))
		return
	}
	cc := closeChans[0]
	isBlocking := func(in ssa.Instruction) bool {
		switch x := in.(type) {
		case *ssa.Select:
			return x.Blocking
		case *ssa.Send:
			return true
		case *ssa.UnOp:
			return x.Op == token.ARROW
		}
		return false
	}
	if w, ok := c.mustFollowFrom(g, serveCall, func(in ssa.Instruction) bool { return in == cc }, nil); !ok {
		rr.Bad(key+"/close-done", w.Pos(), "a path from serve()'s return leaves the reader goroutine without closing the Done() channel: every call waiting on this connection blocks for ever")
	} else if _, found := CanReach(g, serveCall, isBlocking, PathQ{BlockInstr: func(in ssa.Instruction) bool { return in == cc }}); found {
		rr.Bad(key+"/close-done", cc.Pos(), "a blocking channel operation lies between serve()'s return and close(Done())")
	} else {
		rr.OK(key+"/close-done", cc.Pos(), "close(connClosed) on every path after serve() returned, nothing blocking in between, single site")
	}
	if closeCall == nil || !Dominated(g, cc, func(in ssa.Instruction) bool { return in == closeCall }, PathQ{}) || !Dominated(g, closeCall, func(in ssa.Instruction) bool { return in == serveCall }, PathQ{}) {
		rr.Bad(key+"/close-transport", g.Pos(), "the transport is not closed between serve()'s return and close(Done())")
	} else {
		rr.OK(key+"/close-transport", closeCall.Pos(), "serve() -> Close() -> close(connClosed)")
	}
	// the goroutine ends afterwards
	if _, found := CanReach(g, cc, func(in ssa.Instruction) bool { return isBlocking(in) || in == cc }, PathQ{}); found {
		rr.Bad(key+"/exit", cc.Pos(), "the reader goroutine does not end after closing Done()")
	} else {
		rr.OK(key+"/exit", cc.Pos(), "goroutine returns after close(connClosed) without further blocking")
	}
	// the channel is created before the goroutine starts, once per Connect
	created := 0
	for _, f := range c.Funcs {
		for _, st := range storesToField(f, fld) {
			created++
			if _, ok := c.Resolve(st.Val).(*ssa.MakeChan); !ok {
				rr.Bad("connClosed/creation", st.Pos(), "Done() channel is set to something that is not a fresh channel")
				continue
			}
			// creation is reached from Connect before the go statement
			top := enclosingTop(f)
			okPre := false
			eachInstr(conn, func(in ssa.Instruction) {
				if k, ok := in.(*ssa.Call); ok && (c.StaticCalleeOf(&k.Call) == top || top == conn) {
					if Dominated(conn, goI, func(x ssa.Instruction) bool { return x == in }, PathQ{}) {
						okPre = true
					}
				}
			})
			if okPre {
				rr.OK("connClosed/creation", st.Pos(), "fresh channel per Connect, created before the reader goroutine starts")
			} else {
				rr.Bad("connClosed/creation", st.Pos(), "the Done() channel is not created before the reader goroutine starts")
			}
		}
	}
	if created == 0 {
		rr.Lost("connClosed/creation", "no creation site")
	}
}

// ruleCallbacksUnlocked: a user callback invoked under a library mutex deadlocks as soon as it calls back into the client.
func (c *Ctx) ruleCallbacksUnlocked(rr *RuleRep) {
	la := c.locks()
	n := 0
	allowed := "BaseClient." + aliasField("BaseClient", "muConnecting")
	for _, f := range c.Funcs {
		eachInstr(f, func(in ssa.Instruction) {
			cc := callCommon(in)
			if cc == nil {
				return
			}
			if _, isGo := in.(*ssa.Go); isGo {
				return
			}
			what := ""
			if cc.IsInvoke() {
				if cc.Method.Name() == "Serve" && typeName(cc.Value.Type()) == "Handler" {
					what = "Handler.Serve"
				}
			} else if cc.StaticCallee() == nil {
				if ld, ok := cc.Value.(*ssa.UnOp); ok {
					if fa, ok := ld.X.(*ssa.FieldAddr); ok {
						if _, fld := fieldOf(fa); fld != nil && fld.Exported() {
							if _, isFn := fld.Type().Underlying().(*types.Signature); isFn {
								what = typeName(fa.X.Type()) + "." + fld.Name()
							}
						}
					}
				}
			}
			if what == "" {
				return
			}
			n++
			key := FuncName(f) + "/callback " + what
			bad := false
			for id := range la.at[in] {
				if string(id) != allowed {
					bad = true
					rr.Bad(key, in.Pos(), "the user callback %s is invoked while %s is held: a callback that touches the client (Done(), Err(), Publish...) blocks for ever, and with it Connect, Disconnect or the reader goroutine's shutdown", what, id)
				}
			}
			if !bad {
				rr.OK(key, in.Pos(), "invoked with %s held", la.at[in])
			}
		})
	}
	if n == 0 {
		rr.Lost("callbacks", "no user callback invocation found")
	}
}

// closesTransport: the instruction closes the transport of a client: Transport.Close() (interface call on the Transport
// field), a sync.Once.Do around it, or a call of a package function that does so on every path.
func (c *Ctx) closesTransport(in ssa.Instruction, depth int) bool {
	cc := callCommon(in)
	if cc == nil {
		return false
	}
	if _, isDefer := in.(*ssa.Defer); isDefer {
		return false
	}
	if cc.IsInvoke() {
		if cc.Method.Name() != "Close" {
			return false
		}
		_, isT := isFieldLoad(c.Resolve(cc.Value), "BaseClient", "Transport")
		return isT
	}
	g := c.StaticCalleeOf(cc)
	if isStdCall(cc, "sync", "Do") && len(cc.Args) == 2 {
		if mc, ok := c.Resolve(cc.Args[1]).(*ssa.MakeClosure); ok {
			if fn, ok := mc.Fn.(*ssa.Function); ok {
				return c.mustCloseTransport(fn, depth+1)
			}
		}
		return false
	}
	if g == nil || g.Pkg != c.Pkg || g.Blocks == nil {
		return false
	}
	return c.mustCloseTransport(g, depth+1)
}

// mustCloseTransport: every path of g from entry to a return closes the transport.
func (c *Ctx) mustCloseTransport(g *ssa.Function, depth int) bool {
	if depth > 3 || g == nil || len(g.Blocks) == 0 {
		return false
	}
	_, escapes := CanReach(g, nil, func(in ssa.Instruction) bool { _, isRet := in.(*ssa.Return); return isRet },
		PathQ{BlockInstr: func(in ssa.Instruction) bool { return c.closesTransport(in, depth) }})
	return !escapes
}

func (c *Ctx) ruleCloseUnconditional(rr *RuleRep) {
	cl := c.Method("BaseClient", "Close")
	if cl == nil {
		rr.Lost("(*BaseClient).Close", "not found")
	} else if c.mustCloseTransport(cl, 0) {
		rr.OK("(*BaseClient).Close", cl.Pos(), "every path closes the transport")
	} else {
		rr.Bad("(*BaseClient).Close", cl.Pos(), "Close can return without closing the transport (e.g. when some state says the connection is already closed): if the peer keeps its side open, the reader goroutine never ends, Done() stays open and blocked calls hang")
	}
	d := c.Method("BaseClient", "Disconnect")
	wr := c.Method("BaseClient", "write")
	if d == nil || wr == nil {
		rr.Lost("(*BaseClient).Disconnect", "not found")
		return
	}
	var w *ssa.Call
	eachInstr(d, func(in ssa.Instruction) {
		if c.isCallTo(in, wr) {
			w = in.(*ssa.Call)
		}
	})
	if w == nil {
		rr.Lost("(*BaseClient).Disconnect/write", "DISCONNECT is not written through write()")
		return
	}
	okAll := true
	for _, e := range nilEdges(d, w) {
		first := e.B.Succs[e.K].Instrs[0]
		if c.closesTransport(first, 0) {
			continue
		}
		if _, ok := MustFollow(d, first, func(in ssa.Instruction) bool { return c.closesTransport(in, 0) }, func(in ssa.Instruction) bool { return !realExit(in) }, PathQ{}); !ok {
			okAll = false
		}
	}
	if len(nilEdges(d, w)) == 0 {
		rr.Undecided("(*BaseClient).Disconnect", w.Pos(), "the result of writing DISCONNECT is not tested")
	} else if okAll {
		rr.OK("(*BaseClient).Disconnect", w.Pos(), "after DISCONNECT was written the transport is closed on every path")
	} else {
		rr.Bad("(*BaseClient).Disconnect", w.Pos(), "after DISCONNECT was written Disconnect can return without closing the transport: a peer that does not close its side leaves Done() open and every blocked call hanging")
	}
}
