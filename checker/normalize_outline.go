package main

import (
	"fmt"
	"go/ast"
	"go/types"
	"os"
	"strings"
)

// outlineRound is the inverse of inlining for the two request units the retry-client rules anchor in: when the tree has
// no (*RetryClient).publish / (*RetryClient).unsubscribe because its body was written into the task closure handed to
// pushTask by Publish / Unsubscribe, the closure's body becomes that method again and the closure calls it. The step
// applies only when the closure uses nothing of the enclosing method besides its receiver and the request parameter (so
// moving the body changes no binding), and it is the identity on the reference tree.
var outlineSpecs = []struct{ api, req string }{
	{"Unsubscribe", "unsubscribe"},
	{"Publish", "publish"},
}

func (n *normalizer) outlineRound() bool {
	for _, spec := range outlineSpecs {
		if n.present["RetryClient."+spec.req] || !n.present["RetryClient."+spec.api] {
			continue
		}
		var fd *ast.FuncDecl
		for fn, d := range n.decls {
			if funcKeyOf(fn) == "RetryClient."+spec.api {
				fd = d
			}
		}
		if fd == nil || fd.Body == nil || fd.Recv == nil || len(fd.Recv.List) != 1 || len(fd.Recv.List[0].Names) != 1 {
			continue
		}
		file := n.fileOf[fd]
		filename := n.fset.File(file.Pos()).Name()
		recvID := fd.Recv.List[0].Names[0]
		recvObj := n.info.Defs[recvID]
		// the request parameter: the API method's last parameter
		ps := fd.Type.Params.List
		if len(ps) == 0 || len(ps[len(ps)-1].Names) != 1 {
			continue
		}
		lastField := ps[len(ps)-1]
		lastObj := n.info.Defs[lastField.Names[0]]
		_, variadic := lastField.Type.(*ast.Ellipsis)
		// the task closure: the only function literal that is an argument of a pushTask call
		var lit *ast.FuncLit
		count := 0
		ast.Inspect(fd.Body, func(x ast.Node) bool {
			call, ok := x.(*ast.CallExpr)
			if !ok {
				return true
			}
			callee, _ := n.calleeOf(call)
			if callee == nil || funcKeyOf(callee) != "RetryClient.pushTask" {
				return true
			}
			for _, a := range call.Args {
				if l, isLit := ast.Unparen(a).(*ast.FuncLit); isLit {
					lit = l
					count++
				}
			}
			return true
		})
		if count != 1 || lit.Type.Results != nil || len(lit.Type.Params.List) == 0 {
			continue
		}
		var pnames []string
		for _, f := range lit.Type.Params.List {
			for _, id := range f.Names {
				pnames = append(pnames, id.Name)
			}
		}
		if len(pnames) != 2 || pnames[0] == "_" || pnames[1] == "_" || len(lit.Body.List) < 2 {
			continue
		}
		// nothing of the enclosing method is used besides the receiver and the request parameter
		good := true
		ast.Inspect(lit.Body, func(x ast.Node) bool {
			id, ok := x.(*ast.Ident)
			if !ok {
				return true
			}
			obj := n.info.Uses[id]
			if obj == nil || obj == recvObj || obj == lastObj {
				return true
			}
			if _, isLabel := obj.(*types.Label); isLabel {
				return true
			}
			if obj.Pos() >= fd.Pos() && obj.Pos() < fd.End() && !(obj.Pos() >= lit.Pos() && obj.Pos() < lit.End()) {
				good = false
			}
			return true
		})
		if !good || pnames[0] == lastField.Names[0].Name || pnames[1] == lastField.Names[0].Name || pnames[0] == recvID.Name || pnames[1] == recvID.Name {
			continue
		}
		paramsText := n.src(filename, lit.Type.Params.Opening+1, lit.Type.Params.Closing)
		lastText := n.src(filename, lastField.Pos(), lastField.End())
		recvText := n.src(filename, fd.Recv.Opening+1, fd.Recv.Closing)
		bodyText := n.src(filename, lit.Body.Lbrace, lit.Body.Rbrace+1)
		dots := ""
		if variadic {
			dots = "..."
		}
		call := fmt.Sprintf("{ %s.%s(%s, %s, %s%s) }", recvID.Name, spec.req, pnames[0], pnames[1], lastField.Names[0].Name, dots)
		n.addEdit(filename, n.off(lit.Body.Lbrace), n.off(lit.Body.Rbrace)+1, call)
		line := n.fset.Position(lit.Body.Lbrace).Line
		decl := fmt.Sprintf("\n\n%sfunc (%s) %s(%s, %s) %s\n", n.lineDirective(filename, line), recvText, spec.req, strings.TrimRight(strings.TrimSpace(paramsText), ","), lastText, bodyText)
		end := len(n.content(filename))
		n.addEdit(filename, end, end, decl)
		n.notes = append(n.notes, fmt.Sprintf("the task closure of (*RetryClient).%s made (*RetryClient).%s again", spec.api, spec.req))
		if os.Getenv("MQTTCHECK_DEBUG_NORM") != "" {
			fmt.Fprintf(os.Stderr, "normalise: outlined RetryClient.%s from the task closure of %s\n", spec.req, spec.api)
		}
		return true
	}
	return false
}

// forPostRound: `for init; cond; helper() { body }` with a call of a new helper as the post statement and no `continue`
// in the body becomes `for init; cond; { body; helper() }`, where the call is in a position the inliner supports. Without
// a `continue` the post statement runs exactly when the end of the body is reached, so nothing changes.
func (n *normalizer) forPostRound() bool {
	changed := false
	for _, f := range n.pp.Syntax {
		filename := n.fset.File(f.Pos()).Name()
		ast.Inspect(f, func(x ast.Node) bool {
			fs, ok := x.(*ast.ForStmt)
			if !ok || fs.Post == nil || changed {
				return true
			}
			es, ok := fs.Post.(*ast.ExprStmt)
			if !ok {
				return true
			}
			call, ok := es.X.(*ast.CallExpr)
			if !ok {
				return true
			}
			callee, _ := n.calleeOf(call)
			if callee == nil || !n.helpers[callee] {
				return true
			}
			// no continue that targets this loop
			bad := false
			var walk func(nd ast.Node, nested bool)
			walk = func(nd ast.Node, nested bool) {
				ast.Inspect(nd, func(y ast.Node) bool {
					if bad || y == nil {
						return false
					}
					switch z := y.(type) {
					case *ast.FuncLit:
						return false
					case *ast.BranchStmt:
						if z.Tok.String() == "continue" && (z.Label != nil || !nested) {
							bad = true
						}
						if z.Tok.String() == "goto" {
							bad = true
						}
					case *ast.ForStmt:
						if y != nd {
							walk(z.Body, true)
							return false
						}
					case *ast.RangeStmt:
						if y != nd {
							walk(z.Body, true)
							return false
						}
					}
					return true
				})
			}
			walk(fs.Body, false)
			if bad {
				return true
			}
			ps, pe := n.off(fs.Post.Pos()), n.off(fs.Post.End())
			be := n.off(fs.Body.Rbrace)
			if n.overlaps(filename, ps, pe) || n.overlaps(filename, be, be) {
				return true
			}
			text := n.src(filename, fs.Post.Pos(), fs.Post.End())
			line := n.fset.Position(fs.Post.Pos()).Line
			n.addEdit(filename, ps, pe, "")
			n.addEdit(filename, be, be, "\n"+n.lineDirective(filename, line)+text+"\n"+n.lineDirective(filename, n.fset.Position(fs.Body.Rbrace).Line))
			n.notes = append(n.notes, fmt.Sprintf("post statement of the loop at %s:%d moved to the end of its body", shortFile(filename), line))
			changed = true
			return false
		})
		if changed {
			break
		}
	}
	return changed
}

// forCondRound: `for init; C; post { B }` whose condition calls a new helper becomes `for init; ; post { if !(C) { break };
// B }`: the condition is evaluated at the same points (on entry, after post, after a continue), and the call now stands
// in an `if`, where the inliner reaches it. Refused when B contains an unlabelled break inside a switch/select that
// would be unaffected anyway — nothing changes for those — or a label on the loop (kept simple: loops without a label).
func (n *normalizer) forCondRound() bool {
	changed := false
	for _, f := range n.pp.Syntax {
		filename := n.fset.File(f.Pos()).Name()
		var stack []ast.Node
		ast.Inspect(f, func(x ast.Node) bool {
			if x == nil {
				stack = stack[:len(stack)-1]
				return true
			}
			stack = append(stack, x)
			fs, ok := x.(*ast.ForStmt)
			if !ok || fs.Cond == nil || changed {
				return true
			}
			if len(stack) >= 2 {
				if _, isLabeled := stack[len(stack)-2].(*ast.LabeledStmt); isLabeled {
					return true
				}
			}
			has := false
			ast.Inspect(fs.Cond, func(y ast.Node) bool {
				switch z := y.(type) {
				case *ast.FuncLit:
					return false
				case *ast.CallExpr:
					if callee, _ := n.calleeOf(z); callee != nil && n.helpers[callee] {
						has = true
					}
				}
				return true
			})
			if !has {
				return true
			}
			cs, ce := n.off(fs.Cond.Pos()), n.off(fs.Cond.End())
			lb := n.off(fs.Body.Lbrace) + 1
			if n.overlaps(filename, cs, ce) || n.overlaps(filename, lb, lb) {
				return true
			}
			cond := n.src(filename, fs.Cond.Pos(), fs.Cond.End())
			line := n.fset.Position(fs.Cond.Pos()).Line
			repl := ""
			if fs.Init == nil && fs.Post == nil {
				repl = "" // `for C {` -> `for {`
			}
			n.addEdit(filename, cs, ce, repl)
			n.addEdit(filename, lb, lb, "\n"+n.lineDirective(filename, line)+"if !("+cond+") {\n"+n.lineDirective(filename, line)+"break\n"+n.lineDirective(filename, line)+"}\n"+n.lineDirective(filename, n.fset.Position(fs.Body.Lbrace).Line+1))
			n.notes = append(n.notes, fmt.Sprintf("condition of the loop at %s:%d written as a break at the top of its body", shortFile(filename), line))
			changed = true
			return false
		})
		if changed {
			break
		}
	}
	return changed
}
