package main

import (
	"go/token"
	"go/types"

	"golang.org/x/tools/go/ssa"
)

// Finite-domain evaluation: the QoS bits of an inbound PUBLISH take four values. Where the parser computes the QoS from
// them arithmetically (`QoS((flags & 6) >> 1)` behind a range test) instead of selecting it by a switch, the table it
// implements is obtained by evaluating the function's expressions and branch conditions with the masked bits bound to
// each of the four values in turn. Nothing is run: constants are folded over the SSA values, a branch whose condition
// does not fold is followed both ways.

type fdEnv struct {
	c      *Ctx
	isBits func(v ssa.Value) bool // v denotes the bound quantity
	k      int64
}

func (e *fdEnv) eval(v ssa.Value, depth int) (int64, bool) {
	if depth > 12 || v == nil {
		return 0, false
	}
	if e.isBits(v) {
		return e.k, true
	}
	if k, ok := constInt(v); ok {
		return k, true
	}
	switch x := v.(type) {
	case *ssa.Convert:
		r, ok := e.eval(x.X, depth+1)
		if !ok {
			return 0, false
		}
		if w, isU := unsignedWidth(x.Type()); isU && w < 63 {
			r &= (int64(1) << uint(w)) - 1
		}
		return r, true
	case *ssa.ChangeType:
		return e.eval(x.X, depth+1)
	case *ssa.BinOp:
		a, okA := e.eval(x.X, depth+1)
		b, okB := e.eval(x.Y, depth+1)
		if !okA || !okB {
			return 0, false
		}
		switch x.Op {
		case token.AND:
			return a & b, true
		case token.OR:
			return a | b, true
		case token.XOR:
			return a ^ b, true
		case token.SHR:
			if b < 0 || b > 62 {
				return 0, false
			}
			return a >> uint(b), true
		case token.SHL:
			if b < 0 || b > 30 {
				return 0, false
			}
			return a << uint(b), true
		case token.ADD:
			return a + b, true
		case token.SUB:
			return a - b, true
		case token.MUL:
			return a * b, true
		case token.QUO:
			if b == 0 {
				return 0, false
			}
			return a / b, true
		}
	case *ssa.UnOp:
		// an element of a constant table indexed by a value that folds
		if x.Op == token.MUL {
			if ia, ok := x.X.(*ssa.IndexAddr); ok {
				if g, isG := ia.X.(*ssa.Global); isG {
					if tbl, n, okT := e.c.constTable(g); okT {
						if i, okI := e.eval(ia.Index, depth+1); okI && i >= 0 && i < int64(n) {
							return tbl[i], true
						}
					}
				}
			}
		}
	case *ssa.Phi:
		// a join all of whose inputs fold to one value
		var r int64
		have := false
		for _, ed := range x.Edges {
			if ed == v {
				continue
			}
			k, ok := e.eval(ed, depth+1)
			if !ok || (have && k != r) {
				return 0, false
			}
			r, have = k, true
		}
		return r, have
	}
	return 0, false
}

func (e *fdEnv) cond(v ssa.Value) (bool, bool) {
	switch x := v.(type) {
	case *ssa.UnOp:
		if x.Op == token.NOT {
			b, ok := e.cond(x.X)
			return !b, ok
		}
	case *ssa.BinOp:
		a, okA := e.eval(x.X, 0)
		b, okB := e.eval(x.Y, 0)
		if !okA || !okB {
			return false, false
		}
		switch x.Op {
		case token.EQL:
			return a == b, true
		case token.NEQ:
			return a != b, true
		case token.LSS:
			return a < b, true
		case token.LEQ:
			return a <= b, true
		case token.GTR:
			return a > b, true
		case token.GEQ:
			return a >= b, true
		}
	}
	if k, ok := constBool(v); ok {
		return k, true
	}
	return false, false
}

// publishQoSBits: the predicate "v is the QoS bits of the fixed-header flags" of the PUBLISH parser p: (flag & 6) for p's
// flag parameter, through conversions. Nil when p has no flag parameter.
func (c *Ctx) publishQoSBits(p *ssa.Function) func(ssa.Value) bool {
	flag, _ := parseParams(p)
	if flag == nil {
		return nil
	}
	return func(v ssa.Value) bool {
		and, ok := v.(*ssa.BinOp)
		if !ok || and.Op != token.AND {
			return false
		}
		if m, isM := constInt(and.Y); isM && m == 6 && c.Resolve(stripConv(and.X)) == ssa.Value(flag) {
			return true
		}
		if m, isM := constInt(and.X); isM && m == 6 && c.Resolve(stripConv(and.Y)) == ssa.Value(flag) {
			return true
		}
		return false
	}
}

// inboundQoSByBits: for each value k of the QoS bits (0, 2, 4, 6): the QoS the parser stores into the message when the
// bits are k (ok), or rejected = no way through the parser with these bits reaches a nil-error return.
func (c *Ctx) inboundQoSByBits(p *ssa.Function) (tbl map[int64]int64, rejected map[int64]bool, decided bool) {
	isBits := c.publishQoSBits(p)
	if isBits == nil || len(p.Blocks) == 0 {
		return nil, nil, false
	}
	tbl, rejected = map[int64]int64{}, map[int64]bool{}
	decided = true
	for _, k := range []int64{0, 2, 4, 6} {
		env := &fdEnv{c: c, isBits: isBits, k: k}
		seen := map[*ssa.BasicBlock]bool{}
		stored := map[int64]bool{}
		unknownStore, success := false, false
		var walk func(b *ssa.BasicBlock, haveQ bool)
		walk = func(b *ssa.BasicBlock, haveQ bool) {
			if seen[b] {
				return
			}
			seen[b] = true
			for _, in := range b.Instrs {
				switch x := in.(type) {
				case *ssa.Store:
					if _, isQ := isFieldAddr(x.Addr, "Message", "QoS"); isQ {
						if q, ok := env.eval(x.Val, 0); ok {
							stored[q] = true
						} else {
							unknownStore = true
						}
						haveQ = true
					}
				case *ssa.Return:
					if ev := c.errResult(x); ev != nil && isNilConst(c.Resolve(ev)) {
						success = true
						if !haveQ {
							// accepted without a QoS having been stored: the zero value
							stored[0] = true
						}
					}
				case *ssa.If:
					if t, ok := env.cond(x.Cond); ok {
						if t {
							walk(b.Succs[0], haveQ)
						} else {
							walk(b.Succs[1], haveQ)
						}
						return
					}
				}
			}
			for _, s := range b.Succs {
				walk(s, haveQ)
			}
		}
		walk(p.Blocks[0], false)
		switch {
		case unknownStore:
			decided = false
		case !success:
			rejected[k] = true
		case len(stored) == 1:
			for q := range stored {
				tbl[k] = q
			}
		default:
			decided = false
		}
	}
	return tbl, rejected, decided
}

var _ = types.Typ
