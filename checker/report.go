package main

import (
	"encoding/json"
	"fmt"
	"go/token"
	"os"
	"path/filepath"
	"sort"
	"strings"
	"time"
)

// Obligation is one decided (or undecided) instance of a rule at a construct of the analysed tree.
type Obligation struct {
	Property  string `json:"property"`
	Rule      string `json:"rule"`
	Construct string `json:"construct"` // stable key: rule @ function [/ detail] [#k]
	Pos       string `json:"pos"`       // file:line:col, for the reader only
	Status    string `json:"status"`    // discharged | violated | undecided | anchor-lost
	Why       string `json:"why"`
	Nontriv   bool   `json:"nontrivial"` // needed a path search / dominating fact / value-origin argument
}

type KnownFinding struct {
	Status       string `json:"status"` // known | fixed
	Property     string `json:"property"`
	Rule         string `json:"rule"`
	Construct    string `json:"construct"`
	What         string `json:"what"`
	Reproduction string `json:"reproduction,omitempty"`
	Commit       string `json:"commit,omitempty"`
}

// Run collects the obligations of one property.
type Run struct {
	Property string
	Tier     string
	C        *Ctx
	Obs      []*Obligation
	seen     map[string]int
	Notes    []string
	Assume   []string
	Explain  string
	rules    map[string]string // rule id -> text
	ruleSeq  []string
	floors   map[string]int
	counts   map[string]int
}

func newRun(prop, tier string, c *Ctx) *Run {
	return &Run{Property: prop, Tier: tier, C: c, seen: map[string]int{}, rules: map[string]string{}, floors: map[string]int{}, counts: map[string]int{}}
}

// Rule declares a rule (its text goes to evidence) and returns a reporter bound to it.
func (r *Run) Rule(id, text string) *RuleRep {
	if _, ok := r.rules[id]; !ok {
		r.rules[id] = text
		r.ruleSeq = append(r.ruleSeq, id)
	}
	return &RuleRep{r: r, id: id}
}

type RuleRep struct {
	r  *Run
	id string
}

func (rr *RuleRep) add(status, construct string, pos token.Pos, nontriv bool, format string, args ...interface{}) {
	if rr == nil {
		return
	}
	r := rr.r
	key := rr.id + " @ " + construct
	n := r.seen[key]
	r.seen[key] = n + 1
	if n > 0 {
		key = fmt.Sprintf("%s #%d", key, n)
	}
	p := ""
	if pos.IsValid() && r.C != nil {
		p = r.C.PosStr(pos)
	}
	r.Obs = append(r.Obs, &Obligation{Property: r.Property, Rule: rr.id, Construct: key, Pos: p, Status: status, Why: fmt.Sprintf(format, args...), Nontriv: nontriv})
	r.counts[rr.id]++
}

// OK records a discharged obligation that needed a non-trivial argument (path search, dominance, value origin).
func (rr *RuleRep) OK(construct string, pos token.Pos, format string, args ...interface{}) {
	rr.add("discharged", construct, pos, true, format, args...)
}

// OKt records a discharged obligation decided by table look-up / constant comparison.
func (rr *RuleRep) OKt(construct string, pos token.Pos, format string, args ...interface{}) {
	rr.add("discharged", construct, pos, false, format, args...)
}

func (rr *RuleRep) Bad(construct string, pos token.Pos, format string, args ...interface{}) {
	rr.add("violated", construct, pos, true, format, args...)
}

func (rr *RuleRep) Undecided(construct string, pos token.Pos, format string, args ...interface{}) {
	rr.add("undecided", construct, pos, true, format, args...)
}

func (rr *RuleRep) Lost(construct string, format string, args ...interface{}) {
	rr.add("anchor-lost", construct, token.NoPos, false, format, args...)
}

// Check is shorthand: discharged if cond, violated otherwise.
func (rr *RuleRep) Check(cond bool, construct string, pos token.Pos, okWhy, badWhy string) bool {
	if rr == nil {
		return cond
	}
	if cond {
		rr.OK(construct, pos, "%s", okWhy)
	} else {
		rr.Bad(construct, pos, "%s", badWhy)
	}
	return cond
}

// Floor demands that at least n obligations were examined under this rule.
func (rr *RuleRep) Floor(n int) {
	if rr == nil {
		return
	}
	rr.r.floors[rr.id] = n
}

func (r *Run) Assumption(s string) { r.Assume = append(r.Assume, s) }

func loadKnown(path string) ([]KnownFinding, error) {
	b, err := os.ReadFile(path)
	if err != nil {
		if os.IsNotExist(err) {
			return nil, nil
		}
		return nil, err
	}
	var out []KnownFinding
	for i, line := range strings.Split(string(b), "\n") {
		line = strings.TrimSpace(line)
		if line == "" || strings.HasPrefix(line, "#") {
			continue
		}
		var k KnownFinding
		if err := json.Unmarshal([]byte(line), &k); err != nil {
			return nil, fmt.Errorf("%s:%d: %v", path, i+1, err)
		}
		out = append(out, k)
	}
	return out, nil
}

// Finish applies floors, prints the report, writes evidence and replay files; returns the exit code.
func (r *Run) Finish(verifDir string, start time.Time, seed int64, analysed map[string]interface{}, selftest interface{}) int {
	// floors
	for _, id := range r.ruleSeq {
		if fl, ok := r.floors[id]; ok && r.counts[id] < fl {
			rr := &RuleRep{r: r, id: id}
			rr.add("anchor-lost", "floor", token.NoPos, false, "rule examined %d instance(s), fewer than the %d confirmed by reading on the reference tree: the constructs it anchors in were not found", r.counts[id], fl)
		}
	}
	known, kerr := loadKnown(filepath.Join(verifDir, "known_findings.jsonl"))
	if kerr != nil {
		fmt.Printf("cannot read known findings: %v\n", kerr)
	}
	isKnown := func(o *Obligation) *KnownFinding {
		for i := range known {
			k := &known[i]
			if k.Status == "known" && k.Property == o.Property && k.Construct == o.Construct {
				return k
			}
		}
		return nil
	}
	discharged, violated := 0, 0
	nontriv := map[string]bool{}
	var bad []*Obligation
	for _, o := range r.Obs {
		switch o.Status {
		case "discharged":
			discharged++
			if o.Nontriv {
				nontriv[o.Construct] = true
			}
		default:
			if k := isKnown(o); k != nil {
				fmt.Printf("KNOWN-FINDING: property=%s %s (%s)\n", r.Property, k.What, o.Construct)
				continue
			}
			violated++
			bad = append(bad, o)
		}
	}
	// print summary
	fmt.Printf("== %s tier=%s: %d obligations over %d rules, %d discharged, %d violated/undecided\n", r.Property, r.Tier, len(r.Obs), len(r.ruleSeq), discharged, violated)
	for _, id := range r.ruleSeq {
		fmt.Printf("   %-10s %3d instance(s)  %s\n", id, r.counts[id], firstLine(r.rules[id]))
	}
	replayDir := filepath.Join(verifDir, "evidence", "replay")
	os.MkdirAll(replayDir, 0o755)
	// remove stale replay files of this property
	if ents, err := os.ReadDir(replayDir); err == nil {
		for _, e := range ents {
			if strings.HasPrefix(e.Name(), r.Property+"-") {
				os.Remove(filepath.Join(replayDir, e.Name()))
			}
		}
	}
	for i, o := range bad {
		fmt.Printf("%s: [%s %s] %s: %s\n", o.Pos, r.Property, o.Construct, strings.ToUpper(o.Status), o.Why)
		rp := filepath.Join(replayDir, fmt.Sprintf("%s-%d.json", r.Property, i+1))
		b, _ := json.MarshalIndent(map[string]interface{}{"obligation": o, "rule_text": r.rules[o.Rule]}, "", " ")
		os.WriteFile(rp, b, 0o644)
		fmt.Printf("VIOLATION property=%s replay=%s\n", r.Property, rp)
	}
	// evidence
	samples := []interface{}{}
	step := 1
	if len(r.Obs) > 14 {
		step = len(r.Obs) / 14
	}
	for i := 0; i < len(r.Obs); i += step {
		samples = append(samples, r.Obs[i])
	}
	ruleTexts := []string{}
	for _, id := range r.ruleSeq {
		ruleTexts = append(ruleTexts, fmt.Sprintf("%s (%d instances): %s", id, r.counts[id], r.rules[id]))
	}
	if r.Assume == nil {
		r.Assume = []string{}
	}
	if r.Notes == nil {
		r.Notes = []string{}
	}
	sort.Strings(r.Assume)
	cov := map[string]interface{}{
		"explanation":         r.Explain,
		"rules":               ruleTexts,
		"obligations":         len(r.Obs),
		"discharged":          discharged,
		"evaluations":         len(r.Obs),
		"distinct_nontrivial": len(nontriv),
		"rule":                "one obligation per (rule, construct) instance found in the type-checked SSA of /repo's current tree; non-trivial = its discharge needed a CFG path search, a dominance/edge argument or an SSA value-origin identity (table look-ups and constant comparisons are counted as trivial); distinct = distinct construct keys",
		"samples":             samples,
		"analysed":            analysed,
		"exhaustive":          true,
		"notes":               r.Notes,
	}
	if selftest != nil {
		cov["selftest"] = selftest
	}
	ev := map[string]interface{}{
		"property_id": r.Property,
		"tier":        r.Tier,
		"seed":        seed,
		"level":       "other",
		"coverage":    cov,
		"assumptions": r.Assume,
		"wall_s":      time.Since(start).Seconds(),
		"violations":  violated,
	}
	b, _ := json.MarshalIndent(ev, "", " ")
	os.MkdirAll(filepath.Join(verifDir, "evidence"), 0o755)
	if err := os.WriteFile(filepath.Join(verifDir, "evidence", r.Property+".json"), b, 0o644); err != nil {
		fmt.Printf("cannot write evidence: %v\n", err)
		return 1
	}
	if violated > 0 {
		return 1
	}
	return 0
}

func firstLine(s string) string {
	if i := strings.IndexByte(s, '\n'); i >= 0 {
		s = s[:i]
	}
	if len(s) > 110 {
		s = s[:107] + "..."
	}
	return s
}
