package main

import (
	"go/token"

	"golang.org/x/tools/go/ssa"
)

func init() {
	register("C18", "Decided: R-C18-1 every request the retry client issues (first transmissions, Ping, Disconnect) and every queued retry handle runs under a context obtained from requestContext(), whose cancel function is released on every path; R-C18-2 requestContext derives context.WithTimeout(ctx, ResponseTimeout) and its Err() wraps the cause in RequestTimeoutError; R-C18-4 a timed-out wait returns an error that carries its retry handle; R-C18-3 on every failure (first transmission and retransmission alike) the error is reported through OnError, the handle is kept and the connection is marked for closing, and the task loop closes it; R-C18-6 the reconnect loop then establishes a new connection — it returns only behind its context, `disconnected` or a graceful end; R-C18-7 what is reported is identifiable as RequestTimeoutError (R-C19-6). Not decided: that the timer fires at the configured time; time spent blocked in Transport.Write.", checkC18)
}

func checkC18(r *Run) {
	c := r.C
	r1 := r.Rule("R-C18-1", "every BaseClient request issued by RetryClient and every invocation of a queued retry handle uses the context returned by requestContext(own ctx); cancel is released on every path")
	r2 := r.Rule("R-C18-2", "requestContext: WithTimeout(ctx, ResponseTimeout) wrapped so that Err() is a RequestTimeoutError")
	r3 := r.Rule("R-C18-3", "a failed (timed-out) request or retransmission is reported through OnError, kept, and the link is recycled")
	r4 := r.Rule("R-C18-4", "a request that times out (ctx.Done() case of any wait) returns an error carrying its retry handle, so that it is kept for retransmission (R-C01-5)")
	r1.Floor(4)
	r3.Floor(5)
	r4.Floor(6)
	c.ruleRetryableFailures(r4, c.sitesOrLost(r4))
	a := c.retryAnchors()
	if a.lost(r1) {
		return
	}
	if a.WithReqCtx == nil && len(c.boundingClosures(a)) == 0 {
		r1.Lost("(*RetryClient).withRequestContext", "wrapper that bounds retry handles not found")
	}
	c.ruleFailedKept(r3, r3)
	r5 := r.Rule("R-C18-5", "no lock is re-acquired on a path that already holds it (a self-deadlock on the timeout path would stall the task goroutine for ever)")
	c.ruleSelfDeadlock(r5)
	r6 := r.Rule("R-C18-6", "a new connection is established: the reconnect loop returns only behind ctx done, `disconnected` or a graceful end — not because the connection it closed itself reported some error")
	if m, why := c.reconnModel(); m != nil {
		c.ruleLoopStopsOnlyOnRequest(r6, m)
	} else {
		r6.Lost("reconnect-loop", "%s", why)
	}
	r7 := r.Rule("R-C18-7", "what is reported is a RequestTimeoutError: every context bounded by ResponseTimeout is the requestContext wrapper and its Err() wraps whenever the bound can have expired (R-C19-6)")
	c.ruleTimeoutIdentity(r7)
	c.ruleRetryRequeue(nil, r3, "multiset")
	c.ruleRecycleInTaskLoop(r3, a)

	// R-C18-1: request calls
	baseReq := map[*ssa.Function]string{}
	implReq := map[*ssa.Function]bool{} // request implementations called directly: the context is the first operand
	for _, n := range []string{"Publish", "Subscribe", "Unsubscribe", "Disconnect", "Ping"} {
		if m := c.Method("BaseClient", n); m != nil {
			baseReq[m] = n
			if impl := c.implOf(m); impl != nil {
				baseReq[impl] = n
				implReq[impl] = true
			}
		}
	}
	for _, f := range c.Funcs {
		top := enclosingTop(f)
		if top.Signature.Recv() == nil || typeName(top.Signature.Recv().Type()) != "RetryClient" {
			continue
		}
		eachInstr(f, func(in ssa.Instruction) {
			k, ok := in.(*ssa.Call)
			if !ok {
				return
			}
			callee := c.StaticCalleeOf(&k.Call)
			name, isReq := baseReq[callee]
			isHandleInvoke := false
			if !isReq && f.Parent() != nil && top == a.WithReqCtx && !k.Call.IsInvoke() && callee == nil {
				// invocation of the wrapped retry handle (a free variable of type retryFn)
				if typeName(k.Call.Value.Type()) == "retryFn" || len(k.Call.Args) == 2 {
					isHandleInvoke = true
					name = "retry handle"
				}
			}
			if !isReq && !isHandleInvoke {
				if bc := c.boundingClosure(a, f); bc != nil && bc.Invoke == k {
					isHandleInvoke = true
					name = "retry handle"
				}
			}
			if !isReq && !isHandleInvoke {
				return
			}
			key := FuncName(f) + "/" + name
			var ctxArg ssa.Value
			if isReq && implReq[callee] {
				if enclosingTop(f) == callee || f == c.Method("BaseClient", name) {
					return // the implementation's own retry handle / the base method delegating: not a RetryClient request
				}
				ctxArg = k.Call.Args[0]
			} else if isReq {
				ctxArg = k.Call.Args[1]
			} else {
				ctxArg = k.Call.Args[0]
			}
			// exempt: the documented direct QoS0 publish in the API method
			if f == c.Method("RetryClient", "Publish") && name == "Publish" {
				r1.OKt(key, in.Pos(), "exempt by table: DirectlyPublishQoS0 path (QoS 0: no acknowledgement is awaited); dominance checked by R-C01-1")
				return
			}
			ex, ok := c.Resolve(ctxArg).(*ssa.Extract)
			var rc *ssa.Call
			if ok && ex.Index == 0 {
				rc, _ = ex.Tuple.(*ssa.Call)
			}
			if rc == nil || c.StaticCalleeOf(&rc.Call) != a.ReqCtx {
				r1.Bad(key, in.Pos(), "%s is issued with a context that does not come from requestContext(): with ResponseTimeout set, a silent broker blocks the task goroutine for ever", name)
				return
			}
			// derived from the function's own ctx parameter
			var own ssa.Value
			for _, p := range f.Params {
				if p.Type().String() == "context.Context" {
					own = p
				}
			}
			_, rcCtxIdx := ctxParam(a.ReqCtx)
			if own == nil || rcCtxIdx < 0 || rcCtxIdx >= len(rc.Call.Args) || c.Resolve(rc.Call.Args[rcCtxIdx]) != own {
				r1.Bad(key, rc.Pos(), "the request context is not derived from the function's own context parameter")
				return
			}
			// cancel released on every path: deferred, or called on all paths after the request
			var cancel ssa.Value
			for _, u := range *rc.Referrers() {
				if e2, ok := u.(*ssa.Extract); ok && e2.Index == 1 {
					cancel = e2
				}
			}
			released := false
			if cancel != nil {
				eachInstr(f, func(x ssa.Instruction) {
					if d, ok := x.(*ssa.Defer); ok && d.Call.Value == cancel {
						if Dominated(f, in, func(y ssa.Instruction) bool { return y == x }, PathQ{}) {
							released = true
						}
					}
				})
				if !released {
					isCancel := func(x ssa.Instruction) bool {
						kk, ok := x.(*ssa.Call)
						return ok && kk.Call.Value == cancel
					}
					if _, ok := c.mustFollowFrom(f, in, isCancel, nil); ok {
						released = true
					}
				}
			}
			if !released {
				r1.Bad(key, rc.Pos(), "the cancel function of the request context is not released on every path (timer leak per request)")
				return
			}
			r1.OK(key, in.Pos(), "%s runs under requestContext(own ctx); cancel released on every path", name)
		})
	}

	// R-C18-2
	rcF := a.ReqCtx
	rcCtx, _ := ctxParam(rcF)
	if rcCtx == nil {
		r2.Lost("requestContext/ctx", "requestContext has no context parameter")
		return
	}
	okRC := false
	var timeoutRet *ssa.Return
	wrapT := ""
	for _, ret := range returnsOf(rcF) {
		v := c.Resolve(c.RetVal(ret, 0))
		if v == ssa.Value(rcCtx) {
			// pass-through: only when ResponseTimeout == 0
			dom := false
			for _, b := range rcF.Blocks {
				iff := blockIf(b)
				if iff == nil {
					continue
				}
				bin, ok := iff.Cond.(*ssa.BinOp)
				if !ok {
					continue
				}
				if !c.isResponseTimeout(rcF, bin.X) {
					continue
				}
				if k, ok := constInt(bin.Y); !ok || k != 0 {
					continue
				}
				edge := 0
				if bin.Op == token.NEQ || bin.Op == token.GTR {
					edge = 1
				} else if bin.Op != token.EQL {
					continue
				}
				if DominatedByEdge(rcF, ret, b, edge, PathQ{}) {
					dom = true
				}
			}
			if !dom {
				r2.Bad("requestContext/pass-through", ret.Pos(), "requestContext returns the unbounded context although a ResponseTimeout may be configured")
			} else {
				r2.OK("requestContext/pass-through", ret.Pos(), "unbounded context only when ResponseTimeout == 0")
			}
			continue
		}
		timeoutRet = ret
		al, ok := v.(*ssa.Alloc)
		if ok {
			wrapT = typeName(al.Type())
		}
		if !ok || wrapT == "" || c.Method(wrapT, "Err") == nil {
			r2.Bad("requestContext/wrap", ret.Pos(), "the bounded context is not wrapped in requestContext: its expiry is not reported as RequestTimeoutError")
			continue
		}
		inner := c.storedField(al, "Context")
		ex, _ := c.Resolve(inner).(*ssa.Extract)
		var wt *ssa.Call
		if ex != nil && ex.Index == 0 {
			wt, _ = ex.Tuple.(*ssa.Call)
		}
		cancelOf := func(k *ssa.Call) ssa.Value {
			for _, u := range *k.Referrers() {
				if e, ok := u.(*ssa.Extract); ok && e.Index == 1 {
					return e
				}
			}
			return nil
		}
		// returnsCancel: the second result is the bound's cancel function, or a closure that calls it
		returnsCancel := func(k *ssa.Call) bool {
			cf := cancelOf(k)
			cv := c.Resolve(c.RetVal(ret, 1))
			if cf == nil {
				return false
			}
			if cv == cf {
				return true
			}
			if mc, ok := cv.(*ssa.MakeClosure); ok {
				if fn, ok := mc.Fn.(*ssa.Function); ok {
					calls := false
					eachInstr(fn, func(x ssa.Instruction) {
						if kk, ok := x.(*ssa.Call); ok && c.Resolve(kk.Call.Value) == cf {
							calls = true
						}
					})
					return calls
				}
			}
			return false
		}
		if wt != nil && isStdCall(&wt.Call, "context", "WithCancel") && wt.Call.Args[0] == ssa.Value(rcCtx) {
			// WithCancel armed by time.AfterFunc(ResponseTimeout, cancel)
			armed := false
			cf := cancelOf(wt)
			eachInstr(rcF, func(x ssa.Instruction) {
				k, ok := x.(*ssa.Call)
				if !ok || !isStdCall(&k.Call, "time", "AfterFunc") || len(k.Call.Args) != 2 {
					return
				}
				if !c.isResponseTimeout(rcF, k.Call.Args[0]) {
					return
				}
				if cf != nil && c.Resolve(k.Call.Args[1]) == cf && Dominated(rcF, ret, func(y ssa.Instruction) bool { return y == x }, PathQ{}) {
					armed = true
				}
			})
			if armed && returnsCancel(wt) {
				okRC = true
				r2.OK("requestContext/timeout", wt.Pos(), "&requestContext{WithCancel(ctx)} cancelled by time.AfterFunc(c.ResponseTimeout, cancel), with its cancel")
				continue
			}
		}
		if wt == nil || !isStdCall(&wt.Call, "context", "WithTimeout") {
			r2.Bad("requestContext/timeout", ret.Pos(), "the request context is not derived with context.WithTimeout: it never expires")
			continue
		}
		if wt.Call.Args[0] != ssa.Value(rcCtx) {
			r2.Bad("requestContext/timeout", wt.Pos(), "WithTimeout is not derived from the caller's context")
			continue
		}
		if !c.isResponseTimeout(rcF, wt.Call.Args[1]) {
			r2.Bad("requestContext/timeout", wt.Pos(), "the timeout operand is not ResponseTimeout")
			continue
		}
		if !returnsCancel(wt) {
			r2.Bad("requestContext/cancel", ret.Pos(), "requestContext does not hand back WithTimeout's cancel function")
			continue
		}
		okRC = true
		r2.OK("requestContext/timeout", wt.Pos(), "&requestContext{WithTimeout(ctx, c.ResponseTimeout)} with its cancel")
	}
	if timeoutRet == nil {
		r2.Bad("requestContext/timeout", rcF.Pos(), "requestContext never returns a bounded context")
	}
	_ = okRC
	// Err() of requestContext wraps in RequestTimeoutError
	if wrapT == "" {
		wrapT = "requestContext"
	}
	errM := c.Method(wrapT, "Err")
	if errM == nil {
		r2.Bad("(*requestContext).Err", rcF.Pos(), "requestContext has no Err method of its own: an expired response timeout is indistinguishable from a cancelled caller context")
	} else {
		good := false
		for _, ret := range returnsOf(errM) {
			v := c.Resolve(c.RetVal(ret, 0))
			if al, ok := v.(*ssa.Alloc); ok && typeName(al.Type()) == "RequestTimeoutError" {
				good = true
			}
		}
		if good {
			r2.OK("(*requestContext).Err", errM.Pos(), "Err() returns *RequestTimeoutError")
		} else {
			r2.Bad("(*requestContext).Err", errM.Pos(), "Err() of the request context does not produce a RequestTimeoutError")
		}
	}
}

// ruleRecycleInTaskLoop: the task loop closes the client when the flag is set (part of R-C18-3; shares code with R-C01-8(d)).
func (c *Ctx) ruleRecycleInTaskLoop(rr *RuleRep, a *retryAnchors) {
	g := c.taskGoroutine(a)
	if g == nil {
		rr.Lost("task-goroutine", "not found")
		return
	}
	closeM := c.Method("BaseClient", "Close")
	found := false
	for _, b := range g.Blocks {
		iff := blockIf(b)
		if iff == nil {
			continue
		}
		if _, ok := isLoadOfField(iff.Cond, a.NewRetry); !ok {
			continue
		}
		eachInstr(g, func(in ssa.Instruction) {
			if k, ok := in.(*ssa.Call); ok && closeM != nil && c.StaticCalleeOf(&k.Call) == closeM && DominatedByEdge(g, in, b, 0, PathQ{}) {
				found = true
			}
		})
	}
	if found {
		rr.OK(FuncName(g)+"/close-on-flag", g.Pos(), "the task loop closes the client when a task set the retry flag")
	} else {
		rr.Bad(FuncName(g)+"/close-on-flag", g.Pos(), "the task loop does not close the client after a failed (timed-out) request: the silent connection is kept and no new one is established")
	}
}
