package main

func init() {
	register("C02", "Decided: the sender-side QoS 2 typestate on which exactly-once rests (MQTT 3.1.1 section 4.3.3). R-C02-1 stage monotonicity: after PUBREC every handle handed out is the PUBREL stage itself and no call path leads back to PUBLISH; R-C02-2 Retry re-queues exactly [continuation of the failed entry, entries not yet attempted] and executes nothing after the first failure; R-C02-3 in the PUBREL stage the only nil-error return is dominated by the receive from the PUBCOMP waiter registered under the message's id, and no handle is produced on that path; R-C02-4 the packet identifier is assigned once (R-C12-1); R-C02-5 the retry queue is resumed after every successful Connect (never zero deliveries because a queued message is stuck); R-C02-6 every failure of the QoS 2 exchange after registration carries a retry handle that the error wrappers keep (never zero deliveries because an interrupted exchange is forgotten); R-C02-7 a failed publish leaves the retrying client's request closure only with its handle queued; R-C02-8 the handles of the QoS 2 exchange resume on the client Retry gives them and capture nothing of the failed attempt. Not decided: delivery counts at a broker, broker-side session loss, colliding caller-chosen ids.", checkC02)
}

func checkC02(r *Run) {
	c := r.C
	r1 := r.Rule("R-C02-1", "stage monotonicity: after PUBREC only PUBREL-stage handles; no call path from the PUBREL stage to (*pktPublish).Pack / publishImpl")
	r2 := r.Rule("R-C02-2", "Retry re-queues exactly continuation + unattempted tail, in that order, and stops at the first failure")
	r3 := r.Rule("R-C02-3", "PUBREL stage succeeds only through its own PUBCOMP waiter (registered after PUBREC, keyed by message.ID)")
	r1.Floor(3)
	r2.Floor(3)
	sites := c.sitesOrLost(r1)
	uses := c.ruleRetryableFailures(nil, sites)
	c.ruleStageMonotone(r1, sites, uses)
	c.ruleRetryRequeue(r2, nil, "multiset")
	var st2 []*reqSite
	for _, s := range sites {
		if s.Kind == "pubrel" || (s.Kind == "publish" && s.QoS == 2) {
			st2 = append(st2, s)
		}
	}
	c.ruleRegisterBeforeWrite(r3, st2, "no-fresh-in-stage")
	c.ruleThreeWaySelect(nil, r3, st2)
	r3.Floor(2)
	r5 := r.Rule("R-C02-5", "never zero times: the reconnect loop resumes the retry queue after every successful Connect (R-C01-8)")
	c.ruleReconnectResumes(r5)
	r6 := r.Rule("R-C02-6", "never zero times: every failure of the QoS 2 exchange after its waiter was registered carries a retry handle, and the error wrappers keep it for every cause but nil and io.EOF")
	c.ruleRetryableFailures(r6, st2)
	c.ruleWrapKeepsHandle(r6)
	r8 := r.Rule("R-C02-8", "never zero times: the handles of the QoS 2 exchange resume on the connection they are given — they re-issue the stage with Retry's context and client and capture no client, signaller or channel of the attempt that failed (R-C01-6 for the QoS 2 sites)")
	{
		var uses2 []handleUse
		for _, u := range c.ruleRetryableFailures(nil, st2) {
			uses2 = append(uses2, u)
		}
		c.ruleHandleReissues(r8, uses2)
	}
	r7 := r.Rule("R-C02-7", "never zero times: a failed (e.g. timed-out) publish leaves the retrying client's request closure only with its retry handle queued — unless the caller's own context was cancelled (R-C01-4, publish only)")
	c.ruleFailedKeptFor(r7, "publish")
}
