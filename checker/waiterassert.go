package main

import (
	"go/token"
	"go/types"

	"golang.org/x/tools/go/ssa"
)

// waiterAssertSafe: the assertion v.(*pktX) is applied to a value received from the waiter this request registered for
// acknowledgements of kind pktX in a table shared by several kinds, and every hand-over into a channel taken from that
// table sends a packet of the kind the entry was looked up under. Returns the reason, or "".
func (c *Ctx) waiterAssertSafe(x *ssa.TypeAssert) string {
	pt, ok := x.AssertedType.(*types.Pointer)
	if !ok {
		return ""
	}
	want := typeName(pt)
	f := x.Parent()
	// the channel the asserted value was received from
	var ch ssa.Value
	switch r := c.Resolve(x.X).(type) {
	case *ssa.UnOp:
		if r.Op == token.ARROW {
			ch = r.X
		}
	case *ssa.Extract:
		sel, ok := r.Tuple.(*ssa.Select)
		if !ok || r.Index < 2 {
			return ""
		}
		k := 0
		for _, st := range sel.States {
			if st.Dir == types.RecvOnly {
				if k == r.Index-2 {
					ch = st.Chan
				}
				k++
			}
		}
	}
	if ch == nil {
		return ""
	}
	sites, _ := c.requestSites()
	var site *reqSite
	for _, s := range sites {
		if s.F == f && s.AckT == want && s.RegChan != nil && c.ResolveQ(f, ch, s.Q) == s.RegChan {
			site = s
		}
	}
	if site == nil {
		return ""
	}
	mk, ok := site.RegChan.(*ssa.MakeChan)
	if !ok {
		return ""
	}
	mu, ok := site.Reg.(*ssa.MapUpdate)
	if !ok {
		return ""
	}
	table := func(v ssa.Value) *types.Var {
		u, ok := v.(*ssa.UnOp)
		if !ok || u.Op != token.MUL {
			return nil
		}
		fa, ok := u.X.(*ssa.FieldAddr)
		if !ok {
			return nil
		}
		_, fld := fieldOf(fa)
		return fld
	}
	fld := table(mu.Map)
	if fld == nil {
		return ""
	}
	// the fresh channel goes nowhere but into the table and into receives
	seen := map[ssa.Value]bool{}
	var onlyLocal func(v ssa.Value) bool
	onlyLocal = func(v ssa.Value) bool {
		if seen[v] {
			return true
		}
		seen[v] = true
		refs := v.Referrers()
		if refs == nil {
			return true
		}
		for _, u := range *refs {
			switch y := u.(type) {
			case *ssa.MapUpdate:
				if y.Value != v || table(y.Map) != fld {
					return false
				}
			case *ssa.ChangeType:
				if !onlyLocal(y) {
					return false
				}
			case *ssa.Phi:
				if !onlyLocal(y) {
					return false
				}
			case *ssa.Select, *ssa.DebugRef:
			case *ssa.UnOp:
				if y.Op != token.ARROW {
					return false
				}
			case *ssa.Store:
				al, isAl := y.Addr.(*ssa.Alloc)
				if !isAl || y.Val != v || c.escapesOtherwise(al) {
					return false
				}
				for _, ld := range *al.Referrers() {
					if l, isLd := ld.(*ssa.UnOp); isLd && l.Op == token.MUL && !onlyLocal(l) {
						return false
					}
				}
			default:
				return false
			}
		}
		return true
	}
	if !onlyLocal(mk) {
		return ""
	}
	// every value put into a channel of that table: by a send on a channel looked up in it, under a key of the kind sent
	nSend := 0
	good := true
	for _, g := range c.Funcs {
		eachInstr(g, func(in ssa.Instruction) {
			var chans, vals []ssa.Value
			switch y := in.(type) {
			case *ssa.Send:
				chans, vals = append(chans, y.Chan), append(vals, y.X)
			case *ssa.Select:
				for _, st := range y.States {
					if st.Dir == types.SendOnly {
						chans, vals = append(chans, st.Chan), append(vals, st.Send)
					}
				}
			}
			for i, cv := range chans {
				r := c.Resolve(cv)
				if ex, ok := r.(*ssa.Extract); ok {
					r = ex.Tuple
				}
				lk, ok := r.(*ssa.Lookup)
				if !ok || table(lk.X) != fld {
					// a channel of the table's element type reaching a send by another route
					if types.Identical(cv.Type().Underlying(), mk.Type().Underlying()) {
						good = false
					}
					continue
				}
				nSend++
				kind, _, ok := c.waiterEntry(lk.X, lk.Index)
				if !ok {
					good = false
					continue
				}
				vt, isPtr := c.Resolve(vals[i]).Type().(*types.Pointer)
				if !isPtr || typeName(vt) != kind {
					good = false
				}
			}
		})
	}
	if !good || nSend == 0 {
		return ""
	}
	return "the value comes from the waiter registered under kind " + want + "; every hand-over into that table sends the packet type its look-up key names"
}
