package main

// Correlated branch conditions.
//
// A refactoring often tests one condition twice (`if len(q) > 0 { copy }` … `if len(q) == 0 { run } else { queue }`, a bool
// parameter tested at the top and again further down). The paths on which the two tests disagree do not exist. CanReach —
// the single choke point of all path queries — therefore carries, along each path, the truth value of every condition
// that is tested more than once in the function, and does not follow an edge that contradicts a value learnt earlier
// on the same path.
//
// A condition class is a canonical form of the tested expression:
//   - pure: built from SSA registers, constants and comparisons only. A register never changes, so the value learnt stays
//     valid until the path passes the instruction defining one of the class's leaf operands again (next loop iteration).
//   - memory: additionally reads struct fields or globals (`len(c.retryQueue)`, `c.flag`). The value learnt is dropped at
//     every instruction that could change the location or let another goroutine's write become visible: a store that may
//     alias it, any call, go, defer, send, receive or select. The loads must sit in the block of the test with no such
//     instruction between them and the test.
//
// Everything else (map/channel lengths, conditions over call results in two different calls, …) forms no class and is
// treated as before.

import (
	"fmt"
	"go/constant"
	"go/token"
	"go/types"
	"os"

	"golang.org/x/tools/go/ssa"
)

type corrClass struct {
	key      string
	mem      []corrLoc                // memory locations read
	leafDefs map[ssa.Instruction]bool // defining instructions of leaf operands
	members  int
}

type corrLoc struct {
	structT types.Type // struct type (nil for a global)
	field   int
	global  *ssa.Global
	elemT   types.Type
	load    *ssa.UnOp
}

type corrMember struct {
	class int
	pol   bool // truth of the class condition on successor edge 0
}

const corrMaxPhis = 32

// pathFacts: what a path has established so far: the truth of the condition classes (two bits per class) and, for the
// tracked phis, through which incoming edge the path last entered the phi's block (index+1; 0 unknown).
type pathFacts struct {
	bits   uint64
	sel    [corrMaxPhis]int8
	passed bool // the path has taken the edge PathQ.MustEdge
}

type corrInfo struct {
	classes    []*corrClass
	members    map[*ssa.BasicBlock]corrMember
	kills      map[ssa.Instruction]uint32 // class bit mask
	tphis      []*ssa.Phi                 // phis some of whose incoming values are constants and that decide branches
	tphiIdx    map[*ssa.Phi]int
	tphiBlocks map[*ssa.BasicBlock][]int
	valClass   map[ssa.Value]int          // value -> class "this value is non-nil" (values carried by tracked phis)
	liveSel    map[*ssa.BasicBlock]uint32 // tracked phis whose record can still be consulted from this block on
	liveVal    map[*ssa.BasicBlock]uint32 // value classes (valClass) whose fact can still be consulted from this block on
	valMask    uint32                     // the classes that are value classes
	cur        *pathFacts                 // the facts of the path being extended (set by CanReach around the goal callback)
	at         *ssa.BasicBlock            // the block whose terminating test is being evaluated (set by CanReach around evalCond)
}

var corrCache = map[*ssa.Function]*corrInfo{}

var corrInKnownNonNil bool

const corrMaxClasses = 32

func corrOf(f *ssa.Function) *corrInfo {
	if ci, ok := corrCache[f]; ok {
		return ci
	}
	ci := buildCorr(f)
	corrCache[f] = ci
	return ci
}

type corrKeyer struct {
	c     *Ctx
	ids   map[ssa.Value]int
	locs  []corrLoc
	leafs []ssa.Value
	bad   bool
}

func (k *corrKeyer) id(v ssa.Value) string {
	if n, ok := k.ids[v]; ok {
		return fmt.Sprintf("v%d", n)
	}
	n := len(k.ids)
	k.ids[v] = n
	return fmt.Sprintf("v%d", n)
}

func (k *corrKeyer) leaf(v ssa.Value) string {
	// the operand's identity is the value it resolves to (a captured, never reassigned variable is read through a cell);
	// what the path must not pass again is the definition of that value
	r := v
	if k.c != nil {
		r = k.c.Resolve(v)
	}
	k.leafs = append(k.leafs, r)
	return k.id(r)
}

// opKey canonicalises an operand.
func (k *corrKeyer) opKey(v ssa.Value, depth int) string {
	if depth > 6 {
		k.bad = true
		return ""
	}
	switch x := v.(type) {
	case *ssa.Const:
		if x.Value == nil {
			return "nil"
		}
		return "k" + x.Value.ExactString()
	case *ssa.ChangeType:
		return k.opKey(x.X, depth+1)
	case *ssa.Convert:
		return "conv(" + x.Type().String() + "," + k.opKey(x.X, depth+1) + ")"
	case *ssa.Call:
		if b, ok := x.Call.Value.(*ssa.Builtin); ok && (b.Name() == "len" || b.Name() == "cap") && len(x.Call.Args) == 1 {
			switch x.Call.Args[0].Type().Underlying().(type) {
			case *types.Slice, *types.Basic, *types.Array, *types.Pointer:
				return b.Name() + "(" + k.opKey(x.Call.Args[0], depth+1) + ")"
			}
			k.bad = true // len of a map or channel changes without a store to the variable
			return ""
		}
		return k.leaf(v)
	case *ssa.UnOp:
		if x.Op == token.MUL {
			switch a := x.X.(type) {
			case *ssa.FieldAddr:
				pt, ok := a.X.Type().Underlying().(*types.Pointer)
				if !ok {
					k.bad = true
					return ""
				}
				k.locs = append(k.locs, corrLoc{structT: pt.Elem(), field: a.Field, elemT: x.Type(), load: x})
				return fmt.Sprintf("ld(%s.%d)", k.opKey(a.X, depth+1), a.Field)
			case *ssa.Global:
				k.locs = append(k.locs, corrLoc{global: a, elemT: x.Type(), load: x})
				return "ldg(" + a.Name() + ")"
			}
			return k.leaf(v)
		}
		if x.Op == token.ARROW {
			k.bad = true
			return ""
		}
		return x.Op.String() + "(" + k.opKey(x.X, depth+1) + ")"
	case *ssa.BinOp:
		return "(" + k.opKey(x.X, depth+1) + x.Op.String() + k.opKey(x.Y, depth+1) + ")"
	case *ssa.FieldAddr, *ssa.IndexAddr, *ssa.Field, *ssa.Index, *ssa.Lookup, *ssa.Extract, *ssa.TypeAssert, *ssa.Slice:
		return k.leaf(v)
	}
	return k.leaf(v)
}

func isZeroConst(v ssa.Value) bool {
	n, ok := constInt(v)
	return ok && n == 0
}

func isOneConst(v ssa.Value) bool {
	n, ok := constInt(v)
	return ok && n == 1
}

// condKey canonicalises a branch condition: key of the class and whether the condition itself (true) or its negation
// (false) is the class condition.
func (k *corrKeyer) condKey(v ssa.Value, depth int) (string, bool) {
	if depth > 6 {
		k.bad = true
		return "", true
	}
	switch x := v.(type) {
	case *ssa.UnOp:
		if x.Op == token.NOT {
			key, pol := k.condKey(x.X, depth+1)
			return key, !pol
		}
	case *ssa.BinOp:
		op, a, b := x.Op, x.X, x.Y
		switch op {
		case token.EQL, token.NEQ, token.LSS, token.GTR, token.LEQ, token.GEQ:
		default:
			return k.opKey(v, depth), true
		}
		if _, aConst := a.(*ssa.Const); aConst {
			if _, bConst := b.(*ssa.Const); !bConst {
				a, b = b, a
				switch op {
				case token.LSS:
					op = token.GTR
				case token.GTR:
					op = token.LSS
				case token.LEQ:
					op = token.GEQ
				case token.GEQ:
					op = token.LEQ
				}
			}
		}
		// emptiness of a length: > 0, != 0, >= 1  /  == 0, <= 0, < 1
		if call, ok := a.(*ssa.Call); ok {
			if bi, ok := call.Call.Value.(*ssa.Builtin); ok && bi.Name() == "len" {
				switch {
				case (op == token.GTR || op == token.NEQ) && isZeroConst(b), op == token.GEQ && isOneConst(b):
					return "nonempty:" + k.opKey(a, depth+1), true
				case (op == token.EQL || op == token.LEQ) && isZeroConst(b), op == token.LSS && isOneConst(b):
					return "nonempty:" + k.opKey(a, depth+1), false
				}
			}
		}
		pol := true
		switch op {
		case token.NEQ:
			op, pol = token.EQL, false
		case token.GTR:
			op, pol = token.LEQ, false
		case token.GEQ:
			op, pol = token.LSS, false
		}
		ka, kb := k.opKey(a, depth+1), k.opKey(b, depth+1)
		if op == token.EQL && ka > kb {
			ka, kb = kb, ka
		}
		return "(" + ka + op.String() + kb + ")", pol
	}
	return k.opKey(v, depth), true
}

// memKill: may executing `in` change one of the locations, or make a concurrent write to it visible?
func memKill(in ssa.Instruction, locs []corrLoc) bool {
	switch x := in.(type) {
	case *ssa.Call:
		if b, ok := x.Call.Value.(*ssa.Builtin); ok {
			switch b.Name() {
			case "len", "cap", "append", "copy", "min", "max", "real", "imag", "complex":
				return false
			}
		}
		return true
	case *ssa.Go, *ssa.Defer, *ssa.RunDefers, *ssa.Send, *ssa.Select:
		return true
	case *ssa.UnOp:
		return x.Op == token.ARROW
	case *ssa.Store:
		for _, l := range locs {
			if !types.Identical(x.Val.Type(), l.elemT) {
				continue
			}
			switch a := x.Addr.(type) {
			case *ssa.Alloc:
				continue
			case *ssa.FieldAddr:
				pt, ok := a.X.Type().Underlying().(*types.Pointer)
				if ok && l.global == nil && (a.Field != l.field || !types.Identical(pt.Elem(), l.structT)) {
					continue
				}
				if ok && l.global != nil {
					continue
				}
			case *ssa.Global:
				if l.global != nil && a != l.global {
					continue
				}
				if l.global == nil {
					continue
				}
			}
			return true
		}
	}
	return false
}

func buildCorr(f *ssa.Function) *corrInfo {
	type cand struct {
		b    *ssa.BasicBlock
		key  string
		pol  bool
		locs []corrLoc
		leaf []ssa.Value
	}
	var cands []cand
	count := map[string]int{}
	ids := map[ssa.Value]int{}
	// one computed value tested by several branches (`started := c.chTask != nil; if !started {…}; …; if started {…}`):
	// its truth is that of the one evaluation, whatever happens to the memory it was computed from
	condUses := map[ssa.Value]int{}
	for _, b := range f.Blocks {
		if iff := blockIf(b); iff != nil {
			if _, isIn := iff.Cond.(ssa.Instruction); isIn {
				if _, isPhi := iff.Cond.(*ssa.Phi); !isPhi {
					condUses[iff.Cond]++
				}
			}
		}
	}
	for _, b := range f.Blocks {
		iff := blockIf(b)
		if iff == nil {
			continue
		}
		if _, isK := iff.Cond.(*ssa.Const); isK {
			continue
		}
		if condUses[iff.Cond] >= 2 {
			key := "same:" + iff.Cond.Name()
			cands = append(cands, cand{b, key, true, nil, []ssa.Value{iff.Cond}})
			count[key]++
			continue
		}
		k := &corrKeyer{c: curCtx, ids: ids}
		key, pol := k.condKey(iff.Cond, 0)
		if k.bad || key == "" {
			continue
		}
		// memory operands: loaded in this block, nothing between the load and the test that could change them
		ok := true
		for _, l := range k.locs {
			if l.load.Block() != b {
				ok = false
				break
			}
			for i := instrIndex(l.load) + 1; i < len(b.Instrs); i++ {
				if memKill(b.Instrs[i], k.locs) {
					ok = false
				}
			}
		}
		if !ok {
			continue
		}
		cands = append(cands, cand{b, key, pol, k.locs, k.leafs})
		count[key]++
	}
	ci := &corrInfo{members: map[*ssa.BasicBlock]corrMember{}, kills: map[ssa.Instruction]uint32{}}
	idx := map[string]int{}
	for _, cd := range cands {
		if count[cd.key] < 2 {
			continue
		}
		i, ok := idx[cd.key]
		if !ok {
			if len(ci.classes) >= corrMaxClasses {
				continue
			}
			i = len(ci.classes)
			idx[cd.key] = i
			ci.classes = append(ci.classes, &corrClass{key: cd.key, leafDefs: map[ssa.Instruction]bool{}})
		}
		cl := ci.classes[i]
		cl.members++
		cl.mem = append(cl.mem, cd.locs...)
		for _, v := range cd.leaf {
			if in, isIn := v.(ssa.Instruction); isIn && in.Parent() == f {
				cl.leafDefs[in] = true
			}
		}
		ci.members[cd.b] = corrMember{class: i, pol: cd.pol}
	}
	ci.trackPhis(f)
	if len(ci.classes) == 0 {
		if os.Getenv("MQTTCHECK_DEBUG_CORR") != "" && len(ci.tphis) > 0 {
			fmt.Fprintf(os.Stderr, "corr: %s tracks %d phi(s) of constants\n", FuncName(f), len(ci.tphis))
		}
		return ci
	}
	for _, b := range f.Blocks {
		for _, in := range b.Instrs {
			var m uint32
			for i, cl := range ci.classes {
				if cl.leafDefs[in] || (len(cl.mem) > 0 && memKill(in, cl.mem)) {
					m |= 1 << uint(i)
				}
			}
			if m != 0 {
				ci.kills[in] = m
			}
		}
	}
	if os.Getenv("MQTTCHECK_DEBUG_CORR") != "" {
		for i, cl := range ci.classes {
			fmt.Fprintf(os.Stderr, "corr: %s class %d %s (%d tests, %d memory operands)\n", FuncName(f), i, cl.key, cl.members, len(cl.mem))
		}
	}
	return ci
}

// facts: two bits per class: 0 unknown, 1 false, 2 true.
func corrGet(facts uint64, class int) uint64 { return (facts >> (2 * uint(class))) & 3 }

func corrSet(facts uint64, class int, val bool) uint64 {
	facts &^= 3 << (2 * uint(class))
	if val {
		return facts | 2<<(2*uint(class))
	}
	return facts | 1<<(2*uint(class))
}

func corrClear(facts uint64, mask uint32) uint64 {
	for i := 0; mask != 0; i, mask = i+1, mask>>1 {
		if mask&1 != 0 {
			facts &^= 3 << (2 * uint(i))
		}
	}
	return facts
}

// ---- phis of constants ---------------------------------------------------------------------------------------------
//
// `res = waitClosed` in one select case, `res = waitAcked` in another, then `switch res {…}`: the value a branch tests is a
// phi whose incoming values are constants, and which constant it is follows from the edge through which the path entered
// the phi's block. CanReach records that edge for the phis that (through comparisons, negations and further phis) decide
// a branch or are the channel of a select case, evaluates branch conditions with it, and does not follow an edge the
// condition excludes. A phi's record is overwritten whenever the path enters its block again, and a condition computed
// from a phi is dominated by the phi's block, so a stale record is never consulted.

func (ci *corrInfo) trackPhis(f *ssa.Function) {
	relevant := map[*ssa.Phi]bool{}
	var order []*ssa.Phi
	var visit func(v ssa.Value, depth int)
	visit = func(v ssa.Value, depth int) {
		if depth > 8 {
			return
		}
		switch x := v.(type) {
		case *ssa.Phi:
			if relevant[x] || x.Parent() != f {
				return
			}
			relevant[x] = true
			order = append(order, x)
			for _, e := range x.Edges {
				visit(e, depth+1)
			}
		case *ssa.UnOp:
			if x.Op == token.NOT {
				visit(x.X, depth+1)
			}
		case *ssa.BinOp:
			switch x.Op {
			case token.EQL, token.NEQ, token.LSS, token.LEQ, token.GTR, token.GEQ:
				visit(x.X, depth+1)
				visit(x.Y, depth+1)
			}
		case *ssa.ChangeType:
			visit(x.X, depth+1)
		case *ssa.Convert:
			visit(x.X, depth+1)
		case *ssa.MakeInterface:
			visit(x.X, depth+1)
		}
	}
	for _, b := range f.Blocks {
		if iff := blockIf(b); iff != nil {
			visit(iff.Cond, 0)
		}
		for _, in := range b.Instrs {
			if sel, ok := in.(*ssa.Select); ok {
				for _, st := range sel.States {
					visit(st.Chan, 0)
				}
			}
		}
	}
	// further phis (result variables that are stored or returned rather than tested): tracked while there is room
	for _, b := range f.Blocks {
		for _, in := range b.Instrs {
			if p, ok := in.(*ssa.Phi); ok && !relevant[p] {
				relevant[p] = true
				order = append(order, p)
			}
		}
	}
	isConstLike := func(v ssa.Value) bool {
		for {
			switch x := v.(type) {
			case *ssa.ChangeType:
				v = x.X
				continue
			case *ssa.Convert:
				v = x.X
				continue
			case *ssa.MakeInterface:
				v = x.X
				continue
			}
			break
		}
		_, ok := v.(*ssa.Const)
		return ok
	}
	// keep phis with a constant incoming value, and phis fed by such phis
	keep := map[*ssa.Phi]bool{}
	for changed := true; changed; {
		changed = false
		for _, p := range order {
			if keep[p] {
				continue
			}
			for _, e := range p.Edges {
				if isConstLike(e) {
					keep[p] = true
				}
				if q, ok := e.(*ssa.Phi); ok && keep[q] {
					keep[p] = true
				}
			}
			if keep[p] {
				changed = true
			}
		}
	}
	ci.tphiIdx = map[*ssa.Phi]int{}
	ci.tphiBlocks = map[*ssa.BasicBlock][]int{}
	for _, p := range order {
		if !keep[p] || len(ci.tphis) >= corrMaxPhis {
			continue
		}
		ci.tphiIdx[p] = len(ci.tphis)
		ci.tphiBlocks[p.Block()] = append(ci.tphiBlocks[p.Block()], len(ci.tphis))
		ci.tphis = append(ci.tphis, p)
	}
	// while there is room: joins of values that can be nil (an error assigned per case and returned below the cases) — which
	// incoming value such a join holds on a path is what valuesAlong and the nil-ness of carried values are asked about
	for _, p := range order {
		if keep[p] || len(ci.tphis) >= corrMaxPhis {
			continue
		}
		switch p.Type().Underlying().(type) {
		case *types.Interface, *types.Pointer:
		default:
			continue
		}
		ci.tphiIdx[p] = len(ci.tphis)
		ci.tphiBlocks[p.Block()] = append(ci.tphiBlocks[p.Block()], len(ci.tphis))
		ci.tphis = append(ci.tphis, p)
	}
	// a tracked phi can also carry a value that some branch tested against nil (`err = pingErr` below `if pingErr != nil`):
	// the outcome of that test is remembered along the path like a condition tested twice
	ci.valClass = map[ssa.Value]int{}
	for _, p := range ci.tphis {
		for _, e := range p.Edges {
			v := e
			for {
				if ct, ok := v.(*ssa.ChangeType); ok {
					v = ct.X
					continue
				}
				break
			}
			if _, isConst := v.(*ssa.Const); isConst {
				continue
			}
			if _, isPhi := v.(*ssa.Phi); isPhi {
				continue
			}
			switch v.Type().Underlying().(type) {
			case *types.Pointer, *types.Interface, *types.Chan, *types.Signature, *types.Map, *types.Slice:
			default:
				continue
			}
			if _, done := ci.valClass[v]; done {
				continue
			}
			edges := nonNilEdgesRaw(f, v)
			if len(edges) == 0 || len(ci.classes) >= corrMaxClasses {
				continue
			}
			cl := len(ci.classes)
			cc := &corrClass{key: "nonnil:" + v.Name(), leafDefs: map[ssa.Instruction]bool{}}
			if in, ok := v.(ssa.Instruction); ok && in.Parent() == f {
				cc.leafDefs[in] = true
			}
			used := false
			for _, ed := range edges {
				if _, taken := ci.members[ed.B]; taken {
					continue
				}
				ci.members[ed.B] = corrMember{class: cl, pol: ed.K == 0}
				cc.members++
				used = true
			}
			if used {
				ci.classes = append(ci.classes, cc)
				ci.valClass[v] = cl
			}
		}
	}
	ci.liveness(f)
}

// liveness: a tracked phi's record is consulted only where the phi, or a tracked phi that (through its incoming values)
// depends on it, is in scope: in the blocks its block dominates. A path that leaves those blocks cannot come back to a
// consumer without entering the phi's block again, which overwrites the record; so the record is dropped there — nothing
// is lost, and paths that differ only in what they did in an earlier loop iteration or a finished branch fall together.
// The same holds for the nil-ness of a value defined in the function and carried by tracked phis.
func (ci *corrInfo) liveness(f *ssa.Function) {
	ci.liveSel = map[*ssa.BasicBlock]uint32{}
	ci.liveVal = map[*ssa.BasicBlock]uint32{}
	if len(ci.tphis) == 0 {
		return
	}
	type dep struct {
		phis uint32
		vals uint32
	}
	deps := make([]dep, len(ci.tphis))
	var walk func(v ssa.Value, d *dep, seen map[ssa.Value]bool, depth int)
	walk = func(v ssa.Value, d *dep, seen map[ssa.Value]bool, depth int) {
		if v == nil || seen[v] || depth > 14 {
			return
		}
		seen[v] = true
		if cl, ok := ci.valClass[v]; ok {
			d.vals |= 1 << uint(cl)
		}
		switch x := v.(type) {
		case *ssa.Phi:
			if j, ok := ci.tphiIdx[x]; ok {
				d.phis |= 1 << uint(j)
			}
			for _, e := range x.Edges {
				walk(e, d, seen, depth+1)
			}
		case *ssa.ChangeType:
			walk(x.X, d, seen, depth+1)
		case *ssa.Convert:
			walk(x.X, d, seen, depth+1)
		case *ssa.MakeInterface:
			walk(x.X, d, seen, depth+1)
		case *ssa.UnOp:
			walk(x.X, d, seen, depth+1)
		case *ssa.BinOp:
			walk(x.X, d, seen, depth+1)
			walk(x.Y, d, seen, depth+1)
		case *ssa.Call:
			for _, a := range x.Call.Args {
				walk(a, d, seen, depth+1)
			}
		}
	}
	for j, p := range ci.tphis {
		walk(p, &deps[j], map[ssa.Value]bool{}, 0)
		deps[j].phis |= 1 << uint(j)
	}
	for _, cl := range ci.valClass {
		ci.valMask |= 1 << uint(cl)
	}
	valDef := map[int]*ssa.BasicBlock{}
	valAlways := uint32(0)
	for v, cl := range ci.valClass {
		if in, ok := v.(ssa.Instruction); ok && in.Parent() == f && in.Block() != nil {
			valDef[cl] = in.Block()
		} else {
			valAlways |= 1 << uint(cl)
		}
	}
	for _, b := range f.Blocks {
		var ls, lv uint32
		for j, p := range ci.tphis {
			if p.Block().Dominates(b) {
				ls |= deps[j].phis
				lv |= deps[j].vals
			}
		}
		for cl, db := range valDef {
			if db.Dominates(b) {
				lv |= 1 << uint(cl)
			}
		}
		ci.liveSel[b] = ls
		ci.liveVal[b] = lv | valAlways
	}
}

type evalRes struct {
	kind int // 0 unknown, 1 constant, 2 nil, 3 known non-nil
	val  constant.Value
}

func (ci *corrInfo) evalVal(v ssa.Value, st *pathFacts, depth int) evalRes {
	if depth > 10 {
		return evalRes{}
	}
	switch x := v.(type) {
	case *ssa.Const:
		if x.Value == nil {
			if _, isBasic := x.Type().Underlying().(*types.Basic); isBasic {
				return evalRes{} // zero value of a basic type represented without a value
			}
			return evalRes{kind: 2}
		}
		return evalRes{kind: 1, val: x.Value}
	case *ssa.ChangeType:
		return ci.evalVal(x.X, st, depth+1)
	case *ssa.Convert:
		r := ci.evalVal(x.X, st, depth+1)
		if r.kind == 1 && r.val.Kind() == constant.Int {
			if _, isInt := x.Type().Underlying().(*types.Basic); isInt {
				return r
			}
		}
		return evalRes{}
	case *ssa.MakeInterface:
		if _, isPtr := x.X.Type().Underlying().(*types.Pointer); !isPtr {
			switch x.X.Type().Underlying().(type) {
			case *types.Struct, *types.Basic, *types.Array:
				return evalRes{kind: 3}
			}
		}
		r := ci.evalVal(x.X, st, depth+1)
		if r.kind == 3 {
			return r
		}
		return evalRes{}
	case *ssa.Phi:
		if j, ok := ci.tphiIdx[x]; ok && st.sel[j] > 0 && int(st.sel[j])-1 < len(x.Edges) {
			e := x.Edges[st.sel[j]-1]
			if q, isPhi := e.(*ssa.Phi); isPhi && q.Block() == x.Block() {
				return evalRes{} // phis of one block are assigned simultaneously: this refers to q's previous value
			}
			return ci.evalVal(e, st, depth+1)
		}
		return evalRes{}
	case *ssa.UnOp:
		if x.Op == token.NOT {
			if b, known := ci.evalCond(x.X, st, depth+1); known {
				return evalRes{kind: 1, val: constant.MakeBool(!b)}
			}
			return evalRes{}
		}
		if x.Op != token.MUL {
			return evalRes{}
		}
		// a load: what is known about the loaded value (below)
	case *ssa.BinOp:
		if b, known := ci.evalCond(v, st, depth+1); known {
			return evalRes{kind: 1, val: constant.MakeBool(b)}
		}
		return evalRes{}
	case *ssa.Alloc, *ssa.MakeClosure, *ssa.Function, *ssa.MakeChan, *ssa.MakeMap, *ssa.MakeSlice:
		return evalRes{kind: 3}
	case *ssa.Call:
		// the library's error wrappers return nil exactly for a nil cause
		if curCtx != nil && curCtx.wrapOK && len(x.Call.Args) > 0 {
			if g := curCtx.StaticCalleeOf(&x.Call); g != nil && curCtx.isWrapFn(g) {
				if r := ci.evalVal(x.Call.Args[0], st, depth+1); r.kind == 2 || r.kind == 3 {
					return r
				}
			}
		}
	}
	if cl, ok := ci.valClass[v]; ok {
		switch corrGet(st.bits, cl) {
		case 2:
			return evalRes{kind: 3}
		case 1:
			return evalRes{kind: 2}
		}
	}
	if curCtx != nil && depth < 3 {
		switch v.Type().Underlying().(type) {
		case *types.Pointer, *types.Interface, *types.Chan, *types.Signature, *types.Map, *types.Slice:
			// (knownNonNil asks path questions of its own; those do not ask it again)
			if !corrInKnownNonNil {
				corrInKnownNonNil = true
				nn := curCtx.knownNonNil(v, map[ssa.Value]bool{})
				corrInKnownNonNil = false
				if nn {
					return evalRes{kind: 3}
				}
			}
			// decided by a nil test all of whose paths to the block being left pass one of its edges
			if ci.at != nil {
				if in, ok := v.(ssa.Instruction); ok && in.Parent() == ci.at.Parent() {
					for _, e := range nonNilEdgesRaw(ci.at.Parent(), v) {
						for k := 0; k < 2; k++ {
							dst := e.B.Succs[k]
							if len(dst.Preds) == 1 && dst.Dominates(ci.at) {
								if k == e.K {
									return evalRes{kind: 3}
								}
								return evalRes{kind: 2}
							}
						}
					}
				}
			}
		}
	}
	return evalRes{}
}

// evalCond: the truth of a branch condition on the path described by st, if the path decides it.
func (ci *corrInfo) evalCond(v ssa.Value, st *pathFacts, depth int) (bool, bool) {
	if depth > 10 {
		return false, false
	}
	switch x := v.(type) {
	case *ssa.Const:
		if x.Value != nil && x.Value.Kind() == constant.Bool {
			return constant.BoolVal(x.Value), true
		}
	case *ssa.UnOp:
		if x.Op == token.NOT {
			b, known := ci.evalCond(x.X, st, depth+1)
			return !b, known
		}
	case *ssa.Phi, *ssa.ChangeType:
		r := ci.evalVal(v, st, depth+1)
		if r.kind == 1 && r.val.Kind() == constant.Bool {
			return constant.BoolVal(r.val), true
		}
	case *ssa.BinOp:
		// the dispatch of a select: `index == k` cannot hold when case k waits on a nil channel
		if x.Op == token.EQL {
			if ex, ok := x.X.(*ssa.Extract); ok && ex.Index == 0 {
				if sel, ok := ex.Tuple.(*ssa.Select); ok {
					if k, ok := constInt(x.Y); ok && k >= 0 && int(k) < len(sel.States) {
						if r := ci.evalVal(sel.States[k].Chan, st, depth+1); r.kind == 2 {
							return false, true
						}
					}
					return false, false
				}
			}
		}
		switch x.Op {
		case token.EQL, token.NEQ, token.LSS, token.LEQ, token.GTR, token.GEQ:
		default:
			return false, false
		}
		if (x.Op == token.EQL || x.Op == token.NEQ) && curCtx != nil {
			// an error compared with a sentinel it was assigned from on this path (`err = errMarker` in one branch, `if err ==
			// errMarker` below the join): the two sides are loads of the same package-level sentinel, which is assigned once
			lx, ly := ci.leafOn(x.X, st), ci.leafOn(x.Y, st)
			if ux, ok := lx.(*ssa.UnOp); ok && ux.Op == token.MUL {
				if uy, ok := ly.(*ssa.UnOp); ok && uy.Op == token.MUL {
					if gx, ok := ux.X.(*ssa.Global); ok && ux.X == uy.X && !corrInKnownNonNil {
						corrInKnownNonNil = true
						stable := curCtx.sentinelNonNil(gx)
						corrInKnownNonNil = false
						if stable {
							return x.Op == token.EQL, true
						}
					}
				}
			}
		}
		a, b := ci.evalVal(x.X, st, depth+1), ci.evalVal(x.Y, st, depth+1)
		if a.kind == 0 || b.kind == 0 {
			return false, false
		}
		if a.kind == 1 && b.kind == 1 {
			if a.val.Kind() != b.val.Kind() {
				return false, false
			}
			switch a.val.Kind() {
			case constant.Int, constant.String, constant.Float:
				return constant.Compare(a.val, x.Op, b.val), true
			case constant.Bool:
				if x.Op == token.EQL || x.Op == token.NEQ {
					return constant.Compare(a.val, x.Op, b.val), true
				}
			}
			return false, false
		}
		if x.Op != token.EQL && x.Op != token.NEQ {
			return false, false
		}
		// nil-ness
		if (a.kind == 2 || a.kind == 3) && (b.kind == 2 || b.kind == 3) {
			if a.kind == 3 && b.kind == 3 {
				return false, false
			}
			eq := a.kind == 2 && b.kind == 2
			if x.Op == token.NEQ {
				return !eq, true
			}
			return eq, true
		}
	}
	return false, false
}

// constsAlong: the constant values v takes at instruction `at` on the paths from the function's entry that take edge e
// (and do not pass an instruction satisfying stop after it); ok is false when some such path leaves v undetermined.
func constsAlong(f *ssa.Function, e ifEdge, at ssa.Instruction, v ssa.Value, stop func(ssa.Instruction) bool) (vals []int64, ok bool) {
	ci := corrOf(f)
	ok = true
	seen := map[int64]bool{}
	reached := false
	q := PathQ{MustEdge: &e, BlockInstr: stop}
	canReachFrom(f, nil, nil, -1, func(in ssa.Instruction) bool {
		if in != at {
			return false
		}
		reached = true
		if k, isK := constInt(v); isK {
			if !seen[k] {
				seen[k] = true
				vals = append(vals, k)
			}
			return false
		}
		if ci.cur == nil {
			ok = false
			return false
		}
		r := ci.evalVal(v, ci.cur, 0)
		if r.kind != 1 || r.val.Kind() != constant.Int {
			ok = false
			return false
		}
		k, exact := constant.Int64Val(r.val)
		if !exact {
			ok = false
			return false
		}
		if !seen[k] {
			seen[k] = true
			vals = append(vals, k)
		}
		return false
	}, q)
	return vals, ok && reached
}

// nonNilOnAllPaths: on every path from the function's entry to `at`, v evaluates to a value known to be non-nil (through the
// constants and nil tests the path has seen).
func (c *Ctx) nonNilOnAllPaths(f *ssa.Function, v ssa.Value, at ssa.Instruction) bool {
	ci := corrOf(f)
	ok, reached := true, false
	canReachFrom(f, nil, nil, -1, func(in ssa.Instruction) bool {
		if in != at {
			return false
		}
		reached = true
		if ci.cur == nil {
			ok = false
			return false
		}
		ci.at = at.Block()
		r := ci.evalVal(v, ci.cur, 0)
		ci.at = nil
		if r.kind != 3 {
			ok = false
		}
		return false
	}, PathQ{})
	return ok && reached
}

// leafOn: v followed through the tracked phis whose entering edge the path st has recorded (and through type changes).
func (ci *corrInfo) leafOn(v ssa.Value, st *pathFacts) ssa.Value {
	for depth := 0; depth < 12; depth++ {
		switch x := v.(type) {
		case *ssa.ChangeType:
			v = x.X
			continue
		case *ssa.Phi:
			if j, ok := ci.tphiIdx[x]; ok && st.sel[j] > 0 && int(st.sel[j])-1 < len(x.Edges) {
				e := x.Edges[st.sel[j]-1]
				if q, isPhi := e.(*ssa.Phi); isPhi && q.Block() == x.Block() {
					return v
				}
				v = e
				continue
			}
		}
		break
	}
	return v
}

// valuesAlongQ is valuesAlong with the restrictions of q applied to the part of the path after the edge.
func valuesAlongQ(f *ssa.Function, e ifEdge, at ssa.Instruction, v ssa.Value, q PathQ) (vals []ssa.Value, reached bool) {
	ci := corrOf(f)
	seen := map[ssa.Value]bool{}
	q2 := q
	q2.MustEdge = &e
	canReachFrom(f, nil, nil, -1, func(in ssa.Instruction) bool {
		if in != at {
			return false
		}
		reached = true
		r := v
		if ci.cur != nil {
			r = ci.leafOn(v, ci.cur)
		}
		if !seen[r] {
			seen[r] = true
			vals = append(vals, r)
		}
		return false
	}, q2)
	return vals, reached
}

// valuesAt: the values v denotes at instruction `at` over all feasible paths from the function's entry, each followed through
// the joins whose entering edge the path determines (a variable assigned together with the flag that guards its use).
func valuesAt(f *ssa.Function, at ssa.Instruction, v ssa.Value) (vals []ssa.Value, reached bool) {
	ci := corrOf(f)
	seen := map[ssa.Value]bool{}
	canReachFrom(f, nil, nil, -1, func(in ssa.Instruction) bool {
		if in != at {
			return false
		}
		reached = true
		r := v
		if ci.cur != nil {
			r = ci.leafOn(v, ci.cur)
		}
		if !seen[r] {
			seen[r] = true
			vals = append(vals, r)
		}
		return false
	}, PathQ{})
	return vals, reached
}

// valuesAlong: the values v denotes at instruction `at` on the paths from the function's entry that take edge e, each
// followed through the joins whose entering edge the path determines.
func valuesAlong(f *ssa.Function, e ifEdge, at ssa.Instruction, v ssa.Value, stop func(ssa.Instruction) bool) (vals []ssa.Value, reached bool) {
	ci := corrOf(f)
	seen := map[ssa.Value]bool{}
	q := PathQ{MustEdge: &e, BlockInstr: stop}
	canReachFrom(f, nil, nil, -1, func(in ssa.Instruction) bool {
		if in != at {
			return false
		}
		reached = true
		r := v
		if ci.cur != nil {
			r = ci.leafOn(v, ci.cur)
		}
		if !seen[r] {
			seen[r] = true
			vals = append(vals, r)
		}
		return false
	}, q)
	return vals, reached
}
