package main

import (
	"go/token"
	"go/types"

	"golang.org/x/tools/go/ssa"
)

func init() {
	register("C13", "Decided: the classification structure of KeepAlive and the reaction of the reconnect loop. R-C13-1 loop shape: wait on a ticker made from the interval parameter, Ping under context.WithTimeout(own ctx, timeout parameter), success continues the loop (every return is on the error edge); R-C13-2 classification order on the error edge: parent context first (returns ctx.Err()), then the timeout context (returns ErrPingTimeout), else the ping error — two separate prioritised tests, and the timeout context is not cancelled before it is tested; R-C13-3 the reconnect loop starts KeepAlive iff PingInterval > 0 for the iteration's own client with a cancellable child context, records a failure on that client, closes that client, leaves it with a non-nil Err() so that the loop redials, and cancels the keep-alive context on every exit of the connected phase; R-C13-4 Ping itself honours its context and registers its waiter before writing. Not decided: actual periodicity, timer accuracy, drift.", checkC13)
	register("C17", "Decided: R-C17-1 RetryClient.Handle stores the handler on every path and forwards the same value to the current client, under the lock; R-C17-2 RetryClient.Connect installs the stored handler on the client (read under the lock) before that client's Connect starts its reader; R-C17-3 every dialled client is connected through RetryClient.SetClient + RetryClient.Connect (BaseClient.Connect has no other caller); R-C17-4 the reader consults the current handler per message, under the lock, and BaseClient.Handle is the only writer. Not decided: messages the broker sends before CONNACK processing finished.", checkC17)
}

func checkC13(r *Run) {
	c := r.C
	r1 := r.Rule("R-C13-1", "KeepAlive loop shape: ticker(interval) -> Ping(WithTimeout(ctx, timeout)) -> success continues; returns only on the error edge")
	r2 := r.Rule("R-C13-2", "classification order: parent ctx.Done() test (=> ctx.Err()) precedes the timeout-context test (=> ErrPingTimeout), else the ping error; the timeout context is not cancelled before its test")
	r3 := r.Rule("R-C13-3", "reconnect loop: KeepAlive started iff PingInterval > 0 for the iteration's own client; failure => SetErrorOnce + Close on that client; keep-alive context cancelled on every exit of the connected phase")
	r4 := r.Rule("R-C13-4", "Ping honours its context (three-way select) and registers its PINGRESP waiter before writing")
	r2.Floor(3)
	ka := c.Func("KeepAlive")
	if ka == nil {
		r1.Lost("KeepAlive", "not found")
		return
	}
	if len(ka.Params) != 4 {
		r1.Lost("KeepAlive/signature", "unexpected signature")
		return
	}
	ctx, cli, interval, timeout := ka.Params[0], ka.Params[1], ka.Params[2], ka.Params[3]
	var ticker, wt, ping *ssa.Call
	var tick *ssa.UnOp
	eachInstr(ka, func(in ssa.Instruction) {
		switch x := in.(type) {
		case *ssa.Call:
			if isStdCall(&x.Call, "time", "NewTicker") {
				ticker = x
			}
			if isStdCall(&x.Call, "context", "WithTimeout") {
				wt = x
			}
			if x.Call.IsInvoke() && x.Call.Method.Name() == "Ping" && x.Call.Value == ssa.Value(cli) {
				ping = x
			}
		case *ssa.UnOp:
			if x.Op == token.ARROW {
				tick = x
			}
		}
	})
	switch {
	case ticker == nil || ticker.Call.Args[0] != ssa.Value(interval):
		r1.Bad("KeepAlive/ticker", ka.Pos(), "the ticker is not created from the interval parameter")
	case tick == nil:
		r1.Bad("KeepAlive/ticker", ka.Pos(), "the loop does not wait for the ticker")
	case ping == nil:
		r1.Bad("KeepAlive/ping", ka.Pos(), "KeepAlive does not ping the client it is given")
	case wt == nil || wt.Call.Args[0] != ssa.Value(ctx) || wt.Call.Args[1] != ssa.Value(timeout):
		r1.Bad("KeepAlive/timeout-ctx", ping.Pos(), "the ping's context is not context.WithTimeout(ctx, timeout) of KeepAlive's own parameters")
	default:
		ctxTo, _ := func() (ssa.Value, bool) {
			for _, u := range *wt.Referrers() {
				if ex, ok := u.(*ssa.Extract); ok && ex.Index == 0 {
					return ex, true
				}
			}
			return nil, false
		}()
		if ctxTo == nil || ping.Call.Args[0] != ctxTo {
			r1.Bad("KeepAlive/timeout-ctx", ping.Pos(), "Ping is not called with the timeout context")
		} else if !Dominated(ka, ping, func(in ssa.Instruction) bool { return in == ssa.Instruction(tick) }, PathQ{}) {
			r1.Bad("KeepAlive/ticker", ping.Pos(), "a ping can be sent without waiting for the ticker")
		} else if _, again := CanReach(ka, ping, func(in ssa.Instruction) bool { return in == ssa.Instruction(ping) }, PathQ{BlockInstr: func(in ssa.Instruction) bool { return in == ssa.Instruction(tick) }}); again {
			r1.Bad("KeepAlive/ticker", ping.Pos(), "the loop can ping again without waiting for the next tick")
		} else {
			r1.OK("KeepAlive/shape", ping.Pos(), "each iteration: <-ticker(interval).C, then cli.Ping(WithTimeout(ctx, timeout))")
		}
		// success continues: every return dominated by err != nil edge
		fails := nonNilEdges(ka, ping)
		okRet := len(fails) == 1
		for _, ret := range returnsOf(ka) {
			if len(fails) == 1 && !DominatedByEdge(ka, ret, fails[0].B, fails[0].K, PathQ{}) {
				okRet = false
				r1.Bad("KeepAlive/success-continues", ret.Pos(), "KeepAlive can return although the ping was answered: the keep-alive loop stops on a healthy connection")
			}
		}
		if okRet {
			r1.OK("KeepAlive/success-continues", ping.Pos(), "every return lies on the `err != nil` edge of Ping; success loops")
		}
		if len(fails) == 1 {
			c.ruleKeepAliveClassify(r2, ka, ctx, ctxTo, wt, ping, fails[0])
		} else {
			r2.Bad("KeepAlive/error-edge", ping.Pos(), "Ping's error is not tested")
		}
	}
	// R-C13-3
	m, why := c.reconnModel()
	if m == nil {
		r3.Lost("reconnect-loop", "%s", why)
	} else {
		c.ruleKeepAliveStart(r3, m)
		c.ruleKeepAliveReaction(r3, m, "R-C13-3")
	}
	// R-C13-4
	var pingSites []*reqSite
	for _, s := range c.sitesOrLost(r4) {
		if s.Kind == "ping" {
			pingSites = append(pingSites, s)
		}
	}
	if len(pingSites) == 0 {
		r4.Lost("(*BaseClient).Ping", "ping request site not found")
	}
	c.ruleRegisterBeforeWrite(r4, pingSites)
	c.ruleThreeWaySelect(r4, nil, pingSites)
}

func (c *Ctx) ruleKeepAliveClassify(rr *RuleRep, ka *ssa.Function, ctx, ctxTo ssa.Value, wt, ping *ssa.Call, fe ifEdge, onlyParent ...bool) {
	parentOnly := len(onlyParent) > 0 && onlyParent[0]
	// a "done test" of a context: a non-blocking select with a receive from X.Done() (done edge = the case, not-done edge =
	// the default), or a branch on X.Err() != nil / == nil
	type doneTest struct {
		At            ssa.Instruction
		Done, NotDone ifEdge
	}
	var tests [2][]doneTest // 0 = parent, 1 = timeout context
	merged := false
	var mergedAt ssa.Instruction
	ctxs := []ssa.Value{ctx, ctxTo}
	eachInstr(ka, func(in ssa.Instruction) {
		switch x := in.(type) {
		case *ssa.Select:
			has := [2]int{-1, -1}
			for i, s := range x.States {
				if s.Dir != types.RecvOnly {
					continue
				}
				for k := range ctxs {
					if c.isCtxMethodOf(s.Chan, "Done", ctxs[k]) {
						has[k] = i
					}
				}
			}
			if has[0] >= 0 && has[1] >= 0 {
				merged = true
				mergedAt = in
			}
			if x.Blocking {
				return
			}
			cases := selectCases(x)
			var def *selCase
			for i := range cases {
				if cases[i].Idx == -1 {
					def = &cases[i]
				}
			}
			for k := range ctxs {
				if has[k] < 0 || def == nil || !def.HasEdge {
					continue
				}
				for i := range cases {
					if cases[i].Idx == has[k] && cases[i].HasEdge {
						tests[k] = append(tests[k], doneTest{in, cases[i].Edge, def.Edge})
					}
				}
			}
		case *ssa.If:
			bin, ok := x.Cond.(*ssa.BinOp)
			if !ok || (bin.Op != token.NEQ && bin.Op != token.EQL) {
				return
			}
			var v ssa.Value
			switch {
			case isNilConst(bin.Y):
				v = bin.X
			case isNilConst(bin.X):
				v = bin.Y
			default:
				return
			}
			for k := range ctxs {
				if c.isCtxMethodOf(v, "Err", ctxs[k]) {
					d, nd := ifEdge{x.Block(), 0}, ifEdge{x.Block(), 1}
					if bin.Op == token.EQL {
						d, nd = nd, d
					}
					tests[k] = append(tests[k], doneTest{in, d, nd})
				}
			}
		}
	})
	if merged {
		rr.Bad("KeepAlive/priority", mergedAt.Pos(), "the parent-context test and the timeout test are cases of one select: when the caller cancels, both are ready and Go picks at random, so a cancellation is reported as ErrPingTimeout about half the time")
		return
	}
	if len(tests[0]) != 1 || len(tests[1]) != 1 {
		rr.Bad("KeepAlive/tests", ping.Pos(), "the error edge lacks the non-blocking tests of the parent context and of the timeout context")
		return
	}
	tp, tt := tests[0][0], tests[1][0]
	pCase := &selCase{Edge: tp.Done, HasEdge: true}
	tCase := &selCase{Edge: tt.Done, HasEdge: true}
	tc := []selCase{{Idx: -1, Edge: tt.NotDone, HasEdge: true}}
	if !DominatedByEdge(ka, tt.At, tp.NotDone.B, tp.NotDone.K, PathQ{}) || !DominatedByEdge(ka, tp.At, fe.B, fe.K, PathQ{}) {
		rr.Bad("KeepAlive/priority", tt.At.Pos(), "the timeout test is not ordered after the (negative) parent-context test on the error edge: a cancelled caller context can be reported as a ping timeout")
	} else {
		rr.OK("KeepAlive/priority", tt.At.Pos(), "the parent context is tested first; the timeout test is reachable only through its not-done edge")
	}
	// returns
	chk := func(cs *selCase, name string, pred func(ssa.Value) bool, want string) {
		reach := ReachableViaEdge(ka, ifEdge{cs.Edge.B, cs.Edge.K}, PathQ{})
		n := 0
		for _, ret := range returnsOf(ka) {
			if !reach[ret] {
				continue
			}
			n++
			ev := c.errResult(ret)
			// one return for all cases (`err = …` per case, `return err` below): what the result holds on the paths through
			// this case's edge
			if phi, isPhi := c.Resolve(ev).(*ssa.Phi); isPhi {
				if vs, reached := valuesAlong(ka, cs.Edge, ret, phi, nil); reached && len(vs) == 1 {
					ev = vs[0]
				}
			}
			cause := ev
			if call, callee := c.asCall(ev); call != nil && callee != nil && callee.Pkg == c.Pkg && c.isWrapFn(callee) {
				cause = call.Call.Args[0]
				// one wrap call for several outcomes (`return wrapError(err, …)` with err chosen per outcome): the cause on the
				// paths through this case's edge
				if phi, isPhi := c.Resolve(cause).(*ssa.Phi); isPhi && phi.Parent() == ka {
					if vs, reached := valuesAlong(ka, cs.Edge, ret, phi, nil); reached && len(vs) == 1 {
						cause = vs[0]
					}
				}
			}
			if pred(cause) || pred(c.ResolveAt(cause, ret)) {
				rr.OK("KeepAlive/"+name, ret.Pos(), "%s", want)
			} else {
				rr.Bad("KeepAlive/"+name, ret.Pos(), "the %s case does not return %s", name, want)
			}
		}
		if n == 0 {
			rr.Bad("KeepAlive/"+name, cs.Edge.B.Instrs[0].Pos(), "the %s case does not return", name)
		}
	}
	chk(pCase, "parent-cancelled", func(v ssa.Value) bool { return c.isCtxMethodOf(v, "Err", ctx) }, "the parent context's error")
	if parentOnly {
		return
	}
	chk(tCase, "timeout", func(v ssa.Value) bool { return c.isGlobalLoad(v, "ErrPingTimeout") }, "ErrPingTimeout")
	// fallthrough returns the ping's own error
	var tDef *selCase
	for i := range tc {
		if tc[i].Idx == -1 {
			tDef = &tc[i]
		}
	}
	if tDef != nil && tDef.HasEdge {
		chk(tDef, "other-failure", func(v ssa.Value) bool { return c.Resolve(v) == ssa.Value(ping) }, "the ping's own error")
	}
	// the timeout context must not be cancelled between Ping and its test
	var cancel ssa.Value
	for _, u := range *wt.Referrers() {
		if ex, ok := u.(*ssa.Extract); ok && ex.Index == 1 {
			cancel = ex
		}
	}
	isCancelCall := func(in ssa.Instruction) bool {
		k, ok := in.(*ssa.Call)
		return ok && cancel != nil && k.Call.Value == cancel
	}
	cancelled := false
	eachInstr(ka, func(in ssa.Instruction) {
		if !isCancelCall(in) {
			return
		}
		_, afterPing := CanReach(ka, ping, func(x ssa.Instruction) bool { return x == in }, PathQ{BlockInstr: func(x ssa.Instruction) bool { return x == tt.At }})
		_, beforeTest := CanReach(ka, in, func(x ssa.Instruction) bool { return x == tt.At }, PathQ{BlockInstr: func(x ssa.Instruction) bool { return x == ssa.Instruction(ping) }})
		if afterPing && beforeTest {
			cancelled = true
			rr.Bad("KeepAlive/cancel-before-test", in.Pos(), "the timeout context is cancelled between Ping's return and the test of its Done(): the test then always succeeds and every failing ping is reported as ErrPingTimeout")
		}
	})
	if !cancelled {
		rr.OK("KeepAlive/cancel-before-test", tt.At.Pos(), "no cancel() of the timeout context on any path between Ping and the timeout test")
	}
}

func (c *Ctx) ruleKeepAliveStart(rr *RuleRep, m *reconnModel) {
	f := m.F
	key := FuncName(f)
	if m.KeepGo == nil || m.KeepAlive == nil {
		rr.Bad(key+"/start", m.Connect.Pos(), "the reconnect loop does not start a keep-alive goroutine")
		return
	}
	// started iff PingInterval > 0, on the success path
	dom := false
	for _, b := range f.Blocks {
		iff := blockIf(b)
		if iff == nil {
			continue
		}
		bin, ok := iff.Cond.(*ssa.BinOp)
		if !ok {
			continue
		}
		// the edge on which PingInterval > 0 holds: `PI > 0` true, `PI <= 0` false, `0 < PI` true, `0 >= PI` false
		pos := -1
		_, xPI := isFieldLoad(bin.X, "ReconnectOptions", "PingInterval")
		_, yPI := isFieldLoad(bin.Y, "ReconnectOptions", "PingInterval")
		kx, xK := constInt(bin.X)
		ky, yK := constInt(bin.Y)
		switch {
		case xPI && yK && ky == 0 && bin.Op == token.GTR:
			pos = 0
		case xPI && yK && ky == 0 && bin.Op == token.LEQ:
			pos = 1
		case yPI && xK && kx == 0 && bin.Op == token.LSS:
			pos = 0
		case yPI && xK && kx == 0 && bin.Op == token.GEQ:
			pos = 1
		}
		if pos < 0 {
			continue
		}
		if DominatedByEdge(f, m.KeepGo, b, pos, PathQ{}) {
			// exact guard: the go statement is on every path of that edge
			if _, ok := c.mustFollowFrom(f, b.Succs[pos].Instrs[0], func(x ssa.Instruction) bool { return x == ssa.Instruction(m.KeepGo) }, nil); ok {
				dom = true
			}
		}
	}
	okSucc := false
	for _, e := range m.ConnOK {
		if DominatedByEdge(f, m.KeepGo, e.B, e.K, PathQ{}) {
			okSucc = true
		}
	}
	if dom && okSucc {
		rr.OK(key+"/start", m.KeepGo.Pos(), "keep-alive goroutine is started on the success path exactly when PingInterval > 0")
	} else {
		rr.Bad(key+"/start", m.KeepGo.Pos(), "the keep-alive goroutine is not started exactly when PingInterval > 0 on a successful connection")
	}
	// KeepAlive arguments: ctx = cancellable child of the loop ctx; interval/timeout = options
	ka := c.Func("KeepAlive")
	var kaCall *ssa.Call
	eachInstr(m.KeepAlive, func(in ssa.Instruction) {
		if k, ok := in.(*ssa.Call); ok && c.StaticCalleeOf(&k.Call) == ka {
			kaCall = k
		}
	})
	if kaCall == nil {
		return
	}
	_, isPI := isFieldLoad(kaCall.Call.Args[2], "ReconnectOptions", "PingInterval")
	_, isTO := isFieldLoad(kaCall.Call.Args[3], "ReconnectOptions", "Timeout")
	if !isPI || !isTO {
		rr.Bad(key+"/args", kaCall.Pos(), "KeepAlive is not given (PingInterval, Timeout) of the reconnect options")
	}
	// context: first result of context.WithCancel in the loop
	var wc *ssa.Call
	if ex, ok := c.Resolve(kaCall.Call.Args[0]).(*ssa.Extract); ok && ex.Index == 0 {
		wc, _ = ex.Tuple.(*ssa.Call)
	}
	if wc == nil || !isStdCall(&wc.Call, "context", "WithCancel") || wc.Parent() != f {
		rr.Bad(key+"/ctx", kaCall.Pos(), "KeepAlive does not run under a cancellable child context created for this connection")
		return
	}
	c.ruleKeepAliveCtx(rr, m)
	var cancel ssa.Value
	for _, u := range *wc.Referrers() {
		if ex, ok := u.(*ssa.Extract); ok && ex.Index == 1 {
			cancel = ex
		}
	}
	if m.ConnSel == nil || cancel == nil {
		rr.Bad(key+"/cancel", wc.Pos(), "connected-phase wait not found")
		return
	}
	okAll := true
	for _, cs := range selectCases(m.ConnSel) {
		if !cs.HasEdge || cs.State == nil {
			continue
		}
		first := cs.Edge.B.Succs[cs.Edge.K].Instrs[0]
		isCancel := func(x ssa.Instruction) bool {
			k, ok := x.(*ssa.Call)
			return ok && (k.Call.Value == cancel || c.Resolve(k.Call.Value) == cancel)
		}
		if _, ok := c.mustFollowFrom(f, first, isCancel, nil); !ok {
			// also accept reaching the next dial only through cancel
			okAll = false
			rr.Bad(key+"/cancel", first.Pos(), "an exit of the connected phase does not cancel the keep-alive context: a stale keep-alive goroutine keeps pinging (and can later close or blame the wrong connection)")
		}
	}
	if okAll {
		rr.OK(key+"/cancel", m.ConnSel.Pos(), "every case of the connected-phase wait cancels the keep-alive context")
	}
}

func checkC17(r *Run) {
	c := r.C
	r1 := r.Rule("R-C17-1", "RetryClient.Handle: c.handler = handler on every path and, when a client exists, cli.Handle(same value), all under c.mu exclusive")
	r2 := r.Rule("R-C17-2", "RetryClient.Connect: cli.Handle(c.handler) precedes cli.Connect on the same client, inside the c.mu section in which cli was read")
	r3 := r.Rule("R-C17-3", "BaseClient.Connect is called only by RetryClient.Connect inside the package; the reconnect loop connects through SetClient + RetryClient.Connect")
	r4 := r.Rule("R-C17-4", "serve loads c.handler per message under c.mu; BaseClient.Handle is the only writer of the field")
	a := c.retryAnchors()
	if a.lost(r1) {
		return
	}
	baseHandle := c.Method("BaseClient", "Handle")
	baseConn := c.Method("BaseClient", "Connect")
	// R-C17-1
	h := c.Method("RetryClient", "Handle")
	if h == nil {
		r1.Lost("(*RetryClient).Handle", "not found")
	} else {
		param := h.Params[1]
		var sts []*ssa.Store
		isSt := map[ssa.Instruction]bool{}
		for _, s := range storesToField(h, a.Handler) {
			if s.Val == ssa.Value(param) || c.Resolve(s.Val) == ssa.Value(param) {
				sts = append(sts, s)
				isSt[s] = true
			}
		}
		if len(sts) == 0 {
			r1.Bad("(*RetryClient).Handle/store", h.Pos(), "Handle does not remember the handler")
		} else if w, found := CanReach(h, nil, realExit, PathQ{BlockInstr: func(in ssa.Instruction) bool { return isSt[in] }}); found {
			r1.Bad("(*RetryClient).Handle/store", w.Pos(), "a path through Handle returns without remembering the handler: the next connection (created by a reconnect) is given the old handler, or none")
		} else if a.Mu != nil && func() bool {
			for _, st := range sts {
				if !c.heldAt(h, st, h.Params[0], a.Mu, "w") {
					return true
				}
			}
			return false
		}() {
			r1.Bad("(*RetryClient).Handle/store", sts[0].Pos(), "handler is stored outside c.mu")
		} else {
			r1.OK("(*RetryClient).Handle/store", sts[0].Pos(), "c.handler = handler on every path, under c.mu")
		}
		// forward
		var fwd *ssa.Call
		eachInstr(h, func(in ssa.Instruction) {
			if k, ok := in.(*ssa.Call); ok && c.StaticCalleeOf(&k.Call) == baseHandle {
				fwd = k
			}
		})
		if fwd == nil || (fwd.Call.Args[1] != ssa.Value(param) && c.Resolve(fwd.Call.Args[1]) != ssa.Value(param)) {
			r1.Bad("(*RetryClient).Handle/forward", h.Pos(), "Handle does not forward the handler to the current connection")
		} else {
			// forwarded on the `cli != nil` edge, to the current cli, under mu
			_, isCli := isLoadOfField(fwd.Call.Args[0], a.Cli)
			okEdge := false
			for _, b := range h.Blocks {
				iff := blockIf(b)
				if iff == nil {
					continue
				}
				bin, ok := iff.Cond.(*ssa.BinOp)
				if !ok || !isNilConst(bin.Y) {
					continue
				}
				if _, ok := isLoadOfField(bin.X, a.Cli); !ok {
					continue
				}
				edge := 0
				if bin.Op == token.EQL {
					edge = 1
				}
				if DominatedByEdge(h, fwd, b, edge, PathQ{}) {
					if _, ok := c.mustFollowFrom(h, b.Succs[edge].Instrs[0], func(x ssa.Instruction) bool { return x == ssa.Instruction(fwd) }, nil); ok {
						okEdge = true
					}
				}
			}
			if isCli && okEdge && c.heldAt(h, fwd, h.Params[0], a.Mu, "w") {
				r1.OK("(*RetryClient).Handle/forward", fwd.Pos(), "forwards the same handler to c.cli whenever it exists, under c.mu")
			} else {
				r1.Bad("(*RetryClient).Handle/forward", fwd.Pos(), "the handler is not forwarded to the current connection exactly when one exists (under c.mu)")
			}
		}
	}
	// R-C17-2
	rc := c.Method("RetryClient", "Connect")
	if rc == nil {
		r2.Lost("(*RetryClient).Connect", "not found")
	} else {
		var hcall, ccall *ssa.Call
		eachInstr(rc, func(in ssa.Instruction) {
			if k, ok := in.(*ssa.Call); ok {
				switch c.StaticCalleeOf(&k.Call) {
				case baseHandle:
					hcall = k
				case baseConn:
					ccall = k
				}
			}
		})
		switch {
		case ccall == nil:
			r2.Bad("(*RetryClient).Connect", rc.Pos(), "RetryClient.Connect does not connect the client")
		case hcall == nil && c.handlerInstalledBySetClient(a, baseHandle):
			r2.OK("(*RetryClient).Connect/install", ccall.Pos(), "the stored handler is installed on every client handed to SetClient, inside the c.mu section that makes it current — before it can be connected")
		case hcall == nil:
			r2.Bad("(*RetryClient).Connect/install", ccall.Pos(), "the stored handler is never installed on the new connection: messages arriving on it are dropped")
		default:
			_, isH := isLoadOfField(hcall.Call.Args[1], a.Handler)
			sameCli := hcall.Call.Args[0] == ccall.Call.Args[0]
			_, isCli := isLoadOfField(ccall.Call.Args[0], a.Cli)
			switch {
			case !isH:
				r2.Bad("(*RetryClient).Connect/install", hcall.Pos(), "what is installed on the new connection is not the stored handler")
			case !sameCli || !isCli:
				r2.Bad("(*RetryClient).Connect/install", hcall.Pos(), "the handler is installed on a different client than the one being connected")
			case !Dominated(rc, ccall, func(x ssa.Instruction) bool { return x == ssa.Instruction(hcall) }, PathQ{}):
				r2.Bad("(*RetryClient).Connect/install", hcall.Pos(), "the handler is installed only after BaseClient.Connect started the reader goroutine: a PUBLISH that follows CONNACK immediately is read while the new connection has no handler and is dropped (QoS 1 even acknowledged)")
			case !c.heldAt(rc, hcall, rc.Params[0], a.Mu, "r") || !c.heldAt(rc, ccall.Call.Args[0].(ssa.Instruction), rc.Params[0], a.Mu, "r"):
				r2.Bad("(*RetryClient).Connect/install", hcall.Pos(), "client and handler are not read and installed inside one c.mu critical section: a concurrent Handle() can be lost")
			default:
				r2.OK("(*RetryClient).Connect/install", hcall.Pos(), "cli.Handle(c.handler) inside c.mu, dominating cli.Connect on the same cli")
			}
		}
	}
	// R-C17-3
	n := 0
	for _, f := range c.Funcs {
		eachInstr(f, func(in ssa.Instruction) {
			cc := callCommon(in)
			if cc == nil || c.StaticCalleeOf(cc) != baseConn || baseConn == nil {
				return
			}
			n++
			if f == rc {
				r3.OK(FuncName(f)+"/BaseClient.Connect", in.Pos(), "the only internal caller")
			} else {
				r3.Bad(FuncName(f)+"/BaseClient.Connect", in.Pos(), "BaseClient.Connect is called directly, bypassing RetryClient.Connect: the connection never gets the registered handler")
			}
		})
	}
	if m, _ := c.reconnModel(); m != nil {
		if m.Connect != nil && m.SetClient != nil {
			r3.OK(FuncName(m.F)+"/connect-path", m.Connect.Pos(), "reconnect loop: SetClient(dialled) + RetryClient.Connect")
		}
	}
	if n == 0 {
		r3.Lost("BaseClient.Connect callers", "no internal caller")
	}
	// R-C17-4
	c.ruleHandlerPerMessage(r4)
	c.ruleReaderDiscipline(r4)
}

// ruleHandlerPerMessage: every Handler.Serve invoke in serve uses a handler loaded from c.handler under c.mu within the same arm.
func (c *Ctx) ruleHandlerPerMessage(rr *RuleRep) {
	m, why := c.serveModel()
	if m == nil {
		rr.Lost("serve", "%s", why)
		return
	}
	hF := c.structField("BaseClient", "handler")
	muF := c.structField("BaseClient", "mu")
	n := 0
	eachInstr(m.F, func(in ssa.Instruction) {
		eff, isEff := c.serveEff(in)
		if !isEff {
			return
		}
		n++
		key := "serve/handler-load"
		if eff.Helper != nil {
			// the handler is loaded inside the helper on every call: check it there
			g := eff.Helper
			ld, ok := eff.Inner.Call.Value.(*ssa.UnOp)
			base, isH := isLoadOfField(eff.Inner.Call.Value, hF)
			switch {
			case !ok || !isH || len(g.Params) == 0 || c.Resolve(base) != ssa.Value(g.Params[0]) || c.Resolve(eff.Call.Call.Args[0]) != ssa.Value(m.F.Params[0]):
				rr.Bad(key, in.Pos(), "the handler invoked by %s is not loaded from this client's handler field", FuncName(g))
			case !c.heldAt(g, ld, g.Params[0], muF, "r"):
				rr.Bad(key, ld.Pos(), "the handler field is read outside c.mu in %s", FuncName(g))
			default:
				rr.OK(key, in.Pos(), "handler loaded per message under c.mu (in helper %s)", FuncName(g))
			}
			return
		}
		cc := &eff.Call.Call
		ld, ok := cc.Value.(*ssa.UnOp)
		base, isH := isLoadOfField(cc.Value, hF)
		if !ok || !isH || c.Resolve(base) != ssa.Value(m.F.Params[0]) {
			rr.Bad(key, in.Pos(), "the handler invoked is not loaded from this client's handler field")
			return
		}
		// loaded in the same loop iteration (after readPacket)
		if _, found := CanReach(m.F, m.Read, func(x ssa.Instruction) bool { return x == ssa.Instruction(ld) }, PathQ{}); !found || !Dominated(m.F, ld, func(x ssa.Instruction) bool { return x == ssa.Instruction(m.Read) }, PathQ{}) {
			rr.Bad(key, ld.Pos(), "the handler is loaded once before the read loop: a handler registered (or replaced) later never receives messages on this connection")
			return
		}
		if !c.heldAt(m.F, ld, m.F.Params[0], muF, "r") {
			rr.Bad(key, ld.Pos(), "the handler field is read outside c.mu")
			return
		}
		rr.OK(key, in.Pos(), "handler loaded per message under c.mu")
	})
	if n == 0 {
		rr.Lost("serve/handler", "serve never invokes a handler")
	}
	for _, f := range c.Funcs {
		for _, st := range storesToField(f, hF) {
			if f == c.Method("BaseClient", "Handle") && c.heldAt(f, st, f.Params[0], muF, "w") {
				rr.OK("(*BaseClient).Handle/store", st.Pos(), "sole writer of the handler field, under c.mu")
			} else {
				rr.Bad(FuncName(f)+"/handler-store", st.Pos(), "the handler field is written outside BaseClient.Handle's critical section")
			}
		}
	}
}

// ruleKeepAliveCtx: the keep-alive context of a connection is derived from the loop context as it is AFTER the once-only
// switch to context.Background() — otherwise the first connection's keep-alive dies with the caller's Connect context and
// puts `context canceled` into a healthy connection.
func (c *Ctx) ruleKeepAliveCtx(rr *RuleRep, m *reconnModel) {
	f := m.F
	key := FuncName(f) + "/keepalive-ctx"
	var wc *ssa.Call
	eachInstr(f, func(in ssa.Instruction) {
		if k, ok := in.(*ssa.Call); ok && isStdCall(&k.Call, "context", "WithCancel") {
			wc = k
		}
	})
	if wc == nil {
		return
	}
	var once *ssa.Call
	eachInstr(f, func(in ssa.Instruction) {
		if k, ok := in.(*ssa.Call); ok && isStdCall(&k.Call, "sync", "Do") {
			once = k
		}
	})
	if once == nil {
		rr.OKt(key, wc.Pos(), "no once-only context switch in the loop")
		return
	}
	// parent operand: a load of the loop's ctx cell taken after the Once.Do call
	if !Dominated(f, wc, func(x ssa.Instruction) bool { return x == ssa.Instruction(once) }, PathQ{}) {
		rr.Bad(key, wc.Pos(), "the keep-alive context is derived before the loop switches to context.Background() on the first success: the first connection's keep-alive is tied to the caller's Connect context, and cancelling that context later closes a healthy connection with `context canceled` in Err()")
		return
	}
	if ld, ok := wc.Call.Args[0].(*ssa.UnOp); ok {
		if ldI := ssa.Instruction(ld); !Dominated(f, ldI, func(x ssa.Instruction) bool { return x == ssa.Instruction(once) }, PathQ{}) {
			rr.Bad(key, wc.Pos(), "the keep-alive context's parent is read before the once-only switch to context.Background()")
			return
		}
	}
	rr.OK(key, wc.Pos(), "context.WithCancel(loop ctx) is evaluated after the once-only switch to context.Background()")
}

// handlerInstalledBySetClient: SetClient installs the stored handler on the client it is given — cli.Handle(c.handler)
// with its own parameter, with c.mu held exclusively, on every path to every return — so that every client that can
// become c.cli (and later be connected) already has it. Handle() keeps the two in step afterwards.
func (c *Ctx) handlerInstalledBySetClient(a *retryAnchors, baseHandle *ssa.Function) bool {
	sc := c.Method("RetryClient", "SetClient")
	if sc == nil || baseHandle == nil || a.Mu == nil || a.Handler == nil {
		return false
	}
	var cli ssa.Value
	for _, p := range sc.Params {
		if typeName(p.Type()) == "BaseClient" {
			cli = p
		}
	}
	if cli == nil {
		return false
	}
	var hcall *ssa.Call
	eachInstr(sc, func(in ssa.Instruction) {
		if k, ok := in.(*ssa.Call); ok && c.StaticCalleeOf(&k.Call) == baseHandle && len(k.Call.Args) == 2 {
			if c.Resolve(k.Call.Args[0]) == cli {
				hcall = k
			}
		}
	})
	if hcall == nil {
		return false
	}
	if _, isH := isLoadOfField(hcall.Call.Args[1], a.Handler); !isH {
		return false
	}
	if !c.heldAt(sc, hcall, sc.Params[0], a.Mu, "w") {
		return false
	}
	for _, ret := range returnsOf(sc) {
		if !Dominated(sc, ret, func(x ssa.Instruction) bool { return x == ssa.Instruction(hcall) }, PathQ{}) {
			return false
		}
	}
	// the client is made current in the same function
	stored := false
	for _, st := range storesToField(sc, a.Cli) {
		if c.Resolve(st.Val) == cli {
			stored = true
		}
	}
	return stored
}
