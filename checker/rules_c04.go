package main

import (
	"go/token"
	"go/types"

	"golang.org/x/tools/go/ssa"
)

func init() {
	register("C04", "The serve loop is the only reader and strictly sequential, so the behaviour for every packet sequence is the composition of per-packet-kind effects plus the semantics of one Go map. Decided, per arm of the dispatch in serve and on every path of the arm: R-C04-1 QoS0 PUBLISH: the parsed message is handed to the handler exactly once (if one is registered), nothing is written or stored; R-C04-2 QoS1: hand-over once, then exactly one PUBACK carrying the parsed id, never before the hand-over; R-C04-3 QoS2: exactly one PUBREC with the parsed id and the message stored under that id, no hand-over; R-C04-4 PUBREL: a hit in the hold buffer hands over exactly the stored message once, deletes the entry within the arm and writes one PUBCOMP with the PUBREL's id; a miss hands over nothing; R-C04-5 the sub-arm is selected by the QoS parsed from this packet; R-C04-6 the hold buffer is a local of serve that does not escape, serve runs only in the reader goroutine and is the only reader of the transport; R-C04-7 the handler is read per message; R-C04-8 the minimum-length guards of the inbound parsers are exact (a well-formed minimal packet is not rejected); R-C04-9 the Message a PUBLISH is parsed into is a fresh object per packet, so a message held for its PUBREL cannot be overwritten by the next PUBLISH. Not decided: payload/topic content (C05); QoS 2 state across connections.", checkC04)
}

type serveEffects struct {
	c      *Ctx
	m      *serveModel
	region map[ssa.Instruction]bool
	q      PathQ
}

func (c *Ctx) writeOf(in ssa.Instruction) (pktT string, id ssa.Value, ok bool) {
	return c.writeOfN(in, nil)
}

// writeOfN is writeOf with the operand narrowed to what it holds on the paths under consideration (a join of the packets
// packed per case, written once below the cases).
func (c *Ctx) writeOfN(in ssa.Instruction, narrow func(ssa.Value, ssa.Instruction) ssa.Value) (pktT string, id ssa.Value, ok bool) {
	k, isCall := in.(*ssa.Call)
	if !isCall {
		return "", nil, false
	}
	var operand ssa.Value
	switch {
	case !k.Call.IsInvoke() && c.StaticCalleeOf(&k.Call) == c.Method("BaseClient", "write") && len(k.Call.Args) == 2:
		operand = k.Call.Args[1]
	case k.Call.IsInvoke() && k.Call.Method.Name() == "Write" && len(k.Call.Args) == 1:
		// the transport written directly (a write loop inlined from a helper): operand = (a tail of) the packed packet
		if _, isT := isFieldLoad(c.Resolve(k.Call.Value), "BaseClient", "Transport"); !isT {
			return "", nil, false
		}
		operand = c.Resolve(k.Call.Args[0])
		for i := 0; i < 4; i++ {
			sl, isSl := operand.(*ssa.Slice)
			if !isSl {
				break
			}
			operand = c.Resolve(sl.X)
		}
	default:
		return "", nil, false
	}
	if narrow != nil {
		operand = narrow(operand, in)
	}
	pt, pcall := c.packedType(operand)
	if pcall == nil {
		return "?", nil, true
	}
	if pt == "pack" {
		return "pack", nil, true
	}
	// (a packet that reaches Pack through a join is the one of the incoming edges that can reach this call)
	return pt, c.packetField(c.ResolveAt(pcall.Call.Args[0], pcall), "ID"), true
}

// srvEff is one hand-over of a message to the registered handler: a direct Handler.Serve invoke, or a call of a helper
// that loads the handler and serves its parameter (e.g. an extracted `deliver(m)`).
type srvEff struct {
	Call    *ssa.Call
	Arg     ssa.Value
	Handler ssa.Value     // the handler value tested for nil at the call site; nil when the test is inside the helper
	Helper  *ssa.Function // non-nil for a helper call
	Inner   *ssa.Call     // the Serve invoke inside the helper
}

// deliverSummary: g serves its k-th parameter exactly once on every path, except when the handler it loaded is nil.
func (c *Ctx) deliverSummary(g *ssa.Function) (int, *ssa.Call, bool) {
	if g.Blocks == nil {
		return 0, nil, false
	}
	var invs []*ssa.Call
	eachInstr(g, func(in ssa.Instruction) {
		if k, ok := in.(*ssa.Call); ok && k.Call.IsInvoke() && k.Call.Method.Name() == "Serve" && len(k.Call.Args) == 1 {
			invs = append(invs, k)
		}
	})
	if len(invs) != 1 {
		return 0, nil, false
	}
	inv := invs[0]
	idx := -1
	for i, p := range g.Params {
		if c.Resolve(inv.Call.Args[0]) == ssa.Value(p) {
			idx = i
		}
	}
	if idx < 0 {
		return 0, nil, false
	}
	exempt := func(b *ssa.BasicBlock, k int) bool {
		for _, e := range nilEdges(g, inv.Call.Value) {
			if e.B == b && e.K == k {
				return true
			}
		}
		return false
	}
	if _, ok := c.mustFollowFrom(g, g.Blocks[0].Instrs[0], func(x ssa.Instruction) bool { return x == ssa.Instruction(inv) }, exempt); !ok {
		return 0, nil, false
	}
	if _, again := CanReach(g, inv, func(x ssa.Instruction) bool { return x == ssa.Instruction(inv) }, PathQ{}); again {
		return 0, nil, false
	}
	return idx, inv, true
}

func (c *Ctx) serveEff(in ssa.Instruction) (*srvEff, bool) {
	k, ok := in.(*ssa.Call)
	if !ok {
		return nil, false
	}
	if k.Call.IsInvoke() {
		if k.Call.Method.Name() != "Serve" || len(k.Call.Args) != 1 {
			return nil, false
		}
		return &srvEff{Call: k, Arg: k.Call.Args[0], Handler: k.Call.Value}, true
	}
	g := c.StaticCalleeOf(&k.Call)
	if g == nil || g.Pkg != c.Pkg {
		return nil, false
	}
	idx, inner, ok := c.deliverSummary(g)
	if !ok || idx >= len(k.Call.Args) {
		return nil, false
	}
	return &srvEff{Call: k, Arg: k.Call.Args[idx], Helper: g, Inner: inner}, true
}

func isServeInvoke(in ssa.Instruction) (*ssa.Call, bool) {
	k, ok := in.(*ssa.Call)
	if !ok || !k.Call.IsInvoke() || k.Call.Method.Name() != "Serve" {
		return nil, false
	}
	return k, true
}

func checkC04(r *Run) {
	c := r.C
	rr := map[int]*RuleRep{
		1: r.Rule("R-C04-1", "PUBLISH QoS0: Serve(parsed message) exactly once if a handler is registered; no write, no store"),
		2: r.Rule("R-C04-2", "PUBLISH QoS1: Serve(parsed) once if handler != nil, then exactly one PUBACK with the parsed id; never a write before the hand-over; no store"),
		3: r.Rule("R-C04-3", "PUBLISH QoS2: exactly one PUBREC with the parsed id; message stored under that id; no hand-over"),
		4: r.Rule("R-C04-4", "PUBREL: hit => Serve(stored message) once, delete within the arm, one PUBCOMP with the PUBREL's id; miss => no hand-over"),
		5: r.Rule("R-C04-5", "the QoS sub-arm is selected by the QoS parsed from this packet"),
		6: r.Rule("R-C04-6", "hold buffer is a non-escaping local of serve; serve started only by Connect's go statement; Transport is read only via serve"),
		7: r.Rule("R-C04-7", "handler is loaded per message under c.mu"),
		8: r.Rule("R-C04-8", "minimum-length guards of PUBLISH/PUBREL parsing are exact: no well-formed minimal packet is rejected"),
		9: r.Rule("R-C04-9", "the Message parsed from a PUBLISH is a fresh object per packet: a message held for its PUBREL is not the object the next PUBLISH is parsed into"),
	}
	m, why := c.serveModel()
	if m == nil {
		rr[1].Lost("serve", "%s", why)
		return
	}
	f := m.F
	stopAtRead := func(in ssa.Instruction) bool { return in == ssa.Instruction(m.Read) }
	// hold buffer
	var buf *ssa.MakeMap
	eachInstr(f, func(in ssa.Instruction) {
		if mk, ok := in.(*ssa.MakeMap); ok {
			if mt, ok := mk.Type().Underlying().(*types.Map); ok && typeName(mt.Elem()) == "Message" {
				buf = mk
			}
		}
	})
	pub := m.arm("pktPublish")
	if pub == nil || pub.Pkt == nil {
		rr[1].Lost("serve/PUBLISH", "no PUBLISH arm")
		return
	}
	if specPacketType[pub.K] != "pktPublish" {
		rr[5].Bad("serve/PUBLISH", pub.Parse.Pos(), "the arm parsing PUBLISH is selected by packet type 0x%02X", pub.K)
	}
	c.ruleParsedMessageFresh(rr[9], pub)
	// message of the arm: loads of pub.Pkt.Message
	isParsedMsg := func(v ssa.Value) bool {
		b, ok := isFieldLoad(c.Resolve(v), "pktPublish", "Message")
		return ok && c.Resolve(b) == pub.Pkt
	}
	isParsedID := func(v ssa.Value) bool {
		if v == nil {
			return false
		}
		b, ok := isFieldLoad(c.Resolve(v), "Message", "ID")
		return ok && isParsedMsg(b)
	}
	// QoS discrimination edges
	qosDecided := 0
	qf := func(q int) func(*ssa.BasicBlock, int) bool {
		decided := map[*ssa.BasicBlock]int{}
		for _, b := range f.Blocks {
			iff := blockIf(b)
			if iff == nil || !pub.Instr[iff] {
				continue
			}
			bin, ok := iff.Cond.(*ssa.BinOp)
			if !ok {
				continue
			}
			// any comparison of the parsed QoS with a constant, either way round
			x, y, op := bin.X, bin.Y, bin.Op
			if _, isK := constInt(x); isK {
				x, y = y, x
				op = map[token.Token]token.Token{token.LSS: token.GTR, token.GTR: token.LSS, token.LEQ: token.GEQ, token.GEQ: token.LEQ, token.EQL: token.EQL, token.NEQ: token.NEQ}[op]
			}
			base, isQ := isFieldLoad(c.Resolve(stripConv(x)), "Message", "QoS")
			k, isK := constInt(y)
			if !isQ || !isK || !isParsedMsg(base) {
				continue
			}
			var holds bool
			switch op {
			case token.EQL:
				holds = int64(q) == k
			case token.NEQ:
				holds = int64(q) != k
			case token.LSS:
				holds = int64(q) < k
			case token.LEQ:
				holds = int64(q) <= k
			case token.GTR:
				holds = int64(q) > k
			case token.GEQ:
				holds = int64(q) >= k
			default:
				continue
			}
			qosDecided++
			if holds {
				decided[b] = 0
			} else {
				decided[b] = 1
			}
		}
		return func(b *ssa.BasicBlock, k int) bool {
			if t, ok := decided[b]; ok {
				return k != t
			}
			return false
		}
	}
	// the first instruction after a successful Parse (err == nil edge)
	okEdges := nilEdges(f, pub.PErr)
	if len(okEdges) != 1 {
		rr[1].Lost("serve/PUBLISH/parse-ok", "parse error of PUBLISH is not tested exactly once")
		return
	}
	start := okEdges[0].B.Succs[okEdges[0].K]
	for q := 0; q <= 2; q++ {
		rule := rr[q+1]
		key := "serve/PUBLISH[QoS" + string(rune('0'+q)) + "]"
		pq := PathQ{BlockEdge: qf(q), BlockInstr: stopAtRead}
		region := ReachableFromBlock(f, start, pq)
		// what a variable assigned per QoS case holds at an instruction below the cases, on the paths of this level
		valsAt := func(v ssa.Value, at ssa.Instruction) []ssa.Value {
			if phi, isPhi := c.Resolve(v).(*ssa.Phi); isPhi && phi.Parent() == f {
				if vs, reached := valuesAlongQ(f, okEdges[0], at, phi, pq); reached && len(vs) > 0 {
					return vs
				}
			}
			return []ssa.Value{v}
		}
		narrow := func(v ssa.Value, at ssa.Instruction) ssa.Value {
			if vs := valsAt(v, at); len(vs) == 1 {
				return vs[0]
			}
			return v
		}
		var serves []*srvEff
		var writes []ssa.Instruction
		var stores []*ssa.MapUpdate
		for in := range region {
			if k, ok := c.serveEff(in); ok {
				serves = append(serves, k)
			}
			if _, _, ok := c.writeOf(in); ok {
				writes = append(writes, in)
			}
			if mu, ok := in.(*ssa.MapUpdate); ok && buf != nil && mu.Map == ssa.Value(buf) {
				stores = append(stores, mu)
			}
		}
		good := true
		bad := func(pos token.Pos, format string, args ...interface{}) {
			good = false
			rule.Bad(key, pos, format, args...)
		}
		toRead := func(from ssa.Instruction, avoid func(ssa.Instruction) bool, exemptEdge func(*ssa.BasicBlock, int) bool) bool {
			// is there a path from `from` (exclusive; nil = start of region) to the next readPacket avoiding `avoid`?
			q2 := PathQ{BlockInstr: avoid, BlockEdge: func(b *ssa.BasicBlock, k int) bool {
				return pq.BlockEdge(b, k) || (exemptEdge != nil && exemptEdge(b, k))
			}}
			if from == nil {
				first := start.Instrs[0]
				if avoid(first) {
					return false
				}
				if stopAtRead(first) {
					return true
				}
				_, ok := CanReach(f, first, stopAtRead, q2)
				return ok
			}
			_, ok := CanReach(f, from, stopAtRead, q2)
			return ok
		}
		if q <= 1 {
			// Serve exactly once if handler != nil
			if len(serves) == 0 {
				bad(pub.Parse.Pos(), "a QoS %d PUBLISH is never handed to the handler", q)
			}
			for _, s := range serves {
				for _, av := range valsAt(s.Arg, s.Call) {
					if !isParsedMsg(av) {
						bad(s.Call.Pos(), "the handler receives something other than the message parsed from this packet")
						break
					}
				}
				// at most once per packet
				if _, again := CanReach(f, s.Call, func(x ssa.Instruction) bool { _, ok := c.serveEff(x); return ok }, pq); again {
					bad(s.Call.Pos(), "a QoS %d PUBLISH can be handed over twice", q)
				}
			}
			if len(serves) == 1 {
				s := serves[0]
				// required unless handler == nil
				exempt := func(b *ssa.BasicBlock, k int) bool {
					if s.Handler == nil {
						return false
					}
					for _, e := range nilEdges(f, s.Handler) {
						if e.B == b && e.K == k {
							return true
						}
					}
					return false
				}
				if toRead(nil, func(x ssa.Instruction) bool { return x == ssa.Instruction(s.Call) }, exempt) {
					bad(s.Call.Pos(), "a path processes a QoS %d PUBLISH without handing it to the registered handler", q)
				}
			}
			if len(stores) > 0 {
				bad(stores[0].Pos(), "a QoS %d PUBLISH is stored in the QoS 2 hold buffer", q)
			}
		}
		switch q {
		case 0:
			if len(writes) > 0 {
				bad(writes[0].Pos(), "a QoS 0 PUBLISH is answered with a packet")
			}
		case 1, 2:
			want := map[int]string{1: "pktPubAck", 2: "pktPubRec"}[q]
			if len(writes) != 1 {
				bad(pub.Parse.Pos(), "a QoS %d PUBLISH is answered by %d write sites (want exactly one %s)", q, len(writes), want)
			} else {
				w := writes[0]
				pt, id, _ := c.writeOfN(w, narrow)
				if pt != want {
					bad(w.Pos(), "a QoS %d PUBLISH is answered with %s instead of %s", q, pt, want)
				}
				if !isParsedID(id) {
					bad(w.Pos(), "the acknowledgement does not carry the identifier of the PUBLISH being acknowledged")
				}
				if _, again := CanReach(f, w, func(x ssa.Instruction) bool { return x == w }, pq); again {
					bad(w.Pos(), "the acknowledgement can be written twice for one PUBLISH")
				}
				if toRead(nil, func(x ssa.Instruction) bool { return x == w }, nil) {
					bad(w.Pos(), "a path processes a QoS %d PUBLISH and goes on to the next packet without acknowledging it", q)
				}
				if q == 1 {
					for _, s := range serves {
						if _, after := CanReach(f, w, func(x ssa.Instruction) bool { return x == ssa.Instruction(s.Call) }, pq); after {
							bad(w.Pos(), "PUBACK can be written before the handler returned: the broker may discard the message while the application has not processed it")
						}
					}
				}
			}
		}
		if q == 2 {
			if len(serves) > 0 {
				bad(serves[0].Call.Pos(), "a QoS 2 PUBLISH is handed to the handler on arrival: the retransmitted PUBLISH (or the PUBREL) hands it over a second time")
			}
			if len(stores) != 1 {
				bad(pub.Parse.Pos(), "a QoS 2 PUBLISH is stored %d times in the hold buffer (want once)", len(stores))
			} else {
				st := stores[0]
				if !isParsedID(st.Key) || !isParsedMsg(st.Value) {
					bad(st.Pos(), "the hold buffer entry is not (parsed id -> parsed message)")
				}
				if toRead(nil, func(x ssa.Instruction) bool { return x == ssa.Instruction(st) }, nil) {
					bad(st.Pos(), "a path acknowledges a QoS 2 PUBLISH without holding the message for its PUBREL: the message is lost")
				}
			}
		}
		if good {
			rule.OK(key, pub.Parse.Pos(), "effects on every path of the arm match the table (%d hand-over site(s), %d write site(s), %d store site(s))", len(serves), len(writes), len(stores))
		}
	}
	if qosDecided == 0 {
		rr[5].Bad("serve/PUBLISH/qos-switch", pub.Parse.Pos(), "the PUBLISH arm does not branch on the QoS parsed from this packet")
	} else {
		rr[5].OK("serve/PUBLISH/qos-switch", pub.Parse.Pos(), "sub-arms are selected by comparisons of the parsed message's QoS")
	}

	// ---- PUBREL
	rel := m.arm("pktPubRel")
	if rel == nil || rel.Pkt == nil {
		rr[4].Bad("serve/PUBREL", f.Pos(), "serve has no PUBREL arm: QoS 2 messages are never handed over")
	} else {
		key := "serve/PUBREL"
		good := true
		bad := func(pos token.Pos, format string, args ...interface{}) {
			good = false
			rr[4].Bad(key, pos, format, args...)
		}
		isRelID := func(v ssa.Value) bool {
			if v == nil {
				return false
			}
			b, ok := isFieldLoad(c.Resolve(v), "pktPubRel", "ID")
			return ok && c.Resolve(b) == rel.Pkt
		}
		pq := PathQ{BlockInstr: stopAtRead}
		var look *ssa.Lookup
		for in := range rel.Instr {
			if l, ok := in.(*ssa.Lookup); ok && buf != nil && l.X == ssa.Value(buf) {
				look = l
			}
		}
		if look == nil || !look.CommaOk || !isRelID(look.Index) {
			bad(rel.Parse.Pos(), "the PUBREL arm does not look up the hold buffer by the PUBREL's identifier (with a hit test)")
		} else {
			var val, hit ssa.Value
			for _, u := range *look.Referrers() {
				if ex, ok := u.(*ssa.Extract); ok {
					if ex.Index == 0 {
						val = ex
					} else {
						hit = ex
					}
				}
			}
			// the test of the hit flag (if it is tested more than once, the test all the others lie below)
			var hitEdge *ifEdge
			var hitTests []*ssa.BasicBlock
			for _, b := range f.Blocks {
				if iff := blockIf(b); iff != nil && iff.Cond == hit {
					hitTests = append(hitTests, b)
					hitEdge = &ifEdge{b, 0}
				}
			}
			for _, b := range hitTests {
				all := true
				for _, o := range hitTests {
					if o != b && !b.Dominates(o) {
						all = false
					}
				}
				if all {
					hitEdge = &ifEdge{b, 0}
				}
			}
			if hitEdge == nil {
				bad(look.Pos(), "the result of the hold-buffer look-up is not tested")
			} else {
				region := ReachableViaEdge(f, *hitEdge, pq)
				var serves []*srvEff
				var writes []ssa.Instruction
				var dels []ssa.Instruction
				for in := range region {
					if k, ok := c.serveEff(in); ok {
						serves = append(serves, k)
					}
					if _, _, ok := c.writeOf(in); ok {
						writes = append(writes, in)
					}
					if k, ok := in.(*ssa.Call); ok {
						if b, ok := k.Call.Value.(*ssa.Builtin); ok && b.Name() == "delete" && k.Call.Args[0] == ssa.Value(buf) {
							dels = append(dels, in)
						}
					}
				}
				// a path from the function's entry that takes the hit edge and then reaches the next read
				pathAvoiding := func(avoid func(ssa.Instruction) bool, exempt func(*ssa.BasicBlock, int) bool) bool {
					_, ok := CanReach(f, nil, stopAtRead, PathQ{BlockInstr: avoid, BlockEdge: exempt, MustEdge: hitEdge})
					return ok
				}
				if len(serves) != 1 {
					bad(look.Pos(), "a released QoS 2 message is handed over at %d sites (want one)", len(serves))
				} else {
					s := serves[0]
					if c.Resolve(s.Arg) != val {
						bad(s.Call.Pos(), "what is handed over on PUBREL is not the message stored under the PUBREL's identifier")
					}
					// a hit yields one of the values stored in the buffer: when every store puts a message known to be non-nil
					// there, the "held message is nil" side of a test of it is taken by no execution
					storedNonNil := buf != nil
					nStored := 0
					eachInstr(f, func(in ssa.Instruction) {
						if mu, ok := in.(*ssa.MapUpdate); ok && buf != nil && mu.Map == ssa.Value(buf) {
							nStored++
							if !c.knownNonNil(c.Resolve(mu.Value), map[ssa.Value]bool{}) {
								storedNonNil = false
							}
						}
					})
					exempt := func(b *ssa.BasicBlock, k int) bool {
						if storedNonNil && nStored > 0 {
							for _, e := range nilEdges(f, val) {
								if e.B == b && e.K == k {
									return true
								}
							}
						}
						if s.Handler == nil {
							return false
						}
						for _, e := range nilEdges(f, s.Handler) {
							if e.B == b && e.K == k {
								return true
							}
						}
						return false
					}
					if pathAvoiding(func(x ssa.Instruction) bool { return x == ssa.Instruction(s.Call) }, exempt) {
						bad(s.Call.Pos(), "a path releases a held QoS 2 message without handing it to the registered handler")
					}
					if _, again := CanReach(f, s.Call, func(x ssa.Instruction) bool { return x == ssa.Instruction(s.Call) }, pq); again {
						bad(s.Call.Pos(), "a released message can be handed over twice")
					}
				}
				if len(dels) == 0 {
					bad(look.Pos(), "the hold-buffer entry is not deleted while the PUBREL is processed (a deferred delete only runs when serve returns): a repeated PUBREL hands the message over again")
				} else {
					okDel := false
					for _, d := range dels {
						k := d.(*ssa.Call)
						if isRelID(k.Call.Args[1]) && !pathAvoiding(func(x ssa.Instruction) bool { return x == d }, nil) {
							okDel = true
						}
					}
					if !okDel {
						bad(dels[0].Pos(), "a path through the PUBREL hit branch reaches the next packet without deleting the entry under the PUBREL's identifier")
					}
				}
				if len(writes) != 1 {
					bad(look.Pos(), "a PUBREL hit is answered at %d write sites (want one PUBCOMP)", len(writes))
				} else {
					pt, id, _ := c.writeOf(writes[0])
					if pt != "pktPubComp" || !isRelID(id) {
						bad(writes[0].Pos(), "the answer to PUBREL is not a PUBCOMP carrying the PUBREL's identifier")
					}
					if pathAvoiding(func(x ssa.Instruction) bool { return x == writes[0] }, nil) {
						bad(writes[0].Pos(), "a path through the PUBREL hit branch goes on without writing PUBCOMP")
					}
				}
				// miss edge: no hand-over
				miss := ReachableViaEdge(f, ifEdge{hitEdge.B, 1}, pq)
				for in := range miss {
					if k, ok := c.serveEff(in); ok {
						bad(k.Call.Pos(), "a PUBREL with an unknown identifier causes a hand-over")
					}
				}
			}
		}
		if good {
			rr[4].OK(key, rel.Parse.Pos(), "hit: Serve(stored) once, delete(buf, id) within the arm, one PUBCOMP(id); miss: no hand-over")
		}
	}
	// hand-overs outside PUBLISH / PUBREL arms
	eachInstr(f, func(in ssa.Instruction) {
		if k, ok := c.serveEff(in); ok {
			if !pub.Instr[in] && (rel == nil || !rel.Instr[in]) {
				rr[1].Bad("serve/stray-hand-over", k.Call.Pos(), "a handler is invoked outside the PUBLISH and PUBREL arms")
			}
		}
	})

	// ---- R-C04-6
	if buf == nil {
		rr[6].Bad("serve/hold-buffer", f.Pos(), "serve has no local hold buffer for QoS 2 messages")
	} else {
		esc := false
		for _, u := range *buf.Referrers() {
			switch x := u.(type) {
			case *ssa.Lookup, *ssa.MapUpdate, *ssa.DebugRef:
			case *ssa.Call:
				if b, ok := x.Call.Value.(*ssa.Builtin); !ok || (b.Name() != "delete" && b.Name() != "len") {
					esc = true
				}
			case *ssa.Defer:
				if b, ok := x.Call.Value.(*ssa.Builtin); !ok || b.Name() != "delete" {
					esc = true
				}
			default:
				esc = true
			}
		}
		if esc {
			rr[6].Bad("serve/hold-buffer", buf.Pos(), "the QoS 2 hold buffer escapes serve (captured, passed or stored): it can be modified outside the sequential read loop")
		} else if buf.Block() != f.Blocks[0] {
			rr[6].Bad("serve/hold-buffer", buf.Pos(), "the hold buffer is re-created inside the read loop: held messages are forgotten between packets")
		} else {
			rr[6].OK("serve/hold-buffer", buf.Pos(), "local map, created once before the loop, used only by look-up/store/delete in serve")
		}
	}
	// serve callers
	for _, fn := range c.Funcs {
		eachInstr(fn, func(in ssa.Instruction) {
			cc := callCommon(in)
			if cc == nil || c.StaticCalleeOf(cc) != f {
				return
			}
			conn := c.Method("BaseClient", "Connect")
			if fn.Parent() == conn && len(c.makeClosures[fn]) == 1 {
				isGo := false
				for _, u := range *c.makeClosures[fn][0].Referrers() {
					if _, ok := u.(*ssa.Go); ok {
						isGo = true
					}
				}
				if isGo {
					rr[6].OK("serve/caller", in.Pos(), "serve runs only in the goroutine started by Connect")
					return
				}
			}
			rr[6].Bad("serve/caller", in.Pos(), "serve is called from %s: two readers would interleave on one transport", FuncName(fn))
		})
	}
	// no goroutine / no second reader
	for g := range c.reachableFuncs([]*ssa.Function{f}, true) {
		eachInstr(g, func(in ssa.Instruction) {
			if _, ok := in.(*ssa.Go); ok {
				rr[6].Bad(FuncName(g)+"/go", in.Pos(), "a goroutine is started on the read path: packets are no longer processed strictly in arrival order")
			}
		})
	}
	tF := c.structField("BaseClient", "Transport")
	for _, fn := range c.Funcs {
		eachInstr(fn, func(in ssa.Instruction) {
			ld, ok := in.(*ssa.UnOp)
			if !ok {
				return
			}
			if _, isT := isLoadOfField(ld, tF); !isT {
				return
			}
			for _, u := range *ld.Referrers() {
				switch x := u.(type) {
				case *ssa.Call:
					if x.Call.IsInvoke() && x.Call.Value == ssa.Value(ld) {
						if x.Call.Method.Name() == "Read" {
							rr[6].Bad(FuncName(fn)+"/Transport.Read", x.Pos(), "Transport.Read is called outside serve's reader")
						}
						continue
					}
				case *ssa.ChangeInterface:
					if fn != f {
						rr[6].Bad(FuncName(fn)+"/Transport", x.Pos(), "the transport is converted to %s outside serve", x.Type())
					}
				}
			}
		})
	}
	c.ruleReaderDiscipline(rr[6])
	// ---- R-C04-7
	c.ruleHandlerPerMessage(rr[7])
	// ---- R-C04-8
	c.ruleGuardTightness(rr[8], []string{"pktPublish", "pktPubRel"})
	c.ruleUnpackStringConsumes(rr[8])
}

// ruleParsedMessageFresh (R-C04-9): the *Message that serve gets from (*pktPublish).Parse is allocated per packet. Either Parse
// stores a fresh allocation into the packet's Message field on every successful path, or every store it makes to that
// field is a fresh allocation and the packet struct it is called on is itself allocated inside the arm (so the field was
// nil on entry). Otherwise two PUBLISH packets can share one Message: the one held for PUBREL is overwritten by the next.
func (c *Ctx) ruleParsedMessageFresh(rr *RuleRep, pub *serveArm) {
	key := "serve/PUBLISH/message-object"
	g := c.StaticCalleeOf(&pub.Parse.Call)
	if g == nil || len(g.Params) == 0 {
		rr.Undecided(key, pub.Parse.Pos(), "cannot resolve the PUBLISH parser")
		return
	}
	recvFresh := false
	if al, ok := c.Resolve(pub.Parse.Call.Args[0]).(*ssa.Alloc); ok && pub.Instr[al] {
		recvFresh = true
	}
	msgField := c.structField("pktPublish", "Message")
	isFreshStore := func(in ssa.Instruction) (bool, bool) { // (is a store to .Message of the result object, value is fresh)
		st, ok := in.(*ssa.Store)
		if !ok {
			return false, false
		}
		fa, ok := st.Addr.(*ssa.FieldAddr)
		if !ok {
			return false, false
		}
		if _, fld := fieldOf(fa); fld != msgField || msgField == nil {
			return false, false
		}
		_, fresh := c.Resolve(st.Val).(*ssa.Alloc)
		return true, fresh
	}
	nStores, allFresh := 0, true
	eachInstr(g, func(in ssa.Instruction) {
		if is, fresh := isFreshStore(in); is {
			nStores++
			if !fresh {
				allFresh = false
			}
		}
	})
	must := nStores > 0
	returnsRecv := true
	for _, ret := range returnsOf(g) {
		if len(ret.Results) != 2 || !isNilConst(c.Resolve(ret.Results[1])) {
			continue // error return
		}
		rv := c.Resolve(ret.Results[0])
		if rv != ssa.Value(g.Params[0]) {
			if _, isAl := rv.(*ssa.Alloc); !isAl {
				returnsRecv = false
			}
		}
		if !Dominated(g, ret, func(in ssa.Instruction) bool { is, fresh := isFreshStore(in); return is && fresh }, PathQ{}) {
			must = false
		}
	}
	switch {
	case !returnsRecv:
		rr.Undecided(key, pub.Parse.Pos(), "Parse returns neither its receiver nor a fresh packet")
	case must && allFresh:
		rr.OK(key, pub.Parse.Pos(), "%s stores a fresh Message into the packet on every successful path", FuncName(g))
	case recvFresh && allFresh && nStores > 0:
		rr.OK(key, pub.Parse.Pos(), "the packet struct is allocated per PUBLISH and %s only ever stores fresh Messages into it", FuncName(g))
	default:
		rr.Bad(key, pub.Parse.Pos(), "PUBLISH packets can be parsed into one shared Message object (the packet struct outlives the arm and %s re-uses its Message): a QoS 2 message held for its PUBREL is overwritten by the next PUBLISH — the later message is handed over twice and the held one never", FuncName(g))
	}
}

// ruleReaderDiscipline: readPacket reads from the reader it is given only through io.ReadFull (no per-call buffering wrapper that
// would swallow read-ahead bytes of the next packet), allocates a fresh body buffer per packet, and serve hands it the transport.
func (c *Ctx) ruleReaderDiscipline(rr *RuleRep) {
	rp := c.readFunc()
	var readers []ssa.Value
	if rp != nil {
		readers = c.readerValues(rp)
	}
	if rp == nil || len(readers) == 0 {
		rr.Lost("readPacket", "not found")
		return
	}
	ok := true
	for _, r := range readers {
		for _, u := range *r.Referrers() {
			switch x := u.(type) {
			case *ssa.Call:
				if !isStdCall(&x.Call, "io", "ReadFull") {
					ok = false
					rr.Bad("readPacket/reader", x.Pos(), "the transport reader is passed to %s: a wrapper created per packet (e.g. a buffered reader) reads ahead and the bytes of the following packet are thrown away with it", x.Call.String())
				}
			case *ssa.DebugRef:
			default:
				ok = false
				rr.Bad("readPacket/reader", u.Pos(), "the transport reader is used other than as the source of io.ReadFull (%s)", u.String())
			}
		}
	}
	if ok {
		rr.OK("readPacket/reader", rp.Pos(), "the reader is used only as the source of io.ReadFull")
	}
	// fresh body per packet
	fresh := true
	n := 0
	for _, ret := range returnsOf(rp) {
		if len(ret.Results) < 3 {
			continue
		}
		v := c.Resolve(ret.Results[2])
		if isNilConst(v) {
			continue
		}
		n++
		// every value the body can be is (a re-slice of) memory allocated by this very call of readPacket
		var local func(v ssa.Value, depth int) bool
		local = func(v ssa.Value, depth int) bool {
			if depth > 8 {
				return false
			}
			switch x := v.(type) {
			case *ssa.MakeSlice:
				return x.Parent() == rp
			case *ssa.Alloc:
				return x.Parent() == rp
			case *ssa.Slice:
				return local(c.Resolve(x.X), depth+1)
			case *ssa.Phi:
				for _, e := range x.Edges {
					if isNilConst(c.Resolve(e)) {
						continue
					}
					if !local(c.Resolve(e), depth+1) {
						return false
					}
				}
				return len(x.Edges) > 0
			case *ssa.ChangeType:
				return local(x.X, depth+1)
			}
			return false
		}
		if !local(v, 0) {
			fresh = false
			rr.Bad("readPacket/body", ret.Pos(), "the packet body handed to the parsers is not a buffer freshly allocated for this packet (%s): parsed messages alias it (Payload is a sub-slice), so a message held for later — a QoS 2 message waiting for PUBREL, or one a handler keeps — is overwritten by the next packet", describeVal(v))
		}
	}
	if fresh && n > 0 {
		rr.OK("readPacket/body", rp.Pos(), "each packet body is a fresh make([]byte, n)")
	}
}
