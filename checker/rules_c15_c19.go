package main

import (
	"go/token"
	"go/types"
	"sort"
	"strings"

	"golang.org/x/tools/go/ssa"
)

func init() {
	register("C15", "Decided: the structural facts that ARE the argument — an atomically incremented 32-bit counter truncated to 16 bits yields pairwise different values for any 65536 consecutive draws, and skipping 0 costs one draw. R-C15-1 idLast is touched only as &c.idLast operand of sync/atomic calls; newID draws with AddUint32(&c.idLast, odd constant) and derives the id from that result alone by truncation; StoreUint32 occurs only in initID, reachable only from init(); R-C15-2 every return of newID is either the draw on the `id != 0` edge or a fresh draw; R-C15-3 subscribe/unsubscribe draw exactly once, before registration, and use that value as key and packet id; publish draws only when Message.ID == 0 (a caller-chosen id is kept, also in the queued copy); R-C15-4 the seed interval is inside [1, 65535]; R-C15-5 Message.ID is written only in the publish implementation, only when it is 0, from newID() — an identifier the caller chose is never replaced. The counter is followed through pointer conversions and into helper methods that receive its address. Not decided: more than 65535 draws while one request stays outstanding; collisions with caller-supplied ids.", checkC15)
	register("C19", "Decided: R-C19-1 wrapErrorImpl keeps the cause (Err field = parameter; nil and io.EOF pass through unchanged) and all wrappers delegate to it; wrapErrorWithRetry embeds the same *Error; R-C19-2 method-set witnesses (Error/Unwrap/Is on *Error, promoted on *errorWithRetry which implements ErrorWithRetry, Unwrap on *ConnectionError, RequestTimeoutError produced by the request context); R-C19-3 error-construction discipline: every error returned by library code is nil, a passed-through error, a sentinel, a wrapError* result, or a library error struct — never a fresh fmt.Errorf/errors.New that loses the cause; R-C19-4 the retry handle re-issues the same request on the client it is given; R-C19-5 a cancelled caller context is reported as that context's error (request waits and KeepAlive's prioritised classification); R-C19-6 an expired ResponseTimeout is identifiable: every context bounded by ResponseTimeout is the requestContext wrapper and its Err() yields RequestTimeoutError whenever the bound can have expired. R-C19-7 every reflect.Value.Elem() the chain walk of (*Error).Is can reach is dominated by a Kind() == reflect.Ptr test of the same error (no panic on a chain ending in a value-typed error such as context.DeadlineExceeded). NOT decided: the rest of the chain-walking semantics of (*Error).Is (a data-dependent loop with reflection).", checkC19)
}

func checkC15(r *Run) {
	c := r.C
	r1 := r.Rule("R-C15-1", "idLast only via sync/atomic; newID = uint16(AddUint32(&c.idLast, odd const)); StoreUint32 only in initID, called only from init()")
	r2 := r.Rule("R-C15-2", "zero is skipped: newID returns the draw only on the `id != 0` edge, otherwise a fresh draw")
	r3 := r.Rule("R-C15-3", "one draw per subscribe/unsubscribe, before registration, used as key and packet id; publish draws only when ID == 0 and queued copies keep the caller's id")
	r4 := r.Rule("R-C15-4", "seed interval [c2, c1+c2-1] is inside [1, 65535]")
	r5 := r.Rule("R-C15-5", "an identifier the caller put on a message is used unchanged: Message.ID is written only in the publish implementation, only when it is 0, from newID()")
	c.ruleMessageStores(r5, nil, nil)
	r1.Floor(2)
	idF := c.structField("BaseClient", "idLast")
	newID := c.Method("BaseClient", "newID")
	initID := c.Method("BaseClient", "initID")
	if idF == nil || newID == nil {
		r1.Lost("idLast/newID", "counter field or newID not found")
		return
	}
	// every use of the counter's address (followed through conversions and into the functions it is passed to) is an
	// operand of a sync/atomic call
	im := c.idModel()
	for _, acc := range im.Accesses {
		key := FuncName(acc.Fn) + "/idLast"
		switch acc.Kind {
		case "plain":
			r1.Bad(key, acc.In.Pos(), "the id counter is accessed non-atomically (%s): concurrent callers can draw the same identifier", acc.In.String())
		case "escape":
			r1.Bad(key, acc.In.Pos(), "the id counter's address escapes to %s", acc.Call.Call.String())
		case "add":
			if !c.onlyCalledFrom(acc.Fn, newID, 0) {
				r1.Bad(key, acc.In.Pos(), "the id counter is advanced outside newID")
				continue
			}
			d, ok := constInt(acc.Call.Call.Args[1])
			if !ok || d%2 == 0 {
				r1.Bad(key, acc.In.Pos(), "the counter stride is not an odd constant: values repeat before 65536 draws")
				continue
			}
			r1.OK(key, acc.In.Pos(), "atomic.AddUint32(&c.idLast, %d)", d)
		case "store":
			initM := c.Method("BaseClient", "init")
			inInit := initM != nil && c.onlyCalledFrom(acc.Fn, initM, 0)
			if !inInit && (initID == nil || !c.onlyCalledFrom(acc.Fn, initID, 0)) {
				r1.Bad(key, acc.In.Pos(), "the id counter is overwritten (atomic.StoreUint32) outside initID: a concurrent draw between the add and the store is rewound and identifiers are handed out twice")
				continue
			}
			r1.OK(key, acc.In.Pos(), "StoreUint32 only during (*BaseClient).init (directly or in initID)")
		case "load":
			r1.OK(key, acc.In.Pos(), "atomic load")
		default:
			r1.Bad(key, acc.In.Pos(), "unexpected atomic operation %s on the id counter", acc.Call.Call.StaticCallee().Name())
		}
	}
	if nAdd := func() int {
		n := 0
		for _, a := range im.Accesses {
			if a.Kind == "add" {
				n++
			}
		}
		return n
	}(); nAdd != 1 {
		r1.Bad("newID/draw", newID.Pos(), "the id counter is advanced at %d places (want exactly one atomic add)", nAdd)
	}
	// initID callers
	if initID != nil {
		la := c.locks()
		for _, site := range la.callers[initID] {
			f := site.Parent()
			if f.Name() == "init" && f.Signature.Recv() != nil {
				r1.OKt("initID/caller", site.Pos(), "called from (*BaseClient).init() only")
			} else {
				r1.Bad("initID/caller", site.Pos(), "the id counter is re-seeded from %s", FuncName(f))
			}
		}
	}
	// R-C15-2
	c.ruleNewIDNonZero(r2)
	// R-C15-3
	for _, s := range c.sitesOrLost(r3) {
		if s.Kind != "subscribe" && s.Kind != "unsubscribe" {
			continue
		}
		var draws []*ssa.Call
		eachInstr(s.F, func(in ssa.Instruction) {
			if c.isCallTo(in, newID) {
				draws = append(draws, in.(*ssa.Call))
			}
		})
		key := s.Name + "/draw"
		if len(draws) != 1 {
			r3.Bad(key, s.F.Pos(), "%s draws %d identifiers (want exactly one per request)", s.Name, len(draws))
			continue
		}
		pid, why := c.packetIDOf(s)
		switch {
		case why != "":
			r3.Undecided(key, s.Write.Pos(), "%s", why)
		case s.RegKey == nil || c.Resolve(s.RegKey) != ssa.Value(draws[0]) || c.Resolve(pid) != ssa.Value(draws[0]):
			r3.Bad(key, draws[0].Pos(), "the drawn identifier is not used both as waiter key and as packet identifier")
		case !Dominated(s.F, s.Reg, func(in ssa.Instruction) bool { return in == ssa.Instruction(draws[0]) }, PathQ{}):
			r3.Bad(key, draws[0].Pos(), "the identifier is drawn after the waiter was registered")
		default:
			r3.OK(key, draws[0].Pos(), "one newID() draw, dominating registration, used as key and packet id")
		}
	}
	// publish: newID only under ID == 0 — reuse R-C12-1 logic by scanning calls in publishImpl
	pub := c.Func("publishImpl")
	if pub != nil {
		eachInstr(pub, func(in ssa.Instruction) {
			if !c.isCallTo(in, newID) {
				return
			}
			dom := false
			for _, b := range pub.Blocks {
				iff := blockIf(b)
				if iff == nil {
					continue
				}
				bin, ok := iff.Cond.(*ssa.BinOp)
				if !ok {
					continue
				}
				if _, isID := isFieldLoad(bin.X, "Message", "ID"); !isID {
					continue
				}
				if k, ok := constInt(bin.Y); !ok || k != 0 {
					continue
				}
				edge := 0
				if bin.Op == token.NEQ {
					edge = 1
				}
				if DominatedByEdge(pub, in, b, edge, PathQ{}) {
					dom = true
				}
			}
			if dom {
				r3.OK("publishImpl/draw", in.Pos(), "publish draws an id only when Message.ID == 0: a caller-chosen id is used unchanged")
			} else {
				r3.Bad("publishImpl/draw", in.Pos(), "publish draws a new id although the message may already carry one (caller-chosen or assigned at first transmission)")
			}
		})
	}
	c.ruleDeferredCopy(r3, "ID")
	// R-C15-4
	if initID != nil {
		eachInstr(initID, func(in ssa.Instruction) {
			k, ok := in.(*ssa.Call)
			if !ok {
				return
			}
			if callee := k.Call.StaticCallee(); callee == nil || callee.Name() != "StoreUint32" {
				return
			}
			lo, hi, ok := c.seedInterval(k.Call.Args[1])
			switch {
			case !ok:
				r4.Undecided("initID/seed", in.Pos(), "seed expression is not rand.Int31n(c1)+c2")
			case lo < 1 || hi > 65535:
				r4.Bad("initID/seed", in.Pos(), "seed interval [%d, %d] is not inside [1, 65535]", lo, hi)
			default:
				r4.OK("initID/seed", in.Pos(), "seed in [%d, %d]", lo, hi)
			}
		})
	}
}

func (c *Ctx) seedInterval(v ssa.Value) (int64, int64, bool) {
	switch x := v.(type) {
	case *ssa.Convert:
		return c.seedInterval(x.X)
	case *ssa.BinOp:
		if x.Op == token.ADD {
			if k, ok := constInt(x.Y); ok {
				lo, hi, ok := c.seedInterval(x.X)
				return lo + k, hi + k, ok
			}
			if k, ok := constInt(x.X); ok {
				lo, hi, ok := c.seedInterval(x.Y)
				return lo + k, hi + k, ok
			}
		}
	case *ssa.Call:
		if callee := c.StaticCalleeOf(&x.Call); callee != nil && callee.Pkg != nil && callee.Pkg.Pkg.Path() == "math/rand" && (callee.Name() == "Int31n" || callee.Name() == "Intn" || callee.Name() == "Int63n") {
			if n, ok := constInt(x.Call.Args[0]); ok && n > 0 {
				return 0, n - 1, true
			}
		}
	}
	return 0, 0, false
}

func checkC19(r *Run) {
	c := r.C
	r1 := r.Rule("R-C19-1", "wrapping preserves the cause: wrapErrorImpl sets Err = parameter, passes nil and io.EOF through; wrapError/wrapErrorf/wrapErrorWithRetry delegate to it and the retry variant embeds the same *Error")
	r2 := r.Rule("R-C19-2", "method-set witnesses: *Error{Error,Unwrap,Is}; *errorWithRetry promotes them, has Retry, implements ErrorWithRetry; *ConnectionError.Unwrap; RequestTimeoutError")
	r3 := r.Rule("R-C19-3", "error-construction discipline: returned errors are nil / passed through / sentinels / wrapError* results / library error structs")
	r4 := r.Rule("R-C19-4", "an interrupted QoS>=1 publish, subscribe or unsubscribe returns an ErrorWithRetry whose handle re-issues that request on the client it is given")
	r5 := r.Rule("R-C19-5", "a cancelled caller context is reported as that context's error (request waits; KeepAlive's prioritised classification)")
	r6 := r.Rule("R-C19-6", "an expired ResponseTimeout is identifiable: every context bounded by ResponseTimeout is the requestContext wrapper, whose Err() yields RequestTimeoutError whenever the bound can have expired")
	c.ruleTimeoutIdentity(r6)
	r7 := r.Rule("R-C19-7", "the chain walk of (*Error).Is dereferences an error by reflection only after testing that it is a pointer (errors.Is answers, never panics, for chains ending in a value-typed error)")
	c.ruleReflectDerefGuarded(r7)
	r3.Floor(25)
	r4.Floor(8)
	// --- R-C19-1
	c.ruleWrappersKeepCause(r1)
	// --- R-C19-2 method sets
	hasMethod := func(typ string, ptr bool, name string) bool {
		n := c.NamedType(typ)
		if n == nil {
			return false
		}
		var t types.Type = n
		if ptr {
			t = types.NewPointer(n)
		}
		return c.Prog.MethodSets.MethodSet(t).Lookup(c.TPkg, name) != nil
	}
	for _, w := range []struct {
		typ, m string
	}{{"Error", "Error"}, {"Error", "Unwrap"}, {"Error", "Is"}, {"errorWithRetry", "Error"}, {"errorWithRetry", "Unwrap"}, {"errorWithRetry", "Is"}, {"errorWithRetry", "Retry"}, {"ConnectionError", "Error"}, {"ConnectionError", "Unwrap"}, {"RequestTimeoutError", "Error"}} {
		if hasMethod(w.typ, true, w.m) {
			r2.OKt("*"+w.typ+"."+w.m, token.NoPos, "method present")
		} else {
			r2.Bad("*"+w.typ+"."+w.m, token.NoPos, "*%s has no method %s: errors.Is/As cannot see through it", w.typ, w.m)
		}
	}
	if ewr, iface := c.NamedType("errorWithRetry"), c.NamedType("ErrorWithRetry"); ewr != nil && iface != nil {
		if it, ok := iface.Underlying().(*types.Interface); ok && types.Implements(types.NewPointer(ewr), it) {
			r2.OKt("*errorWithRetry implements ErrorWithRetry", token.NoPos, "interface satisfied")
		} else {
			r2.Bad("*errorWithRetry implements ErrorWithRetry", token.NoPos, "*errorWithRetry does not implement ErrorWithRetry")
		}
	}
	// Unwrap returns the Err field
	for _, tn := range []string{"Error", "ConnectionError"} {
		if m := c.Method(tn, "Unwrap"); m != nil {
			ok := true
			for _, ret := range returnsOf(m) {
				if _, isErr := isFieldLoad(c.Resolve(ret.Results[0]), tn, "Err"); !isErr {
					ok = false
				}
			}
			if ok {
				r2.OK("(*"+tn+").Unwrap", m.Pos(), "returns the Err field")
			} else {
				r2.Bad("(*"+tn+").Unwrap", m.Pos(), "Unwrap does not return the wrapped cause")
			}
		}
	}
	// --- R-C19-3 error construction discipline
	c.ruleErrorConstruction(r3)
	// --- R-C19-4
	sites := c.sitesOrLost(r4)
	uses := c.ruleRetryableFailures(r4, sites)
	c.ruleHandleReissues(r4, uses)
	if m := c.Method("errorWithRetry", "Retry"); m != nil {
		ok := false
		eachInstr(m, func(in ssa.Instruction) {
			k, isCall := in.(*ssa.Call)
			if !isCall || k.Call.IsInvoke() {
				return
			}
			if _, isFn := isFieldLoad(k.Call.Value, "errorWithRetry", "retryFn"); isFn && len(k.Call.Args) == 2 && k.Call.Args[0] == ssa.Value(m.Params[1]) && k.Call.Args[1] == ssa.Value(m.Params[2]) {
				ok = true
			}
		})
		if ok {
			r4.OK("(*errorWithRetry).Retry", m.Pos(), "calls the stored handle with its own (ctx, cli)")
		} else {
			r4.Bad("(*errorWithRetry).Retry", m.Pos(), "Retry does not invoke the stored handle with the context and client it is given")
		}
	}
	// --- R-C19-5
	c.ruleThreeWaySelect(r5, nil, sites)
	if ka := c.Func("KeepAlive"); ka != nil && len(ka.Params) == 4 {
		var wt, ping *ssa.Call
		eachInstr(ka, func(in ssa.Instruction) {
			if k, ok := in.(*ssa.Call); ok {
				if isStdCall(&k.Call, "context", "WithTimeout") {
					wt = k
				}
				if k.Call.IsInvoke() && k.Call.Method.Name() == "Ping" {
					ping = k
				}
			}
		})
		if wt != nil && ping != nil {
			var ctxTo ssa.Value
			for _, u := range *wt.Referrers() {
				if ex, ok := u.(*ssa.Extract); ok && ex.Index == 0 {
					ctxTo = ex
				}
			}
			if fe := nonNilEdges(ka, ping); len(fe) == 1 && ctxTo != nil {
				c.ruleKeepAliveClassify(r5, ka, ka.Params[0], ctxTo, wt, ping, fe[0])
			}
		}
	}
}

// ruleErrorConstruction: classify every returned error value in the package.
func (c *Ctx) ruleErrorConstruction(rr *RuleRep) {
	errT := types.Universe.Lookup("error").Type()
	libErrTypes := map[string]bool{"Error": true, "errorWithRetry": true, "ConnectionError": true, "RequestTimeoutError": true}
	var curRet *ssa.Return
	var classify func(f *ssa.Function, v ssa.Value, depth int) (string, bool)
	classify = func(f *ssa.Function, v ssa.Value, depth int) (string, bool) {
		if depth > 6 {
			return "too deep", false
		}
		v = c.Resolve(v)
		if isNilConst(v) {
			return "nil", true
		}
		switch x := v.(type) {
		case *ssa.Parameter:
			return "parameter passed through", true
		case *ssa.Phi:
			// what the join holds on the paths that reach this return (a private marker error that is translated before it
			// can leave: `if err == errMarker { return wrapError(ErrX, …) }; return err`)
			if curRet != nil && depth == 0 && x.Parent() == f {
				if vs, reached := valuesAt(f, curRet, x); reached && len(vs) > 0 {
					all := true
					for _, lv := range vs {
						if lv == ssa.Value(x) {
							all = false
							break
						}
					}
					if all {
						for _, lv := range vs {
							if why, ok := classify(f, lv, depth+1); !ok {
								return why, false
							}
						}
						return "join of accepted values", true
					}
				}
			}
			for _, e := range x.Edges {
				if e == ssa.Value(x) {
					continue
				}
				if why, ok := classify(f, e, depth+1); !ok {
					return why, false
				}
			}
			return "phi of accepted values", true
		case *ssa.Extract:
			if call, ok := x.Tuple.(*ssa.Call); ok {
				return classify(f, call, depth+1)
			}
			if _, ok := x.Tuple.(*ssa.Select); ok {
				return "received value", true
			}
			if ta, ok := x.Tuple.(*ssa.TypeAssert); ok {
				return classify(f, ta.X, depth+1)
			}
		case *ssa.TypeAssert:
			return classify(f, x.X, depth+1)
		case *ssa.UnOp:
			if x.Op == token.MUL {
				if g, ok := x.X.(*ssa.Global); ok {
					if strings.HasPrefix(g.Name(), "Err") || g.Pkg != c.Pkg {
						return "sentinel " + g.Name(), true
					}
					return "global " + g.Name(), false
				}
				if _, ok := x.X.(*ssa.FieldAddr); ok {
					return "stored error field", true
				}
				if _, ok := x.X.(*ssa.Alloc); ok {
					return "local error variable", true
				}
				if _, ok := x.X.(*ssa.FreeVar); ok {
					return "captured error variable", true
				}
			}
		case *ssa.Alloc:
			if libErrTypes[typeName(x.Type())] {
				return "library error struct *" + typeName(x.Type()), true
			}
			return "ad-hoc error struct " + typeName(x.Type()), false
		case *ssa.Call:
			cc := &x.Call
			if cc.IsInvoke() {
				return "result of " + cc.Method.Name(), true // ctx.Err(), Transport.Close(), interface calls
			}
			callee := c.StaticCalleeOf(cc)
			if callee == nil || cc.StaticCallee() == nil {
				return "result of a function value (option / retry handle / callback)", true
			}
			if callee.Pkg == c.Pkg {
				return "result of " + FuncName(callee), true
			}
			if callee.Pkg != nil {
				p := callee.Pkg.Pkg.Path()
				if (p == "fmt" && callee.Name() == "Errorf") || (p == "errors" && callee.Name() == "New") {
					return p + "." + callee.Name(), false
				}
				return "result of " + p + "." + callee.Name(), true
			}
		}
		return "unrecognised: " + describeVal(v), false
	}
	for _, f := range c.Funcs {
		res := f.Signature.Results()
		for _, ret := range returnsOf(f) {
			for i := 0; i < res.Len(); i++ {
				if !types.Identical(res.At(i).Type(), errT) {
					continue
				}
				v := c.RetVal(ret, i)
				curRet = ret
				why, ok := classify(f, v, 0)
				curRet = nil
				key := FuncName(f) + "/error-return"
				if ok {
					rr.OKt(key, ret.Pos(), "%s", why)
				} else {
					rr.Bad(key, ret.Pos(), "returns an error built by %s: the documented cause is no longer reachable through errors.Is / Unwrap", why)
				}
			}
		}
	}
	// sentinel causes at specific producers
	if f := c.Func("subscribeImpl"); f != nil {
		found := false
		eachInstr(f, func(in ssa.Instruction) {
			if k, ok := in.(*ssa.Call); ok {
				if callee := c.StaticCalleeOf(&k.Call); callee != nil && callee.Pkg == c.Pkg && c.isWrapFn(callee) && len(k.Call.Args) > 0 && c.isGlobalLoad(k.Call.Args[0], "ErrInvalidSubAck") {
					found = true
				}
			}
		})
		if found {
			rr.OK("subscribeImpl/ErrInvalidSubAck", f.Pos(), "count mismatch wraps ErrInvalidSubAck")
		} else {
			rr.Bad("subscribeImpl/ErrInvalidSubAck", f.Pos(), "no error with cause ErrInvalidSubAck is produced by Subscribe")
		}
	}
}

// ruleNewIDNonZero (R-C15-2): every return of newID is its own truncated atomic draw on the `id != 0` edge, or a fresh draw.
func (c *Ctx) ruleNewIDNonZero(r2 *RuleRep) {
	newID := c.Method("BaseClient", "newID")
	if newID == nil {
		r2.Lost("newID", "not found")
		return
	}
	drawF, draw := c.idModel().drawFn()
	if draw == nil {
		r2.Lost("newID/draw", "no atomic draw in newID")
		return
	}
	// newID itself draws, or returns exactly what the drawing function returns
	if drawF != newID {
		for _, ret := range returnsOf(newID) {
			call, callee := c.asCall(c.Resolve(ret.Results[0]))
			if call == nil || callee == nil || !c.onlyCalledFrom(drawF, callee, 0) && callee != drawF {
				r2.Bad("newID/return", ret.Pos(), "newID returns %s, which is not the result of the counter's draw", describeVal(c.Resolve(ret.Results[0])))
				return
			}
		}
	}
	for _, ret := range returnsOf(drawF) {
		v := c.Resolve(ret.Results[0])
		key := "newID/return"
		if call, callee := c.asCall(v); call != nil && (callee == drawF || (callee == newID && drawF == newID)) {
			r2.OK(key, ret.Pos(), "returns a fresh draw (recursive)")
			continue
		}
		cv, ok := v.(*ssa.Convert)
		if !ok || cv.X != ssa.Value(draw) {
			// loop form: phi of converts
			r2.Bad(key, ret.Pos(), "newID returns %s, which is not the truncated result of its own atomic draw", describeVal(v))
			continue
		}
		if b, ok := cv.Type().Underlying().(*types.Basic); !ok || b.Kind() != types.Uint16 {
			r2.Bad(key, ret.Pos(), "the id is not the 16-bit truncation of the draw")
			continue
		}
		dom := false
		for _, b := range drawF.Blocks {
			iff := blockIf(b)
			if iff == nil {
				continue
			}
			bin, ok := iff.Cond.(*ssa.BinOp)
			if !ok {
				continue
			}
			if bin.X != ssa.Value(cv) {
				// the same truncation of the same draw written out a second time (`if uint16(n) == 0 {…}; return uint16(n)`)
				cv2, isCv := bin.X.(*ssa.Convert)
				if !isCv || cv2.X != cv.X || !types.Identical(cv2.Type(), cv.Type()) {
					continue
				}
			}
			if k, ok := constInt(bin.Y); !ok || k != 0 {
				continue
			}
			edge := 1
			if bin.Op == token.NEQ {
				edge = 0
			} else if bin.Op != token.EQL {
				continue
			}
			if DominatedByEdge(drawF, ret, b, edge, PathQ{}) {
				dom = true
			}
		}
		if dom {
			r2.OK(key, ret.Pos(), "returns the draw only on the `id != 0` edge")
		} else {
			r2.Bad(key, ret.Pos(), "newID can return 0 (no dominating zero test on the returned value)")
		}
	}
}

// ruleTimeoutIdentity (R-C19-6).
func (c *Ctx) ruleTimeoutIdentity(rr *RuleRep) {
	a := c.retryAnchors()
	if a.ReqCtx == nil {
		rr.Lost("(*RetryClient).requestContext", "not found")
		return
	}
	rcF := a.ReqCtx
	isWrapperAlloc := func(v ssa.Value) (*ssa.Alloc, string) {
		al, ok := c.Resolve(v).(*ssa.Alloc)
		if !ok {
			return nil, ""
		}
		tn := typeName(al.Type())
		if tn == "" || c.Method(tn, "Err") == nil {
			return nil, ""
		}
		return al, tn
	}
	// (a) what requestContext hands out when a timeout is configured
	wrapT := ""
	deadlineBased := false
	for _, ret := range returnsOf(rcF) {
		v := c.Resolve(c.RetVal(ret, 0))
		if p, _ := ctxParam(rcF); p != nil && v == ssa.Value(p) {
			continue // the unbounded pass-through (ResponseTimeout == 0), R-C18-2's concern
		}
		al, tn := isWrapperAlloc(v)
		if al == nil {
			rr.Bad("requestContext/wrap", ret.Pos(), "the context bounded by ResponseTimeout is handed out without the wrapper whose Err() reports RequestTimeoutError: an expired response timeout is indistinguishable from the caller's own deadline")
			return
		}
		wrapT = tn
		if ex, ok := c.Resolve(c.storedField(al, "Context")).(*ssa.Extract); ok && ex.Index == 0 {
			if k, ok := ex.Tuple.(*ssa.Call); ok && (isStdCall(&k.Call, "context", "WithTimeout") || isStdCall(&k.Call, "context", "WithDeadline")) {
				deadlineBased = true
			}
		}
	}
	if wrapT == "" {
		rr.Lost("requestContext/wrap", "requestContext never returns a bounded context")
		return
	}
	// (b) the wrapper's Err()
	errM := c.Method(wrapT, "Err")
	okErr := true
	for _, ret := range returnsOf(errM) {
		v := c.Resolve(ret.Results[0])
		if al, ok := v.(*ssa.Alloc); ok && typeName(al.Type()) == "RequestTimeoutError" {
			continue
		}
		// an unwrapped return: only where the inner error is known not to be the expiry of a deadline-based bound
		safe := false
		if deadlineBased {
			for _, b := range errM.Blocks {
				iff := blockIf(b)
				if iff == nil {
					continue
				}
				bin, ok := iff.Cond.(*ssa.BinOp)
				if !ok || (bin.Op != token.NEQ && bin.Op != token.EQL) {
					continue
				}
				isDE := func(x ssa.Value) bool { return c.globalLoadName(x) == "context.DeadlineExceeded" }
				if !isDE(bin.X) && !isDE(bin.Y) {
					continue
				}
				edge := 0
				if bin.Op == token.EQL {
					edge = 1
				}
				if DominatedByEdge(errM, ret, b, edge, PathQ{}) {
					safe = true
				}
			}
			// `return nil`-like pass-through of a nil inner error is fine too
			for _, e := range nilEdgesOfAnyErrCall(c, errM) {
				if DominatedByEdge(errM, ret, e.B, e.K, PathQ{}) {
					safe = true
				}
			}
		}
		if !safe {
			okErr = false
			why := "although the bound is not a deadline (its expiry surfaces as context.Canceled)"
			if deadlineBased {
				why = "on a path that is not limited to errors other than context.DeadlineExceeded"
			}
			rr.Bad("("+wrapT+").Err", ret.Pos(), "%s.Err() can return the inner error unwrapped %s: an expired ResponseTimeout is then not identifiable as RequestTimeoutError", wrapT, why)
		}
	}
	if okErr {
		rr.OK("("+wrapT+").Err", errM.Pos(), "Err() yields RequestTimeoutError whenever the response timeout can have expired")
	}
	// (c) ResponseTimeout is turned into a bound only inside the wrapper
	n := 0
	for _, f := range c.Funcs {
		eachInstr(f, func(in ssa.Instruction) {
			k, ok := in.(*ssa.Call)
			if !ok || len(k.Call.Args) < 2 {
				return
			}
			if !isStdCall(&k.Call, "context", "WithTimeout") && !isStdCall(&k.Call, "context", "WithDeadline") && !isStdCall(&k.Call, "time", "AfterFunc") {
				return
			}
			arg := k.Call.Args[1]
			if isStdCall(&k.Call, "time", "AfterFunc") {
				arg = k.Call.Args[0]
			}
			if !c.isResponseTimeout(f, arg) {
				return
			}
			n++
			key := FuncName(f) + "/bound"
			if isStdCall(&k.Call, "time", "AfterFunc") {
				if f != rcF {
					rr.Bad(key, in.Pos(), "ResponseTimeout arms a timer outside requestContext()")
				}
				return
			}
			okUse := true
			for _, u := range *k.Referrers() {
				ex, ok := u.(*ssa.Extract)
				if !ok || ex.Index != 0 {
					continue
				}
				for _, uu := range *ex.Referrers() {
					switch y := uu.(type) {
					case *ssa.Store:
						fa, isFA := y.Addr.(*ssa.FieldAddr)
						if !isFA {
							okUse = false
							continue
						}
						if al, _ := isWrapperAlloc(fa.X); al == nil {
							okUse = false
						}
					case *ssa.DebugRef:
					default:
						okUse = false
					}
				}
			}
			if okUse {
				rr.OK(key, in.Pos(), "the bounded context goes straight into the %s wrapper", wrapT)
			} else {
				rr.Bad(key, in.Pos(), "a context bounded by ResponseTimeout is used in %s without the %s wrapper: when this bound expires the error is a bare context error, not identifiable as RequestTimeoutError", FuncName(f), wrapT)
			}
		})
	}
	if n == 0 {
		rr.Lost("ResponseTimeout/bound", "ResponseTimeout is never turned into a context bound")
	}
}

// nilEdgesOfAnyErrCall: edges on which the result of an Err() call made in f is nil.
func nilEdgesOfAnyErrCall(c *Ctx, f *ssa.Function) []ifEdge {
	var out []ifEdge
	eachInstr(f, func(in ssa.Instruction) {
		if k, ok := in.(*ssa.Call); ok && k.Call.IsInvoke() && k.Call.Method.Name() == "Err" {
			out = append(out, nilEdges(f, k)...)
		}
	})
	return out
}

// ruleWrappersKeepCause (R-C19-1): every function of the wrapper family (wrapErrorImpl where it exists, wrapError, wrapErrorf,
// wrapErrorWithRetry) returns, on every path, the cause itself, nil only for a nil cause, io.EOF only for io.EOF, an *Error
// whose Err field is the cause (never for nil or io.EOF), the result of another wrapper applied to the cause, or an
// *errorWithRetry holding such a value together with the handle it was given.
func (c *Ctx) ruleWrappersKeepCause(r1 *RuleRep) {
	family := map[*ssa.Function]string{}
	for _, n := range []string{"wrapErrorImpl", "wrapError", "wrapErrorf", "wrapErrorWithRetry"} {
		if f := c.Func(n); f != nil {
			family[f] = n
		} else if n != "wrapErrorImpl" {
			r1.Lost(n, "not found")
		}
	}
	if len(family) == 0 {
		return
	}
	var fs []*ssa.Function
	for f := range family {
		fs = append(fs, f)
	}
	sort.Slice(fs, func(i, j int) bool { return family[fs[i]] < family[fs[j]] })
	builds := false // some member constructs the *Error itself
	for _, f := range fs {
		name := family[f]
		if len(f.Params) == 0 || types.TypeString(f.Params[0].Type(), nil) != "error" {
			r1.Bad(name+"/delegates", f.Pos(), "%s does not take the cause as its first parameter", name)
			continue
		}
		cause := ssa.Value(f.Params[0])
		var handle ssa.Value
		if wi, ok := c.wrapInfoOf(f); ok && wi.handle >= 0 && wi.handle < len(f.Params) {
			handle = f.Params[wi.handle]
		}
		isEOF := func(v ssa.Value) bool { return c.globalLoadName(v) == "io.EOF" }
		// what taking an edge establishes about a comparison: the tested comparison itself, or the last operand of a
		// short-circuit `a || b` (false on the false edge) / `a && b` (true on the true edge) computed into a boolean
		type implied struct {
			bin   *ssa.BinOp
			holds bool
			b     *ssa.BasicBlock
			k     int
		}
		var facts []implied
		for _, b := range f.Blocks {
			iff := blockIf(b)
			if iff == nil {
				continue
			}
			switch x := iff.Cond.(type) {
			case *ssa.BinOp:
				facts = append(facts, implied{x, true, b, 0}, implied{x, false, b, 1})
			case *ssa.Phi:
				var last *ssa.BinOp
				nConst, konst, okShape := 0, false, true
				for _, e := range x.Edges {
					if kb, isK := constBool(e); isK {
						if nConst > 0 && kb != konst {
							okShape = false
						}
						konst = kb
						nConst++
						continue
					}
					bin, isB := e.(*ssa.BinOp)
					if !isB || last != nil {
						okShape = false
						continue
					}
					last = bin
				}
				if okShape && nConst > 0 && last != nil {
					if konst {
						facts = append(facts, implied{last, false, b, 1})
					} else {
						facts = append(facts, implied{last, true, b, 0})
					}
				}
			}
		}
		causeIs := func(bin *ssa.BinOp, other func(ssa.Value) bool) bool {
			return (bin.X == cause && other(bin.Y)) || (bin.Y == cause && other(bin.X))
		}
		// causeKnown: `at` is dominated by an edge establishing that the cause is (want) / is not (!want) the given value
		causeKnown := func(at ssa.Instruction, other func(ssa.Value) bool, want bool) bool {
			for _, ft := range facts {
				if !causeIs(ft.bin, other) {
					continue
				}
				var equal bool
				switch ft.bin.Op {
				case token.EQL:
					equal = ft.holds
				case token.NEQ:
					equal = !ft.holds
				default:
					continue
				}
				if equal == want && DominatedByEdge(f, at, ft.b, ft.k, PathQ{}) {
					return true
				}
			}
			return false
		}
		onNil := func(at ssa.Instruction, want bool) bool {
			return causeKnown(at, func(v ssa.Value) bool { return isNilConst(v) }, want)
		}
		onEOF := func(at ssa.Instruction, want bool) bool { return causeKnown(at, isEOF, want) }
		// ownError: v is an *Error built here around the cause
		ownError := func(v ssa.Value) bool {
			al, ok := c.errOrigin(v).(*ssa.Alloc)
			if !ok {
				al, ok = c.Resolve(v).(*ssa.Alloc)
			}
			return ok && typeName(al.Type()) == "Error" && c.Resolve(c.storedField(al, "Err")) == cause
		}
		wrappedByOther := func(v ssa.Value) bool {
			call, callee := c.asCall(c.errOrigin(v))
			if call == nil {
				call, callee = c.asCall(v)
			}
			if call == nil || callee == nil || callee == f || len(call.Call.Args) == 0 {
				return false
			}
			if _, member := family[callee]; !member {
				return false
			}
			return c.Resolve(call.Call.Args[0]) == cause
		}
		okAll, hasRetry := true, false
		var classify func(v ssa.Value, ret *ssa.Return, depth int) string
		classify = func(v ssa.Value, ret *ssa.Return, depth int) string {
			if depth > 6 {
				return "a value the rule cannot trace"
			}
			rv := c.Resolve(v)
			switch {
			case rv == cause:
				return ""
			case isNilConst(rv):
				if onNil(ret, true) {
					return ""
				}
				return "nil for a cause that may be non-nil"
			case isEOF(rv):
				if onEOF(ret, true) {
					return ""
				}
				return "io.EOF for an error that is not io.EOF"
			case wrappedByOther(rv):
				return ""
			}
			if phi, ok := rv.(*ssa.Phi); ok {
				for _, e := range phi.Edges {
					if why := classify(e, ret, depth+1); why != "" {
						return why
					}
				}
				return ""
			}
			if al, ok := rv.(*ssa.Alloc); ok {
				switch typeName(al.Type()) {
				case "Error":
					if c.Resolve(c.storedField(al, "Err")) != cause {
						return "an *Error that does not keep the wrapped cause in its Err field (errors.Is / Unwrap cannot reach the sentinel any more)"
					}
					builds = true
					if !onNil(ret, false) {
						return "an *Error for a cause that may be nil (nil would become a non-nil error)"
					}
					if !onEOF(ret, false) {
						return "an *Error around io.EOF (io.EOF is no longer passed through unwrapped)"
					}
					return ""
				case "errorWithRetry":
					hasRetry = true
					st, _ := al.Type().Underlying().(*types.Pointer).Elem().Underlying().(*types.Struct)
					var base, hv ssa.Value
					for i := 0; st != nil && i < st.NumFields(); i++ {
						fld := st.Field(i)
						val := c.storedField(al, fld.Name())
						if val == nil {
							continue
						}
						if typeName(fld.Type()) == "retryFn" {
							hv = val
						} else if _, isSig := fld.Type().Underlying().(*types.Signature); isSig {
							hv = val
						} else {
							base = val
						}
					}
					if handle == nil || hv == nil || c.Resolve(hv) != handle {
						return "an *errorWithRetry that does not carry the handle it was given"
					}
					if base == nil || !(ownError(base) || wrappedByOther(base)) {
						return "an *errorWithRetry whose base error is not the wrapped cause"
					}
					if ownError(base) {
						builds = true
						if !onNil(ret, false) || !onEOF(ret, false) {
							return "a handle-carrying error for a cause that may be nil or io.EOF"
						}
					}
					return ""
				}
			}
			return describeVal(rv) + ", which is not the wrapped cause"
		}
		for _, ret := range returnsOf(f) {
			if len(ret.Results) != 1 {
				okAll = false
				continue
			}
			if why := classify(ret.Results[0], ret, 0); why != "" {
				okAll = false
				r1.Bad(name+"/return", ret.Pos(), "%s returns %s", name, why)
			}
		}
		if name == "wrapErrorWithRetry" && !hasRetry {
			okAll = false
			r1.Bad("wrapErrorWithRetry/handle", f.Pos(), "wrapErrorWithRetry never returns an *errorWithRetry")
		}
		if okAll {
			r1.OK(name+"/delegates", f.Pos(), "every return is the cause, nil/io.EOF for a nil/io.EOF cause, an *Error{Err: cause}, another wrapper's result%s", map[bool]string{true: ", or these embedded in *errorWithRetry with the given handle", false: ""}[name == "wrapErrorWithRetry"])
		}
	}
	if !builds {
		r1.Bad("wrappers/build", token.NoPos, "no wrapper constructs an *Error around the cause")
	}
}
