package main

import (
	"go/token"
	"go/types"

	"golang.org/x/tools/go/ssa"
)

// ---- returns --------------------------------------------------------------------------------

// RetVal returns the i-th result of a return, looking through the named-result spill that go/ssa
// emits for functions with defers (`*r = v; rundefers; t = *r; return t`).
func (c *Ctx) RetVal(ret *ssa.Return, i int) ssa.Value {
	if i >= len(ret.Results) {
		return nil
	}
	v := ret.Results[i]
	u, ok := v.(*ssa.UnOp)
	if !ok || u.Op != token.MUL {
		return v
	}
	a, ok := u.X.(*ssa.Alloc)
	if !ok || a.Heap {
		return v
	}
	// find the last store to a before the load, in the same block
	b := ret.Block()
	var last ssa.Value
	for _, in := range b.Instrs {
		if in == ssa.Instruction(u) {
			break
		}
		if st, ok := in.(*ssa.Store); ok && st.Addr == ssa.Value(a) {
			last = st.Val
		}
	}
	if last != nil {
		return last
	}
	// the store may be in a unique predecessor chain (rare); give up
	return v
}

func returnsOf(f *ssa.Function) []*ssa.Return {
	var out []*ssa.Return
	live := feasibleBlocks(f)
	for _, b := range f.Blocks {
		if f.Recover != nil && b == f.Recover {
			continue
		}
		if live != nil && !live[b] {
			continue // only behind an edge no execution takes (a test of a hook that nothing in the library sets, …)
		}
		for _, in := range b.Instrs {
			if r, ok := in.(*ssa.Return); ok {
				out = append(out, r)
			}
		}
	}
	return out
}

// isSyntheticSelectPanic: the unreachable `panic("blocking select matched no case")` tail.
func isSyntheticSelectPanic(in ssa.Instruction) bool {
	p, ok := in.(*ssa.Panic)
	if !ok {
		return false
	}
	return p.Block().Comment == "select.next"
}

// realExit: Return or Panic that is not the synthetic select tail and not the recover block.
func realExit(in ssa.Instruction) bool {
	if !isExit(in) {
		return false
	}
	if isSyntheticSelectPanic(in) {
		return false
	}
	f := in.Parent()
	if f.Recover != nil && in.Block() == f.Recover {
		return false
	}
	return true
}

// ---- selects --------------------------------------------------------------------------------

type selCase struct {
	Idx     int // index into Select.States; -1 = default
	State   *ssa.SelectState
	Edge    ifEdge // edge entering the case body
	HasEdge bool
}

// selectCases finds, for each state of a select (and the default of a non-blocking one), the CFG edge
// that enters its body: the true edge of `extract sel #0 == k`.
func selectCases(sel *ssa.Select) []selCase {
	out := make([]selCase, 0, len(sel.States)+1)
	for k := range sel.States {
		out = append(out, selCase{Idx: k, State: sel.States[k]})
	}
	var idx *ssa.Extract
	for _, u := range *sel.Referrers() {
		if e, ok := u.(*ssa.Extract); ok && e.Index == 0 {
			idx = e
		}
	}
	if idx == nil {
		// single-case select without use of index: body is the fallthrough
		return out
	}
	var lastIf *ssa.If
	for _, u := range *idx.Referrers() {
		b, ok := u.(*ssa.BinOp)
		if !ok || b.Op != token.EQL {
			continue
		}
		k, ok := constInt(b.Y)
		if !ok {
			continue
		}
		for _, uu := range *b.Referrers() {
			if iff, ok := uu.(*ssa.If); ok {
				if int(k) < len(out) {
					out[k].Edge = ifEdge{iff.Block(), 0}
					out[k].HasEdge = true
				}
				if lastIf == nil || iff.Block().Index > lastIf.Block().Index {
					lastIf = iff
				}
			}
		}
	}
	if !sel.Blocking && lastIf != nil {
		out = append(out, selCase{Idx: -1, Edge: ifEdge{lastIf.Block(), 1}, HasEdge: true})
	}
	return out
}

// ---- value classification -------------------------------------------------------------------

// isCtxDoneOf: v is `ctx.Done()` invoked on value ctx (after Resolve).
func (c *Ctx) isCtxMethodOf(v ssa.Value, method string, ctx ssa.Value) bool {
	call, ok := c.Resolve(v).(*ssa.Call)
	if !ok {
		return false
	}
	cc := &call.Call
	if !cc.IsInvoke() || cc.Method.Name() != method {
		return false
	}
	if cc.Method.Pkg() == nil || cc.Method.Pkg().Path() != "context" {
		return false
	}
	return ctx == nil || c.Resolve(cc.Value) == c.Resolve(ctx)
}

// closedChanOf: v denotes the connection-closed channel of client cli: a load of cli.connClosed
// (the chan struct{} field returned by Done()) or a call cli.Done().
func (c *Ctx) isClosedChanOf(v ssa.Value, cli ssa.Value) bool {
	v = c.Resolve(v)
	doneM := c.Method("BaseClient", "Done")
	if call, ok := v.(*ssa.Call); ok {
		if doneM != nil && c.StaticCalleeOf(&call.Call) == doneM && len(call.Call.Args) == 1 {
			return cli == nil || c.Resolve(call.Call.Args[0]) == c.Resolve(cli)
		}
		return false
	}
	fld := c.closedField()
	if fld == nil {
		return false
	}
	u, ok := v.(*ssa.UnOp)
	if !ok || u.Op != token.MUL {
		return false
	}
	fa, ok := u.X.(*ssa.FieldAddr)
	if !ok {
		return false
	}
	b, f := fieldOf(fa)
	if f != fld {
		return false
	}
	return cli == nil || c.Resolve(b) == c.Resolve(cli)
}

// closedField: the field of BaseClient that Done() returns.
func (c *Ctx) closedField() *types.Var {
	doneM := c.Method("BaseClient", "Done")
	if doneM == nil {
		return nil
	}
	var fld *types.Var
	for _, r := range returnsOf(doneM) {
		v := c.Resolve(c.RetVal(r, 0))
		if cv, ok := v.(*ssa.ChangeType); ok {
			v = cv.X
		}
		if u, ok := v.(*ssa.UnOp); ok && u.Op == token.MUL {
			if fa, ok := u.X.(*ssa.FieldAddr); ok {
				_, f := fieldOf(fa)
				fld = f
			}
		}
	}
	return fld
}

// isGlobalLoad: v is a load of package-level variable `name`.
func (c *Ctx) isGlobalLoad(v ssa.Value, name string) bool {
	u, ok := c.Resolve(v).(*ssa.UnOp)
	if !ok || u.Op != token.MUL {
		return false
	}
	g, ok := u.X.(*ssa.Global)
	return ok && g.Pkg == c.Pkg && g.Name() == name
}

func (c *Ctx) globalLoadName(v ssa.Value) string {
	u, ok := c.Resolve(v).(*ssa.UnOp)
	if !ok || u.Op != token.MUL {
		return ""
	}
	g, ok := u.X.(*ssa.Global)
	if !ok {
		return ""
	}
	if g.Pkg == c.Pkg {
		return g.Name()
	}
	return g.Pkg.Pkg.Path() + "." + g.Name()
}

// asCall returns the call instruction v resolves to, and its resolved static callee.
func (c *Ctx) asCall(v ssa.Value) (*ssa.Call, *ssa.Function) {
	call, ok := c.Resolve(v).(*ssa.Call)
	if !ok {
		return nil, nil
	}
	return call, c.StaticCalleeOf(&call.Call)
}

// closureOf: v resolves to a closure (MakeClosure) or plain function; returns fn and the MakeClosure (may be nil).
func (c *Ctx) closureOf(v ssa.Value) (*ssa.Function, *ssa.MakeClosure) {
	switch x := c.Resolve(v).(type) {
	case *ssa.MakeClosure:
		if f, ok := x.Fn.(*ssa.Function); ok {
			return f, x
		}
	case *ssa.Function:
		return x, nil
	}
	return nil, nil
}

// boundMethodOf: v is a bound-method value x.M; returns receiver value and method name.
func (c *Ctx) boundMethodOf(v ssa.Value) (ssa.Value, string, bool) {
	mc, ok := c.Resolve(v).(*ssa.MakeClosure)
	if !ok {
		return nil, "", false
	}
	fn, ok := mc.Fn.(*ssa.Function)
	if !ok || fn.Synthetic == "" || len(mc.Bindings) != 1 {
		return nil, "", false
	}
	// name like "(ErrorWithRetry).Retry$bound" -> method object
	if fn.Object() != nil {
		return mc.Bindings[0], fn.Object().Name(), true
	}
	name := fn.Name()
	if i := len(name) - len("$bound"); i > 0 && name[i:] == "$bound" {
		return mc.Bindings[0], name[:i], true
	}
	return nil, "", false
}

// ---- reachability over the static call graph ---------------------------------------------------

// calleesOf lists functions of this package that f may call: static callees and closures/function values
// resolved through cells; with includeGo=false, go statements are skipped.
func (c *Ctx) calleesOf(f *ssa.Function, includeGo bool) []*ssa.Function {
	var out []*ssa.Function
	eachInstr(f, func(in ssa.Instruction) {
		cc := callCommon(in)
		if cc == nil {
			return
		}
		if _, isGo := in.(*ssa.Go); isGo && !includeGo {
			return
		}
		if g := c.StaticCalleeOf(cc); g != nil && g.Pkg == c.Pkg {
			out = append(out, g)
		}
	})
	return out
}

// reachableFuncs: functions reachable from roots through calls (not through closure values merely created).
func (c *Ctx) reachableFuncs(roots []*ssa.Function, includeGo bool) map[*ssa.Function]bool {
	seen := map[*ssa.Function]bool{}
	var work []*ssa.Function
	for _, r := range roots {
		if r != nil && !seen[r] {
			seen[r] = true
			work = append(work, r)
		}
	}
	for len(work) > 0 {
		f := work[len(work)-1]
		work = work[:len(work)-1]
		for _, g := range c.calleesOf(f, includeGo) {
			if !seen[g] {
				seen[g] = true
				work = append(work, g)
			}
		}
	}
	return seen
}

// ---- lock regions (simple, intra-procedural) ---------------------------------------------------

type lockOp struct {
	In    ssa.Instruction
	Base  ssa.Value // struct owning the mutex (resolved)
	Field *types.Var
	Op    string // Lock, Unlock, RLock, RUnlock
	Defer bool
}

func (c *Ctx) lockOpOf(in ssa.Instruction) *lockOp {
	cc := callCommon(in)
	if cc == nil || cc.IsInvoke() {
		return nil
	}
	f := cc.StaticCallee()
	if f == nil || f.Object() == nil || f.Object().Pkg() == nil || f.Object().Pkg().Path() != "sync" {
		return nil
	}
	switch f.Name() {
	case "Lock", "Unlock", "RLock", "RUnlock":
	default:
		return nil
	}
	if len(cc.Args) < 1 {
		return nil
	}
	fa, ok := cc.Args[0].(*ssa.FieldAddr)
	if !ok {
		return nil
	}
	b, fld := fieldOf(fa)
	if fld == nil {
		return nil
	}
	_, isDefer := in.(*ssa.Defer)
	return &lockOp{In: in, Base: c.Resolve(b), Field: fld, Op: f.Name(), Defer: isDefer}
}

// heldAt: is mutex (base, field) held in the given mode ("w" exclusive, "r" shared or exclusive) at instruction `at`,
// on every path from entry? Computed as: `at` is dominated by a Lock of it such that no Unlock lies on any path
// from that Lock to `at`.
func (c *Ctx) heldAt(f *ssa.Function, at ssa.Instruction, base ssa.Value, field *types.Var, mode string) bool {
	isAcquire := func(in ssa.Instruction) bool {
		lo := c.lockOpOf(in)
		if lo == nil || lo.Defer || lo.Field != field || (base != nil && !c.Same(lo.Base, base)) {
			return false
		}
		if mode == "w" {
			return lo.Op == "Lock"
		}
		return lo.Op == "Lock" || lo.Op == "RLock"
	}
	isRelease := func(in ssa.Instruction) bool {
		lo := c.lockOpOf(in)
		if lo == nil || lo.Defer || lo.Field != field || (base != nil && !c.Same(lo.Base, base)) {
			return false
		}
		return lo.Op == "Unlock" || lo.Op == "RUnlock"
	}
	// every path entry -> at must pass an acquire after which no release occurs before `at`.
	// Equivalent: there is no path entry -> at whose last lock event (if any) is not an acquire.
	// Search backwards is awkward; do forward state exploration with state {held, notheld}.
	type st struct {
		b    *ssa.BasicBlock
		held bool
	}
	seen := map[st]bool{}
	var work []st
	work = append(work, st{f.Blocks[0], false})
	seen[work[0]] = true
	for len(work) > 0 {
		w := work[len(work)-1]
		work = work[:len(work)-1]
		held := w.held
		stop := false
		for _, in := range w.b.Instrs {
			if in == at {
				if !held {
					return false
				}
				stop = false
			}
			if isAcquire(in) {
				held = true
			} else if isRelease(in) {
				held = false
			}
		}
		if stop {
			continue
		}
		for _, s := range w.b.Succs {
			n := st{s, held}
			if !seen[n] {
				seen[n] = true
				work = append(work, n)
			}
		}
	}
	return true
}

// ---- handler hand-overs --------------------------------------------------------------------------------

// serveHandover: a point where a function (or a closure it creates and invokes) calls Handler.Serve — as an interface
// method call, or through a bound method value (`serve := h.Serve; …; serve(m)`). At is the instruction in the function
// itself (the call, or the call/go of the closure in which the call happens).
type serveHandover struct {
	At   ssa.Instruction
	In   ssa.Instruction
	Fn   *ssa.Function
	Recv ssa.Value
	Arg  ssa.Value
}

func (c *Ctx) serveHandovers(f *ssa.Function) []serveHandover {
	var out []serveHandover
	for _, g := range withClosures(f) {
		g := g
		eachInstr(g, func(in ssa.Instruction) {
			cc := callCommon(in)
			if cc == nil || len(cc.Args) != 1 {
				return
			}
			var recv, arg ssa.Value
			if cc.IsInvoke() {
				if cc.Method.Name() == "Serve" && typeName(cc.Value.Type()) == "Handler" {
					recv, arg = cc.Value, cc.Args[0]
				}
			} else if mc, ok := c.Resolve(cc.Value).(*ssa.MakeClosure); ok {
				if fn, ok := mc.Fn.(*ssa.Function); ok && fn.Synthetic != "" && fn.Name() == "Serve$bound" && len(mc.Bindings) == 1 && typeName(mc.Bindings[0].Type()) == "Handler" {
					recv, arg = mc.Bindings[0], cc.Args[0]
				}
			}
			if recv == nil {
				return
			}
			at := in
			for h := g; h != f && at != nil; h = h.Parent() {
				var site ssa.Instruction
				n := 0
				eachInstr(h.Parent(), func(x ssa.Instruction) {
					if k := callCommon(x); k != nil && !k.IsInvoke() && c.StaticCalleeOf(k) == h {
						site = x
						n++
					}
				})
				if n != 1 {
					at = nil
					break
				}
				at = site
			}
			out = append(out, serveHandover{At: at, In: in, Fn: g, Recv: recv, Arg: arg})
		})
	}
	return out
}

type feasCacheEntry struct {
	n    int
	live map[*ssa.BasicBlock]bool
}

var feasCache = map[*ssa.Function]feasCacheEntry{}

// feasibleBlocks: the blocks reachable from the entry without an edge the infeasible-edge oracle excludes (nil when the
// oracle excludes no edge of f).
func feasibleBlocks(f *ssa.Function) map[*ssa.BasicBlock]bool {
	if len(f.Blocks) == 0 || len(infeasibleEdges) == 0 {
		return nil
	}
	if e, ok := feasCache[f]; ok && e.n == len(infeasibleEdges) {
		return e.live
	}
	any := false
	for _, b := range f.Blocks {
		if _, ok := infeasibleEdges[b]; ok {
			any = true
		}
	}
	var live map[*ssa.BasicBlock]bool
	if any {
		live = map[*ssa.BasicBlock]bool{f.Blocks[0]: true}
		work := []*ssa.BasicBlock{f.Blocks[0]}
		for len(work) > 0 {
			b := work[len(work)-1]
			work = work[:len(work)-1]
			for k, s := range b.Succs {
				if edgeInfeasible(b, k) || live[s] {
					continue
				}
				live[s] = true
				work = append(work, s)
			}
		}
		if f.Recover != nil {
			live[f.Recover] = true
		}
	}
	feasCache[f] = feasCacheEntry{len(infeasibleEdges), live}
	return live
}
