package main

import (
	"go/types"

	"golang.org/x/tools/go/ssa"
)

// fieldAlias maps the reference name of an unexported field ("Type.field" as on the pinned tree) to the name it has on
// the tree being analysed. Fields are found by role (type, or the exported method that locks/uses them), so that a
// consistent rename of a private field does not unhook the rules. Recomputed on every Load.
var fieldAlias = map[string]string{}

// fieldOwner: a reference field that the tree keeps in another struct of the package, reached through a field of the
// reference struct ("reconnectClient.disconnected" -> "reconnLifecycle" when the two life-cycle channels were bundled).
var fieldOwner = map[string]string{}

func ownerOf(typ, field string) string {
	if o, ok := fieldOwner[typ+"."+field]; ok {
		return o
	}
	return typ
}

func aliasField(typ, field string) string {
	if a, ok := fieldAlias[typ+"."+field]; ok {
		return a
	}
	return field
}

func (c *Ctx) structOf(name string) *types.Struct {
	n := c.NamedType(name)
	if n == nil {
		return nil
	}
	st, _ := n.Underlying().(*types.Struct)
	return st
}

func hasField(st *types.Struct, name string) bool {
	for i := 0; i < st.NumFields(); i++ {
		if st.Field(i).Name() == name {
			return true
		}
	}
	return false
}

// mutexLockedIn: the mutex field of struct `typ` that method `m` locks first (on its own receiver).
func (c *Ctx) mutexLockedIn(typ string, m *ssa.Function, exclusiveOnly bool) string {
	if m == nil {
		return ""
	}
	found := ""
	eachInstr(m, func(in ssa.Instruction) {
		if found != "" {
			return
		}
		lo := c.lockOpOf(in)
		if lo == nil || lo.Defer {
			return
		}
		if exclusiveOnly && lo.Op != "Lock" {
			return
		}
		if lo.Op != "Lock" && lo.Op != "RLock" {
			return
		}
		if fa, ok := callCommon(in).Args[0].(*ssa.FieldAddr); ok && typeName(fa.X.Type()) == typ {
			if fa.X == ssa.Value(m.Params[0]) || c.Resolve(fa.X) == ssa.Value(m.Params[0]) {
				found = lo.Field.Name()
			}
		}
	})
	return found
}

func (c *Ctx) computeAliases() {
	fieldAlias = map[string]string{}
	fieldOwner = map[string]string{}
	set := func(typ, ref, actual string) {
		if actual == "" || actual == ref {
			return
		}
		st := c.structOf(typ)
		if st == nil || hasField(st, ref) {
			return // the reference name still exists: no alias
		}
		fieldAlias[typ+"."+ref] = actual
	}
	byType := func(typ string, pred func(*types.Var) bool, exclude ...string) string {
		st := c.structOf(typ)
		if st == nil {
			return ""
		}
		hit := ""
		n := 0
		for i := 0; i < st.NumFields(); i++ {
			f := st.Field(i)
			skip := false
			for _, e := range exclude {
				if f.Name() == e {
					skip = true
				}
			}
			if !skip && pred(f) {
				hit = f.Name()
				n++
			}
		}
		if n == 1 {
			return hit
		}
		return ""
	}
	tstr := func(f *types.Var) string {
		return types.TypeString(f.Type(), func(*types.Package) string { return "" })
	}
	// BaseClient
	set("BaseClient", "sig", byType("BaseClient", func(f *types.Var) bool { return tstr(f) == "*signaller" }))
	set("BaseClient", "handler", byType("BaseClient", func(f *types.Var) bool { return tstr(f) == "Handler" }))
	set("BaseClient", "err", byType("BaseClient", func(f *types.Var) bool { return tstr(f) == "error" }))
	set("BaseClient", "connState", byType("BaseClient", func(f *types.Var) bool { return tstr(f) == "ConnState" }))
	set("BaseClient", "idLast", byType("BaseClient", func(f *types.Var) bool { return tstr(f) == "uint32" }))
	set("BaseClient", "connClosed", byType("BaseClient", func(f *types.Var) bool { return tstr(f) == "chan struct{}" }))
	set("BaseClient", "muWrite", byType("BaseClient", func(f *types.Var) bool { return tstr(f) == "sync.Mutex" }))
	set("BaseClient", "mu", c.mutexLockedIn("BaseClient", c.Method("BaseClient", "Handle"), false))
	set("BaseClient", "muErr", c.mutexLockedIn("BaseClient", c.Method("BaseClient", "SetErrorOnce"), false))
	set("BaseClient", "muConnecting", c.mutexLockedIn("BaseClient", c.Method("BaseClient", "Connect"), true))
	set("BaseClient", "muStats", c.mutexLockedIn("BaseClient", c.Method("BaseClient", "Stats"), false))
	set("signaller", "mu", byType("signaller", func(f *types.Var) bool { return isMutexType(f.Type()) }))
	// RetryClient
	rcMu := c.mutexLockedIn("RetryClient", c.Method("RetryClient", "Handle"), false)
	set("RetryClient", "mu", rcMu)
	set("RetryClient", "muStats", byType("RetryClient", func(f *types.Var) bool { return isMutexType(f.Type()) }, aliasOr("RetryClient", "mu", rcMu)))
	set("RetryClient", "cli", byType("RetryClient", func(f *types.Var) bool { return tstr(f) == "*BaseClient" }))
	set("RetryClient", "handler", byType("RetryClient", func(f *types.Var) bool { return tstr(f) == "Handler" }))
	set("RetryClient", "chConnectErr", byType("RetryClient", func(f *types.Var) bool { return tstr(f) == "chan error" }))
	set("RetryClient", "subEstablished", byType("RetryClient", func(f *types.Var) bool { return tstr(f) == "subscriptions" }))
	set("RetryClient", "retryQueue", byType("RetryClient", func(f *types.Var) bool { return tstr(f) == "[]retryFn" }))
	set("RetryClient", "taskQueue", byType("RetryClient", func(f *types.Var) bool { return isTaskSlice(f.Type()) }))
	// chTask: the chan struct{} pushTask sends on; chConnSwitch: the other one
	chTask := ""
	stopped := ""
	if pt := c.Method("RetryClient", "pushTask"); pt != nil {
		eachInstr(pt, func(in ssa.Instruction) {
			if sel, ok := in.(*ssa.Select); ok {
				for _, s := range sel.States {
					if s.Dir == types.SendOnly {
						if ld, ok := s.Chan.(*ssa.UnOp); ok {
							if fa, ok := ld.X.(*ssa.FieldAddr); ok {
								_, f := fieldOf(fa)
								chTask = f.Name()
							}
						}
					}
				}
			}
			if iff, ok := in.(*ssa.If); ok {
				if ld, ok := iff.Cond.(*ssa.UnOp); ok {
					if fa, ok := ld.X.(*ssa.FieldAddr); ok {
						if _, f := fieldOf(fa); f != nil && tstr(f) == "bool" {
							stopped = f.Name()
						}
					}
				}
			}
		})
	}
	set("RetryClient", "chTask", chTask)
	set("RetryClient", "stopped", stopped)
	set("RetryClient", "chConnSwitch", byType("RetryClient", func(f *types.Var) bool { return tstr(f) == "chan struct{}" }, aliasOr("RetryClient", "chTask", chTask)))
	set("RetryClient", "newRetryByError", byType("RetryClient", func(f *types.Var) bool { return tstr(f) == "bool" && !f.Exported() }, aliasOr("RetryClient", "stopped", stopped)))
	// reconnectClient
	disc, discOwner := "", ""
	if d := c.Method("reconnectClient", "Disconnect"); d != nil {
		eachInstr(d, func(in ssa.Instruction) {
			if k, ok := in.(*ssa.Call); ok {
				if b, ok := k.Call.Value.(*ssa.Builtin); ok && b.Name() == "close" {
					if ld, ok := k.Call.Args[0].(*ssa.UnOp); ok {
						if fa, ok := ld.X.(*ssa.FieldAddr); ok {
							_, f := fieldOf(fa)
							disc = f.Name()
							discOwner = typeName(fa.X.Type())
						}
					}
				}
			}
		})
	}
	set("reconnectClient", "disconnected", disc)
	set("reconnectClient", "done", byType("reconnectClient", func(f *types.Var) bool { return tstr(f) == "chan struct{}" }, aliasOr("reconnectClient", "disconnected", disc)))
	if discOwner != "" && discOwner != "reconnectClient" {
		// the channel Disconnect closes lives in a struct of its own: so does the other life-cycle channel
		if st := c.structOf("reconnectClient"); st != nil && !hasField(st, "disconnected") && !hasField(st, disc) {
			fieldOwner["reconnectClient.disconnected"] = discOwner
			fieldAlias["reconnectClient.disconnected"] = disc
			if other := byType(discOwner, func(f *types.Var) bool { return tstr(f) == "chan struct{}" }, disc); other != "" {
				fieldOwner["reconnectClient.done"] = discOwner
				fieldAlias["reconnectClient.done"] = other
			}
		}
	}
	set("reconnectClient", "options", byType("reconnectClient", func(f *types.Var) bool { return tstr(f) == "*ReconnectOptions" }))
	set("reconnectClient", "dialer", byType("reconnectClient", func(f *types.Var) bool { return tstr(f) == "Dialer" }))
}

func aliasOr(typ, ref, actual string) string {
	if actual != "" {
		return actual
	}
	return ref
}
