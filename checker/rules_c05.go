package main

import (
	"fmt"
	"go/constant"
	"go/token"
	"go/types"
	"sort"
	"strings"

	"golang.org/x/tools/go/ssa"
)

func init() {
	register("C05", "Whole property (round trip of every emitted packet through an independent decoder, for all inputs) is value-level and NOT decided. Decided: everything about packet construction that is a table, an order or a guard. R-C05-1 constant tables equal MQTT 3.1.1 (packet types, CONNECT/PUBLISH/SUBSCRIBE flag bits, protocol levels and name); R-C05-2 fixed-header bytes: every Pack/pack site carries the spec's type nibble and reserved bits, PUBLISH = 0x30 | retain?0x01 | qos<<1 | dup?0x08 each guarded by the corresponding field; R-C05-3 Pack and Parse use inverse tables for QoS/retain/dup and agree on when the identifier is present; R-C05-4 field order of every packet body, recovered by decomposing the byte sequence passed to pack() (CONNECT optional groups appended exactly under the condition that sets their flag bit; SUBSCRIBE per-filter options byte a constant function of that filter's QoS only); R-C05-5 length prefixes: uint16 big-endian, and every truncation of a length to 16 bits is dominated by the 65535 guard; R-C05-6 remaining-length encoder bytes and thresholds checked bit by bit for the four ranges, decoder uses the mirror constants, pack() sums exactly the slices it appends; R-C05-7 messages the protocol cannot carry are rejected before anything is written; R-C05-8 the inbound PUBLISH carries exactly the parsed fields and its length guards are exact; R-C05-9 identifiers on the wire are non-zero; R-C05-10 the DUP bit is decided before the PUBLISH is packed; R-C05-11 the subscription list that re-SUBSCRIBE packets are built from records the requested (not the granted) QoS. Not decided: byte equality for all inputs; UTF-8 handling.", checkC05)
}

var specConsts = map[string]int64{
	"packetConnect": 0x10, "packetConnAck": 0x20, "packetPublish": 0x30, "packetPubAck": 0x40, "packetPubRec": 0x50,
	"packetPubRel": 0x60, "packetPubComp": 0x70, "packetSubscribe": 0x80, "packetSubAck": 0x90, "packetUnsubscribe": 0xA0,
	"packetUnsubAck": 0xB0, "packetPingReq": 0xC0, "packetPingResp": 0xD0, "packetDisconnect": 0xE0, "packetFromClient": 0x02,
	"connectFlagCleanSession": 0x02, "connectFlagWill": 0x04, "connectFlagWillQoS0": 0x00, "connectFlagWillQoS1": 0x08,
	"connectFlagWillQoS2": 0x10, "connectFlagWillRetain": 0x20, "connectFlagPassword": 0x40, "connectFlagUserName": 0x80,
	"publishFlagRetain": 0x01, "publishFlagQoS0": 0x00, "publishFlagQoS1": 0x02, "publishFlagQoS2": 0x04, "publishFlagQoSMask": 0x06, "publishFlagDup": 0x08,
	"subscribeFlagQoS0": 0x00, "subscribeFlagQoS1": 0x01, "subscribeFlagQoS2": 0x02,
	"ProtocolLevel3": 0x03, "ProtocolLevel4": 0x04,
	"QoS0": 0, "QoS1": 1, "QoS2": 2, "SubscribeFailure": 0x80,
	"ConnectionAccepted": 0, "UnacceptableProtocolVersion": 1, "IdentifierRejected": 2, "ServerUnavailable": 3, "BadUserNameOrPassword": 4, "NotAuthorized": 5,
}

var specHeader = map[string]int64{
	"pktConnect": 0x10, "pktPubAck": 0x40, "pktPubRec": 0x50, "pktPubRel": 0x62, "pktPubComp": 0x70,
	"pktSubscribe": 0x82, "pktUnsubscribe": 0xA2,
}

type packInfo struct {
	F     *ssa.Function
	T     string
	Call  *ssa.Call
	Parts []ssa.Value
}

func (c *Ctx) packSites() []packInfo {
	var out []packInfo
	pack := c.Func("pack")
	for _, f := range c.Funcs {
		eachInstr(f, func(in ssa.Instruction) {
			k, ok := in.(*ssa.Call)
			if !ok || pack == nil || c.StaticCalleeOf(&k.Call) != pack {
				return
			}
			pi := packInfo{F: f, Call: k}
			if f.Signature.Recv() != nil && f.Name() == "Pack" {
				pi.T = typeName(f.Signature.Recv().Type())
			}
			if len(k.Call.Args) == 2 {
				if sl, ok := k.Call.Args[1].(*ssa.Slice); ok {
					if al, ok := sl.X.(*ssa.Alloc); ok {
						pi.Parts = arrayElems(al)
					}
				}
			}
			out = append(out, pi)
		})
	}
	return out
}

func fieldNameOfOperand(v ssa.Value) string {
	return describeOperand(v)
}

func checkC05(r *Run) {
	c := r.C
	r1 := r.Rule("R-C05-1", "constant tables equal MQTT 3.1.1")
	r2 := r.Rule("R-C05-2", "fixed-header byte of every packet: type nibble and reserved bits per spec; PUBLISH bits guarded by the corresponding message field")
	r3 := r.Rule("R-C05-3", "Pack and Parse use inverse QoS/retain/dup tables and agree on the presence of the packet identifier")
	r4 := r.Rule("R-C05-4", "field order of packet bodies (byte-sequence decomposition of the operands of pack)")
	r5 := r.Rule("R-C05-5", "length prefixes: big-endian uint16, truncation of a length to 16 bits only under the 65535 guard")
	r6 := r.Rule("R-C05-6", "remaining length: encoder bytes/thresholds for the four ranges, decoder mirror constants, pack() sums exactly what it appends")
	r7 := r.Rule("R-C05-7", "reject before write: ValidateMessage precedes publishImpl and rejects QoS > 2 and over-long payloads; RetryClient validates before issuing")
	r8 := r.Rule("R-C05-8", "inbound PUBLISH carries exactly the parsed fields; its length guards are exact")
	r1.Floor(34)
	r2.Floor(6)
	r4.Floor(4)
	// ---- R-C05-1
	names := make([]string, 0, len(specConsts))
	for n := range specConsts {
		names = append(names, n)
	}
	sort.Strings(names)
	for _, n := range names {
		want := specConsts[n]
		v, _, ok := c.ConstVal(n)
		if !ok {
			r1.Lost("const "+n, "constant not found")
			continue
		}
		got, _ := constantInt64(v)
		if got == want {
			r1.OKt("const "+n, token.NoPos, "= 0x%02X", got)
		} else {
			r1.Bad("const "+n, c.TPkg.Scope().Lookup(n).Pos(), "%s = 0x%02X, MQTT 3.1.1 says 0x%02X", n, got, want)
		}
	}
	// ---- R-C05-2 / R-C05-4 per pack site
	seenT := map[string]bool{}
	for _, pi := range c.packSites() {
		cc := c.newChain()
		base, items, ok := cc.decomposeOr(pi.Call.Call.Args[0])
		key := FuncName(pi.F) + "/header"
		if !ok {
			r2.Undecided(key, pi.Call.Pos(), "cannot decompose the fixed-header byte (%s)", cc.err)
			continue
		}
		switch {
		case pi.T == "pktPublish":
			seenT[pi.T] = true
			c.checkPublishHeader(r2, pi, base, items)
		case pi.T != "":
			seenT[pi.T] = true
			want, known := specHeader[pi.T]
			total := base
			cond := false
			for _, it := range items {
				if it.Cond != nil || len(it.Alt) > 0 {
					cond = true
				}
				total |= it.Mask
			}
			switch {
			case !known && !cond && (total == 0xC0 || total == 0xE0) && len(pi.Parts) == 0:
				// PINGREQ / DISCONNECT given a packet type of their own: fixed header only
				r2.OK(key, pi.Call.Pos(), "fixed header 0x%02X, empty body", total)
			case !known:
				r2.Bad(key, pi.Call.Pos(), "unexpected packet type %s packs a packet", pi.T)
			case cond:
				r2.Bad(key, pi.Call.Pos(), "the fixed header of %s depends on a condition", pi.T)
			case total != want:
				r2.Bad(key, pi.Call.Pos(), "%s is packed with fixed-header byte 0x%02X; MQTT 3.1.1 requires 0x%02X (type nibble and reserved flag bits)", pi.T, total, want)
			default:
				r2.OK(key, pi.Call.Pos(), "fixed header 0x%02X", total)
			}
		default:
			// bare pack(const) sites: PINGREQ in Ping, DISCONNECT in Disconnect
			want := map[string]int64{"Ping": 0xC0, "Disconnect": 0xE0}[pi.F.Name()]
			if len(items) == 0 && want != 0 && base == want && len(pi.Parts) == 0 {
				r2.OK(key, pi.Call.Pos(), "fixed header 0x%02X, empty body", base)
			} else {
				r2.Bad(key, pi.Call.Pos(), "unexpected bare pack(0x%02X) in %s (want 0x%02X with an empty body)", base, FuncName(pi.F), want)
			}
		}
		c.checkBody(r4, r2, pi)
	}
	for t := range specHeader {
		if !seenT[t] && !c.literalPackSite(r2, r4, t) {
			r2.Lost(t+".Pack", "no pack site for %s", t)
		}
	}
	if !seenT["pktPublish"] {
		r2.Lost("pktPublish.Pack", "no pack site for PUBLISH")
	}
	// ---- R-C05-3
	c.ruleInverseTables(r3)
	// ---- R-C05-5
	c.ruleLengthPrefix(r5)
	// ---- R-C05-6
	c.ruleRemainingLength(r6)
	// ---- R-C05-7
	c.ruleRejectBeforeWrite(r7)
	c.ruleDeferredCopy(r7)
	r9 := r.Rule("R-C05-9", "packet identifiers put on the wire are non-zero (MQTT-2.3.1-1): newID returns its draw only on the `id != 0` edge")
	c.ruleNewIDNonZero(r9)
	r10 := r.Rule("R-C05-10", "the DUP bit put on the wire is the one decided for this transmission: Message.Dup is assigned before the PUBLISH is packed, on every path")
	c.ruleDupDecidedBeforePack(r10)
	// ---- R-C05-11
	r11 := r.Rule("R-C05-11", "a SUBSCRIBE sent again after a reconnect carries the QoS the application requested: the request is recorded in the established list before BaseClient.Subscribe overwrites it with what the broker granted")
	if a := c.retryAnchors(); !a.lost(r11) {
		c.ruleEstablishedApply(r11, a)
	}
	// ---- R-C05-8
	c.ruleInboundFields(r8)
	c.ruleGuardTightness(r8, []string{"pktPublish"})
	c.ruleReaderDiscipline(r8)
	c.ruleUnpackStringConsumes(r8)
}

// condField classifies a guard: returns e.g. ("Retain","bool",0), ("QoS","==",1), ("Will","!=nil",0), ("UserName","!=\"\"",0)
func (c *Ctx) condField(cd *condDesc) (string, string, int64) {
	if cd == nil {
		return "", "", 0
	}
	if cd.If == nil {
		if cd.SynField != "" {
			return cd.SynField, "==", cd.SynK
		}
		return "", "", 0
	}
	v := cd.If.Cond
	edge := cd.Edge
	switch x := v.(type) {
	case *ssa.UnOp:
		if fa, ok := x.X.(*ssa.FieldAddr); ok && x.Op == token.MUL {
			_, fld := fieldOf(fa)
			if edge == 0 {
				return fld.Name(), "bool", 0
			}
			return fld.Name(), "!bool", 0
		}
	case *ssa.BinOp:
		// len(s) > 0 (!= 0, >= 1) of a string field is s != ""; len(s) == 0 (< 1) is s == ""
		if call, isCall := x.X.(*ssa.Call); isCall {
			if bi, isB := call.Call.Value.(*ssa.Builtin); isB && bi.Name() == "len" && len(call.Call.Args) == 1 {
				if bt, isBasic := call.Call.Args[0].Type().Underlying().(*types.Basic); isBasic && bt.Info()&types.IsString != 0 {
					if ld, ok := call.Call.Args[0].(*ssa.UnOp); ok {
						if fa, ok := ld.X.(*ssa.FieldAddr); ok {
							if k, isK := constInt(x.Y); isK {
								nonEmpty, known := false, true
								switch {
								case k == 0 && (x.Op == token.GTR || x.Op == token.NEQ), k == 1 && x.Op == token.GEQ:
									nonEmpty = true
								case k == 0 && (x.Op == token.EQL || x.Op == token.LEQ), k == 1 && x.Op == token.LSS:
									nonEmpty = false
								default:
									known = false
								}
								if known {
									if edge == 1 {
										nonEmpty = !nonEmpty
									}
									_, fld := fieldOf(fa)
									if nonEmpty {
										return fld.Name(), `!=""`, 0
									}
									return fld.Name(), `==""`, 0
								}
							}
						}
					}
				}
			}
		}
		ld, ok := x.X.(*ssa.UnOp)
		if !ok {
			return "", "", 0
		}
		fa, ok := ld.X.(*ssa.FieldAddr)
		if !ok {
			return "", "", 0
		}
		_, fld := fieldOf(fa)
		op := x.Op
		if edge == 1 {
			if op == token.EQL {
				op = token.NEQ
			} else if op == token.NEQ {
				op = token.EQL
			}
		}
		if isNilConst(x.Y) {
			return fld.Name(), op.String() + "nil", 0
		}
		if k, ok := constInt(x.Y); ok {
			return fld.Name(), op.String(), k
		}
		if kc, ok := x.Y.(*ssa.Const); ok && kc.Value != nil && kc.Value.ExactString() == `""` {
			return fld.Name(), op.String() + `""`, 0
		}
	}
	return "", "", 0
}

func (c *Ctx) checkPublishHeader(rr *RuleRep, pi packInfo, base int64, items []orItem) {
	key := FuncName(pi.F) + "/header"
	if base != 0x30 {
		rr.Bad(key, pi.Call.Pos(), "PUBLISH fixed header starts from 0x%02X, not 0x30", base)
		return
	}
	want := map[string]int64{"Retain": 0x01, "Dup": 0x08}
	seen := map[string]bool{}
	okAll := true
	for _, it := range items {
		if len(it.Alt) > 0 {
			tbl := map[int64]int64{}
			for _, a := range it.Alt {
				f, op, k := c.condField(a.Cond)
				if f == "QoS" && op == "==" {
					tbl[k] = a.Mask
				} else if a.Mask != 0 {
					okAll = false
					rr.Bad(key, pi.Call.Pos(), "a PUBLISH header bit 0x%02X is selected by something other than the message's QoS (%s)", a.Mask, a.Cond.Desc)
				}
			}
			if tbl[0] != 0 || tbl[1] != 0x02 || tbl[2] != 0x04 || len(tbl) != 3 {
				okAll = false
				rr.Bad(key, pi.Call.Pos(), "PUBLISH QoS bits are %v, MQTT 3.1.1 requires {0:0x00, 1:0x02, 2:0x04}", tbl)
			}
			seen["QoS"] = true
			continue
		}
		f, op, _ := c.condField(it.Cond)
		if it.Cond == nil {
			if it.Mask != 0 {
				okAll = false
				rr.Bad(key, pi.Call.Pos(), "PUBLISH header has bit 0x%02X set unconditionally", it.Mask)
			}
			continue
		}
		w, known := want[f]
		if !known || op != "bool" || it.Mask != w {
			okAll = false
			rr.Bad(key, pi.Call.Pos(), "PUBLISH header bit 0x%02X is set under condition `%s`; MQTT 3.1.1: retain=0x01 iff Message.Retain, dup=0x08 iff Message.Dup", it.Mask, it.Cond.Desc)
			continue
		}
		seen[f] = true
	}
	for _, f := range []string{"Retain", "Dup", "QoS"} {
		if !seen[f] {
			okAll = false
			rr.Bad(key, pi.Call.Pos(), "the PUBLISH fixed header does not encode the message's %s", f)
		}
	}
	if okAll {
		rr.OK(key, pi.Call.Pos(), "0x30 | Retain?0x01 | QoS{0,0x02,0x04} | Dup?0x08, each guarded by its own field")
	}
}

// expectItems compares a decomposed sequence with an expected pattern such as
// "string:ClientID opt:Will!=nil[string:Topic bytes:Payload] opt:UserName[string:UserName] opt:Password[string:Password]".
func (c *Ctx) renderItems(its []bItem) string {
	var out []string
	for _, it := range its {
		switch it.Kind {
		case "opt":
			f, op, k := c.condField(it.Cond)
			cs := f + op
			if op == "==" || op == "!=" {
				cs = fmt.Sprintf("%s%s%d", f, op, k)
			}
			out = append(out, "opt:"+cs+"["+c.renderItems(it.Sub)+"]")
		case "loop":
			out = append(out, "loop["+c.renderItems(it.Sub)+"]")
		case "byte":
			if k, ok := constInt(it.Val); ok {
				out = append(out, fmt.Sprintf("byte:0x%02X", k))
			} else {
				out = append(out, "byte:"+fieldNameOfOperand(it.Val))
			}
		case "string":
			// a constant string is its length prefix and its bytes (the protocol name "MQTT")
			if k, ok := it.Val.(*ssa.Const); ok && k.Value != nil && k.Value.Kind() == constant.String {
				sv := constant.StringVal(k.Value)
				out = append(out, fmt.Sprintf("byte:0x%02X", len(sv)>>8), fmt.Sprintf("byte:0x%02X", len(sv)&0xFF))
				for i := 0; i < len(sv); i++ {
					out = append(out, fmt.Sprintf("byte:0x%02X", sv[i]))
				}
				continue
			}
			out = append(out, it.Kind+":"+fieldNameOfOperand(it.Val))
		case "bytes":
			// the bytes of a string ([]byte(s)) with their length prefix are that string's encoding
			if cv, ok := it.Val.(*ssa.Convert); ok {
				if b, isB := cv.X.Type().Underlying().(*types.Basic); isB && b.Info()&types.IsString != 0 {
					out = append(out, "string:"+fieldNameOfOperand(cv.X))
					continue
				}
			}
			out = append(out, it.Kind+":"+fieldNameOfOperand(it.Val))
		default:
			out = append(out, it.Kind+":"+fieldNameOfOperand(it.Val))
		}
	}
	return strings.Join(out, " ")
}

// fuseDeep: fuseUint16 on a body and on the bodies of its loops and optional parts.
func (c *Ctx) fuseDeep(its []bItem) []bItem {
	its = c.fuseUint16(its)
	for i := range its {
		if len(its[i].Sub) > 0 {
			its[i].Sub = c.fuseDeep(its[i].Sub)
		}
	}
	return its
}

func (c *Ctx) checkBody(rr *RuleRep, rflag *RuleRep, pi packInfo) {
	if pi.T == "" {
		return
	}
	key := FuncName(pi.F) + "/body"
	cc := c.newChain()
	var parts []string
	var all [][]bItem
	for _, p := range pi.Parts {
		its := c.fuseDeep(cc.decompose(p))
		all = append(all, its)
		parts = append(parts, c.renderItems(its))
	}
	got := strings.Join(parts, " | ")
	if cc.err != "" {
		rr.Undecided(key, pi.Call.Pos(), "cannot decompose the body: %s", cc.err)
		return
	}
	var want string
	switch pi.T {
	case "pktPubAck", "pktPubRec", "pktPubRel", "pktPubComp":
		want = "uint16:ID"
	case "pktPublish":
		want = "string:Message.Topic opt:QoS!=0[uint16:Message.ID] | raw:Message.Payload"
	case "pktUnsubscribe":
		want = "uint16:ID | loop[string:*]"
	case "pktSubscribe":
		want = "uint16:ID | loop[string:Topic byte:*]"
	case "pktConnect":
		want = "byte:0x00 byte:0x04 byte:0x4D byte:0x51 byte:0x54 byte:0x54 byte:* byte:* | uint16:KeepAlive | string:ClientID opt:Will!=nil[string:Will.Topic bytes:Will.Payload] opt:UserName!=\"\"[string:UserName] opt:Password!=\"\"[string:Password]"
	}
	if !matchPattern(want, got) {
		rr.Bad(key, pi.Call.Pos(), "body of %s is [%s]; MQTT 3.1.1 order is [%s]", pi.T, got, want)
		return
	}
	rr.OK(key, pi.Call.Pos(), "[%s]", got)
	switch pi.T {
	case "pktSubscribe":
		c.checkSubscribeOptions(rr, pi, all)
	case "pktUnsubscribe":
		// loop element is the ranged topic
	case "pktConnect":
		c.checkConnectFlags(rflag, pi, all)
	}
}

// matchPattern: token-wise comparison where '*' in the pattern matches any operand name.
func matchPattern(want, got string) bool {
	// how the body is split into operands of pack() does not matter, only the order of the bytes
	w := strings.Fields(strings.ReplaceAll(want, " | ", " "))
	g := strings.Fields(strings.ReplaceAll(got, " | ", " "))
	if len(w) != len(g) {
		return false
	}
	for i := range w {
		if w[i] == g[i] {
			continue
		}
		if strings.Contains(w[i], "*") {
			pre := w[i][:strings.Index(w[i], "*")]
			suf := w[i][strings.Index(w[i], "*")+1:]
			if strings.HasPrefix(g[i], pre) && strings.HasSuffix(g[i], suf) {
				continue
			}
		}
		return false
	}
	return true
}

// checkSubscribeOptions: the options byte appended per filter is a constant table of that filter's QoS.
func (c *Ctx) checkSubscribeOptions(rr *RuleRep, pi packInfo, all [][]bItem) {
	key := FuncName(pi.F) + "/options-byte"
	var loop *bItem
	for _, its := range all {
		for i := range its {
			if its[i].Kind == "loop" {
				loop = &its[i]
			}
		}
	}
	if loop == nil || len(loop.Sub) != 2 {
		rr.Undecided(key, pi.Call.Pos(), "per-filter loop not found")
		return
	}
	// the topic appended is a field of the element ranged over; the options byte a phi of constants selected by elem.QoS
	flag := loop.Sub[1].Val
	cc := c.newChain()
	base, items, ok := cc.decomposeOr(flag)
	if !ok {
		rr.Bad(key, flag.(ssa.Instruction).Pos(), "the options byte of a subscription is not a constant selected by that subscription's QoS alone (it depends on a value carried over from earlier filters or computed otherwise): requested QoS values of earlier filters leak into later ones")
		return
	}
	tbl := map[int64]int64{}
	for _, it := range items {
		for _, a := range it.Alt {
			f, op, k := c.condField(a.Cond)
			if f == "QoS" && op == "==" {
				tbl[k] = base | a.Mask
			}
		}
		if len(it.Alt) == 0 && it.Cond == nil {
			base |= it.Mask
		}
	}
	if len(tbl) == 3 && tbl[0] == 0 && tbl[1] == 1 && tbl[2] == 2 {
		rr.OK(key, flag.(ssa.Instruction).Pos(), "options byte = {QoS0:0, QoS1:1, QoS2:2} of the current filter")
	} else {
		rr.Bad(key, flag.(ssa.Instruction).Pos(), "SUBSCRIBE options byte table is %v; MQTT 3.1.1 requires {0:0, 1:1, 2:2}", tbl)
	}
}

func (c *Ctx) checkConnectFlags(rr *RuleRep, pi packInfo, all [][]bItem) {
	key := FuncName(pi.F) + "/connect-flags"
	// the body as one sequence, however it was split into operands; a constant string (the protocol name) counts as its bytes
	var flat []bItem
	for _, its := range all {
		for _, it := range its {
			if it.Kind == "string" {
				if k, ok := it.Val.(*ssa.Const); ok && k.Value != nil && k.Value.Kind() == constant.String {
					sv := constant.StringVal(k.Value)
					for i := 0; i < len(sv)+2; i++ {
						flat = append(flat, bItem{Kind: "byte", Val: ssa.NewConst(constant.MakeInt64(0), types.Typ[types.Uint8])})
					}
					continue
				}
			}
			flat = append(flat, it)
		}
	}
	if len(flat) < 9 {
		rr.Undecided(key, pi.Call.Pos(), "variable header not found")
		return
	}
	for _, it := range flat[:8] {
		if it.Kind != "byte" {
			rr.Undecided(key, pi.Call.Pos(), "variable header not found")
			return
		}
	}
	// protocol level byte = ProtocolLevel field
	if f := fieldNameOfOperand(stripConv(flat[6].Val)); f != "ProtocolLevel" {
		rr.Bad(key+"/level", pi.Call.Pos(), "protocol level byte is %s, not the ProtocolLevel option", f)
	}
	cc := c.newChain()
	base, items, ok := cc.decomposeOr(flat[7].Val)
	if !ok || base != 0 {
		rr.Undecided(key, pi.Call.Pos(), "cannot decompose the connect flags byte (%s)", cc.err)
		return
	}
	want := map[string]int64{"CleanSession bool": 0x02, "Will !=nil": 0x04, "Retain bool": 0x20, "UserName !=\"\"": 0x80, "Password !=\"\"": 0x40}
	seen := map[string]*condDesc{}
	okAll := true
	for _, it := range items {
		if len(it.Alt) > 0 {
			tbl := map[int64]int64{}
			for _, a := range it.Alt {
				f, op, k := c.condField(a.Cond)
				if f == "QoS" && op == "==" {
					tbl[k] = a.Mask
				} else if a.Mask != 0 {
					okAll = false
				}
			}
			if tbl[0] != 0 || tbl[1] != 0x08 || tbl[2] != 0x10 {
				okAll = false
				rr.Bad(key, pi.Call.Pos(), "will QoS bits are %v; MQTT 3.1.1 requires {0:0x00, 1:0x08, 2:0x10}", tbl)
			}
			continue
		}
		f, op, _ := c.condField(it.Cond)
		k := f + " " + op
		w, known := want[k]
		if !known || w != it.Mask {
			okAll = false
			d := "unconditionally"
			if it.Cond != nil {
				d = "under `" + it.Cond.Desc + "`"
			}
			rr.Bad(key, pi.Call.Pos(), "connect flag 0x%02X is set %s, which is not in the MQTT 3.1.1 table", it.Mask, d)
			continue
		}
		seen[k] = it.Cond
	}
	for k := range want {
		if seen[k] == nil {
			okAll = false
			rr.Bad(key, pi.Call.Pos(), "connect flag for `%s` is never set", k)
		}
	}
	// each optional payload group is appended under the very condition that sets its flag
	for _, it := range flat[8:] {
		if it.Kind != "opt" {
			continue
		}
		f, op, _ := c.condField(it.Cond)
		fc := seen[f+" "+op]
		// the same test, or the same condition on the same packet evaluated a second time in a function that does not
		// write the packet's fields in between (flags computed first, payload appended afterwards)
		sameCond := fc != nil && fc.If != it.Cond.If && fc.Desc == it.Cond.Desc && fc.Edge == it.Cond.Edge && !c.writesFieldsOf(pi.F, "pktConnect")
		if fc == nil || (fc.If != it.Cond.If && !sameCond) {
			okAll = false
			rr.Bad(key, pi.Call.Pos(), "the payload field group guarded by `%s` is not appended under the same test that sets its connect flag: flag and payload can disagree", it.Cond.Desc)
		}
	}
	if okAll {
		rr.OK(key, pi.Call.Pos(), "flags: CleanSession 0x02, Will 0x04 + QoS{0,0x08,0x10} + Retain 0x20, UserName 0x80, Password 0x40; each optional payload group shares its flag's guard")
	}
}

// ---- R-C05-3 -----------------------------------------------------------------------------------------------

func (c *Ctx) ruleInverseTables(rr *RuleRep) {
	p := c.Method("pktPublish", "Parse")
	if p == nil {
		rr.Lost("pktPublish.Parse", "not found")
		return
	}
	flag, _ := parseParams(p)
	if flag == nil {
		rr.Lost("pktPublish.Parse", "no parameter carrying the flag byte of the fixed header")
		return
	}
	maskOf := func(v ssa.Value) (int64, bool) {
		// (publishFlag(flag) & m) != 0
		bin, ok := v.(*ssa.BinOp)
		if !ok || (bin.Op != token.NEQ && bin.Op != token.EQL) {
			return 0, false
		}
		and, ok := bin.X.(*ssa.BinOp)
		if !ok || and.Op != token.AND || c.Resolve(stripConv(and.X)) != ssa.Value(flag) {
			return 0, false
		}
		m, isM := constInt(and.Y)
		k, isK := constInt(bin.Y)
		if !isM || !isK {
			return 0, false
		}
		// (flag & m) != 0   or   (flag & m) == m   (single-bit mask)
		if (bin.Op == token.NEQ && k == 0) || (bin.Op == token.EQL && k == m && m&(m-1) == 0) {
			return m, true
		}
		return 0, false
	}
	for _, fld := range []struct {
		name string
		mask int64
	}{{"Dup", 0x08}, {"Retain", 0x01}} {
		found := false
		eachInstr(p, func(in ssa.Instruction) {
			st, ok := in.(*ssa.Store)
			if !ok {
				return
			}
			if _, isF := isFieldAddr(st.Addr, "Message", fld.name); !isF {
				return
			}
			found = true
			if m, ok := maskOf(st.Val); ok && m == fld.mask {
				rr.OK("pktPublish.Parse/"+fld.name, st.Pos(), "%s = flags & 0x%02X != 0 (inverse of Pack)", fld.name, m)
			} else {
				rr.Bad("pktPublish.Parse/"+fld.name, st.Pos(), "inbound %s is not decoded from flag bit 0x%02X", fld.name, fld.mask)
			}
		})
		if !found {
			rr.Bad("pktPublish.Parse/"+fld.name, p.Pos(), "inbound %s flag is not decoded", fld.name)
		}
	}
	// QoS table: edges `flag & 6 == k` -> store QoS const
	tbl := map[int64]int64{}
	for _, b := range p.Blocks {
		iff := blockIf(b)
		if iff == nil {
			continue
		}
		bin, ok := iff.Cond.(*ssa.BinOp)
		if !ok || bin.Op != token.EQL {
			continue
		}
		and, ok := bin.X.(*ssa.BinOp)
		if !ok || and.Op != token.AND {
			continue
		}
		m, isM := constInt(and.Y)
		k, isK := constInt(bin.Y)
		if !isM || !isK || m != 6 || c.Resolve(stripConv(and.X)) != ssa.Value(flag) {
			continue
		}
		for in := range ReachableViaEdge(p, ifEdge{b, 0}, PathQ{BlockInstr: func(i ssa.Instruction) bool { _, isIf := i.(*ssa.If); return isIf }}) {
			if st, ok := in.(*ssa.Store); ok {
				if _, isQ := isFieldAddr(st.Addr, "Message", "QoS"); isQ {
					if q, ok := constInt(st.Val); ok {
						tbl[k] = q
					}
				}
			}
		}
		if _, have := tbl[k]; !have {
			// the value travels through a result variable of a decoding helper: the constant it holds on the paths through this arm
			eachInstr(p, func(in ssa.Instruction) {
				st, ok := in.(*ssa.Store)
				if !ok {
					return
				}
				if _, isQ := isFieldAddr(st.Addr, "Message", "QoS"); !isQ {
					return
				}
				if vals, ok := constsAlong(p, ifEdge{b, 0}, st, st.Val, nil); ok && len(vals) == 1 {
					tbl[k] = vals[0]
				}
			})
		}
	}
	if !(len(tbl) == 3 && tbl[0] == 0 && tbl[2] == 1 && tbl[4] == 2) {
		// computed rather than selected (`QoS(bits >> 1)` behind a range test): the table by evaluation over the four
		// values of the two bits
		if t2, _, decided := c.inboundQoSByBits(p); decided {
			tbl = t2
		}
	}
	if len(tbl) == 3 && tbl[0] == 0 && tbl[2] == 1 && tbl[4] == 2 {
		rr.OK("pktPublish.Parse/QoS", p.Pos(), "QoS table {0x00:0, 0x02:1, 0x04:2} under mask 0x06 is the inverse of Pack's")
	} else {
		rr.Bad("pktPublish.Parse/QoS", p.Pos(), "inbound QoS table %v (flag bits -> QoS) is not the inverse of {0:0x00, 1:0x02, 2:0x04}", tbl)
	}
	// identifier consumed iff QoS != 0
	uu := c.Func("unpackUint16")
	okID := false
	eachInstr(p, func(in ssa.Instruction) {
		if !c.isCallTo(in, uu) {
			// no decoding helper: the identifier is read in place, big-endian, where it is stored into the message
			st, isSt := in.(*ssa.Store)
			if uu != nil || !isSt {
				return
			}
			if _, isID := isFieldAddr(st.Addr, "Message", "ID"); !isID {
				return
			}
			if _, _, isBE := c.beRead16(st.Val); !isBE {
				return
			}
		}
		for _, b := range p.Blocks {
			iff := blockIf(b)
			if iff == nil {
				continue
			}
			bin, ok := iff.Cond.(*ssa.BinOp)
			if !ok {
				continue
			}
			if _, isQ := isFieldLoad(bin.X, "Message", "QoS"); !isQ {
				continue
			}
			if k, ok := constInt(bin.Y); !ok || k != 0 {
				continue
			}
			edge := 0
			if bin.Op == token.EQL {
				edge = 1
			}
			if DominatedByEdge(p, in, b, edge, PathQ{}) {
				okID = true
			}
		}
	})
	if okID {
		rr.OK("pktPublish.Parse/identifier", p.Pos(), "packet identifier is consumed exactly when QoS != 0 (as Pack appends it)")
	} else {
		rr.Bad("pktPublish.Parse/identifier", p.Pos(), "Parse does not consume the packet identifier exactly when QoS != 0")
	}
}

// ---- R-C05-5 -----------------------------------------------------------------------------------------------

func (c *Ctx) ruleLengthPrefix(rr *RuleRep) {
	au := c.Func("appendUint16")
	if au == nil {
		// no helper for 16-bit values: each is encoded where it is used, and the order of its two bytes is checked there
		// (a body decomposes into uint16:… only for byte(v>>8), byte(v); R-C05-4 and the length prefixes below)
		rr.OK("appendUint16", token.NoPos, "no such helper: 16-bit values are encoded in place and checked with the bodies they are part of")
	} else {
		cc := c.newChain()
		okBE := false
		for _, ret := range returnsOf(au) {
			its := cc.decompose(ret.Results[0])
			// raw(b), byte(v>>8), byte(v)
			if len(its) == 3 && its[1].Kind == "byte" && its[2].Kind == "byte" {
				hi := stripConv(its[1].Val)
				lo := stripConv(its[2].Val)
				if sh, ok := hi.(*ssa.BinOp); ok && sh.Op == token.SHR && sh.X == ssa.Value(au.Params[1]) {
					if k, ok := constInt(sh.Y); ok && k == 8 && lo == ssa.Value(au.Params[1]) {
						okBE = true
					}
				}
			}
		}
		if okBE {
			rr.OK("appendUint16", au.Pos(), "appends byte(v>>8), byte(v): big-endian")
		} else {
			rr.Bad("appendUint16", au.Pos(), "appendUint16 does not append the 16-bit value most significant byte first")
		}
	}
	// every truncation of a len() to uint16 must be dominated by a `len <= 0xFFFF` edge
	n := 0
	for _, f := range c.Funcs {
		eachInstr(f, func(in ssa.Instruction) {
			cv, ok := in.(*ssa.Convert)
			if !ok {
				return
			}
			bt, ok := cv.Type().Underlying().(*types.Basic)
			if !ok {
				return
			}
			src := cv.X
			switch bt.Kind() {
			case types.Uint16:
			case types.Uint8:
				// the high byte of a two-byte length written out: byte(len(s) >> 8)
				sh, isSh := src.(*ssa.BinOp)
				if !isSh || sh.Op != token.SHR {
					return
				}
				if k, isK := constInt(sh.Y); !isK || k != 8 {
					return
				}
				src = sh.X
			default:
				return
			}
			call, ok := src.(*ssa.Call)
			if !ok {
				return
			}
			bi, ok := call.Call.Value.(*ssa.Builtin)
			if !ok || bi.Name() != "len" {
				return
			}
			n++
			key := FuncName(f) + "/uint16(len)"
			dom := false
			for _, b := range f.Blocks {
				iff := blockIf(b)
				if iff == nil {
					continue
				}
				bin, ok := iff.Cond.(*ssa.BinOp)
				if !ok || bin.X != ssa.Value(call) {
					// another len() call of the same operand
					if c2, ok := bin.X.(*ssa.Call); !ok || func() bool {
						b2, ok := c2.Call.Value.(*ssa.Builtin)
						return !ok || b2.Name() != "len" || c2.Call.Args[0] != call.Call.Args[0]
					}() {
						continue
					}
				}
				k, isK := constInt(bin.Y)
				if !isK {
					continue
				}
				// edges on which len <= 0xFFFF holds
				var edge int = -1
				switch {
				case bin.Op == token.GTR && k <= 0xFFFF:
					edge = 1
				case bin.Op == token.GEQ && k <= 0x10000:
					edge = 1
				case bin.Op == token.LEQ && k <= 0xFFFF:
					edge = 0
				case bin.Op == token.LSS && k <= 0x10000:
					edge = 0
				}
				if edge >= 0 && DominatedByEdge(f, in, b, edge, PathQ{}) {
					dom = true
				}
			}
			if dom {
				rr.OK(key, in.Pos(), "length is truncated to 16 bits only on the `len <= 65535` edge (longer fields panic before anything is written)")
			} else {
				rr.Bad(key, in.Pos(), "a length is truncated to 16 bits without a dominating `<= 65535` guard: a field of 65536 bytes or more gets a wrapped length prefix and the rest of it is decoded as the following fields")
			}
		})
	}
	if n == 0 {
		rr.Lost("uint16(len)", "no length-prefix truncation found")
	}
	// appendString / appendBytes write prefix then the bytes themselves
	for _, name := range []string{"appendBytes", "appendString"} {
		f := c.Func(name)
		if f == nil {
			if name == "appendString" && c.Func("appendBytes") != nil {
				// strings are handed to appendBytes as []byte(s) by the callers (rendered as string:… in the bodies)
				rr.OK(name, token.NoPos, "no such helper: strings are encoded by appendBytes([]byte(s))")
				continue
			}
			rr.Lost(name, "not found")
			continue
		}
		cc := c.newChain()
		ok := false
		for _, ret := range returnsOf(f) {
			its := cc.decompose(ret.Results[0])
			s := c.renderItems(its)
			// the prefix written out as two bytes: byte(len(s)>>8), byte(len(s))
			if name == "appendBytes" && len(its) == 4 && its[1].Kind == "byte" && its[2].Kind == "byte" && its[3].Kind == "raw" && c.Resolve(its[3].Val) == ssa.Value(f.Params[1]) {
				lenOf := func(v ssa.Value) bool {
					// (through a widening or 16-bit conversion of the length: the truncation is judged above)
					for {
						cv, isCv := v.(*ssa.Convert)
						if !isCv {
							break
						}
						if bt, isB := cv.Type().Underlying().(*types.Basic); !isB || bt.Info()&types.IsInteger == 0 || bt.Kind() == types.Uint8 || bt.Kind() == types.Int8 {
							break
						}
						v = cv.X
					}
					call, isCall := v.(*ssa.Call)
					if !isCall {
						return false
					}
					bi, isB := call.Call.Value.(*ssa.Builtin)
					return isB && bi.Name() == "len" && call.Call.Args[0] == ssa.Value(f.Params[1])
				}
				hi, isHi := its[1].Val.(*ssa.Convert)
				lo, isLo := its[2].Val.(*ssa.Convert)
				if isHi && isLo && lenOf(lo.X) {
					if sh, isSh := hi.X.(*ssa.BinOp); isSh && sh.Op == token.SHR && lenOf(sh.X) {
						if k, isK := constInt(sh.Y); isK && k == 8 {
							ok = true
						}
					}
				}
			}
			if name == "appendBytes" && len(its) == 3 && its[1].Kind == "uint16" && its[2].Kind == "raw" && c.Resolve(its[2].Val) == ssa.Value(f.Params[1]) {
				if cv, isCv := its[1].Val.(*ssa.Convert); isCv {
					if call, isCall := cv.X.(*ssa.Call); isCall && call.Call.Args[0] == ssa.Value(f.Params[1]) {
						ok = true
					}
				}
			}
			if name == "appendString" && len(its) == 2 && its[1].Kind == "bytes" && stripConv(its[1].Val) == ssa.Value(f.Params[1]) {
				ok = true
			}
			if name == "appendString" && len(its) == 3 && its[1].Kind == "uint16" && its[2].Kind == "raw" && stripConv(its[2].Val) == ssa.Value(f.Params[1]) {
				// inlined form: prefix then the string's bytes (the 65535 guard is checked separately above)
				if cv, isCv := its[1].Val.(*ssa.Convert); isCv {
					if call, isCall := cv.X.(*ssa.Call); isCall && stripConv(call.Call.Args[0]) == ssa.Value(f.Params[1]) {
						ok = true
					}
				}
			}
			_ = s
		}
		if ok {
			rr.OK(name, f.Pos(), "prefix uint16(len(s)) followed by the bytes of s")
		} else {
			rr.Bad(name, f.Pos(), "%s does not emit uint16(len(s)) followed by exactly the bytes of s (through the guarded appendBytes)", name)
		}
	}
}

// ---- R-C05-6 -----------------------------------------------------------------------------------------------

// bit-slice evaluation of a byte expression over parameter n: bits[i] = -1 (const 0), -2 (const 1), k>=0 (bit k of n).
func bitsOf(v ssa.Value, n ssa.Value) ([8]int, bool) {
	var z [8]int
	switch x := v.(type) {
	case *ssa.Const:
		k, ok := constInt(x)
		if !ok {
			return z, false
		}
		for i := 0; i < 8; i++ {
			if k&(1<<uint(i)) != 0 {
				z[i] = -2
			} else {
				z[i] = -1
			}
		}
		return z, true
	case *ssa.Convert:
		// byte(int expr): low 8 bits of shifted n
		sh := int64(0)
		src := x.X
		if b, ok := src.(*ssa.BinOp); ok && b.Op == token.SHR {
			k, ok := constInt(b.Y)
			if !ok {
				return z, false
			}
			sh = k
			src = b.X
		}
		if src != n {
			return z, false
		}
		for i := 0; i < 8; i++ {
			z[i] = int(sh) + i
		}
		return z, true
	case *ssa.BinOp:
		a, ok1 := bitsOf(x.X, n)
		b, ok2 := bitsOf(x.Y, n)
		if !ok1 || !ok2 {
			return z, false
		}
		for i := 0; i < 8; i++ {
			switch x.Op {
			case token.OR:
				switch {
				case a[i] == -2 || b[i] == -2:
					z[i] = -2
				case a[i] == -1:
					z[i] = b[i]
				case b[i] == -1:
					z[i] = a[i]
				default:
					return z, false
				}
			case token.AND:
				switch {
				case a[i] == -1 || b[i] == -1:
					z[i] = -1
				case a[i] == -2:
					z[i] = b[i]
				case b[i] == -2:
					z[i] = a[i]
				default:
					return z, false
				}
			default:
				return z, false
			}
		}
		return z, true
	}
	return z, false
}

func (c *Ctx) ruleRemainingLength(rr *RuleRep) {
	f := c.Func("remainingLength")
	if f == nil {
		rr.Lost("remainingLength", "not found")
		return
	}
	n := f.Params[0]
	// upper bound established on the path to each return: chain of `n <= K` tests
	type bound struct {
		lo, hi int64 // lo < n <= hi
	}
	cases := 0
	seenLens := map[int]bool{}
	if why, isLoop := c.remainingLengthLoopForm(f); isLoop {
		if why == "" {
			rr.OK("remainingLength/loop", f.Pos(), "loop form: while n > 0x7F emit byte(n)|0x80 and shift n right by 7, then emit byte(n); n <= 268435455 guarded by a panic — 7 bits per byte, least significant group first, continuation bit on all but the last byte, minimal length")
		} else {
			rr.Bad("remainingLength/loop", f.Pos(), "the remaining-length encoder is a loop that is not the MQTT variable-length scheme: %s", why)
		}
		seenLens[1], seenLens[2], seenLens[3], seenLens[4] = true, true, true, true
	}
	for _, ret := range returnsOf(f) {
		if seenLens[1] && seenLens[4] && cases == 0 {
			break // judged as a loop above
		}
		sl, ok := ret.Results[0].(*ssa.Slice)
		if !ok {
			rr.Undecided("remainingLength/return", ret.Pos(), "result is not a byte literal (loop formulation is not supported)")
			continue
		}
		al, ok := sl.X.(*ssa.Alloc)
		if !ok {
			rr.Undecided("remainingLength/return", ret.Pos(), "result is not a byte literal")
			continue
		}
		elems := arrayElems(al)
		nb := len(elems)
		bd := bound{lo: -1, hi: 1 << 62}
		for _, b := range f.Blocks {
			iff := blockIf(b)
			if iff == nil {
				continue
			}
			bin, ok := iff.Cond.(*ssa.BinOp)
			if !ok || bin.X != ssa.Value(n) {
				continue
			}
			k, isK := constInt(bin.Y)
			if !isK {
				continue
			}
			for edge := 0; edge < 2; edge++ {
				if !DominatedByEdge(f, ret, b, edge, PathQ{}) {
					continue
				}
				op := bin.Op
				if edge == 1 {
					switch op {
					case token.LEQ:
						op = token.GTR
					case token.LSS:
						op = token.GEQ
					case token.GTR:
						op = token.LEQ
					case token.GEQ:
						op = token.LSS
					}
				}
				switch op {
				case token.LEQ:
					if k < bd.hi {
						bd.hi = k
					}
				case token.LSS:
					if k-1 < bd.hi {
						bd.hi = k - 1
					}
				case token.GTR:
					if k > bd.lo {
						bd.lo = k
					}
				case token.GEQ:
					if k-1 > bd.lo {
						bd.lo = k - 1
					}
				}
			}
		}
		key := fmt.Sprintf("remainingLength/%d-byte", nb)
		cases++
		seenLens[nb] = true
		wantHi := int64(1)<<uint(7*nb) - 1
		wantLo := int64(-1)
		if nb > 1 {
			wantLo = int64(1)<<uint(7*(nb-1)) - 1
		}
		if bd.hi != wantHi || bd.lo != wantLo {
			rr.Bad(key, ret.Pos(), "the %d-byte encoding is used for %d < n <= %d; MQTT 3.1.1 (2.2.3) requires %d < n <= %d: lengths at the boundary are encoded non-minimally or lose bits", nb, bd.lo, bd.hi, wantLo, wantHi)
			continue
		}
		good := true
		for j, e := range elems {
			bits, ok := bitsOf(e, n)
			if !ok {
				rr.Undecided(key, ret.Pos(), "byte %d is not a shift/mask expression of n", j)
				good = false
				break
			}
			for i := 0; i < 7; i++ {
				if bits[i] != 7*j+i {
					good = false
					rr.Bad(key, ret.Pos(), "byte %d, bit %d of the %d-byte encoding is %s, MQTT 3.1.1 requires bit %d of the length", j, i, nb, bitName(bits[i]), 7*j+i)
				}
			}
			last := j == nb-1
			switch {
			case last && bits[7] == -1:
			case last && bits[7] == 7*j+7 && bd.hi < (int64(1)<<uint(7*j+7)):
				// byte(n>>7j) with n bounded so that the bit is zero
			case !last && bits[7] == -2:
			default:
				good = false
				rr.Bad(key, ret.Pos(), "continuation bit of byte %d of the %d-byte encoding is %s (must be %s)", j, nb, bitName(bits[7]), map[bool]string{true: "0", false: "1"}[last])
			}
		}
		if good {
			rr.OK(key, ret.Pos(), "%d < n <= %d: bytes carry bits 7j..7j+6 of n, continuation bits set on all but the last byte", bd.lo, bd.hi)
		}
	}
	for nb := 1; nb <= 4; nb++ {
		if !seenLens[nb] {
			rr.Bad(fmt.Sprintf("remainingLength/%d-byte", nb), f.Pos(), "no %d-byte encoding case", nb)
		}
	}
	// overflow guard: a panic (or nothing) above 268435455 — never a silent encoding
	// pack(): n accumulates len of each element of contents; the same contents are appended in order
	if pk := c.Func("pack"); pk != nil {
		rl := f
		var rlCall *ssa.Call
		eachInstr(pk, func(in ssa.Instruction) {
			if c.isCallTo(in, rl) {
				rlCall = in.(*ssa.Call)
			}
		})
		okSum := false
		if rlCall != nil {
			if phi, ok := rlCall.Call.Args[0].(*ssa.Phi); ok {
				zero, acc := false, false
				for _, e := range phi.Edges {
					if k, ok := constInt(e); ok && k == 0 {
						zero = true
						continue
					}
					if add, ok := e.(*ssa.BinOp); ok && add.Op == token.ADD && add.X == ssa.Value(phi) {
						if call, ok := add.Y.(*ssa.Call); ok {
							if bi, ok := call.Call.Value.(*ssa.Builtin); ok && bi.Name() == "len" {
								if ld, ok := call.Call.Args[0].(*ssa.UnOp); ok {
									if ia, ok := ld.X.(*ssa.IndexAddr); ok && ia.X == ssa.Value(pk.Params[1]) && ascendingFromZero(ia.Index) {
										acc = true
									}
								}
							}
						}
					}
				}
				okSum = zero && acc
			}
		}
		cc := c.newChain()
		okBody := false
		for _, ret := range returnsOf(pk) {
			its := cc.decompose(ret.Results[0])
			// byte(packetType), raw(remainingLength(n)), loop{raw(contents[i])}
			if len(its) == 3 && its[0].Kind == "byte" && c.headerOperand(its[0].Val) == ssa.Value(pk.Params[0]) && its[1].Kind == "raw" && its[1].Val == ssa.Value(rlCall) && its[2].Kind == "loop" && len(its[2].Sub) == 1 {
				if ld, ok := its[2].Sub[0].Val.(*ssa.UnOp); ok {
					if ia, ok := ld.X.(*ssa.IndexAddr); ok && ia.X == ssa.Value(pk.Params[1]) && ascendingFromZero(ia.Index) {
						okBody = true
					}
				}
			}
		}
		if okSum && okBody {
			rr.OK("pack", pk.Pos(), "packet = type byte, remainingLength(sum of len(contents[i])), then contents[0..] in order")
		} else {
			rr.Bad("pack", pk.Pos(), "pack() does not emit [type, remainingLength(Σ len(contents[i])), contents...]: the remaining-length field would not equal the true body length")
		}
	} else {
		rr.Lost("pack", "not found")
	}
	// decoder mirror constants
	if rp := c.readFunc(); rp != nil {
		has7F, has80, stride7 := false, false, false
		eachInstr(rp, func(in ssa.Instruction) {
			b, ok := in.(*ssa.BinOp)
			if !ok {
				return
			}
			if k, ok := constInt(b.Y); ok {
				if b.Op == token.AND && k == 0x7F {
					has7F = true
				}
				if b.Op == token.AND && k == 0x80 {
					has80 = true
				}
				if b.Op == token.ADD && k == 7 {
					if _, isPhi := b.X.(*ssa.Phi); isPhi {
						stride7 = true
					}
				}
				// shift computed as 7*i with a counter i stepping by 1
				if b.Op == token.MUL && k == 7 {
					stride7 = true
				}
			}
			if k, ok := constInt(b.X); ok && b.Op == token.MUL && k == 7 {
				stride7 = true
			}
		})
		if has7F && has80 && stride7 {
			rr.OK("readPacket/length-decoder", rp.Pos(), "decoder accumulates (b & 0x7F) << shift with stride 7 and continues on b & 0x80")
			// … and accepts all four length bytes: the decoded length can have 28 significant bits (fewer: a legal four-byte
			// remaining length, bodies of 2,097,152 bytes and more, is rejected; more is C06's concern)
			eachInstr(rp, func(in ssa.Instruction) {
				mk, ok := in.(*ssa.MakeSlice)
				if !ok {
					return
				}
				if _, isK := constInt(mk.Len); isK {
					return
				}
				wa := &widthAnalysis{c: c, memo: map[ssa.Value]int{}, prog: map[ssa.Value]bool{}}
				if w := wa.width(mk.Len); w < 28 && w > 0 && w%7 == 0 {
					rr.Bad("readPacket/length-decoder-range", in.Pos(), "the remaining-length decoder stops after %d length bytes (at most %d significant bits): a legal four-byte remaining length is rejected, so a body of %d bytes or more sent by the broker ends the link instead of being delivered", w/7, w, 1<<uint(w))
				} else if w == 28 {
					rr.OK("readPacket/length-decoder-range", in.Pos(), "up to four length bytes are accepted (28 significant bits)")
				}
			})
		} else {
			rr.Bad("readPacket/length-decoder", rp.Pos(), "the remaining-length decoder does not use the mirror constants (0x7F payload mask, 0x80 continuation bit, shift stride 7)")
		}
	}
}

func bitName(b int) string {
	switch b {
	case -1:
		return "constant 0"
	case -2:
		return "constant 1"
	}
	return fmt.Sprintf("bit %d of n", b)
}

// ---- R-C05-7 / R-C05-8 -------------------------------------------------------------------------------------

func (c *Ctx) ruleRejectBeforeWrite(rr *RuleRep) {
	val := c.Method("BaseClient", "ValidateMessage")
	pub := c.Method("BaseClient", "Publish")
	impl := c.Func("publishImpl")
	if val == nil || pub == nil || impl == nil {
		rr.Lost("ValidateMessage/Publish/publishImpl", "not found")
		return
	}
	var vcall, icall *ssa.Call
	eachInstr(pub, func(in ssa.Instruction) {
		if c.isCallTo(in, val) {
			vcall = in.(*ssa.Call)
		}
		if c.isCallTo(in, impl) {
			icall = in.(*ssa.Call)
		}
	})
	switch {
	case vcall == nil || icall == nil:
		rr.Bad("(*BaseClient).Publish", pub.Pos(), "Publish does not validate the message before handing it to publishImpl")
	case vcall.Call.Args[1] != icall.Call.Args[2]:
		rr.Bad("(*BaseClient).Publish", vcall.Pos(), "the message validated is not the message published")
	default:
		dom := false
		for _, e := range nilEdges(pub, vcall) {
			if DominatedByEdge(pub, icall, e.B, e.K, PathQ{}) {
				dom = true
			}
		}
		if dom {
			rr.OK("(*BaseClient).Publish", vcall.Pos(), "publishImpl runs only on the nil edge of ValidateMessage(message)")
		} else {
			rr.Bad("(*BaseClient).Publish", icall.Pos(), "publishImpl (which writes the packet) can run although ValidateMessage rejected the message, or before it ran")
		}
	}
	// ValidateMessage: QoS > 2 and payload length
	msg := val.Params[1]
	qosOK, lenOK := false, false
	for _, b := range val.Blocks {
		iff := blockIf(b)
		if iff == nil {
			continue
		}
		rejects := func(k int, sentinel string) bool {
			isIt := func(ev ssa.Value) bool {
				call, _ := c.asCall(ev)
				return call != nil && len(call.Call.Args) > 0 && c.isGlobalLoad(call.Call.Args[0], sentinel)
			}
			for in := range ReachableViaEdge(val, ifEdge{b, k}, PathQ{BlockInstr: func(i ssa.Instruction) bool { _, isIf := i.(*ssa.If); return isIf }}) {
				if ret, ok := in.(*ssa.Return); ok {
					if isIt(c.errResult(ret)) {
						return true
					}
				}
			}
			// a single exit: `err = wrapErrorf(…)` on this edge, `return err` below the tests
			for _, ret := range returnsOf(val) {
				phi, isPhi := c.Resolve(c.errResult(ret)).(*ssa.Phi)
				if !isPhi {
					continue
				}
				if vs, reached := valuesAlong(val, ifEdge{b, k}, ret, phi, nil); reached && len(vs) == 1 && isIt(vs[0]) {
					return true
				}
			}
			return false
		}
		// what taking edge k of this test says about the comparisons it is made of (`a && b` tested as one value: its true
		// edge says b holds; `!x`; a plain comparison)
		for k := 0; k < 2; k++ {
			for _, fact := range impliedComparisons(iff.Cond, k == 0, 0) {
				bin, holds := fact.Bin, fact.Holds
				op := bin.Op
				if !holds {
					op = negateCmp(op)
				}
				// either way round: `QoS > 2` / `2 < QoS`, `len(p) >= max` / `max <= len(p)`
				for _, o := range [][3]interface{}{{bin.X, bin.Y, op}, {bin.Y, bin.X, mirrorCmp(op)}} {
					x, y, op := o[0].(ssa.Value), o[1].(ssa.Value), o[2].(token.Token)
					if base, isQ := isFieldLoad(x, "Message", "QoS"); isQ && c.Resolve(base) == ssa.Value(msg) {
						if kk, ok := constInt(y); ok && ((op == token.GTR && kk == 2) || (op == token.GEQ && kk == 3)) && rejects(k, "ErrInvalidQoS") {
							qosOK = true
						}
					}
					// len(message.Payload) >= c.MaxPayloadLen (or >)
					if call, ok := x.(*ssa.Call); ok {
						if bi, ok := call.Call.Value.(*ssa.Builtin); ok && bi.Name() == "len" {
							if base, isP := isFieldLoad(call.Call.Args[0], "Message", "Payload"); isP && c.Resolve(base) == ssa.Value(msg) {
								if _, isM := isFieldLoad(y, "BaseClient", "MaxPayloadLen"); isM {
									if (op == token.GEQ || op == token.GTR) && rejects(k, "ErrPayloadLenExceeded") {
										lenOK = true
									}
								}
							}
						}
					}
				}
			}
		}
	}
	if qosOK {
		rr.OK("ValidateMessage/QoS", val.Pos(), "QoS > 2 is rejected with ErrInvalidQoS")
	} else {
		rr.Bad("ValidateMessage/QoS", val.Pos(), "ValidateMessage does not reject a QoS above 2 with ErrInvalidQoS: Pack() would panic (or emit reserved QoS bits)")
	}
	if lenOK {
		rr.OK("ValidateMessage/payload", val.Pos(), "payload over MaxPayloadLen is rejected with ErrPayloadLenExceeded")
	} else {
		rr.Bad("ValidateMessage/payload", val.Pos(), "ValidateMessage does not reject payloads over the configured maximum with ErrPayloadLenExceeded")
	}
	// RetryClient.publish validates before invoking / queueing
	if rp := c.Method("RetryClient", "publish"); rp != nil {
		var v *ssa.Call
		eachInstr(rp, func(in ssa.Instruction) {
			if c.isCallTo(in, val) {
				v = in.(*ssa.Call)
			}
		})
		if v == nil {
			rr.Bad("(*RetryClient).publish/validate", rp.Pos(), "the queued publish path does not validate the message")
		} else {
			okDom := true
			eachInstr(rp, func(in ssa.Instruction) {
				switch x := in.(type) {
				case *ssa.Call:
					if x == v || x.Call.IsInvoke() {
						return
					}
					if _, isB := x.Call.Value.(*ssa.Builtin); isB {
						return
					}
					dom := false
					for _, e := range nilEdges(rp, v) {
						if DominatedByEdge(rp, in, e.B, e.K, PathQ{}) {
							dom = true
						}
					}
					if !dom {
						okDom = false
					}
				}
			})
			if okDom {
				rr.OK("(*RetryClient).publish/validate", v.Pos(), "every call in the queued publish path lies on the nil edge of ValidateMessage")
			} else {
				rr.Bad("(*RetryClient).publish/validate", v.Pos(), "the queued publish path can issue or queue the message before/without validating it")
			}
		}
	}
}

func (c *Ctx) ruleInboundFields(rr *RuleRep) {
	p := c.Method("pktPublish", "Parse")
	us := c.Func("unpackString")
	if p == nil || us == nil {
		rr.Lost("pktPublish.Parse/unpackString", "not found")
		return
	}
	_, contents := parseParams(p)
	if contents == nil {
		rr.Lost("pktPublish.Parse", "no parameter carrying the bytes after the fixed header")
		return
	}
	var usCall *ssa.Call
	eachInstr(p, func(in ssa.Instruction) {
		if c.isCallTo(in, us) {
			usCall = in.(*ssa.Call)
		}
	})
	// the decoder's operand is the body itself, or the body from offset 0 (a read cursor that has not moved yet)
	fromStart := func(v ssa.Value) bool {
		if v == ssa.Value(contents) {
			return true
		}
		sl, ok := v.(*ssa.Slice)
		if !ok || sl.X != ssa.Value(contents) || sl.High != nil {
			return false
		}
		if sl.Low == nil {
			return true
		}
		alts := altSums(sl.Low, 0)
		return len(alts) == 1 && len(alts[0]) == 0
	}
	if usCall == nil || !fromStart(usCall.Call.Args[0]) {
		rr.Bad("pktPublish.Parse/topic", p.Pos(), "the topic is not decoded as the first length-prefixed field of the packet body")
		return
	}
	okTopic, okPayload := false, false
	sawN, sawBoth, other := false, false, false
	// the decoded string handed back through a *string parameter: the destination given is the message's Topic, and
	// unpackString stores into it before every successful return
	for i, a := range usCall.Call.Args {
		if _, isT := isFieldAddr(a, "Message", "Topic"); !isT || i >= len(us.Params) {
			continue
		}
		par := us.Params[i]
		if pt, isP := par.Type().Underlying().(*types.Pointer); !isP || !types.Identical(pt.Elem(), types.Typ[types.String]) {
			continue
		}
		filled := true
		for _, ret := range returnsOf(us) {
			if !isNilConst(c.Resolve(c.errResult(ret))) {
				continue
			}
			if !Dominated(us, ret, func(x ssa.Instruction) bool {
				st, isSt := x.(*ssa.Store)
				return isSt && st.Addr == ssa.Value(par)
			}, PathQ{}) {
				filled = false
			}
		}
		if filled {
			okTopic = true
		}
	}
	eachInstr(p, func(in ssa.Instruction) {
		st, ok := in.(*ssa.Store)
		if !ok {
			return
		}
		if _, isT := isFieldAddr(st.Addr, "Message", "Topic"); isT {
			if ex, ok := st.Val.(*ssa.Extract); ok && ex.Tuple == ssa.Value(usCall) && ex.Index == resultIndexOf(us, "string") {
				okTopic = true
			}
		}
		if _, isP := isFieldAddr(st.Addr, "Message", "Payload"); isP {
			// contents[off:] where off is, depending on the path, n or n + nID (n = bytes consumed by unpackString,
			// nID = bytes consumed by unpackUint16): any way of adding these up is accepted (sum, phi, running cursor)
			if sl, ok := st.Val.(*ssa.Slice); ok && sl.X == ssa.Value(contents) && sl.High == nil && sl.Low != nil {
				isN := func(v ssa.Value) bool {
					ex, ok := v.(*ssa.Extract)
					return ok && ex.Tuple == ssa.Value(usCall) && ex.Index == resultIndexOf(us, "int")
				}
				isNID := func(v ssa.Value) bool {
					if uu := c.Func("unpackUint16"); uu == nil || resultIndexOf(uu, "int") < 0 {
						// the identifier decoder reports no count: the two bytes of the identifier as a constant
						k, isK := constInt(v)
						return isK && k == 2
					}
					ex, ok := v.(*ssa.Extract)
					if !ok || ex.Index != resultIndexOf(c.Func("unpackUint16"), "int") {
						return false
					}
					call, ok := ex.Tuple.(*ssa.Call)
					return ok && c.StaticCalleeOf(&call.Call) == c.Func("unpackUint16")
				}
				for _, alt := range altSums(sl.Low, 0) {
					nN, nI, rest := 0, 0, 0
					for _, t := range alt {
						switch {
						case isN(t):
							nN++
						case isNID(t):
							nI++
						default:
							rest++
						}
					}
					switch {
					case nN == 1 && nI == 0 && rest == 0:
						sawN = true
					case nN == 1 && nI == 1 && rest == 0:
						sawBoth = true
					default:
						other = true
					}
				}
			} else {
				other = true
			}
		}
	})
	// (the payload may be assigned once below a join of the two offsets, or once per branch)
	if sawN && sawBoth && !other {
		okPayload = true
	}
	// where the identifier is read: the two bytes right after the topic (judged when the operand is a recognisable offset into
	// the body: contents[off:] handed to the decoder, or contents[off], contents[off+1] read in place)
	eachInstr(p, func(in ssa.Instruction) {
		var base, at ssa.Value
		switch x := in.(type) {
		case *ssa.Call:
			uu := c.Func("unpackUint16")
			if uu == nil || !c.isCallTo(in, uu) || len(x.Call.Args) == 0 {
				return
			}
			base = x.Call.Args[0]
		case *ssa.Store:
			if _, isID := isFieldAddr(x.Addr, "Message", "ID"); !isID {
				return
			}
			b, a, isBE := c.beRead16(x.Val)
			if !isBE {
				return
			}
			base, at = b, a
		default:
			return
		}
		low := at
		if sl, isSl := base.(*ssa.Slice); isSl && sl.High == nil && at == nil {
			base, low = sl.X, sl.Low
		}
		if base != ssa.Value(contents) {
			return
		}
		if low == nil {
			rr.Bad("pktPublish.Parse/identifier-offset", in.Pos(), "the packet identifier is read from the start of the body, where the topic is, instead of the two bytes after the topic")
			return
		}
		for _, alt := range altSums(low, 0) {
			if ex, isEx := func() (*ssa.Extract, bool) {
				if len(alt) != 1 {
					return nil, false
				}
				ex, ok := alt[0].(*ssa.Extract)
				return ex, ok
			}(); !isEx || ex.Tuple != ssa.Value(usCall) || ex.Index != resultIndexOf(us, "int") {
				rr.Bad("pktPublish.Parse/identifier-offset", in.Pos(), "the packet identifier is not read from the two bytes right after the topic (offset = bytes consumed by unpackString)")
				return
			}
		}
		rr.OK("pktPublish.Parse/identifier-offset", in.Pos(), "identifier read at contents[topicLen:]")
	})
	if okTopic {
		rr.OK("pktPublish.Parse/topic", usCall.Pos(), "Topic = string decoded by unpackString(contents)")
	} else {
		rr.Bad("pktPublish.Parse/topic", usCall.Pos(), "the delivered topic is not the string decoded from the packet")
	}
	if okPayload {
		rr.OK("pktPublish.Parse/payload", p.Pos(), "Payload = contents[topicLen + idLen:]")
	} else {
		rr.Bad("pktPublish.Parse/payload", p.Pos(), "the delivered payload is not exactly the bytes after the topic and the optional identifier")
	}
}

// ruleUnpackStringConsumes: the count unpackString returns is exactly the number of bytes it consumed
// (length prefix + encoded length), the same value that bounds the slice it decoded.
func (c *Ctx) ruleUnpackStringConsumes(rr *RuleRep) {
	us := c.Func("unpackString")
	if us == nil {
		rr.Lost("unpackString", "not found")
		return
	}
	b := c.newBounds()
	var hi *lin
	eachInstr(us, func(in ssa.Instruction) {
		if sl, ok := in.(*ssa.Slice); ok && sl.X == ssa.Value(us.Params[0]) && sl.High != nil {
			l := b.norm(sl.High)
			hi = &l
		}
	})
	if hi == nil {
		rr.Undecided("unpackString/consumed", us.Pos(), "cannot find the slice of the input that is decoded")
		return
	}
	for _, ret := range returnsOf(us) {
		if !isNilConst(c.Resolve(c.errResult(ret))) {
			continue
		}
		ci := resultIndexOf(us, "int")
		if ci < 0 || ci >= len(ret.Results) {
			rr.Undecided("unpackString/consumed", ret.Pos(), "unpackString has no count result")
			continue
		}
		got := b.norm(ret.Results[ci])
		d := got.add(*hi, -1)
		if len(d.K) == 0 && d.C == 0 {
			rr.OK("unpackString/consumed", ret.Pos(), "returned count equals the end offset of the decoded field (%s)", got.String())
		} else {
			rr.Bad("unpackString/consumed", ret.Pos(), "unpackString returns %s as the number of bytes consumed, but the field it decoded ends at offset %s: for some inputs (e.g. multi-byte UTF-8) the fields that follow — packet identifier, payload — are read from the wrong offset", got.String(), hi.String())
		}
	}
}

// altSums: the ways an integer value can be a sum of opaque terms, over the alternatives of its phis: constants 0 vanish,
// `a + b` concatenates, a phi yields the union of its operands' alternatives.
func altSums(v ssa.Value, depth int) [][]ssa.Value {
	if depth > 8 {
		return [][]ssa.Value{{v}}
	}
	if k, ok := constInt(v); ok && k == 0 {
		return [][]ssa.Value{{}}
	}
	switch x := v.(type) {
	case *ssa.BinOp:
		if x.Op == token.ADD {
			var out [][]ssa.Value
			for _, a := range altSums(x.X, depth+1) {
				for _, b := range altSums(x.Y, depth+1) {
					out = append(out, append(append([]ssa.Value{}, a...), b...))
				}
			}
			return out
		}
	case *ssa.Phi:
		var out [][]ssa.Value
		for _, e := range x.Edges {
			if e == v {
				continue
			}
			out = append(out, altSums(e, depth+1)...)
		}
		return out
	case *ssa.ChangeType:
		return altSums(x.X, depth+1)
	}
	return [][]ssa.Value{{v}}
}

// remainingLengthLoopForm recognises the loop formulation of the MQTT variable-length encoding:
//
//	guard n > 0xFFFFFFF -> panic;  b := empty;  for ; n > 0x7F; n >>= 7 { b = append(b, byte(n)|0x80) };  return append(b, byte(n))
//
// Returns isLoop=false when the function has no loop over its parameter (then the unrolled analysis applies); otherwise the
// reason why the loop is not that scheme ("" when it is).
func (c *Ctx) remainingLengthLoopForm(f *ssa.Function) (string, bool) {
	n := f.Params[0]
	var N *ssa.Phi
	eachInstr(f, func(in ssa.Instruction) {
		phi, ok := in.(*ssa.Phi)
		if !ok || N != nil {
			return
		}
		fromParam, shifted := false, false
		for _, e := range phi.Edges {
			if e == ssa.Value(n) {
				fromParam = true
				continue
			}
			if b, ok := e.(*ssa.BinOp); ok && b.Op == token.SHR && b.X == ssa.Value(phi) {
				if k, ok := constInt(b.Y); ok && k == 7 {
					shifted = true
					continue
				}
			}
			return
		}
		if fromParam && shifted {
			N = phi
		}
	})
	if N == nil {
		return "", false
	}
	// loop condition: N > 0x7F (or N >= 0x80) on the edge into the body
	hdr := N.Block()
	iff := blockIf(hdr)
	if iff == nil {
		return "the loop is not controlled by a test of the remaining value", true
	}
	bin, ok := iff.Cond.(*ssa.BinOp)
	if !ok || bin.X != ssa.Value(N) {
		return "the loop is not controlled by a test of the remaining value", true
	}
	k, isK := constInt(bin.Y)
	if !isK || !((bin.Op == token.GTR && k == 0x7F) || (bin.Op == token.GEQ && k == 0x80)) {
		return "the loop continues on a condition other than `n > 0x7F`", true
	}
	isByteOf := func(v ssa.Value, of ssa.Value) bool {
		cv, ok := v.(*ssa.Convert)
		if !ok || cv.X != of {
			return false
		}
		b, ok := cv.Type().Underlying().(*types.Basic)
		return ok && b.Kind() == types.Uint8
	}
	// the accumulated slice: phi(empty, append(B, byte(N)|0x80))
	var B *ssa.Phi
	for _, in := range hdr.Instrs {
		phi, ok := in.(*ssa.Phi)
		if !ok || phi == N {
			continue
		}
		if _, isSlice := phi.Type().Underlying().(*types.Slice); isSlice {
			B = phi
		}
	}
	if B == nil {
		return "no accumulated byte slice", true
	}
	okInit, okStep := false, false
	for _, e := range B.Edges {
		base, elems, ok := c.appendChain(e)
		if ok && base == ssa.Value(B) && len(elems) == 1 && elems[0].Single != nil {
			if or, isOr := elems[0].Single.(*ssa.BinOp); isOr && or.Op == token.OR {
				kk, isK := constInt(or.Y)
				if isK && kk == 0x80 && isByteOf(or.X, N) {
					okStep = true
					continue
				}
			}
			return "a loop iteration does not append byte(n)|0x80", true
		}
		if c.isFreshEmptySlice(e) {
			okInit = true
			continue
		}
		if mk, isMk := e.(*ssa.MakeSlice); isMk {
			if l, ok := constInt(mk.Len); ok && l == 0 {
				okInit = true
				continue
			}
		}
		if sl, isSl := e.(*ssa.Slice); isSl {
			if h, ok := constInt(sl.High); ok && h == 0 {
				okInit = true
				continue
			}
		}
		return "the byte slice does not start empty", true
	}
	if !okInit || !okStep {
		return "the byte slice is not built as empty + one byte per iteration", true
	}
	for _, ret := range returnsOf(f) {
		base, elems, ok := c.appendChain(ret.Results[0])
		if !ok || base != ssa.Value(B) || len(elems) != 1 || elems[0].Single == nil || !isByteOf(elems[0].Single, N) {
			return "the result is not the accumulated bytes followed by byte(n) of the remaining value", true
		}
	}
	// overflow guard on the parameter before the loop
	guarded := false
	for _, b := range f.Blocks {
		g := blockIf(b)
		if g == nil {
			continue
		}
		gb, ok := g.Cond.(*ssa.BinOp)
		if !ok || gb.X != ssa.Value(n) {
			continue
		}
		gk, isK := constInt(gb.Y)
		if !isK {
			continue
		}
		edge := -1
		switch {
		case gb.Op == token.GTR && gk == 0xFFFFFFF, gb.Op == token.GEQ && gk == 0x10000000:
			edge = 1
		case gb.Op == token.LEQ && gk == 0xFFFFFFF, gb.Op == token.LSS && gk == 0x10000000:
			edge = 0
		}
		if edge >= 0 && DominatedByEdge(f, hdr.Instrs[0], b, edge, PathQ{}) {
			guarded = true
		}
	}
	if !guarded {
		return "lengths above 268435455 are not rejected before encoding (a fifth byte would be emitted)", true
	}
	return "", true
}

// literalPackSite: T.Pack builds a fixed-size packet as a byte-slice literal instead of calling pack():
// [header, remaining length, body...]. The header byte is checked like that of a pack site, the length byte must be the
// constant number of body bytes (< 128: one length byte), and the body is decomposed like an operand of pack.
func (c *Ctx) literalPackSite(r2, r4 *RuleRep, t string) bool {
	f := c.Method(t, "Pack")
	if f == nil || f.Blocks == nil {
		return false
	}
	rets := returnsOf(f)
	if len(rets) != 1 || len(rets[0].Results) != 1 {
		return false
	}
	// the bytes of the returned slice: a literal, or a chain of appends / append helpers onto an empty buffer
	dc := c.newChain()
	chain := dc.decompose(c.Resolve(rets[0].Results[0]))
	if dc.err != "" || len(chain) < 2 {
		return false
	}
	var elems []ssa.Value
	for _, it := range chain[:2] {
		if it.Kind != "byte" || it.Val == nil {
			return false
		}
		elems = append(elems, it.Val)
	}
	bodyItems := chain[2:]
	bodyLen := int64(0)
	for _, it := range bodyItems {
		switch it.Kind {
		case "byte":
			bodyLen++
		case "uint16":
			bodyLen += 2
		default:
			return false // not a fixed-size packet
		}
	}
	pos := rets[0].Pos()
	key := FuncName(f) + "/header"
	cc := c.newChain()
	base, items, ok := cc.decomposeOr(elems[0])
	if !ok {
		r2.Undecided(key, pos, "cannot decompose the fixed-header byte (%s)", cc.err)
		return true
	}
	want := specHeader[t]
	total := base
	cond := false
	for _, it := range items {
		if it.Cond != nil || len(it.Alt) > 0 {
			cond = true
		}
		total |= it.Mask
	}
	switch {
	case cond:
		r2.Bad(key, pos, "the fixed header of %s depends on a condition", t)
	case total != want:
		r2.Bad(key, pos, "%s is packed with fixed-header byte 0x%02X; MQTT 3.1.1 requires 0x%02X (type nibble and reserved flag bits)", t, total, want)
	default:
		r2.OK(key, pos, "fixed header 0x%02X", total)
	}
	n, isK := constInt(elems[1])
	if !isK || n != bodyLen || bodyLen > 0x7F {
		r2.Bad(FuncName(f)+"/length", pos, "the remaining-length byte of the literal %s packet is not the constant number of bytes that follow it (%d)", t, bodyLen)
		return true
	}
	r2.OK(FuncName(f)+"/length", pos, "remaining length %d = number of body bytes of the literal", n)
	its := c.fuseUint16(bodyItems)
	got := c.renderItems(its)
	wantBody := ""
	switch t {
	case "pktPubAck", "pktPubRec", "pktPubRel", "pktPubComp":
		wantBody = "uint16:ID"
	default:
		r4.Undecided(FuncName(f)+"/body", pos, "literal packet of a kind whose body is not fixed-size")
		return true
	}
	if matchPattern(wantBody, got) {
		r4.OK(FuncName(f)+"/body", pos, "[%s]", got)
	} else {
		r4.Bad(FuncName(f)+"/body", pos, "body of %s is [%s]; MQTT 3.1.1 order is [%s]", t, got, wantBody)
	}
	return true
}

// fuseUint16: byte(v>>8), byte(v) for the same 16-bit v is the big-endian encoding of v.
func (c *Ctx) fuseUint16(its []bItem) []bItem {
	var same func(a, b ssa.Value) bool
	same = func(a, b ssa.Value) bool {
		if a == b || c.Resolve(a) == c.Resolve(b) {
			return true
		}
		la, ok1 := a.(*ssa.UnOp)
		lb, ok2 := b.(*ssa.UnOp)
		if !ok1 || !ok2 || la.Op != token.MUL || lb.Op != token.MUL {
			return false
		}
		fa, ok1 := la.X.(*ssa.FieldAddr)
		fb, ok2 := lb.X.(*ssa.FieldAddr)
		if !ok1 || !ok2 || fa.Field != fb.Field || la.Block() != lb.Block() {
			return false
		}
		if c.Resolve(fa.X) != c.Resolve(fb.X) && !same(fa.X, fb.X) {
			return false // (p.Message.ID twice: the inner loads of p.Message are compared the same way)
		}
		// no store or call between the two loads
		i, j := instrIndex(la), instrIndex(lb)
		if i > j {
			i, j = j, i
		}
		for _, in := range la.Block().Instrs[i:j] {
			switch y := in.(type) {
			case *ssa.Store:
				// a store into the literal under construction cannot change the field
				root := y.Addr
				for {
					if ia, ok := root.(*ssa.IndexAddr); ok {
						root = ia.X
						continue
					}
					if f2, ok := root.(*ssa.FieldAddr); ok {
						root = f2.X
						continue
					}
					break
				}
				if al, ok := root.(*ssa.Alloc); !ok || al.Parent() != la.Parent() {
					return false
				}
			case *ssa.Call:
				if _, isB := y.Call.Value.(*ssa.Builtin); !isB {
					return false
				}
			}
		}
		return true
	}
	hi := func(v ssa.Value) (ssa.Value, bool) {
		cv, ok := v.(*ssa.Convert)
		if !ok {
			return nil, false
		}
		sh, ok := cv.X.(*ssa.BinOp)
		if !ok || sh.Op != token.SHR {
			return nil, false
		}
		if k, ok := constInt(sh.Y); !ok || k != 8 {
			return nil, false
		}
		if w, isU := unsignedWidth(sh.X.Type()); !isU || w != 16 {
			return nil, false
		}
		return sh.X, true
	}
	lo := func(v ssa.Value) (ssa.Value, bool) {
		cv, ok := v.(*ssa.Convert)
		if !ok {
			return nil, false
		}
		x := cv.X
		if m, ok := x.(*ssa.BinOp); ok && m.Op == token.AND {
			if k, ok := constInt(m.Y); ok && k == 0xFF {
				x = m.X
			}
		}
		if w, isU := unsignedWidth(x.Type()); !isU || w != 16 {
			return nil, false
		}
		return x, true
	}
	var out []bItem
	for i := 0; i < len(its); i++ {
		if i+1 < len(its) && its[i].Kind == "byte" && its[i+1].Kind == "byte" {
			if h, ok := hi(its[i].Val); ok {
				if l, ok := lo(its[i+1].Val); ok && same(h, l) {
					out = append(out, bItem{Kind: "uint16", Val: h})
					i++
					continue
				}
			}
		}
		out = append(out, its[i])
	}
	return out
}

// writesFieldsOf: f stores into a field of the named struct type (other than into a struct it has just allocated itself).
func (c *Ctx) writesFieldsOf(f *ssa.Function, typ string) bool {
	found := false
	eachInstr(f, func(in ssa.Instruction) {
		st, ok := in.(*ssa.Store)
		if !ok {
			return
		}
		fa, ok := st.Addr.(*ssa.FieldAddr)
		if !ok || typeName(fa.X.Type()) != typ {
			return
		}
		if al, isAl := fa.X.(*ssa.Alloc); isAl && al.Parent() == f {
			return
		}
		found = true
	})
	return found
}

// resultIndexOf: the index of f's (first) result of the given basic type name; -1 if none. The decoding helpers return the
// number of bytes consumed (int) next to the decoded value, in either order.
func resultIndexOf(f *ssa.Function, typ string) int {
	if f == nil {
		return -1
	}
	res := f.Signature.Results()
	for i := 0; i < res.Len(); i++ {
		if types.TypeString(res.At(i).Type(), nil) == typ {
			return i
		}
	}
	return -1
}

// headerOperand: the value a header byte is taken from: conversions and the packetType.b() accessor are looked through.
func (c *Ctx) headerOperand(v ssa.Value) ssa.Value {
	for i := 0; i < 6; i++ {
		switch x := v.(type) {
		case *ssa.Convert:
			v = x.X
			continue
		case *ssa.ChangeType:
			v = x.X
			continue
		case *ssa.Call:
			if g := c.StaticCalleeOf(&x.Call); g != nil && g.Name() == "b" && len(x.Call.Args) == 1 && g.Signature.Recv() != nil && typeName(g.Signature.Recv().Type()) == "packetType" {
				v = x.Call.Args[0]
				continue
			}
		}
		break
	}
	return v
}

// parseParams: the parameters of a packet parser by type — the flag nibble of the fixed header is the one
// parameter of type byte, the remaining bytes the one parameter of type []byte.
func parseParams(p *ssa.Function) (flag, contents *ssa.Parameter) {
	nf, nc := 0, 0
	for i, par := range p.Params {
		if i == 0 && p.Signature.Recv() != nil {
			continue
		}
		switch t := par.Type().(type) {
		case *types.Basic:
			if t.Kind() == types.Uint8 {
				flag = par
				nf++
			}
		case *types.Slice:
			if b, ok := t.Elem().(*types.Basic); ok && b.Kind() == types.Uint8 {
				contents = par
				nc++
			}
		}
	}
	if nf != 1 {
		flag = nil
	}
	if nc != 1 {
		contents = nil
	}
	return
}

type cmpFact struct {
	Bin   *ssa.BinOp
	Holds bool
}

// impliedComparisons: the comparisons whose truth follows from cond having the value `truth`: the comparison itself, the
// operand of a negation, and for a short-circuit value (a phi of constants and one computed operand) the computed operand
// when the constants are the other value (`a && b` true: b holds; `a || b` false: b does not).
func impliedComparisons(cond ssa.Value, truth bool, depth int) []cmpFact {
	if depth > 4 {
		return nil
	}
	switch x := cond.(type) {
	case *ssa.BinOp:
		switch x.Op {
		case token.EQL, token.NEQ, token.LSS, token.LEQ, token.GTR, token.GEQ:
			return []cmpFact{{x, truth}}
		}
	case *ssa.UnOp:
		if x.Op == token.NOT {
			return impliedComparisons(x.X, !truth, depth+1)
		}
	case *ssa.Phi:
		var rest []ssa.Value
		for _, e := range x.Edges {
			if k, isK := constBool(e); isK {
				if k == truth {
					return nil // the constant edges can produce this value on their own
				}
				continue
			}
			rest = append(rest, e)
		}
		if len(rest) == 1 {
			return impliedComparisons(rest[0], truth, depth+1)
		}
	}
	return nil
}

func negateCmp(op token.Token) token.Token {
	switch op {
	case token.EQL:
		return token.NEQ
	case token.NEQ:
		return token.EQL
	case token.LSS:
		return token.GEQ
	case token.LEQ:
		return token.GTR
	case token.GTR:
		return token.LEQ
	case token.GEQ:
		return token.LSS
	}
	return op
}

// mirrorCmp: the comparison with its operands exchanged (a < b  ==  b > a).
func mirrorCmp(op token.Token) token.Token {
	switch op {
	case token.LSS:
		return token.GTR
	case token.GTR:
		return token.LSS
	case token.LEQ:
		return token.GEQ
	case token.GEQ:
		return token.LEQ
	}
	return op
}

// constTable: the entries of a package-level array that is only ever read (indexed for loads, len) and filled by its own
// initialiser with constants: entry k -> value (entries the initialiser leaves out are zero), and the array's length.
func (c *Ctx) constTable(g *ssa.Global) (map[int64]int64, int, bool) {
	if g.Pkg != c.Pkg {
		return nil, 0, false
	}
	arr, ok := g.Type().(*types.Pointer).Elem().Underlying().(*types.Array)
	if !ok {
		return nil, 0, false
	}
	if c.tableCache == nil {
		c.tableCache = map[*ssa.Global]map[int64]int64{}
		c.tableBad = map[*ssa.Global]bool{}
		for _, f := range c.Funcs {
			isInit := f.Name() == "init" && f.Synthetic != ""
			for _, b := range f.Blocks {
				for _, in := range b.Instrs {
					var ops [12]*ssa.Value
					for _, op := range in.Operands(ops[:0]) {
						gg, ok := (*op).(*ssa.Global)
						if !ok || gg.Pkg != c.Pkg {
							continue
						}
						if _, isArr := gg.Type().(*types.Pointer).Elem().Underlying().(*types.Array); !isArr {
							continue
						}
						ia, isIA := in.(*ssa.IndexAddr)
						if !isIA || ia.X != ssa.Value(gg) {
							if _, isDbg := in.(*ssa.DebugRef); !isDbg {
								c.tableBad[gg] = true // its address or value goes somewhere else
							}
							continue
						}
						for _, u := range *ia.Referrers() {
							switch y := u.(type) {
							case *ssa.UnOp, *ssa.DebugRef:
							case *ssa.Store:
								k, isK := constInt(ia.Index)
								v, isV := constInt(y.Val)
								if y.Addr != ssa.Value(ia) || !isInit || !isK || !isV {
									c.tableBad[gg] = true
									continue
								}
								if c.tableCache[gg] == nil {
									c.tableCache[gg] = map[int64]int64{}
								}
								c.tableCache[gg][k] = v
							default:
								c.tableBad[gg] = true
							}
						}
					}
				}
			}
		}
	}
	if c.tableBad[g] {
		return nil, 0, false
	}
	t := c.tableCache[g]
	if t == nil {
		t = map[int64]int64{}
	}
	return t, int(arr.Len()), true
}

// ruleDupDecidedBeforePack: in the publish implementation every Pack of the PUBLISH is dominated by the assignment of
// Message.Dup (what a retried message object carries from its previous transmission must not reach the wire).
func (c *Ctx) ruleDupDecidedBeforePack(rr *RuleRep) {
	pub := c.Func("publishImpl")
	if pub == nil {
		if m := c.Method("BaseClient", "Publish"); m != nil {
			for _, g := range c.calleesOf(m, false) {
				if g.Name() != "ValidateMessage" {
					pub = g
				}
			}
		}
	}
	packP := c.Method("pktPublish", "Pack")
	if pub == nil || packP == nil {
		rr.Lost("publishImpl/pktPublish.Pack", "publish implementation or PUBLISH packer not found")
		return
	}
	var stores []ssa.Instruction
	eachInstr(pub, func(in ssa.Instruction) {
		if st, ok := in.(*ssa.Store); ok {
			if _, isDup := isFieldAddr(st.Addr, "Message", "Dup"); isDup {
				stores = append(stores, in)
			}
		}
	})
	n := 0
	eachInstr(pub, func(x ssa.Instruction) {
		if !c.isCallTo(x, packP) {
			return
		}
		n++
		key := FuncName(pub) + "/dup-before-pack"
		if len(stores) > 0 && Dominated(pub, x, func(y ssa.Instruction) bool {
			for _, st := range stores {
				if y == st {
					return true
				}
			}
			return false
		}, PathQ{}) {
			rr.OK(key, x.Pos(), "Message.Dup is assigned on every path before the PUBLISH is packed")
		} else {
			rr.Bad(key, x.Pos(), "the PUBLISH is packed on a path on which Message.Dup has not been assigned yet: the DUP bit on the wire is whatever the message object carried before (a retransmission without DUP, or a first transmission with it)")
		}
	})
	if n == 0 {
		rr.Lost(FuncName(pub)+"/dup-before-pack", "no PUBLISH is packed in the publish implementation")
	}
}
