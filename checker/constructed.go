package main

import (
	"fmt"
	"go/token"
	"go/types"

	"golang.org/x/tools/go/ssa"
)

// constructedFieldValue: the value a load of p.k0.k1… yields when p points to an unexported struct type of the library all
// of whose objects are built by composite literals that give field k0 the same context-free value (a function, a constant),
// and nothing writes the field afterwards or takes its address for anything but loads. Used for seams such as
// `timing: reconnectTiming{after: time.After, keepAlive: KeepAlive}`: the library as shipped calls exactly these functions.
func (c *Ctx) constructedFieldValue(ld *ssa.UnOp) ssa.Value {
	if ld.Op != token.MUL {
		return nil
	}
	if v, ok := c.constructedCache[ld]; ok {
		return v
	}
	if c.constructedCache == nil {
		c.constructedCache = map[*ssa.UnOp]ssa.Value{}
	}
	c.constructedCache[ld] = nil // cycles
	v := c.constructedFieldValue1(ld)
	c.constructedCache[ld] = v
	return v
}

func (c *Ctx) constructedFieldValue1(ld *ssa.UnOp) ssa.Value {
	// address = FieldAddr(…FieldAddr(p, k0)…, kn), the inner structs held by value
	var path []int
	addr := ld.X
	for {
		fa, ok := addr.(*ssa.FieldAddr)
		if !ok {
			break
		}
		path = append([]int{fa.Field}, path...)
		addr = fa.X
	}
	if len(path) == 0 || len(path) > 3 {
		return nil
	}
	pt, ok := addr.Type().Underlying().(*types.Pointer)
	if !ok {
		return nil
	}
	root, ok := pt.Elem().(*types.Named)
	if !ok || root.Obj().Pkg() != c.Pkg.Pkg || root.Obj().Exported() {
		return nil
	}
	if _, isAlloc := addr.(*ssa.Alloc); isAlloc {
		return nil // a local object: its own stores say what it holds
	}
	if !c.fieldReadOnlyAfterConstruction(root, path[0]) || c.heldByValueElsewhere(root) {
		return nil
	}
	var result ssa.Value
	n := 0
	for _, f := range c.Funcs {
		for _, b := range f.Blocks {
			for _, in := range b.Instrs {
				al, ok := in.(*ssa.Alloc)
				if !ok || !types.Identical(al.Type().(*types.Pointer).Elem(), root) {
					continue
				}
				n++
				var st *ssa.Store
				k := 0
				whole := false
				for _, u := range *al.Referrers() {
					switch x := u.(type) {
					case *ssa.FieldAddr:
						if x.Field != path[0] {
							continue
						}
						for _, uu := range *x.Referrers() {
							if s, ok := uu.(*ssa.Store); ok && s.Addr == ssa.Value(x) {
								st = s
								k++
							}
						}
					case *ssa.Store:
						if x.Addr == ssa.Value(al) {
							whole = true
						}
					}
				}
				if whole || k != 1 {
					return nil
				}
				v := st.Val
				for _, fk := range path[1:] {
					v = c.fieldOfStructValue(v, fk)
					if v == nil {
						return nil
					}
				}
				v = c.Resolve(v)
				switch v.(type) {
				case *ssa.Function, *ssa.Const:
				default:
					return nil
				}
				if result == nil {
					result = v
				} else if !sameConstLike(result, v) {
					return nil
				}
			}
		}
	}
	if n == 0 {
		return nil
	}
	return result
}

func sameConstLike(a, b ssa.Value) bool {
	if a == b {
		return true
	}
	ka, ok1 := a.(*ssa.Const)
	kb, ok2 := b.(*ssa.Const)
	if !ok1 || !ok2 || !types.Identical(ka.Type(), kb.Type()) {
		return false
	}
	if ka.Value == nil || kb.Value == nil {
		return ka.Value == nil && kb.Value == nil
	}
	return ka.Value.ExactString() == kb.Value.ExactString()
}

// fieldOfStructValue: field k of the struct value v, when v is the content of a local that was filled field by field
// (a composite literal), possibly copied through other locals.
func (c *Ctx) fieldOfStructValue(v ssa.Value, k int) ssa.Value {
	for i := 0; i < 8; i++ {
		ld, ok := c.Resolve(v).(*ssa.UnOp)
		if !ok || ld.Op != token.MUL {
			return nil
		}
		al, ok := ld.X.(*ssa.Alloc)
		if !ok || c.escapesOtherwise(al) {
			return nil
		}
		var val ssa.Value
		n := 0
		var whole *ssa.Store
		nw := 0
		for _, u := range *al.Referrers() {
			switch x := u.(type) {
			case *ssa.FieldAddr:
				for _, uu := range *x.Referrers() {
					if s, ok := uu.(*ssa.Store); ok && s.Addr == ssa.Value(x) {
						if x.Field == k {
							val = s.Val
							n++
						}
					} else if _, isLoad := uu.(*ssa.UnOp); !isLoad {
						if _, isDbg := uu.(*ssa.DebugRef); !isDbg {
							return nil
						}
					}
				}
			case *ssa.Store:
				if x.Addr == ssa.Value(al) {
					whole = x
					nw++
				}
			}
		}
		switch {
		case nw == 0 && n == 1:
			return val
		case nw == 1 && n == 0:
			v = whole.Val
			continue
		}
		return nil
	}
	return nil
}

// fieldReadOnlyAfterConstruction: field k of T is stored only into objects the storing function has just allocated, and
// its address (or the address of a part of it) is used for loads only.
func (c *Ctx) fieldReadOnlyAfterConstruction(named *types.Named, k int) bool {
	ck := fmt.Sprintf("ro:%s#%d", named.String(), k)
	if v, done := c.constructedBool[ck]; done {
		return v
	}
	if c.constructedBool == nil {
		c.constructedBool = map[string]bool{}
	}
	v := c.fieldReadOnlyAfterConstruction1(named, k)
	c.constructedBool[ck] = v
	return v
}

func (c *Ctx) fieldReadOnlyAfterConstruction1(named *types.Named, k int) bool {
	ok := true
	var loadsOnly func(v ssa.Value, depth int) bool
	loadsOnly = func(v ssa.Value, depth int) bool {
		refs := v.Referrers()
		if refs == nil || depth > 4 {
			return false
		}
		for _, u := range *refs {
			switch y := u.(type) {
			case *ssa.UnOp, *ssa.DebugRef:
			case *ssa.FieldAddr:
				if !loadsOnly(y, depth+1) {
					return false
				}
			default:
				return false
			}
		}
		return true
	}
	for _, f := range c.Funcs {
		eachInstr(f, func(in ssa.Instruction) {
			switch x := in.(type) {
			case *ssa.FieldAddr:
				pt, isP := x.X.Type().Underlying().(*types.Pointer)
				if !isP || x.Field != k || !types.Identical(pt.Elem(), named) {
					return
				}
				_, fresh := x.X.(*ssa.Alloc)
				for _, u := range *x.Referrers() {
					switch y := u.(type) {
					case *ssa.Store:
						if y.Addr != ssa.Value(x) || !fresh {
							ok = false
						}
					case *ssa.UnOp, *ssa.DebugRef:
					case *ssa.FieldAddr:
						if !loadsOnly(y, 0) {
							ok = false
						}
					default:
						ok = false
					}
				}
			case *ssa.Store:
				if types.Identical(x.Val.Type(), named) {
					if _, fresh := x.Addr.(*ssa.Alloc); !fresh {
						ok = false // *p = T{…} over an existing object
					}
				}
			}
		})
	}
	return ok
}

// heldByValueElsewhere: some type of the package holds a T by value (objects of T then come into being without an
// allocation of their own).
func (c *Ctx) heldByValueElsewhere(named *types.Named) bool {
	ck := "held:" + named.String()
	if v, done := c.constructedBool[ck]; done {
		return v
	}
	if c.constructedBool == nil {
		c.constructedBool = map[string]bool{}
	}
	v := c.heldByValueElsewhere1(named)
	c.constructedBool[ck] = v
	return v
}

func (c *Ctx) heldByValueElsewhere1(named *types.Named) bool {
	var holds func(t types.Type, depth int) bool
	holds = func(t types.Type, depth int) bool {
		if depth > 4 {
			return false
		}
		if types.Identical(t, named) {
			return true
		}
		switch x := t.(type) {
		case *types.Array:
			return holds(x.Elem(), depth+1)
		case *types.Slice:
			return holds(x.Elem(), depth+1)
		case *types.Map:
			return holds(x.Elem(), depth+1) || holds(x.Key(), depth+1)
		case *types.Chan:
			return holds(x.Elem(), depth+1)
		case *types.Struct:
			for i := 0; i < x.NumFields(); i++ {
				if holds(x.Field(i).Type(), depth+1) {
					return true
				}
			}
		}
		return false
	}
	sc := c.Pkg.Pkg.Scope()
	for _, nm := range sc.Names() {
		tn, ok := sc.Lookup(nm).(*types.TypeName)
		if !ok || tn.Type() == types.Type(named) {
			continue
		}
		if holds(tn.Type().Underlying(), 0) {
			return true
		}
	}
	// values created by make / conversions / zero-valued locals of type T
	for _, f := range c.Funcs {
		bad := false
		eachInstr(f, func(in ssa.Instruction) {
			switch x := in.(type) {
			case *ssa.MakeSlice, *ssa.MakeMap, *ssa.MakeChan:
				if holds(x.(ssa.Value).Type().Underlying(), 0) {
					bad = true
				}
			}
		})
		if bad {
			return true
		}
	}
	return false
}
