package main

import (
	"go/token"
	"go/types"

	"golang.org/x/tools/go/ssa"
)

func init() {
	register("C16", "Decided: R-C16-1 Disconnected is absorbing and the state callback fires only on a change, after the lock is released, with the state just stored and the error read in the same critical section; connState is written only by connStateUpdate; R-C16-2 who reports what: Active only from Connect on an accepting CONNACK, Closed only from the reader goroutine, Disconnected only from Disconnect and before DISCONNECT is written; R-C16-3 reader exit: the error is recorded (unless Disconnected, tested under the lock) before Closed is reported and before Done() is closed; R-C16-4 SetErrorOnce keeps the first error, is the only writer of err, and is called only by the reader goroutine on its own client and by the keep-alive goroutine on the client it watches, before that client is closed; R-C16-5 Done() returns the channel whose only close is the reader goroutine's; R-C16-6 when Disconnect is called the reconnect loop leaves the connection to the queued DISCONNECT (no Close on the `disconnected` path); within R-C16-4, the keep-alive goroutine records KeepAlive's result only while its own context is live. Not decided: interleavings of a user Close() with Disconnect(); what the peer does.", checkC16)
}

func (c *Ctx) stateConst(name string) (int64, bool) {
	v, _, ok := c.ConstVal(name)
	if !ok {
		return 0, false
	}
	return constantInt64(v)
}

func checkC16(r *Run) {
	c := r.C
	r1 := r.Rule("R-C16-1", "connStateUpdate: store guarded by `connState != StateDisconnected` under mu; callback only on change, outside the lock, with the stored state and the error read inside the lock; sole writer of connState")
	r2 := r.Rule("R-C16-2", "who reports what: Active <- Connect after accepting CONNACK; Closed <- reader goroutine; Disconnected <- Disconnect, before DISCONNECT is written")
	r3 := r.Rule("R-C16-3", "reader exit: SetErrorOnce (guarded by state != Disconnected under mu) precedes connStateUpdate(Closed) and close(Done)")
	r4 := r.Rule("R-C16-4", "SetErrorOnce: first error wins under muErr, sole writer of err; callers: reader goroutine (own client), keep-alive goroutine (watched client, before closing it)")
	r5 := r.Rule("R-C16-5", "Done() returns the connection-closed channel; its only close is the reader goroutine's (R-C11-4)")
	r2.Floor(3)
	r4.Floor(3)
	upd := c.Method("BaseClient", "connStateUpdate")
	if upd == nil {
		r1.Lost("(*BaseClient).connStateUpdate", "not found")
		return
	}
	disc, ok1 := c.stateConst("StateDisconnected")
	act, ok2 := c.stateConst("StateActive")
	closed, ok3 := c.stateConst("StateClosed")
	if !ok1 || !ok2 || !ok3 {
		r1.Lost("State constants", "StateActive/StateClosed/StateDisconnected not found")
		return
	}
	muF := c.structField("BaseClient", "mu")
	csF := c.structField("BaseClient", "connState")
	// --- R-C16-1
	for _, f := range c.Funcs {
		for _, st := range storesToField(f, csF) {
			key := FuncName(f) + "/connState"
			if f != upd {
				r1.Bad(key, st.Pos(), "connState is written outside connStateUpdate: the absorbing-Disconnected guard and the change callback are bypassed")
				continue
			}
			if st.Val != ssa.Value(upd.Params[1]) {
				r1.Bad(key, st.Pos(), "connStateUpdate stores something other than the requested state")
				continue
			}
			dom := false
			for _, b := range upd.Blocks {
				iff := blockIf(b)
				if iff == nil {
					continue
				}
				bin, ok := iff.Cond.(*ssa.BinOp)
				if !ok {
					continue
				}
				if _, isCS := isLoadOfField(bin.X, csF); !isCS {
					continue
				}
				k, isK := constInt(bin.Y)
				if !isK || k != disc {
					continue
				}
				edge := -1
				switch bin.Op {
				case token.NEQ:
					edge = 0
				case token.EQL:
					edge = 1
				}
				if edge >= 0 && DominatedByEdge(upd, st, b, edge, PathQ{}) && c.heldAt(upd, bin.X.(ssa.Instruction), upd.Params[0], muF, "w") {
					dom = true
				}
			}
			if dom && c.heldAt(upd, st, upd.Params[0], muF, "w") {
				r1.OK(key, st.Pos(), "state is stored only on the `connState != StateDisconnected` edge, test and store inside one c.mu critical section")
			} else {
				r1.Bad(key, st.Pos(), "the state can be overwritten after Disconnected was recorded (no dominating `!= StateDisconnected` test in the same critical section): a Closed would be reported after a graceful Disconnect")
			}
		}
	}
	// callback
	cbF := c.structField("BaseClient", "ConnState")
	nCB := 0
	eachInstr(upd, func(in ssa.Instruction) {
		k, ok := in.(*ssa.Call)
		if !ok || k.Call.IsInvoke() {
			return
		}
		if _, isCB := isLoadOfField(k.Call.Value, cbF); !isCB {
			return
		}
		nCB++
		key := "connStateUpdate/callback"
		la := c.locks()
		if len(la.at[in]) > 0 {
			r1.Bad(key, in.Pos(), "the state callback is invoked while holding %s: a callback that calls back into the client deadlocks", la.at[in])
			return
		}
		// args: state = load of connState after the store, err = Err() result obtained under the lock
		if len(k.Call.Args) != 2 {
			r1.Undecided(key, in.Pos(), "unexpected callback arity")
			return
		}
		stLoad := k.Call.Args[0]
		if _, isLd := stLoad.(*ssa.UnOp); !isLd {
			// through the single-assignment locals an inlined helper and a split result struct leave behind
			if r := c.Resolve(stLoad); r != nil {
				if _, ok := r.(ssa.Instruction); ok {
					stLoad = r
				}
			}
		}
		stateOK := false
		if _, isCS := isLoadOfField(stLoad, csF); isCS && c.heldAt(upd, stLoad.(ssa.Instruction), upd.Params[0], muF, "w") {
			stateOK = true
		} else if phi, isPhi := stLoad.(*ssa.Phi); isPhi {
			// the resulting state kept in a local: the requested state on the way that stored it, the state read under the
			// lock on the way that did not
			stores := storesToField(upd, csF)
			stateOK = len(stores) == 1
			for _, lf := range phiLeaves(phi, map[ssa.Value]bool{}) {
				if !stateOK || lf.Pred == nil || len(lf.Pred.Instrs) == 0 {
					stateOK = false
					break
				}
				last := lf.Pred.Instrs[len(lf.Pred.Instrs)-1]
				st := ssa.Instruction(stores[0])
				switch {
				case lf.V == ssa.Value(upd.Params[1]):
					if !Dominated(upd, last, func(x ssa.Instruction) bool { return x == st }, PathQ{}) {
						stateOK = false
					}
				default:
					ld, isLd := lf.V.(*ssa.UnOp)
					if _, isCS := isLoadOfField(lf.V, csF); !isLd || !isCS || !c.heldAt(upd, ld, upd.Params[0], muF, "w") {
						stateOK = false
						break
					}
					// no store between this read and the join on this way
					_, toStore := CanReach(upd, ld, func(x ssa.Instruction) bool { return x == st }, PathQ{})
					_, storeToJoin := CanReach(upd, st, func(x ssa.Instruction) bool { return x == last }, PathQ{})
					if toStore && (storeToJoin || st == last) {
						stateOK = false
					}
				}
			}
		}
		if !stateOK {
			r1.Bad(key, in.Pos(), "the callback does not report the state read inside the critical section (it reports %s)", describeVal(stLoad))
			return
		}
		errCall, callee := c.asCall(k.Call.Args[1])
		errOK := errCall != nil && callee == c.Method("BaseClient", "Err") && c.heldAt(upd, errCall, upd.Params[0], muF, "w")
		if !errOK {
			// Err() written out: the err field loaded under its own lock, inside the same critical section
			if ld, isLd := c.Resolve(k.Call.Args[1]).(*ssa.UnOp); isLd {
				if base, isErr := isFieldLoad(ld, "BaseClient", "err"); isErr && c.Resolve(base) == ssa.Value(upd.Params[0]) {
					muErrF := c.structField("BaseClient", "muErr")
					if muErrF != nil && c.heldAt(upd, ld, upd.Params[0], muF, "w") && c.heldAt(upd, ld, upd.Params[0], muErrF, "r") {
						errOK = true
					}
				}
			}
		}
		if !errOK {
			r1.Bad(key, in.Pos(), "the callback's error is not Err() read in the same critical section as the state")
			return
		}
		// dominated by lastState != state
		dom := false
		for _, b := range upd.Blocks {
			iff := blockIf(b)
			if iff == nil {
				continue
			}
			bin, ok := iff.Cond.(*ssa.BinOp)
			if !ok || (bin.Op != token.NEQ && bin.Op != token.EQL) {
				continue
			}
			_, xCS := isLoadOfField(bin.X, csF)
			_, yCS := isLoadOfField(bin.Y, csF)
			if !(xCS || bin.X == stLoad) || !(yCS || bin.Y == stLoad) {
				continue
			}
			// one operand is the reported state: the very load passed to the callback, or another load of the field in the
			// same critical section with no store to it in between
			sameAsReported := func(v ssa.Value) bool {
				if v == stLoad {
					return true
				}
				ld, ok := v.(*ssa.UnOp)
				if !ok || !c.heldAt(upd, ld, upd.Params[0], muF, "w") {
					return false
				}
				b1, _ := isLoadOfField(v, csF)
				b2, _ := isLoadOfField(stLoad, csF)
				if c.Resolve(b1) != c.Resolve(b2) {
					return false
				}
				for _, st := range storesToField(upd, csF) {
					is := func(t ssa.Instruction) func(ssa.Instruction) bool {
						return func(x ssa.Instruction) bool { return x == t }
					}
					_, a1 := CanReach(upd, ld, is(st), PathQ{})
					_, a2 := CanReach(upd, st, is(stLoad.(ssa.Instruction)), PathQ{})
					_, b1 := CanReach(upd, stLoad.(ssa.Instruction), is(st), PathQ{})
					_, b2 := CanReach(upd, st, is(ld), PathQ{})
					if (a1 && a2) || (b1 && b2) {
						return false
					}
				}
				return true
			}
			var other ssa.Value
			switch {
			case sameAsReported(bin.X):
				other = bin.Y
			case sameAsReported(bin.Y):
				other = bin.X
			default:
				continue
			}
			// `other` is the load taken before the store
			if _, isLoad := isLoadOfField(other, csF); !isLoad {
				continue
			}
			before := true
			for _, st := range storesToField(upd, csF) {
				if _, found := CanReach(upd, st, func(x ssa.Instruction) bool { return x == other.(ssa.Instruction) }, PathQ{}); found {
					before = false
				}
			}
			edge := 0
			if bin.Op == token.EQL {
				edge = 1
			}
			if before && DominatedByEdge(upd, in, b, edge, PathQ{}) {
				dom = true
			}
		}
		if dom {
			r1.OK(key, in.Pos(), "callback(state, err) only when the state changed, after c.mu was released")
		} else {
			r1.Bad(key, in.Pos(), "the state callback is not restricted to real changes of the state: the same state can be reported twice")
		}
	})
	if nCB == 0 {
		r1.Bad("connStateUpdate/callback", upd.Pos(), "connStateUpdate never invokes the ConnState callback")
	}

	// --- R-C16-2 call sites
	conn := c.Method("BaseClient", "Connect")
	discM := c.Method("BaseClient", "Disconnect")
	write := c.Method("BaseClient", "write")
	var reader *ssa.Function
	if conn != nil {
		eachInstr(conn, func(in ssa.Instruction) {
			if g, ok := in.(*ssa.Go); ok {
				reader = c.StaticCalleeOf(&g.Call)
			}
		})
	}
	seenKinds := map[int64]int{}
	for _, f := range c.Funcs {
		eachInstr(f, func(in ssa.Instruction) {
			k, ok := in.(*ssa.Call)
			if !ok || c.StaticCalleeOf(&k.Call) != upd {
				return
			}
			key := FuncName(f) + "/connStateUpdate"
			v, isK := constInt(k.Call.Args[1])
			if !isK {
				r2.Bad(key, in.Pos(), "connStateUpdate is called with a non-constant state")
				return
			}
			seenKinds[v]++
			switch v {
			case act:
				if f != conn {
					r2.Bad(key, in.Pos(), "Active is reported outside BaseClient.Connect")
					return
				}
				// dominated by the accepting edge of connAck.Code != ConnectionAccepted, connAck received from the CONNACK waiter
				dom := false
				for _, b := range conn.Blocks {
					iff := blockIf(b)
					if iff == nil {
						continue
					}
					bin, ok := iff.Cond.(*ssa.BinOp)
					if !ok {
						continue
					}
					base, isCode := isFieldLoad(bin.X, "pktConnAck", "Code")
					kk, isKK := constInt(bin.Y)
					if !isCode || !isKK || kk != 0 {
						continue
					}
					// base = value received from the select (extract of Select)
					if ex, ok := c.ResolveAt(base, iff).(*ssa.Extract); !ok || func() bool { _, isSel := ex.Tuple.(*ssa.Select); return !isSel }() {
						continue
					}
					edge := -1
					switch bin.Op {
					case token.NEQ:
						edge = 1
					case token.EQL:
						edge = 0
					}
					if edge >= 0 && DominatedByEdge(conn, in, b, edge, PathQ{}) {
						dom = true
					}
				}
				if dom {
					r2.OK(key, in.Pos(), "Active only after a received CONNACK with Code == ConnectionAccepted")
				} else {
					r2.Bad(key, in.Pos(), "Active is reported without a dominating test that the received CONNACK accepted the connection")
				}
			case closed:
				if f != reader || reader == nil {
					r2.Bad(key, in.Pos(), "Closed is reported outside the reader goroutine")
				} else {
					r2.OK(key, in.Pos(), "Closed is reported by the reader goroutine only")
				}
			case disc:
				if f != discM {
					r2.Bad(key, in.Pos(), "Disconnected is reported outside BaseClient.Disconnect")
					return
				}
				okAll := true
				eachInstr(discM, func(x ssa.Instruction) {
					if c.isCallTo(x, write) {
						if !Dominated(discM, x, func(y ssa.Instruction) bool { return y == in }, PathQ{}) {
							okAll = false
						}
					}
				})
				if okAll {
					r2.OK(key, in.Pos(), "Disconnected is recorded before the DISCONNECT packet is written")
				} else {
					r2.Bad(key, in.Pos(), "DISCONNECT can be written before the state is Disconnected: if the peer closes at once, the reader goroutine still sees Active, records EOF as an error and reports Closed after a graceful Disconnect")
				}
			default:
				r2.Bad(key, in.Pos(), "connStateUpdate called with unexpected state %d", v)
			}
		})
	}
	for _, k := range []int64{act, closed, disc} {
		if seenKinds[k] == 0 {
			r2.Bad("connStateUpdate/missing", upd.Pos(), "state %d is never reported", k)
		}
	}

	// --- R-C16-3 / R-C16-4
	setErr := c.Method("BaseClient", "SetErrorOnce")
	errF := c.structField("BaseClient", "err")
	muErr := c.structField("BaseClient", "muErr")
	if setErr == nil || errF == nil {
		r4.Lost("(*BaseClient).SetErrorOnce", "not found")
		return
	}
	for _, f := range c.Funcs {
		for _, st := range storesToField(f, errF) {
			key := FuncName(f) + "/err"
			if f != setErr {
				// SetErrorOnce's body written out where it was called (same test, same lock): judged as a record below
				inline := false
				for _, r := range c.errRecords(f) {
					if r.Inline == st {
						inline = true
					}
				}
				if inline {
					r4.OK(key, st.Pos(), "err is stored only when still nil, under muErr (SetErrorOnce written out)")
					continue
				}
				r4.Bad(key, st.Pos(), "BaseClient.err is written outside SetErrorOnce")
				continue
			}
			dom := false
			for _, b := range setErr.Blocks {
				iff := blockIf(b)
				if iff == nil {
					continue
				}
				bin, ok := iff.Cond.(*ssa.BinOp)
				if !ok || !isNilConst(bin.Y) {
					continue
				}
				if _, isE := isLoadOfField(bin.X, errF); !isE {
					continue
				}
				edge := 0
				if bin.Op == token.NEQ {
					edge = 1
				}
				if DominatedByEdge(setErr, st, b, edge, PathQ{}) {
					dom = true
				}
			}
			if dom && st.Val == ssa.Value(setErr.Params[1]) && c.heldAt(setErr, st, setErr.Params[0], muErr, "w") {
				r4.OK(key, st.Pos(), "err is stored only when still nil, under muErr (first error wins)")
			} else {
				r4.Bad(key, st.Pos(), "SetErrorOnce can overwrite an error that was already recorded (or stores outside muErr)")
			}
		}
	}
	rm, _ := c.reconnModel()
	closeM := c.Method("BaseClient", "Close")
	serve := c.Method("BaseClient", "serve")
	for _, f := range c.Funcs {
		f := f
		for _, rec := range c.errRecords(f) {
			rec := rec
			func() {
				in := rec.At
				key := FuncName(f) + "/SetErrorOnce"
				switch {
				case f == reader && reader != nil:
					// own client
					if c.Resolve(rec.Cli) != ssa.Value(conn.Params[0]) {
						r4.Bad(key, in.Pos(), "the reader goroutine records its error on another client")
						return
					}
					r4.OK(key, in.Pos(), "reader goroutine records on its own client")
					// R-C16-3: guarded by state != Disconnected under mu; precedes Closed report and close(Done)
					dom := false
					for _, b := range reader.Blocks {
						iff := blockIf(b)
						if iff == nil {
							continue
						}
						bin, ok := iff.Cond.(*ssa.BinOp)
						if !ok {
							continue
						}
						if _, isCS := isLoadOfField(bin.X, csF); !isCS {
							continue
						}
						kk, isK := constInt(bin.Y)
						if !isK || kk != disc {
							continue
						}
						edge := 0
						if bin.Op == token.EQL {
							edge = 1
						}
						if DominatedByEdge(reader, in, b, edge, PathQ{}) && c.heldAt(reader, bin.X.(ssa.Instruction), conn.Params[0], muF, "r") {
							// the guard must be exact: SetErrorOnce on every path of that edge
							dst := b.Succs[edge]
							if _, ok := c.mustFollowFrom(reader, dst.Instrs[0], func(x ssa.Instruction) bool { return x == in }, nil); ok {
								dom = true
							}
						}
					}
					if !dom {
						r3.Bad(key+"/guard", in.Pos(), "the reader goroutine's SetErrorOnce is not exactly guarded by `connState != StateDisconnected` read under c.mu: either a graceful Disconnect ends with a non-nil Err(), or an unexpected end leaves Err() nil")
					} else {
						r3.OK(key+"/guard", in.Pos(), "error recorded iff the state is not Disconnected (tested under c.mu)")
					}
					// error value: result of serve() or of Close()
					ev := c.Resolve(rec.Val)
					okVal := false
					if phi, ok := ev.(*ssa.Phi); ok {
						okVal = true
						for _, e := range phi.Edges {
							call, callee := c.asCall(e)
							if call == nil {
								// the transport closed directly: c.Transport.Close()
								if k2, isCall := c.Resolve(e).(*ssa.Call); isCall && c.closesTransport(k2, 0) {
									continue
								}
								okVal = false
								continue
							}
							if callee != serve && callee != closeM && !c.closesTransport(call, 0) {
								okVal = false
							}
						}
					} else if call, callee := c.asCall(ev); call != nil && callee == serve {
						okVal = true
					}
					if okVal {
						r3.OK(key+"/value", in.Pos(), "the recorded error is what serve() (or Close()) returned")
					} else {
						r3.Bad(key+"/value", in.Pos(), "the recorded error is not the error that ended serve()")
					}
					// order
					eachInstr(reader, func(x ssa.Instruction) {
						kk, ok := x.(*ssa.Call)
						if !ok {
							return
						}
						isUpd := c.StaticCalleeOf(&kk.Call) == upd
						b, isB := kk.Call.Value.(*ssa.Builtin)
						isClose := isB && b.Name() == "close"
						if !isUpd && !isClose {
							return
						}
						what := "connStateUpdate(Closed)"
						if isClose {
							what = "close(Done)"
						}
						if _, found := CanReach(reader, x, func(y ssa.Instruction) bool { return y == in }, PathQ{}); found {
							r3.Bad(key+"/order", x.Pos(), "%s can run before the error is recorded: whoever observes it sees Err() == nil for a connection that failed (the reconnect loop takes that for a graceful end and stops)", what)
						} else {
							r3.OK(key+"/order", x.Pos(), "SetErrorOnce precedes %s", what)
						}
					})
				case rm != nil && f == rm.KeepAlive:
					// judged once below (also when the call is missing altogether)
				default:
					r4.Bad(key, in.Pos(), "SetErrorOnce is called from %s: only the reader goroutine and the keep-alive goroutine may record the connection error", FuncName(f))
				}
			}()
		}
	}
	c.ruleServeNeverNil(r3)
	if rm != nil {
		c.ruleKeepAliveReaction(r4, rm, "R-C16-4")
		c.ruleKeepAliveCtx(r4, rm)
		c.ruleLoopLeavesDisconnect(r.Rule("R-C16-6", "when Disconnect is called the reconnect loop leaves the connection to the queued DISCONNECT: it does not close the transport on the `disconnected` path (Closed with an error would be reported instead of Disconnected, and Err() would not stay nil)"), rm)
	}
	// --- R-C16-5
	if c.closedField() == nil {
		r5.Bad("(*BaseClient).Done", token.NoPos, "Done() does not return a channel field of the client")
	} else {
		r5.OK("(*BaseClient).Done", c.Method("BaseClient", "Done").Pos(), "Done() returns field %s", c.closedField().Name())
		c.ruleReaderExit(r5)
	}
}

// ruleKeepAliveReaction: in the keep-alive goroutine of the reconnect loop, on a non-nil KeepAlive result:
// SetErrorOnce on the watched client, then Close of the watched client.
func (c *Ctx) ruleKeepAliveReaction(rr *RuleRep, m *reconnModel, tag string) {
	g := m.KeepAlive
	if g == nil {
		rr.Lost("keep-alive goroutine", "not found")
		return
	}
	key := FuncName(g)
	ka := c.Func("KeepAlive")
	setErr := c.Method("BaseClient", "SetErrorOnce")
	closeM := c.Method("BaseClient", "Close")
	var kaCall, seCall, clCall *ssa.Call
	eachInstr(g, func(in ssa.Instruction) {
		k, ok := in.(*ssa.Call)
		if !ok {
			return
		}
		switch c.StaticCalleeOf(&k.Call) {
		case ka:
			kaCall = k
		case setErr:
			seCall = k
		case closeM:
			clCall = k
		}
	})
	if kaCall == nil {
		rr.Lost(key+"/KeepAlive", "keep-alive goroutine does not call KeepAlive")
		return
	}
	watched := c.Resolve(kaCall.Call.Args[1])
	if watched != m.Cli {
		rr.Bad(key+"/watched", kaCall.Pos(), "KeepAlive is not started for this iteration's own client")
		return
	}
	fails := nonNilEdges(g, kaCall)
	if len(fails) != 1 || clCall == nil {
		rr.Bad(key+"/close", kaCall.Pos(), "a keep-alive failure does not close the connection it watched: a silent peer is never replaced")
		return
	}
	if c.Resolve(clCall.Call.Args[0]) != watched || !DominatedByEdge(g, clCall, fails[0].B, fails[0].K, PathQ{}) {
		rr.Bad(key+"/close", clCall.Pos(), "on a keep-alive failure the goroutine closes a different client than the one it watched")
		return
	}
	// the goroutine's own context (the one KeepAlive was given): `if ctxKeepAlive.Err() != nil { return }` — the keep-alive
	// was stopped by the loop, which closes the connection itself; that way out needs no Close here
	kaCtx := c.Resolve(kaCall.Call.Args[0])
	var stopped, live []ifEdge
	for _, b := range g.Blocks {
		iff := blockIf(b)
		if iff == nil {
			continue
		}
		bin, ok := iff.Cond.(*ssa.BinOp)
		if !ok || (bin.Op != token.NEQ && bin.Op != token.EQL) || !isNilConst(bin.Y) {
			continue
		}
		k, ok := c.Resolve(bin.X).(*ssa.Call)
		if !ok || !k.Call.IsInvoke() || k.Call.Method.Name() != "Err" || c.Resolve(k.Call.Value) != kaCtx {
			continue
		}
		if bin.Op == token.NEQ {
			stopped, live = append(stopped, ifEdge{b, 0}), append(live, ifEdge{b, 1})
		} else {
			stopped, live = append(stopped, ifEdge{b, 1}), append(live, ifEdge{b, 0})
		}
	}
	isStopped := func(b *ssa.BasicBlock, k int) bool {
		for _, e := range stopped {
			if e.B == b && e.K == k {
				return true
			}
		}
		return false
	}
	if _, ok := c.mustFollowFrom(g, fails[0].B.Succs[fails[0].K].Instrs[0], func(x ssa.Instruction) bool { return x == ssa.Instruction(clCall) }, isStopped); !ok {
		rr.Bad(key+"/close", clCall.Pos(), "a path through the keep-alive failure branch does not close the watched connection")
		return
	}
	if tag != "R-C16-4" {
		// C13 / C09 need: watched client is this iteration's, a failure closes it — and the closed connection then reports a
		// non-nil Err(), or the loop takes the end for a graceful one and never redials. That holds when the goroutine records
		// KeepAlive's error before closing, or else when the reader goroutine records whatever non-nil error serve ended with.
		recorded := seCall != nil && c.Resolve(seCall.Call.Args[0]) == watched && c.errOrigin(seCall.Call.Args[1]) == ssa.Value(kaCall) &&
			Dominated(g, clCall, func(x ssa.Instruction) bool { return x == ssa.Instruction(seCall) }, PathQ{})
		if !recorded {
			if why := c.readerDropsServeError(); why != "" {
				rr.Bad(key+"/redial", clCall.Pos(), "after a keep-alive failure the connection is closed without recording the failure, and %s: Err() is nil after Done(), the reconnect loop takes the ping timeout for a graceful end and never establishes a new connection", why)
				return
			}
		}
		rr.OK(key, clCall.Pos(), "%s: KeepAlive(own client) != nil => Close(own client) on every path, with a non-nil error recorded", tag)
		return
	}
	if seCall == nil || c.Resolve(seCall.Call.Args[0]) != watched {
		pos := kaCall.Pos()
		if seCall != nil {
			pos = seCall.Pos()
		}
		rr.Bad(key+"/record", pos, "the keep-alive error is not recorded on the client the goroutine was started for: a stale keep-alive goroutine can put its error into a later, healthy connection")
		return
	}
	if c.errOrigin(seCall.Call.Args[1]) != ssa.Value(kaCall) {
		rr.Bad(key+"/record", seCall.Pos(), "the recorded error is not KeepAlive's result")
		return
	}
	// a keep-alive that was stopped (its context cancelled because the connection ended, gracefully or not, or the loop is
	// leaving) still gets an error from KeepAlive at the next tick: it must not be written into the connection — after a
	// graceful Disconnect Err() would turn non-nil one ping interval later
	if !c.keepAliveSilentWhenStopped(ka) {
		guarded := false
		for _, e := range live {
			if DominatedByEdge(g, seCall, e.B, e.K, PathQ{}) {
				guarded = true
			}
		}
		if !guarded {
			rr.Bad(key+"/stopped", seCall.Pos(), "the keep-alive goroutine records KeepAlive's error although its own context may have been cancelled: KeepAlive returns the context error at the tick after the connection has ended, so Err() of a gracefully disconnected connection becomes non-nil one ping interval after Disconnect")
			return
		}
	}
	if !Dominated(g, clCall, func(x ssa.Instruction) bool { return x == ssa.Instruction(seCall) }, PathQ{}) {
		rr.Bad(key+"/record-before-close", clCall.Pos(), "the watched connection is closed before the keep-alive error is recorded: the reader goroutine's 'closed pipe' error can win SetErrorOnce, and Err()/the Closed callback no longer tell that the peer timed out")
		return
	}
	rr.OK(key, seCall.Pos(), "%s: KeepAlive(own client) != nil => SetErrorOnce(own client, err) then Close(own client)", tag)
}

// readerDropsServeError: the reader goroutine (the closure of BaseClient.Connect that calls serve) records, as the connection
// error, a value that can be nil although serve returned a non-nil error. Returns a description, or "" when it cannot.
func (c *Ctx) readerDropsServeError() string {
	conn := c.Method("BaseClient", "Connect")
	serve := c.Method("BaseClient", "serve")
	setErr := c.Method("BaseClient", "SetErrorOnce")
	if conn == nil || serve == nil {
		return "the reader goroutine was not found"
	}
	for _, g := range withClosures(conn) {
		var sv *ssa.Call
		var recs []ssa.Value
		var recAt []ssa.Instruction
		eachInstr(g, func(in ssa.Instruction) {
			if c.isCallTo(in, serve) {
				sv = in.(*ssa.Call)
			}
			if k, ok := in.(*ssa.Call); ok && setErr != nil && c.StaticCalleeOf(&k.Call) == setErr && len(k.Call.Args) == 2 {
				recs = append(recs, k.Call.Args[1])
				recAt = append(recAt, in)
			}
			if st, ok := in.(*ssa.Store); ok {
				if _, isErr := isFieldAddr(st.Addr, "BaseClient", "err"); isErr {
					recs = append(recs, st.Val)
					recAt = append(recAt, in)
				}
			}
		})
		if sv == nil {
			continue
		}
		if len(recs) == 0 {
			return "the reader goroutine does not record the error serve ended with"
		}
		nilE := nilEdges(g, sv)
		for _, v := range recs {
			for _, lf := range phiLeaves(v, nil) {
				if c.Resolve(lf.V) == ssa.Value(sv) || lf.V == ssa.Value(sv) {
					continue
				}
				// any other value (the Close error, nil, …) may only enter where serve's error was nil
				ok := false
				if lf.Pred != nil && len(lf.Pred.Instrs) > 0 {
					last := lf.Pred.Instrs[len(lf.Pred.Instrs)-1]
					for _, e := range nilE {
						if DominatedByEdge(g, last, e.B, e.K, PathQ{}) {
							ok = true
						}
					}
				}
				if !ok {
					return "the reader goroutine can replace the non-nil error serve ended with by " + describeVal(c.Resolve(lf.V))
				}
			}
		}
		return ""
	}
	return "the reader goroutine was not found"
}

// keepAliveSilentWhenStopped: KeepAlive returns nil when its parent context is done (every return behind the receive from
// ctx.Done() is nil), so that a stopped keep-alive reports nothing. On the reference tree it returns the context's error.
func (c *Ctx) keepAliveSilentWhenStopped(ka *ssa.Function) bool {
	if ka == nil || len(ka.Params) == 0 {
		return false
	}
	ctx := ssa.Value(ka.Params[0])
	n := 0
	silent := true
	eachInstr(ka, func(in ssa.Instruction) {
		sel, ok := in.(*ssa.Select)
		if !ok {
			return
		}
		for _, cs := range selectCases(sel) {
			if cs.State == nil || !cs.HasEdge || cs.State.Dir != types.RecvOnly || !c.isCtxMethodOf(cs.State.Chan, "Done", ctx) {
				continue
			}
			n++
			reach := ReachableViaEdge(ka, cs.Edge, PathQ{BlockInstr: func(x ssa.Instruction) bool { _, isSel := x.(*ssa.Select); return isSel }})
			for _, ret := range returnsOf(ka) {
				if reach[ret] && !isNilConst(c.Resolve(c.errResult(ret))) {
					silent = false
				}
			}
		}
	})
	// and the wait for the tick must itself watch the context, or the goroutine lingers and pings a dead connection
	return n > 0 && silent
}

// ruleLoopLeavesDisconnect (R-C16-6): on the way out of the connected-phase wait through the `disconnected` case the loop
// goroutine does not call Close on the connection. reconnectClient.Disconnect closes `disconnected` first and queues the
// DISCONNECT behind whatever the task goroutine is doing; a Close by the loop in between ends the reader with "closed
// pipe", which is recorded and reported as Closed before Disconnect has marked the connection Disconnected.
func (c *Ctx) ruleLoopLeavesDisconnect(rr *RuleRep, m *reconnModel) {
	if m.ConnSel == nil {
		rr.Lost("reconnect-loop/connected-wait", "the wait of the connected phase was not found")
		return
	}
	f := m.F
	key := FuncName(f) + "/disconnected"
	closeM := c.Method("BaseClient", "Close")
	n := 0
	for _, cs := range selectCases(m.ConnSel) {
		if cs.State == nil || !cs.HasEdge || cs.State.Dir != types.RecvOnly {
			continue
		}
		if _, isDisc := isFieldLoad(c.Resolve(cs.State.Chan), "reconnectClient", "disconnected"); !isDisc {
			continue
		}
		n++
		bad := false
		for in := range ReachableViaEdge(f, cs.Edge, PathQ{BlockInstr: func(x ssa.Instruction) bool { return x == ssa.Instruction(m.Dial) }}) {
			k, ok := in.(*ssa.Call)
			if !ok || closeM == nil || c.StaticCalleeOf(&k.Call) != closeM || len(k.Call.Args) == 0 || c.Resolve(k.Call.Args[0]) != m.Cli {
				continue
			}
			bad = true
			rr.Bad(key, in.Pos(), "the reconnect loop closes the connection itself when `disconnected` fires: the transport can be closed before the queued DISCONNECT has marked the connection Disconnected, so Closed (with a \"closed pipe\" error) is reported and Err() is non-nil after a graceful Disconnect")
		}
		if !bad {
			rr.OK(key, m.ConnSel.Pos(), "the `disconnected` case returns without touching the connection")
		}
	}
	if n == 0 {
		rr.Lost(key, "the connected-phase wait has no case on `disconnected`")
	}
}

// errRec is one point at which a function records a connection error: a call of SetErrorOnce, or its body written out
// (`muErr.Lock(); if c.err == nil { c.err = v }; muErr.Unlock()`): then At is the test of the field, which every path
// through the critical section executes.
type errRec struct {
	At       ssa.Instruction
	Cli, Val ssa.Value
	Inline   *ssa.Store
}

func (c *Ctx) errRecords(f *ssa.Function) []errRec {
	setErr := c.Method("BaseClient", "SetErrorOnce")
	errF := c.structField("BaseClient", "err")
	muErr := c.structField("BaseClient", "muErr")
	var out []errRec
	eachInstr(f, func(in ssa.Instruction) {
		if k, ok := in.(*ssa.Call); ok && setErr != nil && c.StaticCalleeOf(&k.Call) == setErr && len(k.Call.Args) == 2 {
			out = append(out, errRec{At: in, Cli: k.Call.Args[0], Val: k.Call.Args[1]})
		}
	})
	if f == setErr || errF == nil || muErr == nil {
		return out
	}
	for _, st := range storesToField(f, errF) {
		base, _ := isAddrOfField(st.Addr, errF)
		if base == nil {
			continue
		}
		for _, b := range f.Blocks {
			iff := blockIf(b)
			if iff == nil {
				continue
			}
			bin, ok := iff.Cond.(*ssa.BinOp)
			if !ok || !isNilConst(bin.Y) || (bin.Op != token.EQL && bin.Op != token.NEQ) {
				continue
			}
			b2, isE := isLoadOfField(bin.X, errF)
			if !isE || c.Resolve(b2) != c.Resolve(base) {
				continue
			}
			edge := 0
			if bin.Op == token.NEQ {
				edge = 1
			}
			if !DominatedByEdge(f, st, b, edge, PathQ{}) {
				continue
			}
			if !c.heldAt(f, st, base, muErr, "w") || !c.heldAt(f, bin.X.(ssa.Instruction), base, muErr, "w") {
				continue
			}
			out = append(out, errRec{At: iff, Cli: base, Val: st.Val, Inline: st})
		}
	}
	return out
}
