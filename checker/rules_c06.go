package main

import (
	"fmt"
	"go/token"
	"go/types"
	"math/bits"
	"strings"

	"golang.org/x/tools/go/ssa"
)

func init() {
	register("C06", "Decided: 'never panics, never over-allocates' is a property of every operation on peer-controlled data, which the checker enumerates over the read side (everything reachable from serve, plus Subscribe's use of the received SUBACK). R-C06-1 every index / slice / string-index obligation is discharged by dominating length facts, lifted preconditions proved at every call site, or callee result summaries (sound linear reasoning; narrow unsigned arithmetic is treated as wrapping, i.e. opaque); R-C06-2 the packet body allocation is non-negative and at most 2^28-1 (bit-width domain with stride-aware loop counters) on 64- and 32-bit int; R-C06-3 no other panic source on the read side (explicit panic, single-result type assertion, division, close, send on a closed channel, nil-map write) outside a reasoned table; R-C06-4 malformed input ends the link: every readPacket/Parse error is returned by serve, unknown types and bad flags/lengths/QoS 3/U+0000 are rejected with the documented sentinels, serve has no nil return; R-C06-5 the error becomes observable (reader exit records it, reports Closed, closes Done()). Not decided: panics inside user handlers or the Transport; memory held by many in-flight packets.", checkC06)
}

// readSide: functions reachable from serve plus subscribeImpl.
func (c *Ctx) readSide() []*ssa.Function {
	serve := c.Method("BaseClient", "serve")
	roots := []*ssa.Function{serve}
	seen := c.reachableFuncs(roots, false)
	// Subscribe's own use of the received SUBACK (the copy-back of the granted QoS): the function and its closures, not
	// what it calls to build the request from the caller's arguments (that is the caller's data, not the peer's)
	for f := range c.subscribeImpls() {
		seen[f] = true
		for _, a := range f.AnonFuncs {
			seen[a] = true
		}
	}
	var out []*ssa.Function
	for _, f := range c.Funcs {
		if seen[f] {
			out = append(out, f)
		}
	}
	return out
}

func checkC06(r *Run) {
	c := r.C
	r1 := r.Rule("R-C06-1", "every index/slice obligation on the read side is discharged by dominating length facts, lifted preconditions or callee summaries")
	r2 := r.Rule("R-C06-2", "packet body allocation: 0 <= n <= 2^28-1 (bit-width domain, stride-aware shift counter), no sign overflow on 32-bit int")
	r3 := r.Rule("R-C06-3", "no other panic source on the read side outside the reasoned table")
	r4 := r.Rule("R-C06-4", "malformed => link ends with an error: no dropped readPacket/Parse error, default arm rejects, flag/length/QoS/rune checks return the documented sentinels, serve never returns nil")
	r5 := r.Rule("R-C06-5", "the error becomes observable: reader exit records it before reporting Closed and closing Done()")
	r1.Floor(30)
	r4.Floor(12)
	if c.Method("BaseClient", "serve") == nil {
		r1.Lost("serve", "not found")
		return
	}
	rs := c.readSide()
	b := c.newBounds()
	res := b.analyse(rs)
	write := c.Method("BaseClient", "write")
	for _, x := range res {
		key := FuncName(x.Fn) + "/" + x.Goal.Desc
		switch {
		case x.OK:
			r1.OK(key, x.Goal.At.Pos(), "%s", x.Why)
		case x.Lifted:
			r1.OKt(key, x.Goal.At.Pos(), "lifted to a precondition of %s, to be proved at every call site", FuncName(x.Fn))
		case x.Fn == write || sliceOfWriteProgress(x.Goal.At):
			r1.OKt(key, x.Goal.At.Pos(), "exempt by table: the slice in a write loop depends on the io.Writer contract of the Transport (Write returns 0 <= n <= len(p)), not on peer bytes")
		case func() bool {
			mk, isMk := x.Goal.At.(*ssa.MakeSlice)
			if !isMk {
				return false
			}
			wa := &widthAnalysis{c: c, memo: map[ssa.Value]int{}, prog: map[ssa.Value]bool{}}
			return wa.width(mk.Len) < c.wordBits-1
		}():
			r1.OK(key, x.Goal.At.Pos(), "non-negative by the bit-width domain (see R-C06-2)")
		default:
			r1.Bad(key, x.Goal.At.Pos(), "cannot prove %s in %s from the checks that dominate it: a peer can choose bytes that make this index/slice go out of range and crash the reader goroutine (goal: %s >= 0)", x.Goal.Desc, FuncName(x.Fn), x.Goal.L.String())
		}
	}
	// ---- R-C06-2
	c.ruleBodyLengthBound(r2)
	// ---- R-C06-3
	c.rulePanicSources(r3, rs)
	// ---- R-C06-4
	c.ruleMalformedEndsLink(r4)
	// ---- R-C06-5
	c.ruleReaderExit(r5)
	c.ruleReaderRecords(r5)
	c.ruleErrBeforeDone(r5)
}

// ruleGuardTightness (used by C04/C05/C07): run the prover over the read side and report over-strict guards in the
// parsers of the given packet types.
func (c *Ctx) ruleGuardTightness(rr *RuleRep, pktTypes []string) {
	b := c.newBounds()
	b.analyse(c.readSide())
	c.tightnessFrom(rr, b, pktTypes)
}

func (c *Ctx) tightnessFrom(rr *RuleRep, b *boundsCtx, pktTypes []string) {
	n := 0
	for _, f := range c.readSide() {
		if len(pktTypes) > 0 {
			keep := false
			for _, t := range pktTypes {
				if f.Signature.Recv() != nil && typeName(f.Signature.Recv().Type()) == t {
					keep = true
				}
				// helpers used by those parsers
				if t == "pktPublish" && (f == c.Func("unpackString") || f == c.Func("unpackUint16")) {
					keep = true
				}
			}
			if !keep {
				continue
			}
		}
		for _, blk := range f.Blocks {
			iff := blockIf(blk)
			if iff == nil {
				continue
			}
			// a guard: one edge leads straight to a return of an error whose cause is ErrInvalidPacketLength
			rejectK := -1
			for k := 0; k < 2; k++ {
				dst := blk.Succs[k]
				for _, in := range dst.Instrs {
					if ret, ok := in.(*ssa.Return); ok {
						ev := c.errResult(ret)
						if call, callee := c.asCall(ev); call != nil && callee != nil && callee.Pkg == c.Pkg && len(call.Call.Args) > 0 && c.isGlobalLoad(call.Call.Args[0], "ErrInvalidPacketLength") {
							rejectK = k
						}
					}
				}
			}
			if rejectK < 0 {
				continue
			}
			uses := b.used[iff]
			key := FuncName(f) + "/length-guard"
			if len(uses) == 0 {
				rr.OKt(key, iff.Cond.Pos(), "guard is not needed by any bound obligation (exact-length or semantic check)")
				n++
				continue
			}
			min := int64(1 << 40)
			var tight factUse
			for _, u := range uses {
				if u.Slack < min {
					min = u.Slack
					tight = u
				}
			}
			n++
			if min == 0 {
				rr.OK(key, iff.Cond.Pos(), "exact: obligation `%s` needs precisely what the guard establishes (%d obligation(s) depend on it)", tight.Goal, len(uses))
			} else {
				rr.Bad(key, iff.Cond.Pos(), "the guard rejects with ErrInvalidPacketLength although every obligation it protects would still hold with %d byte(s) less (tightest: `%s`): a well-formed minimal packet (e.g. an empty payload) is rejected and the connection is torn down", min, tight.Goal)
			}
		}
	}
	if n == 0 {
		rr.Lost("length-guards", "no ErrInvalidPacketLength guard found on the read side")
	}
}

// ---- bit-width analysis ------------------------------------------------------------------------------------

type widthAnalysis struct {
	c    *Ctx
	memo map[ssa.Value]int
	prog map[ssa.Value]bool
	note string
}

// counterMax: v is a counter phi(c0, v+k) (k > 0) whose increments are guarded by `v < U` / `v >= U -> exit`;
// returns the maximal value it can take at its uses.
// shiftMaxAt: the largest value of a shift amount: a bounded counter, or a constant multiple of one (`7*i`).
func (w *widthAnalysis) shiftMaxAt(v ssa.Value, at ssa.Instruction) (int64, bool) {
	if m, ok := w.counterMaxAt(v, at); ok {
		return m, true
	}
	if cv, ok := v.(*ssa.Convert); ok {
		return w.shiftMaxAt(cv.X, at)
	}
	if b, ok := v.(*ssa.BinOp); ok && b.Op == token.SUB {
		// i - k for a counter i that starts at c0 >= k and only grows: never negative, at most max(i) - k
		if k, isK := constInt(b.Y); isK && k >= 0 {
			if phi, isPhi := b.X.(*ssa.Phi); isPhi {
				if m, ok := w.counterMaxAt(phi, at); ok {
					c0 := int64(-1)
					for _, e := range phi.Edges {
						if kk, ok := constInt(e); ok {
							c0 = kk
						}
					}
					if c0 >= k && m >= k {
						return m - k, true
					}
				}
			}
		}
	}
	if b, ok := v.(*ssa.BinOp); ok && b.Op == token.ADD {
		if k, isK := constInt(b.Y); isK && k >= 0 {
			if m, ok := w.shiftMaxAt(b.X, at); ok {
				return m + k, true
			}
		}
		if k, isK := constInt(b.X); isK && k >= 0 {
			if m, ok := w.shiftMaxAt(b.Y, at); ok {
				return m + k, true
			}
		}
	}
	if b, ok := v.(*ssa.BinOp); ok && b.Op == token.MUL {
		if k, isK := constInt(b.X); isK && k > 0 {
			if m, ok := w.shiftMaxAt(b.Y, at); ok {
				return k * m, true
			}
		}
		if k, isK := constInt(b.Y); isK && k > 0 {
			if m, ok := w.shiftMaxAt(b.X, at); ok {
				return k * m, true
			}
		}
	}
	return 0, false
}

// counterMaxAt: the largest value the counter can have at instruction `at`: counterMax refined by the comparisons
// `v < K` / `v <= K` whose edges dominate `at`, rounded down to the counter's residue class.
func (w *widthAnalysis) counterMaxAt(v ssa.Value, at ssa.Instruction) (int64, bool) {
	m, ok := w.counterMax(v)
	if !ok {
		return 0, false
	}
	phi := v.(*ssa.Phi)
	f := phi.Parent()
	var c0, step int64 = 0, 0
	for _, e := range phi.Edges {
		if k, ok := constInt(e); ok {
			c0 = k
		} else if d, ok := offsetFrom(e, phi); ok {
			step = d
		}
	}
	if step <= 0 {
		return m, true
	}
	for _, blk := range f.Blocks {
		iff := blockIf(blk)
		if iff == nil {
			continue
		}
		bin, ok := iff.Cond.(*ssa.BinOp)
		if !ok || bin.X != ssa.Value(phi) {
			continue
		}
		k, ok := constInt(bin.Y)
		if !ok {
			continue
		}
		for edge := 0; edge < 2; edge++ {
			if !edgeHoldsAt(f, at, blk, edge) {
				continue
			}
			u := int64(-1)
			switch {
			case bin.Op == token.LSS && edge == 0, bin.Op == token.GEQ && edge == 1:
				u = k - 1
			case bin.Op == token.LEQ && edge == 0, bin.Op == token.GTR && edge == 1:
				u = k
			case bin.Op == token.EQL && edge == 0, bin.Op == token.NEQ && edge == 1:
				u = k
			}
			if u < 0 {
				continue
			}
			if u >= c0 {
				u = c0 + ((u-c0)/step)*step
			} else {
				u = c0
			}
			if u < m {
				m = u
			}
		}
	}
	return m, true
}

// edgeHoldsAt: the outcome of the test that ends blk is still the one of edge k when `at` runs. The test is of a value
// that changes from one round of a loop to the next, so it is not enough that every path from the entry passes the edge
// (the first round may have to, `if shift > 0 {…}` with shift starting at 0, and the rounds after it do not): there
// must also be no way from the test to `at` that avoids the edge.
func edgeHoldsAt(f *ssa.Function, at ssa.Instruction, blk *ssa.BasicBlock, k int) bool {
	if !DominatedByEdge(f, at, blk, k, PathQ{}) {
		return false
	}
	iff := blockIf(blk)
	if iff == nil {
		return false
	}
	q := PathQ{BlockEdge: func(from *ssa.BasicBlock, succ int) bool { return from == blk && succ == k }}
	_, reach := CanReach(f, iff, func(in ssa.Instruction) bool { return in == at }, q)
	return !reach
}

func (w *widthAnalysis) counterMax(v ssa.Value) (int64, bool) {
	phi, ok := v.(*ssa.Phi)
	if !ok {
		return 0, false
	}
	f := phi.Parent()
	var c0, step int64 = -1, 0
	var inc ssa.Value
	for _, e := range phi.Edges {
		if k, ok := constInt(e); ok {
			if c0 >= 0 && c0 != k {
				return 0, false
			}
			c0 = k
			continue
		}
		d, ok := offsetFrom(e, phi)
		if !ok || d <= 0 || (step != 0 && step != d) {
			return 0, false
		}
		step = d
		inc = e
	}
	if c0 < 0 || step == 0 || inc == nil {
		return 0, false
	}
	// upper bound U on phi at the increment: dominating edges of comparisons phi ? const
	incI, ok := inc.(ssa.Instruction)
	if !ok {
		return 0, false
	}
	bound := int64(-1)
	for _, blk := range f.Blocks {
		iff := blockIf(blk)
		if iff == nil {
			continue
		}
		bin, ok := iff.Cond.(*ssa.BinOp)
		if !ok || bin.X != ssa.Value(phi) {
			continue
		}
		k, ok := constInt(bin.Y)
		if !ok {
			continue
		}
		for edge := 0; edge < 2; edge++ {
			if !edgeHoldsAt(f, incI, blk, edge) {
				continue
			}
			op := bin.Op
			if edge == 1 {
				switch op {
				case token.LSS:
					op = token.GEQ
				case token.LEQ:
					op = token.GTR
				case token.GTR:
					op = token.LEQ
				case token.GEQ:
					op = token.LSS
				case token.NEQ:
					op = token.EQL
				case token.EQL:
					op = token.NEQ
				}
			}
			var u int64 = -1
			switch op {
			case token.LSS:
				u = k - 1
			case token.LEQ:
				u = k
			case token.EQL:
				u = k
			}
			if u >= 0 && (bound < 0 || u < bound) {
				bound = u
			}
		}
	}
	if bound < 0 {
		// the test made after the increment (`d.shift += 7` in push(), `if d.shift > 21 { error }` before going round): the
		// incremented value is bounded on the way back into the loop, and so is the counter from then on
		var back ssa.Instruction
		for i, e := range phi.Edges {
			if e == inc && i < len(phi.Block().Preds) {
				if p := phi.Block().Preds[i]; len(p.Instrs) > 0 {
					back = p.Instrs[len(p.Instrs)-1]
				}
			}
		}
		ub := int64(-1)
		for _, blk := range f.Blocks {
			iff := blockIf(blk)
			if iff == nil || back == nil {
				continue
			}
			bin, ok := stripConv(iff.Cond).(*ssa.BinOp)
			if !ok || bin.X != inc {
				continue
			}
			k, ok := constInt(bin.Y)
			if !ok {
				continue
			}
			for edge := 0; edge < 2; edge++ {
				if !edgeHoldsAt(f, back, blk, edge) {
					continue
				}
				u := int64(-1)
				switch {
				case bin.Op == token.LSS && edge == 0, bin.Op == token.GEQ && edge == 1:
					u = k - 1
				case bin.Op == token.LEQ && edge == 0, bin.Op == token.GTR && edge == 1:
					u = k
				case bin.Op == token.EQL && edge == 0, bin.Op == token.NEQ && edge == 1:
					u = k
				}
				if u >= 0 && (ub < 0 || u < ub) {
					ub = u
				}
			}
		}
		if ub >= 0 {
			if ub < c0 {
				return c0, true
			}
			return c0 + ((ub-c0)/step)*step, true
		}
		w.note = fmt.Sprintf("(the loop counter %s has no upper bound dominating its increment)", phi.Comment)
		return 0, false
	}
	// largest value <= bound congruent to c0 mod step, then one more step
	if bound < c0 {
		return c0, true
	}
	uc := c0 + ((bound-c0)/step)*step
	return uc + step, true
}

func (w *widthAnalysis) width(v ssa.Value) int {
	if x, ok := w.memo[v]; ok {
		return x
	}
	if w.prog[v] {
		return 0 // least fixpoint
	}
	w.prog[v] = true
	defer func() { w.prog[v] = false }()
	res := w.width1(v)
	// iterate phis to a fixpoint
	if _, ok := v.(*ssa.Phi); ok {
		for i := 0; i < 70; i++ {
			w.memo[v] = res
			n := w.width1(v)
			if n == res {
				break
			}
			res = n
		}
	}
	w.memo[v] = res
	return res
}

func (w *widthAnalysis) typeWidth(t types.Type) int {
	if uw, ok := unsignedWidth(t); ok {
		if uw == 64 {
			return w.c.wordBits
		}
		return uw
	}
	return 64 // signed: may be negative
}

func (w *widthAnalysis) width1(v ssa.Value) int {
	if k, ok := constInt(v); ok {
		if k < 0 {
			return 64
		}
		return bits.Len64(uint64(k))
	}
	switch x := v.(type) {
	case *ssa.Phi:
		m := 0
		for _, e := range x.Edges {
			if ww := w.width(e); ww > m {
				m = ww
			}
		}
		return m
	case *ssa.BinOp:
		a, b := w.width(x.X), 0
		switch x.Op {
		case token.AND:
			b = w.width(x.Y)
			if a > 63 && b <= 63 {
				return b
			}
			if b > 63 && a <= 63 {
				return a
			}
			if a < b {
				return a
			}
			return b
		case token.OR, token.XOR:
			b = w.width(x.Y)
			if a > b {
				return a
			}
			return b
		case token.SHL:
			if a > 63 {
				return 64
			}
			if k, ok := constInt(x.Y); ok {
				return a + int(k)
			}
			if m, ok := w.shiftMaxAt(x.Y, x); ok {
				return a + int(m)
			}
			if w.note == "" {
				w.note = "(shift amount is unbounded)"
			}
			return 64
		case token.SHR:
			if k, ok := constInt(x.Y); ok && a <= 63 {
				if a-int(k) < 0 {
					return 0
				}
				return a - int(k)
			}
			return a
		case token.ADD:
			b = w.width(x.Y)
			if a > 63 || b > 63 {
				return 64
			}
			if a < b {
				a = b
			}
			return a + 1
		case token.MUL:
			b = w.width(x.Y)
			if a > 63 || b > 63 {
				return 64
			}
			return a + b
		case token.REM:
			return w.width(x.Y)
		}
		return w.typeWidth(x.Type())
	case *ssa.Convert:
		a := w.width(x.X)
		t := w.typeWidth(x.Type())
		if _, isU := unsignedWidth(x.Type()); isU {
			if a < t {
				return a
			}
			return t
		}
		// signed target: value preserved if it fits
		if a <= 63 {
			return a
		}
		return 64
	case *ssa.ChangeType:
		return w.width(x.X)
	case *ssa.UnOp:
		if x.Op == token.MUL {
			return w.typeWidth(x.Type())
		}
	}
	return w.typeWidth(v.Type())
}

// sliceOfWriteProgress: the obligation belongs to `b[n:]` where n accumulates the counts returned by an io.Writer's Write.
func sliceOfWriteProgress(at ssa.Instruction) bool {
	sl, ok := at.(*ssa.Slice)
	if !ok || sl.Low == nil || sl.High != nil {
		return false
	}
	seen := map[ssa.Value]bool{}
	var fromWrite func(v ssa.Value, depth int) bool
	fromWrite = func(v ssa.Value, depth int) bool {
		if depth > 6 || seen[v] {
			return false
		}
		seen[v] = true
		switch x := v.(type) {
		case *ssa.Extract:
			if k, ok := x.Tuple.(*ssa.Call); ok && x.Index == 0 && k.Call.IsInvoke() && k.Call.Method.Name() == "Write" {
				return true
			}
		case *ssa.BinOp:
			return fromWrite(x.X, depth+1) || fromWrite(x.Y, depth+1)
		case *ssa.Phi:
			for _, e := range x.Edges {
				if fromWrite(e, depth+1) {
					return true
				}
			}
		}
		return false
	}
	return fromWrite(sl.Low, 0)
}

// ---- R-C06-3 -----------------------------------------------------------------------------------------------

func derefNamedStruct(t types.Type) (*types.Struct, bool) {
	if p, ok := t.(*types.Pointer); ok {
		t = p.Elem()
	}
	st, ok := t.Underlying().(*types.Struct)
	return st, ok
}

func (c *Ctx) rulePanicSources(rr *RuleRep, rs []*ssa.Function) {
	tableFn := map[string]string{
		"(*pktPublish).Pack":   "write side: invalid-QoS panic concerns application-supplied messages (validated by ValidateMessage), not peer bytes",
		"(*pktSubscribe).Pack": "write side: invalid-QoS panic concerns application-supplied subscriptions, not peer bytes",
	}
	// encode side: functions the read side reaches only through a packet's Pack method. What serve packs are the
	// fixed-size acknowledgements (checked below: the packed structs carry only scalar fields); what subscribeImpl packs is
	// the application's SUBSCRIBE. Overflow panics of the encoders therefore concern application data, not peer bytes.
	isPack := func(g *ssa.Function) bool {
		return g.Name() == "Pack" && g.Signature.Recv() != nil && strings.HasPrefix(typeName(g.Signature.Recv().Type()), "pkt")
	}
	var roots []*ssa.Function
	roots = append(roots, c.Method("BaseClient", "serve"))
	if f := c.Func("subscribeImpl"); f != nil {
		roots = append(roots, f)
	}
	regionWithoutPack := func(rts []*ssa.Function) map[*ssa.Function]bool {
		seen := map[*ssa.Function]bool{}
		var work []*ssa.Function
		for _, r := range rts {
			if r != nil {
				seen[r] = true
				work = append(work, r)
			}
		}
		for len(work) > 0 {
			f := work[len(work)-1]
			work = work[:len(work)-1]
			for _, g := range c.calleesOf(f, false) {
				if !seen[g] && !isPack(g) {
					seen[g] = true
					work = append(work, g)
				}
			}
		}
		return seen
	}
	withoutPack := regionWithoutPack(roots)
	// what the reader goroutine itself packs: only structs of fixed-size scalars (the acknowledgements)
	fixedAcks := true
	for f := range regionWithoutPack(roots[:1]) {
		for _, g := range c.calleesOf(f, false) {
			if !isPack(g) {
				continue
			}
			st, ok := derefNamedStruct(g.Signature.Recv().Type())
			if !ok {
				fixedAcks = false
				continue
			}
			for i := 0; i < st.NumFields(); i++ {
				b, isBasic := st.Field(i).Type().Underlying().(*types.Basic)
				if !isBasic || b.Info()&types.IsString != 0 {
					fixedAcks = false
				}
			}
		}
	}
	for _, f := range rs {
		if !withoutPack[f] && !isPack(f) && fixedAcks {
			tableFn[FuncName(f)] = "encode side: reached from the read side only through Pack methods (fixed-size acknowledgements from serve, the application's own SUBSCRIBE from Subscribe); its overflow panic concerns application data, not peer bytes"
		}
	}
	// channels that are ever closed
	closedFields := map[*types.Var]bool{}
	for _, f := range c.Funcs {
		eachInstr(f, func(in ssa.Instruction) {
			if k, ok := in.(*ssa.Call); ok {
				if b, ok := k.Call.Value.(*ssa.Builtin); ok && b.Name() == "close" {
					if ld, ok := c.Resolve(k.Call.Args[0]).(*ssa.UnOp); ok {
						if fa, ok := ld.X.(*ssa.FieldAddr); ok {
							_, fld := fieldOf(fa)
							closedFields[fld] = true
						}
					}
				}
			}
		})
	}
	n := 0
	// only the acknowledgement Pack methods may reach the write-side helpers from serve
	for _, f := range rs {
		eachInstr(f, func(in ssa.Instruction) {
			key := FuncName(f)
			switch x := in.(type) {
			case *ssa.Panic:
				if isSyntheticSelectPanic(in) {
					return
				}
				if live := feasibleBlocks(f); live != nil && !live[in.Block()] {
					return // behind an edge no execution takes (a test of constants left by an inlined helper)
				}
				n++
				if why, ok := tableFn[FuncName(f)]; ok {
					rr.OKt(key+"/panic", in.Pos(), "table: %s", why)
				} else {
					rr.Bad(key+"/panic", in.Pos(), "explicit panic reachable while processing peer bytes")
				}
			case *ssa.TypeAssert:
				if !x.CommaOk {
					n++
					if why := c.waiterAssertSafe(x); why != "" {
						rr.OK(key+"/type-assert", in.Pos(), "%s", why)
						return
					}
					// assertion to an interface on a value statically of that dynamic type set is still a panic source
					rr.Bad(key+"/type-assert", in.Pos(), "single-result type assertion on the read side panics when the dynamic type differs")
				}
			case *ssa.BinOp:
				if x.Op == token.QUO || x.Op == token.REM {
					if bt, ok := x.Type().Underlying().(*types.Basic); ok && bt.Info()&types.IsInteger != 0 {
						if k, ok := constInt(x.Y); !ok || k == 0 {
							n++
							rr.Bad(key+"/division", in.Pos(), "integer division by a non-constant on the read side")
						}
					}
				}
			case *ssa.Call:
				if b, ok := x.Call.Value.(*ssa.Builtin); ok && b.Name() == "close" {
					n++
					rr.Bad(key+"/close", in.Pos(), "a channel is closed on the read side: a second close (or a later send) panics")
				}
			case *ssa.Select:
				for _, s := range x.States {
					if s.Dir != types.SendOnly {
						continue
					}
					n++
					// the channel comes from a signaller look-up; its map/slot fields must never be closed
					bad := false
					ch := c.Resolve(s.Chan)
					if ex, ok := ch.(*ssa.Extract); ok {
						ch = ex.Tuple
					}
					if call, ok := ch.(*ssa.Call); ok {
						if callee := c.StaticCalleeOf(&call.Call); callee != nil {
							eachInstr(callee, func(y ssa.Instruction) {
								if fa, ok := y.(*ssa.FieldAddr); ok {
									if _, fld := fieldOf(fa); closedFields[fld] {
										bad = true
									}
								}
							})
						}
					}
					if bad {
						rr.Bad(key+"/send", in.Pos(), "send on a channel that is closed elsewhere in the package")
					} else {
						rr.OK(key+"/send", in.Pos(), "send on a waiter channel that no code closes")
					}
				}
			case *ssa.Send:
				n++
				rr.Bad(key+"/send", in.Pos(), "blocking send on the read side")
			case *ssa.MapUpdate:
				n++
				// map must be made (non-nil) in the same function
				if _, ok := x.Map.(*ssa.MakeMap); ok {
					rr.OK(key+"/map-write", in.Pos(), "write to a map created by make in this function")
				} else if c.mapEnsured(f, x) {
					rr.OK(key+"/map-write", in.Pos(), "write to a map field dominated by `if m == nil { m = make(...) }`")
				} else {
					rr.Bad(key+"/map-write", in.Pos(), "write to a map that may be nil on the read side")
				}
			}
		})
	}
	// recursion on the read side (stack exhaustion by peer-controlled depth)
	onStack := map[*ssa.Function]bool{}
	done := map[*ssa.Function]bool{}
	cyc := false
	var dfs func(f *ssa.Function)
	dfs = func(f *ssa.Function) {
		onStack[f] = true
		for _, g := range c.calleesOf(f, false) {
			if onStack[g] {
				cyc = true
				rr.Bad(FuncName(g)+"/recursion", g.Pos(), "recursion on the read side: call depth may depend on peer bytes")
			} else if !done[g] {
				dfs(g)
			}
		}
		onStack[f] = false
		done[f] = true
	}
	if serve := c.Method("BaseClient", "serve"); serve != nil {
		dfs(serve)
	}
	if !cyc {
		rr.OK("read-side/call-graph", token.NoPos, "read-side call graph (%d functions) is acyclic", len(rs))
	}
	if n == 0 {
		rr.Lost("panic-sources", "no panic-source construct examined")
	}
}

// ---- R-C06-4 -----------------------------------------------------------------------------------------------

func (c *Ctx) ruleMalformedEndsLink(rr *RuleRep) {
	m, why := c.serveModel()
	if m == nil {
		rr.Lost("serve", "%s", why)
		return
	}
	f := m.F
	// serve never returns nil
	c.ruleServeNeverNil(rr)
	// every error result (readPacket, Parse) is tested and returned
	chk := func(call *ssa.Call, errV ssa.Value, what string) {
		key := "serve/" + what
		if errV == nil {
			rr.Bad(key, call.Pos(), "the error of %s is discarded: a malformed packet is processed as if it were valid", what)
			return
		}
		edges := nonNilEdges(f, errV)
		if len(edges) != 1 {
			rr.Bad(key, call.Pos(), "the error of %s is not tested", what)
			return
		}
		dst := edges[0].B.Succs[edges[0].K]
		reach := ReachableFromBlock(f, dst, PathQ{BlockInstr: func(in ssa.Instruction) bool { return in == ssa.Instruction(m.Read) }})
		good := false
		for in := range reach {
			if ret, ok := in.(*ssa.Return); ok {
				isIt := func(ev ssa.Value) bool {
					ev = c.Resolve(ev)
					if ev == errV {
						return true
					}
					cl, _ := c.asCall(ev)
					if cl == nil || len(cl.Call.Args) == 0 {
						return false
					}
					a := c.Resolve(cl.Call.Args[0])
					if a == errV {
						return true
					}
					vs, reached := valuesAlong(f, ifEdge{edges[0].B, edges[0].K}, cl, cl.Call.Args[0], nil)
					return reached && len(vs) == 1 && c.Resolve(vs[0]) == errV
				}
				if isIt(c.errResult(ret)) {
					good = true
				} else if rv := c.Resolve(c.errResult(ret)); rv != nil {
					// the result variable joined over the arms: what it holds on the paths through this failure edge
					if vs, reached := valuesAlong(f, ifEdge{edges[0].B, edges[0].K}, ret, rv, nil); reached && len(vs) == 1 && isIt(vs[0]) {
						good = true
					}
				}
			}
		}
		// and no way back to the loop
		if reach[m.Read] || func() bool {
			// (whole paths from the entry through the failure edge: what the path knows about the error is kept)
			e := edges[0]
			_, back := CanReach(f, nil, func(in ssa.Instruction) bool { return in == ssa.Instruction(m.Read) }, PathQ{MustEdge: &ifEdge{e.B, e.K}})
			return back
		}() {
			rr.Bad(key, call.Pos(), "after %s failed serve goes on reading instead of ending the link", what)
			return
		}
		if good {
			rr.OK(key, call.Pos(), "error of %s is returned by serve", what)
		} else {
			rr.Bad(key, call.Pos(), "the error of %s does not end serve with that error", what)
		}
		// the packet must not be used before the test: the error test dominates every use of the packet value
	}
	chk(m.Read, m.RErr, "readPacket")
	kinds := map[string]bool{}
	for _, arm := range m.Arms {
		if arm.Parse == nil {
			rr.Bad(fmt.Sprintf("serve/arm-0x%02X", arm.K), arm.Entry.Instrs[0].Pos(), "arm for packet type 0x%02X does not parse the packet", arm.K)
			continue
		}
		kinds[arm.PktT] = true
		chk(arm.Parse, arm.PErr, arm.PktT+".Parse")
		// parsed packet used only on the nil-error edge
		if arm.Pkt != nil && arm.PErr != nil {
			okEdges := nilEdges(f, arm.PErr)
			for _, u := range *arm.Pkt.Referrers() {
				dom := false
				for _, e := range okEdges {
					if DominatedByEdge(f, u, e.B, e.K, PathQ{}) {
						dom = true
					}
				}
				if !dom {
					rr.Bad("serve/"+arm.PktT+"/use-before-check", u.Pos(), "the parsed packet is used on a path where the parse error was not (yet) found to be nil")
				}
			}
		}
	}
	for _, want := range []string{"pktConnAck", "pktPublish", "pktPubAck", "pktPubRec", "pktPubRel", "pktPubComp", "pktSubAck", "pktUnsubAck", "pktPingResp"} {
		if !kinds[want] {
			rr.Bad("serve/arm/"+want, f.Pos(), "serve has no arm for %s", want)
		}
	}
	// default arm returns ErrInvalidPacket
	if m.Default == nil {
		rr.Bad("serve/default", f.Pos(), "no default arm")
	} else {
		reach := ReachableFromBlock(f, m.Default, PathQ{BlockInstr: func(in ssa.Instruction) bool { return in == ssa.Instruction(m.Read) }})
		good := false
		for in := range reach {
			if ret, ok := in.(*ssa.Return); ok {
				if call, _ := c.asCall(c.errResult(ret)); call != nil && len(call.Call.Args) > 0 && c.isGlobalLoad(call.Call.Args[0], "ErrInvalidPacket") {
					good = true
				}
			}
		}
		_, back := CanReach(f, m.Default.Instrs[0], func(in ssa.Instruction) bool { return in == ssa.Instruction(m.Read) }, PathQ{})
		if m.Default.Instrs[0] == ssa.Instruction(m.Read) {
			back = true
		}
		if good && !back {
			rr.OK("serve/default", m.Default.Instrs[0].Pos(), "unknown packet types end serve with ErrInvalidPacket")
		} else {
			rr.Bad("serve/default", m.Default.Instrs[0].Pos(), "an unknown packet type does not end the link with ErrInvalidPacket (it is skipped)")
		}
	}
	// sibling parsers: flag nibble and minimum length
	flagWant := map[string]int64{"pktConnAck": 0, "pktPubAck": 0, "pktPubRec": 0, "pktPubRel": 2, "pktPubComp": 0, "pktSubAck": 0, "pktUnsubAck": 0, "pktPingResp": 0}
	for tn, want := range flagWant {
		p := c.Method(tn, "Parse")
		if p == nil {
			rr.Bad(tn+".Parse", token.NoPos, "parser not found")
			continue
		}
		flag, _ := parseParams(p)
		if flag == nil {
			rr.Bad(tn+".Parse", p.Pos(), "no parameter carrying the flag byte of the fixed header")
			continue
		}
		okFlag := false
		for _, blk := range p.Blocks {
			iff := blockIf(blk)
			if iff == nil {
				continue
			}
			bin, ok := iff.Cond.(*ssa.BinOp)
			if !ok {
				continue
			}
			// the flag compared with a constant, either way round; the constant may be spelt like where it is packed
			// (`packetFromClient.b()`)
			x, y := bin.X, bin.Y
			if c.Resolve(stripConv(y)) == ssa.Value(flag) {
				x, y = y, x
			}
			if c.Resolve(stripConv(x)) != ssa.Value(flag) {
				continue
			}
			k, isK := c.constByte(y)
			if !isK || k != want {
				continue
			}
			rej := 0
			if bin.Op == token.EQL {
				rej = 1
			} else if bin.Op != token.NEQ {
				continue
			}
			// reject edge returns ErrInvalidPacket; every success return is dominated by the accept edge
			retOK := false
			for in := range ReachableViaEdge(p, ifEdge{blk, rej}, PathQ{}) {
				if ret, ok := in.(*ssa.Return); ok {
					if call, _ := c.asCall(c.errResult(ret)); call != nil && len(call.Call.Args) > 0 && c.isGlobalLoad(call.Call.Args[0], "ErrInvalidPacket") {
						retOK = true
					}
				}
			}
			domAll := true
			for _, ret := range returnsOf(p) {
				if isNilConst(c.Resolve(c.errResult(ret))) && !DominatedByEdge(p, ret, blk, 1-rej, PathQ{}) {
					domAll = false
				}
			}
			if retOK && domAll {
				okFlag = true
			}
		}
		if okFlag {
			rr.OK(tn+".Parse/flags", p.Pos(), "reserved flag nibble must be %d, otherwise ErrInvalidPacket", want)
		} else {
			rr.Bad(tn+".Parse/flags", p.Pos(), "%s.Parse accepts a packet whose fixed-header flags are not %d (MQTT 3.1.1 section 2.2.2 requires closing the connection)", tn, want)
		}
	}
	// PUBLISH: QoS 3 rejected
	if p := c.Method("pktPublish", "Parse"); p != nil {
		// every nil-error return must be dominated by one of the edges flag&6 == {0,2,4}
		var accept []ifEdge
		for _, blk := range p.Blocks {
			iff := blockIf(blk)
			if iff == nil {
				continue
			}
			bin, ok := iff.Cond.(*ssa.BinOp)
			if !ok || bin.Op != token.EQL {
				continue
			}
			and, ok := bin.X.(*ssa.BinOp)
			if !ok || and.Op != token.AND {
				continue
			}
			mk, isM := constInt(and.Y)
			k, isK := constInt(bin.Y)
			if isM && isK && mk == 6 && (k == 0 || k == 2 || k == 4) {
				accept = append(accept, ifEdge{blk, 0})
			}
		}
		okQ := len(accept) == 3
		for _, ret := range returnsOf(p) {
			if !isNilConst(c.Resolve(c.errResult(ret))) {
				continue
			}
			dom := false
			// dominated by the union of accept edges: unreachable when all three are removed
			if _, found := CanReach(p, nil, func(in ssa.Instruction) bool { return in == ssa.Instruction(ret) }, PathQ{BlockEdge: func(b *ssa.BasicBlock, k int) bool {
				for _, e := range accept {
					if e.B == b && e.K == k {
						return true
					}
				}
				return false
			}}); !found {
				dom = true
			}
			if !dom {
				okQ = false
			}
		}
		if !okQ {
			// no selection by equality tests: evaluate the parser for each value of the two bits
			if tbl, rejected, decided := c.inboundQoSByBits(p); decided && rejected[6] && len(tbl) == 3 {
				okQ = true
			}
		}
		if okQ {
			rr.OK("pktPublish.Parse/qos", p.Pos(), "a PUBLISH is accepted only with QoS bits 0, 1 or 2; QoS 3 is rejected")
		} else {
			rr.Bad("pktPublish.Parse/qos", p.Pos(), "pktPublish.Parse can accept a PUBLISH whose QoS bits are 3 (both set)")
		}
	}
	// unpackString: U+0000 and surrogates rejected with ErrInvalidRune
	if us := c.Func("unpackString"); us != nil {
		zero, surr := false, false
		for _, blk := range us.Blocks {
			iff := blockIf(blk)
			if iff == nil {
				continue
			}
			bin, ok := iff.Cond.(*ssa.BinOp)
			if !ok {
				continue
			}
			rejects := func(k int) bool {
				for in := range ReachableViaEdge(us, ifEdge{blk, k}, PathQ{BlockInstr: func(i ssa.Instruction) bool { _, isIf := i.(*ssa.If); return isIf }}) {
					if ret, ok := in.(*ssa.Return); ok {
						if call, _ := c.asCall(c.errResult(ret)); call != nil && len(call.Call.Args) > 0 && c.isGlobalLoad(call.Call.Args[0], "ErrInvalidRune") {
							return true
						}
					}
				}
				return false
			}
			if k, ok := constInt(bin.Y); ok && k == 0 && bin.Op == token.EQL && rejects(0) {
				if bt, ok := bin.X.Type().Underlying().(*types.Basic); ok && bt.Kind() == types.Int32 {
					zero = true
				}
			}
			if k, ok := constInt(bin.Y); ok && k == 0xDFFF && bin.Op == token.LEQ && rejects(0) {
				surr = true
			}
		}
		if zero {
			rr.OK("unpackString/U+0000", us.Pos(), "a decoded field containing U+0000 is rejected with ErrInvalidRune")
		} else {
			rr.Bad("unpackString/U+0000", us.Pos(), "unpackString no longer rejects U+0000 in a decoded string (MQTT-1.5.3-2)")
		}
		if surr {
			rr.OKt("unpackString/surrogates", us.Pos(), "surrogate code points are rejected")
		}
	} else {
		rr.Lost("unpackString", "not found")
	}
}

// ruleReaderRecords: the reader goroutine records serve's error (shared with R-C16-3, reduced).
func (c *Ctx) ruleReaderRecords(rr *RuleRep) {
	conn := c.Method("BaseClient", "Connect")
	setErr := c.Method("BaseClient", "SetErrorOnce")
	upd := c.Method("BaseClient", "connStateUpdate")
	var reader *ssa.Function
	if conn != nil {
		eachInstr(conn, func(in ssa.Instruction) {
			if g, ok := in.(*ssa.Go); ok {
				reader = c.StaticCalleeOf(&g.Call)
			}
		})
	}
	if reader == nil || setErr == nil || upd == nil {
		rr.Lost("reader goroutine", "not found")
		return
	}
	var se, up ssa.Instruction
	eachInstr(reader, func(in ssa.Instruction) {
		if c.isCallTo(in, upd) {
			up = in
		}
	})
	for _, rec := range c.errRecords(reader) {
		se = rec.At
	}
	if se == nil || up == nil {
		rr.Bad(FuncName(reader)+"/observable", reader.Pos(), "the reader goroutine does not both record the error and report Closed")
		return
	}
	if _, found := CanReach(reader, up, func(x ssa.Instruction) bool { return x == se }, PathQ{}); found {
		rr.Bad(FuncName(reader)+"/observable", up.Pos(), "Closed is reported before the error is recorded")
		return
	}
	rr.OK(FuncName(reader)+"/observable", se.Pos(), "serve's error is recorded (Err()) before Closed is reported through the state callback")
}

var _ = strings.Contains

// mapEnsured: the map written is a field load dominated by a nil test whose nil edge stores a fresh map into the field.
func (c *Ctx) mapEnsured(f *ssa.Function, mu *ssa.MapUpdate) bool {
	ld, ok := mu.Map.(*ssa.UnOp)
	if !ok {
		return false
	}
	fa, ok := ld.X.(*ssa.FieldAddr)
	if !ok {
		return false
	}
	_, fld := fieldOf(fa)
	for _, b := range f.Blocks {
		iff := blockIf(b)
		if iff == nil {
			continue
		}
		bin, ok := iff.Cond.(*ssa.BinOp)
		if !ok || !isNilConst(bin.Y) {
			continue
		}
		if _, isF := isLoadOfField(bin.X, fld); !isF {
			continue
		}
		nilK := 0
		if bin.Op == token.NEQ {
			nilK = 1
		} else if bin.Op != token.EQL {
			continue
		}
		if !Dominated(f, mu, func(x ssa.Instruction) bool { return x == ssa.Instruction(iff) }, PathQ{}) {
			continue
		}
		isMake := func(x ssa.Instruction) bool {
			st, ok := x.(*ssa.Store)
			if !ok {
				return false
			}
			if _, isF := isAddrOfField(st.Addr, fld); !isF {
				return false
			}
			_, isMk := st.Val.(*ssa.MakeMap)
			return isMk
		}
		first := b.Succs[nilK].Instrs[0]
		if isMake(first) {
			return true
		}
		if _, found := CanReach(f, first, func(x ssa.Instruction) bool { return x == ssa.Instruction(mu) }, PathQ{BlockInstr: isMake}); !found {
			return true
		}
	}
	return false
}

// ruleServeNeverNil: every return of serve yields an error that cannot be nil: not the nil constant, and not (a wrap of)
// a value that is known to be nil on that path (e.g. an outer `err` variable tested `!= nil` earlier).
func (c *Ctx) ruleServeNeverNil(rr *RuleRep) {
	f := c.Method("BaseClient", "serve")
	if f == nil {
		rr.Lost("serve", "not found")
		return
	}
	n := 0
	for _, ret := range returnsOf(f) {
		n++
		ev := c.Resolve(c.errResult(ret))
		cause := ev
		if call, callee := c.asCall(ev); call != nil && callee != nil && callee.Pkg == c.Pkg && c.isWrapFn(callee) && len(call.Call.Args) > 0 {
			cause = c.Resolve(call.Call.Args[0])
		}
		if isNilConst(ev) || isNilConst(cause) {
			rr.Bad("serve/nil-return", ret.Pos(), "serve can return nil: the reader goroutine then ends without an error, Closed is reported with a nil error and Err() stays nil")
			continue
		}
		knownNil := false
		for _, e := range nilEdges(f, cause) {
			if DominatedByEdge(f, ret, e.B, e.K, PathQ{}) {
				knownNil = true
			}
		}
		if knownNil {
			rr.Bad("serve/nil-return", ret.Pos(), "serve returns (a wrap of) %s, which is known to be nil on this path (the error actually tested is another variable): the connection ends with a nil error", describeVal(cause))
			continue
		}
		rr.OK("serve/return", ret.Pos(), "returns a non-nil error (%s)", describeVal(cause))
	}
	if n == 0 {
		rr.Lost("serve/returns", "serve has no return")
	}
}

// ruleBodyLengthBound (R-C06-2, also R-C11-8): the packet body allocation in readPacket is non-negative and at most 2^28-1.
func (c *Ctx) ruleBodyLengthBound(r2 *RuleRep) {
	rp := c.readFunc()
	if rp == nil {
		r2.Lost("readPacket", "not found")
	} else {
		n := 0
		eachInstr(rp, func(in ssa.Instruction) {
			mk, ok := in.(*ssa.MakeSlice)
			if !ok {
				return
			}
			n++
			if k, ok := constInt(mk.Len); ok {
				if k >= 0 && k <= 0xFFFFFFF {
					r2.OKt("readPacket/make", in.Pos(), "constant length %d", k)
				} else {
					r2.Bad("readPacket/make", in.Pos(), "constant length %d out of range", k)
				}
				return
			}
			wa := &widthAnalysis{c: c, memo: map[ssa.Value]int{}, prog: map[ssa.Value]bool{}}
			w := wa.width(mk.Len)
			limit := 28
			if w <= limit && w < c.wordBits-1 {
				r2.OK("readPacket/make", in.Pos(), "the body length has at most %d significant bits and is non-negative: at most %d bytes are requested for one packet (int is %d bits)", w, (1<<uint(w))-1, c.wordBits)
			} else {
				r2.Bad("readPacket/make", in.Pos(), "the body length can have %d significant bits (limit %d for the 268,435,455-byte protocol maximum; int is %d bits): a peer sending continuation bits in the remaining-length field makes the client allocate an over-sized (or negative-length, panicking) buffer, and wait for that many bytes instead of ending the link. %s", w, limit, c.wordBits, wa.note)
			}
		})
		// the header buffer
		if n == 0 {
			r2.Lost("readPacket/make", "no body allocation found")
		}
	}
}
