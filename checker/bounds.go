package main

import (
	"fmt"
	"go/token"
	"go/types"
	"math"
	"os"
	"sort"
	"strings"

	"golang.org/x/tools/go/ssa"
)

// ---- linear forms over atoms ---------------------------------------------------------------------------

const (
	negInf = math.MinInt64 / 4
	posInf = math.MaxInt64 / 4
)

type atomInfo struct {
	Key    string
	Lo, Hi int64
	Phi    *ssa.Phi  // when the atom is a phi (for per-edge splitting)
	Val    ssa.Value // representative value
}

type lin struct {
	K map[string]int64
	C int64
}

func newLin(c int64) lin { return lin{K: map[string]int64{}, C: c} }

func (a lin) clone() lin {
	o := newLin(a.C)
	for k, v := range a.K {
		o.K[k] = v
	}
	return o
}

func (a lin) add(b lin, s int64) lin {
	o := a.clone()
	o.C += s * b.C
	for k, v := range b.K {
		o.K[k] += s * v
		if o.K[k] == 0 {
			delete(o.K, k)
		}
	}
	return o
}

func (a lin) String() string {
	var ks []string
	for k := range a.K {
		ks = append(ks, k)
	}
	sort.Strings(ks)
	var sb strings.Builder
	for _, k := range ks {
		fmt.Fprintf(&sb, "%+d*%s ", a.K[k], k)
	}
	fmt.Fprintf(&sb, "%+d", a.C)
	return sb.String()
}

type fact struct {
	L    lin // L >= 0
	From ssa.Instruction
	Edge ifEdge
	Why  string
}

// boundsCtx holds per-run state of the bounds prover.
type boundsCtx struct {
	c        *Ctx
	atoms    map[string]*atomInfo
	sum      map[*ssa.Function]*fnSummary
	inProg   map[*ssa.Function]bool
	pre      map[*ssa.Function][]preCond // lifted preconditions
	factsMem map[*ssa.BasicBlock][]fact
	used     map[ssa.Instruction][]factUse // guard If -> uses with slack
	seenPre  map[string]bool
}

type factUse struct {
	Goal  string
	Slack int64
	At    ssa.Instruction
}

type fnSummary struct {
	Const  map[int]int64        // result i is this constant on every return
	NonNeg map[int]bool         // result i >= 0
	LeLen  map[int]map[int]bool // result i <= len(param j)
}

type preCond struct {
	L    lin // over len(param#j) atoms, must be >= 0 at every call site
	Desc string
	Pos  token.Pos
}

func (c *Ctx) newBounds() *boundsCtx {
	return &boundsCtx{c: c, atoms: map[string]*atomInfo{}, sum: map[*ssa.Function]*fnSummary{}, inProg: map[*ssa.Function]bool{}, pre: map[*ssa.Function][]preCond{}, factsMem: map[*ssa.BasicBlock][]fact{}, used: map[ssa.Instruction][]factUse{}, seenPre: map[string]bool{}}
}

func (b *boundsCtx) atom(key string, lo, hi int64, v ssa.Value) lin {
	if _, ok := b.atoms[key]; !ok {
		ai := &atomInfo{Key: key, Lo: lo, Hi: hi, Val: v}
		if phi, ok := v.(*ssa.Phi); ok {
			ai.Phi = phi
		}
		b.atoms[key] = ai
	}
	l := newLin(0)
	l.K[key] = 1
	return l
}

func unsignedWidth(t types.Type) (int, bool) {
	bt, ok := t.Underlying().(*types.Basic)
	if !ok {
		return 0, false
	}
	switch bt.Kind() {
	case types.Uint8:
		return 8, true
	case types.Uint16:
		return 16, true
	case types.Uint32:
		return 32, true
	case types.Uint64, types.Uint, types.Uintptr:
		return 64, true
	}
	return 0, false
}

func isIntType(t types.Type) bool {
	bt, ok := t.Underlying().(*types.Basic)
	return ok && (bt.Kind() == types.Int || bt.Kind() == types.UntypedInt)
}

// valKey: canonical key for a value used inside atoms.
func (b *boundsCtx) valKey(v ssa.Value) string {
	v = b.c.Resolve(v)
	if p, ok := v.(*ssa.Parameter); ok {
		return fmt.Sprintf("%s.%s", FuncName(p.Parent()), p.Name())
	}
	return b.c.Key(v)
}

// lenOf: linear form of len(x).
func (b *boundsCtx) lenOf(x ssa.Value) lin {
	x = b.c.Resolve(x)
	switch s := x.(type) {
	case *ssa.Slice:
		var hi lin
		if s.High != nil {
			hi = b.norm(s.High)
		} else if p, ok := s.X.Type().Underlying().(*types.Pointer); ok {
			if arr, ok := p.Elem().Underlying().(*types.Array); ok {
				hi = newLin(arr.Len())
			} else {
				hi = b.lenOf(s.X)
			}
		} else {
			hi = b.lenOf(s.X)
		}
		if s.Low != nil {
			return hi.add(b.norm(s.Low), -1)
		}
		return hi
	case *ssa.MakeSlice:
		return b.norm(s.Len)
	case *ssa.Convert:
		// string <-> []byte keeps the length
		from, to := s.X.Type().Underlying(), s.Type().Underlying()
		_, fs := from.(*types.Basic)
		_, ts := to.(*types.Basic)
		isBytes := func(t types.Type) bool {
			sl, ok := t.(*types.Slice)
			if !ok {
				return false
			}
			bt, ok := sl.Elem().Underlying().(*types.Basic)
			return ok && bt.Kind() == types.Uint8
		}
		if (fs && isBytes(to)) || (ts && isBytes(from)) {
			return b.lenOf(s.X)
		}
	case *ssa.ChangeType:
		return b.lenOf(s.X)
	case *ssa.Const:
		if s.Value == nil {
			return newLin(0)
		}
	}
	return b.atom("len("+b.valKey(x)+")", 0, posInf, x)
}

// capOf: linear form of cap(x) when it is structurally known (make with a capacity, re-slice of such a slice).
func (b *boundsCtx) capOf(x ssa.Value) (lin, bool) {
	x = b.c.Resolve(x)
	switch s := x.(type) {
	case *ssa.MakeSlice:
		return b.norm(s.Cap), true
	case *ssa.Slice:
		var top lin
		if p, isPtr := s.X.Type().Underlying().(*types.Pointer); isPtr {
			arr, isArr := p.Elem().Underlying().(*types.Array)
			if !isArr {
				return lin{}, false
			}
			top = newLin(arr.Len())
			if s.Max != nil {
				top = b.norm(s.Max)
			}
			if s.Low != nil {
				return top.add(b.norm(s.Low), -1), true
			}
			return top, true
		}
		if _, isSlice := s.X.Type().Underlying().(*types.Slice); !isSlice {
			return lin{}, false
		}
		if s.Max != nil {
			top = b.norm(s.Max)
		} else {
			t, ok := b.capOf(s.X)
			if !ok {
				return lin{}, false
			}
			top = t
		}
		if s.Low != nil {
			return top.add(b.norm(s.Low), -1), true
		}
		return top, true
	case *ssa.ChangeType:
		return b.capOf(s.X)
	}
	return lin{}, false
}

// norm: linear form of an integer value.
func (b *boundsCtx) norm(v ssa.Value) lin {
	if k, ok := constInt(v); ok {
		return newLin(k)
	}
	switch x := v.(type) {
	case *ssa.BinOp:
		if isIntType(x.Type()) {
			switch x.Op {
			case token.ADD:
				return b.norm(x.X).add(b.norm(x.Y), 1)
			case token.SUB:
				return b.norm(x.X).add(b.norm(x.Y), -1)
			case token.MUL:
				if k, ok := constInt(x.Y); ok {
					l := b.norm(x.X)
					o := newLin(l.C * k)
					for a, c := range l.K {
						o.K[a] = c * k
					}
					return o
				}
			}
		}
	case *ssa.Call:
		if bi, ok := x.Call.Value.(*ssa.Builtin); ok && bi.Name() == "len" && len(x.Call.Args) == 1 {
			return b.lenOf(x.Call.Args[0])
		}
		if bi, ok := x.Call.Value.(*ssa.Builtin); ok && bi.Name() == "cap" && len(x.Call.Args) == 1 {
			if cp, ok := b.capOf(x.Call.Args[0]); ok {
				return cp
			}
		}
	case *ssa.Convert:
		if isIntType(x.Type()) {
			if w, ok := unsignedWidth(x.X.Type()); ok && w < b.c.wordBits {
				return b.atom("zext("+b.valKey(x.X)+")", 0, (int64(1)<<uint(w))-1, x)
			}
			if isIntType(x.X.Type()) {
				return b.norm(x.X)
			}
		}
	case *ssa.ChangeType:
		if isIntType(x.Type()) && isIntType(x.X.Type()) {
			return b.norm(x.X)
		}
	case *ssa.Extract:
		if call, ok := x.Tuple.(*ssa.Call); ok {
			if callee := b.c.StaticCalleeOf(&call.Call); callee != nil && callee.Pkg == b.c.Pkg {
				s := b.summary(callee)
				if s != nil {
					if k, ok := s.Const[x.Index]; ok {
						return newLin(k)
					}
				}
			}
		}
	case *ssa.Phi:
		lo, hi := b.phiRange(x)
		return b.atom("phi("+b.c.Key(x)+")", lo, hi, x)
	}
	lo, hi := int64(negInf), int64(posInf)
	if w, ok := unsignedWidth(v.Type()); ok {
		lo = 0
		// masks and right shifts leave fewer significant bits than the type has (`pktType >> 4`)
		wa := &widthAnalysis{c: b.c, memo: map[ssa.Value]int{}, prog: map[ssa.Value]bool{}}
		if w2 := wa.width(v); w2 < w {
			w = w2
		}
		if w < 62 {
			hi = (int64(1) << uint(w)) - 1
		}
	} else if isIntType(v.Type()) {
		// a value assembled from masked/shifted bytes: the bit-width domain bounds it (0 <= v < 2^w)
		wa := &widthAnalysis{c: b.c, memo: map[ssa.Value]int{}, prog: map[ssa.Value]bool{}}
		if w := wa.width(v); w < b.c.wordBits-1 && w < 62 {
			lo, hi = 0, (int64(1)<<uint(w))-1
		}
	}
	return b.atom("v("+b.valKey(v)+")", lo, hi, v)
}

// phiRange: a counter phi(c0, phi+k, ...) with k >= 0 is bounded below by c0.
func (b *boundsCtx) phiRange(phi *ssa.Phi) (int64, int64) {
	lo, hi := int64(posInf), int64(negInf)
	okLo := true
	for _, e := range phi.Edges {
		k, ok := constInt(e)
		if ex, isEx := e.(*ssa.Extract); !ok && isEx {
			// the count a package decoder always returns (`pos, id = unpackUint16(b)`: 2)
			if l := b.norm(ex); len(l.K) == 0 {
				k, ok = l.C, true
			}
		}
		if ok {
			if k < lo {
				lo = k
			}
			if k > hi {
				hi = k
			}
			continue
		}
		hi = posInf
		if d, ok := offsetFrom(e, phi); ok && d >= 0 {
			continue
		}
		okLo = false
	}
	if !okLo || lo == posInf {
		lo = negInf
	}
	if w, ok := unsignedWidth(phi.Type()); ok {
		if lo < 0 {
			lo = 0
		}
		_ = w
	}
	if hi == negInf {
		hi = posInf
	}
	return lo, hi
}

// minOf: lower bound of a linear form from atom ranges.
func (b *boundsCtx) minOf(l lin) int64 {
	m := l.C
	for k, c := range l.K {
		ai := b.atoms[k]
		if ai == nil {
			return negInf
		}
		if c > 0 {
			if ai.Lo <= negInf {
				return negInf
			}
			m += c * ai.Lo
		} else {
			if ai.Hi >= posInf {
				return negInf
			}
			m += c * ai.Hi
		}
		if m < negInf {
			return negInf
		}
	}
	return m
}

// condFacts translates a comparison taken on edge k (0 = true) into facts.
func (b *boundsCtx) condFacts(iff *ssa.If, k int) []fact {
	bin, ok := iff.Cond.(*ssa.BinOp)
	if !ok {
		return nil
	}
	isInty := func(t types.Type) bool {
		bt, ok := t.Underlying().(*types.Basic)
		return ok && bt.Info()&types.IsInteger != 0
	}
	if !isInty(bin.X.Type()) {
		return nil
	}
	// only reason about comparisons of `int` values (lengths, indices) — narrower types are opaque atoms anyway
	x, y := b.norm(bin.X), b.norm(bin.Y)
	op := bin.Op
	if k == 1 {
		switch op {
		case token.LSS:
			op = token.GEQ
		case token.LEQ:
			op = token.GTR
		case token.GTR:
			op = token.LEQ
		case token.GEQ:
			op = token.LSS
		case token.EQL:
			op = token.NEQ
		case token.NEQ:
			op = token.EQL
		}
	}
	mk := func(l lin, why string) fact {
		return fact{L: l, From: iff, Edge: ifEdge{iff.Block(), k}, Why: why}
	}
	desc := fmt.Sprintf("%s %s %s @%s", bin.X.Name(), op, bin.Y.Name(), b.c.PosStr(iff.Cond.Pos()))
	switch op {
	case token.LSS: // x < y  => y - x - 1 >= 0
		l := y.add(x, -1)
		l.C--
		return []fact{mk(l, desc)}
	case token.LEQ:
		return []fact{mk(y.add(x, -1), desc)}
	case token.GTR:
		l := x.add(y, -1)
		l.C--
		return []fact{mk(l, desc)}
	case token.GEQ:
		return []fact{mk(x.add(y, -1), desc)}
	case token.EQL:
		return []fact{mk(x.add(y, -1), desc), mk(y.add(x, -1), desc)}
	}
	return nil
}

// factsAt: facts holding at the entry of block blk (dominating conditional edges).
func (b *boundsCtx) factsAt(blk *ssa.BasicBlock) []fact {
	if f, ok := b.factsMem[blk]; ok {
		return f
	}
	var out []fact
	fn := blk.Parent()
	if len(blk.Instrs) == 0 {
		return nil
	}
	first := blk.Instrs[0]
	for _, a := range fn.Blocks {
		iff := blockIf(a)
		if iff == nil || a == blk && false {
			continue
		}
		// (no dominator-tree pre-filter: dominance is taken over feasible edges only, see nonnil.go)
		for k := 0; k < 2; k++ {
			if a.Succs[k] == blk && len(blk.Preds) == 1 || DominatedByEdge(fn, first, a, k, PathQ{}) {
				if a == blk {
					continue
				}
				out = append(out, b.condFacts(iff, k)...)
			}
		}
	}
	b.factsMem[blk] = out
	return out
}

// callFacts: summary facts about results of calls appearing as atoms in l.
func (b *boundsCtx) callFacts(l lin) []fact {
	var out []fact
	for k := range l.K {
		ai := b.atoms[k]
		if ai == nil {
			continue
		}
		ex, ok := ai.Val.(*ssa.Extract)
		if !ok {
			continue
		}
		call, ok := ex.Tuple.(*ssa.Call)
		if !ok {
			continue
		}
		callee := b.c.StaticCalleeOf(&call.Call)
		if callee == nil || callee.Pkg != b.c.Pkg {
			continue
		}
		s := b.summary(callee)
		if s == nil {
			continue
		}
		self := newLin(0)
		self.K[k] = 1
		if s.NonNeg[ex.Index] {
			out = append(out, fact{L: self, Why: "summary: " + FuncName(callee) + " result >= 0"})
		}
		for j := range s.LeLen[ex.Index] {
			if j < len(call.Call.Args) {
				out = append(out, fact{L: b.lenOf(call.Call.Args[j]).add(self, -1), Why: fmt.Sprintf("summary: %s result <= len(arg %d)", FuncName(callee), j)})
			}
		}
	}
	return out
}

// prove: goal >= 0 at instruction `at`, using facts. Returns (proved, explanation).
func (b *boundsCtx) prove(goal lin, facts []fact, at ssa.Instruction, goalDesc string) (bool, string) {
	if m := b.minOf(goal); m >= 0 {
		return true, "by value ranges"
	}
	all := append(append([]fact{}, facts...), b.callFacts(goal)...)
	best := int64(-1)
	var bestF []int
	try := func(idx []int) {
		g := goal
		for _, i := range idx {
			g = g.add(all[i].L, -1)
		}
		if m := b.minOf(g); m >= 0 && (best < 0 || m < best) {
			best = m
			bestF = append([]int{}, idx...)
		}
	}
	n := len(all)
	for i := 0; i < n; i++ {
		try([]int{i})
	}
	if bestF == nil {
		for i := 0; i < n; i++ {
			for j := i + 1; j < n; j++ {
				try([]int{i, j})
			}
		}
	}
	if bestF == nil {
		for i := 0; i < n; i++ {
			for j := i + 1; j < n; j++ {
				for k := j + 1; k < n; k++ {
					try([]int{i, j, k})
				}
			}
		}
	}
	if bestF == nil {
		return false, ""
	}
	var why []string
	for _, i := range bestF {
		why = append(why, all[i].Why)
		if all[i].From != nil {
			b.used[all[i].From] = append(b.used[all[i].From], factUse{Goal: goalDesc, Slack: best, At: at})
		}
	}
	return true, strings.Join(why, " & ")
}

// proveAt proves goal at instruction `at`, splitting phi atoms defined in at's block per incoming edge.
func (b *boundsCtx) proveAt(goal lin, at ssa.Instruction, goalDesc string) (bool, string) {
	blk := at.Block()
	facts := b.factsAt(blk)
	if ok, why := b.prove(goal, facts, at, goalDesc); ok {
		return true, why
	}
	// phi splitting
	for k := range goal.K {
		ai := b.atoms[k]
		if ai == nil || ai.Phi == nil || ai.Phi.Block() != blk {
			continue
		}
		coef := goal.K[k]
		allOK := true
		var whys []string
		for i, e := range ai.Phi.Edges {
			pred := blk.Preds[i]
			g2 := goal.clone()
			delete(g2.K, k)
			g2 = g2.add(b.norm(e), coef)
			pf := append([]fact{}, b.factsAt(pred)...)
			// the edge pred->blk may itself be conditional
			if iff := blockIf(pred); iff != nil {
				for kk := 0; kk < 2; kk++ {
					if pred.Succs[kk] == blk && pred.Succs[1-kk] != blk {
						pf = append(pf, b.condFacts(iff, kk)...)
					}
				}
			}
			ok, why := b.prove(g2, pf, at, goalDesc)
			if !ok {
				allOK = false
				break
			}
			whys = append(whys, fmt.Sprintf("edge from block %d: %s", pred.Index, why))
		}
		if allOK {
			return true, strings.Join(whys, "; ")
		}
	}
	return false, ""
}

// ---- summaries ------------------------------------------------------------------------------------------

func (b *boundsCtx) summary(f *ssa.Function) *fnSummary {
	if s, ok := b.sum[f]; ok {
		return s
	}
	if b.inProg[f] || f.Blocks == nil {
		return nil
	}
	b.inProg[f] = true
	defer func() { b.inProg[f] = false }()
	s := &fnSummary{Const: map[int]int64{}, NonNeg: map[int]bool{}, LeLen: map[int]map[int]bool{}}
	res := f.Signature.Results()
	rets := returnsOf(f)
	for i := 0; i < res.Len(); i++ {
		if !isIntType(res.At(i).Type()) {
			continue
		}
		// constant?
		var cst *int64
		isC := len(rets) > 0
		for _, r := range rets {
			k, ok := constInt(b.c.RetVal(r, i))
			if !ok || (cst != nil && *cst != k) {
				isC = false
				break
			}
			kk := k
			cst = &kk
		}
		if isC && cst != nil {
			s.Const[i] = *cst
			s.NonNeg[i] = *cst >= 0
		}
		// nonneg
		nn := len(rets) > 0
		for _, r := range rets {
			if ok, _ := b.proveAt(b.norm(b.c.RetVal(r, i)), r, "result>=0"); !ok {
				nn = false
			}
		}
		if nn {
			s.NonNeg[i] = true
		}
		for j, p := range f.Params {
			switch p.Type().Underlying().(type) {
			case *types.Slice:
			case *types.Basic:
				if p.Type().Underlying().(*types.Basic).Info()&types.IsString == 0 {
					continue
				}
			default:
				continue
			}
			le := len(rets) > 0
			for _, r := range rets {
				g := b.lenOf(p).add(b.norm(b.c.RetVal(r, i)), -1)
				if ok, _ := b.proveAt(g, r, "result<=len"); !ok {
					le = false
				}
			}
			if le {
				if s.LeLen[i] == nil {
					s.LeLen[i] = map[int]bool{}
				}
				s.LeLen[i][j] = true
			}
		}
	}
	b.sum[f] = s
	return s
}

// ---- obligations ----------------------------------------------------------------------------------------

type boundGoal struct {
	At   ssa.Instruction
	Desc string
	L    lin
	Alt  *lin // an alternative that also suffices (slice high bound against cap instead of len)
}

// goalsOf lists the index / slice / make obligations of one function.
func (b *boundsCtx) goalsOf(f *ssa.Function) []boundGoal {
	var out []boundGoal
	add := func(at ssa.Instruction, desc string, l lin) {
		out = append(out, boundGoal{At: at, Desc: desc, L: l})
	}
	upper := func(x ssa.Value) (lin, bool) {
		switch t := x.Type().Underlying().(type) {
		case *types.Pointer:
			if arr, ok := t.Elem().Underlying().(*types.Array); ok {
				return newLin(arr.Len()), true
			}
		case *types.Array:
			return newLin(t.Len()), true
		case *types.Slice, *types.Basic:
			return b.lenOf(x), true
		}
		return lin{}, false
	}
	eachInstr(f, func(in ssa.Instruction) {
		switch x := in.(type) {
		case *ssa.IndexAddr:
			if up, ok := upper(x.X); ok {
				i := b.norm(x.Index)
				add(in, fmt.Sprintf("0 <= %s", x.Index.Name()), i)
				g := up.add(i, -1)
				g.C--
				add(in, fmt.Sprintf("%s < len(%s)", x.Index.Name(), x.X.Name()), g)
			}
		case *ssa.Index:
			if up, ok := upper(x.X); ok {
				i := b.norm(x.Index)
				add(in, fmt.Sprintf("0 <= %s", x.Index.Name()), i)
				g := up.add(i, -1)
				g.C--
				add(in, fmt.Sprintf("%s < len(%s)", x.Index.Name(), x.X.Name()), g)
			}
		case *ssa.Lookup:
			if bt, ok := x.X.Type().Underlying().(*types.Basic); ok && bt.Info()&types.IsString != 0 {
				i := b.norm(x.Index)
				add(in, "0 <= index", i)
				g := b.lenOf(x.X).add(i, -1)
				g.C--
				add(in, "index < len(string)", g)
			}
		case *ssa.Slice:
			up, ok := upper(x.X)
			if !ok {
				return
			}
			lo := newLin(0)
			if x.Low != nil {
				lo = b.norm(x.Low)
				add(in, fmt.Sprintf("0 <= low %s", x.Low.Name()), lo)
			}
			hi := up
			if x.High != nil {
				hi = b.norm(x.High)
				add(in, fmt.Sprintf("high %s <= len(%s)", x.High.Name(), x.X.Name()), up.add(hi, -1))
				if _, isSlice := x.X.Type().Underlying().(*types.Slice); isSlice {
					// s[lo:hi] of a slice only needs hi <= cap(s)
					if cp, ok := b.capOf(x.X); ok {
						alt := cp.add(hi, -1)
						out[len(out)-1].Alt = &alt
					}
				}
			}
			if x.Low != nil {
				add(in, "low <= high", hi.add(lo, -1))
			}
		case *ssa.MakeSlice:
			add(in, "0 <= make length", b.norm(x.Len))
		}
	})
	return out
}

// analyse runs the prover over a set of functions; returns undischarged goals and the discharged ones.
type boundResult struct {
	Goal   boundGoal
	Fn     *ssa.Function
	OK     bool
	Why    string
	Lifted bool
}

func (b *boundsCtx) onlyParamLens(f *ssa.Function, l lin) bool {
	for k := range l.K {
		ai := b.atoms[k]
		if ai == nil || !strings.HasPrefix(k, "len(") {
			return false
		}
		p, ok := ai.Val.(*ssa.Parameter)
		if !ok || p.Parent() != f {
			return false
		}
	}
	return true
}

func (b *boundsCtx) analyse(fns []*ssa.Function) []boundResult {
	var res []boundResult
	inSet := map[*ssa.Function]bool{}
	for _, f := range fns {
		inSet[f] = true
	}
	la := b.c.locks()
	// first pass: own goals, lifting
	for _, f := range fns {
		for _, g := range b.goalsOf(f) {
			ok, why := b.proveAt(g.L, g.At, g.Desc)
			if !ok && g.Alt != nil {
				ok2, why2 := b.proveAt(*g.Alt, g.At, g.Desc+" (against cap)")
				if os.Getenv("MQTTCHECK_DEBUG_BOUNDS") != "" {
					fmt.Fprintf(os.Stderr, "bounds: alt goal %s >= 0 at %s: %v %s\n", g.Alt.String(), b.c.Fset.Position(g.At.Pos()), ok2, why2)
				}
				if ok2 {
					ok, why = ok2, why2
				}
			}
			r := boundResult{Goal: g, Fn: f, OK: ok, Why: why}
			if !ok && b.onlyParamLens(f, g.L) && len(la.callers[f]) > 0 && f.Parent() == nil {
				r.Lifted = true
				b.pre[f] = append(b.pre[f], preCond{L: g.L, Desc: g.Desc, Pos: g.At.Pos()})
			}
			res = append(res, r)
		}
	}
	// second pass: lifted preconditions at call sites (iterate: a caller may lift again)
	for round := 0; round < 4; round++ {
		progress := false
		for f, pcs := range b.pre {
			for _, site := range la.callers[f] {
				caller := site.Parent()
				cc := callCommon(site)
				for _, pc := range pcs {
					// substitute len(param j) -> len(arg j)
					g := newLin(pc.L.C)
					for k, coef := range pc.L.K {
						p := b.atoms[k].Val.(*ssa.Parameter)
						idx := -1
						for j, pp := range f.Params {
							if pp == p {
								idx = j
							}
						}
						if idx < 0 || idx >= len(cc.Args) {
							continue
						}
						g = g.add(b.lenOf(cc.Args[idx]), coef)
					}
					desc := fmt.Sprintf("precondition of %s (%s)", FuncName(f), pc.Desc)
					key := fmt.Sprintf("%p/%s", site, desc)
					if b.seenPre[key] {
						continue
					}
					b.seenPre[key] = true
					ok, why := b.proveAt(g, site, desc)
					r := boundResult{Goal: boundGoal{At: site, Desc: desc, L: g}, Fn: caller, OK: ok, Why: why}
					if !ok && b.onlyParamLens(caller, g) && len(la.callers[caller]) > 0 && caller.Parent() == nil {
						r.Lifted = true
						b.pre[caller] = append(b.pre[caller], preCond{L: g, Desc: desc, Pos: site.Pos()})
						progress = true
					}
					res = append(res, r)
				}
			}
		}
		if !progress {
			break
		}
	}
	return res
}
