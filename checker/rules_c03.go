package main

import (
	"go/token"

	"golang.org/x/tools/go/ssa"
)

func init() {
	register("C03", "Decided: the queue discipline that produces wire order — every place where order could be permuted. R-C03-1 one consumer goroutine, started once, pops element 0 inside the critical section in which it loaded it; R-C03-2 the task queue and the retry queue are only ever tail-appended, popped at the front or reset after a snapshot; R-C03-3 a request is sent at once only when the retry queue is empty, otherwise it is queued behind; R-C03-4 nothing reachable from a task starts a goroutine (one outstanding request at a time); R-C03-5 Retry() processes its snapshot in ascending order, stops at the first failure and re-queues [continuation, unattempted tail] in that order; R-C03-6 Resubscribe precedes Retry after a reconnect; R-C03-7 API calls go through the queue (only the documented DirectlyPublishQoS0 bypass). Not decided: what a broker does with the order; concurrent submitters.", checkC03)
}

func checkC03(r *Run) {
	c := r.C
	r1 := r.Rule("R-C03-1", "single consumer, started once; pops element 0 in the same critical section; task closures are invoked nowhere else")
	r2 := r.Rule("R-C03-2", "FIFO stores: taskQueue and retryQueue are only tail-appended, front-popped, or reset after a snapshot")
	r3 := r.Rule("R-C03-3", "queue-behind: direct transmission only on the `len(retryQueue) == 0` edge")
	r4 := r.Rule("R-C03-4", "no goroutine is started in anything reachable from a task closure")
	r5 := r.Rule("R-C03-5", "Retry(): ascending order, stop at first failure, re-queue [continuation, unattempted tail] in this order")
	r6 := r.Rule("R-C03-6", "after a reconnect Resubscribe (if any) is queued before Retry")
	r7 := r.Rule("R-C03-7", "API requests go through the task queue (R-C01-1)")
	r8 := r.Rule("R-C03-8", "queued publishing is the default: the RetryClient created by NewReconnectClient has DirectlyPublishQoS0 unset, and nothing in the package sets it")
	r2.Floor(5)
	r3.Floor(2)
	nSet := 0
	for _, f := range c.Funcs {
		eachInstr(f, func(in ssa.Instruction) {
			st, ok := in.(*ssa.Store)
			if !ok {
				return
			}
			if _, isD := isFieldAddr(st.Addr, "RetryClient", "DirectlyPublishQoS0"); isD {
				nSet++
				if b, isK := constBool(st.Val); !isK || b {
					r8.Bad(FuncName(f)+"/DirectlyPublishQoS0", st.Pos(), "the library itself turns on DirectlyPublishQoS0: QoS 0 messages bypass the queue by default and overtake queued messages")
				}
			}
		})
	}
	if nSet == 0 {
		r8.OK("DirectlyPublishQoS0", token.NoPos, "no store to RetryClient.DirectlyPublishQoS0 in the package: the zero value (queued mode) is the default")
	}
	a := c.retryAnchors()
	if a.lost(r1) {
		return
	}
	c.ruleTaskQueueing(nil, r3)
	c.ruleRetryRequeue(r5, nil, "order")
	c.ruleAcceptedEnqueued(r7)

	// --- R-C03-1
	g := c.taskGoroutine(a)
	if g == nil {
		r1.Lost("task-goroutine", "not found")
	} else {
		gk := FuncName(g)
		// invocations of task queue elements anywhere in the package
		n := 0
		for _, f := range c.Funcs {
			eachInstr(f, func(in ssa.Instruction) {
				cc := callCommon(in)
				if cc == nil || cc.IsInvoke() || cc.StaticCallee() != nil {
					return
				}
				ld, ok := c.ResolveAt(cc.Value, in).(*ssa.UnOp) // the task may travel through a result variable of a dequeue helper
				if !ok || ld.Op != token.MUL {
					return
				}
				ia, ok := ld.X.(*ssa.IndexAddr)
				if !ok {
					return
				}
				qld, ok := ia.X.(*ssa.UnOp)
				if !ok {
					return
				}
				base, isTQ := isLoadOfField(qld, a.TaskQueue)
				if !isTQ {
					return
				}
				n++
				key := FuncName(f) + "/task-call"
				if f != g {
					r1.Bad(key, in.Pos(), "a queued task is executed outside the single task goroutine: two requests can be in flight at once and overtake each other")
					return
				}
				if _, isGo := in.(*ssa.Go); isGo {
					r1.Bad(key, in.Pos(), "tasks are started as goroutines: later requests can overtake earlier ones")
					return
				}
				if k, ok := constInt(ia.Index); !ok || k != 0 {
					r1.Bad(key, in.Pos(), "the task executed is not the first element of the queue")
					return
				}
				// pop store in the same critical section
				var pop *ssa.Store
				for _, st := range storesToField(g, a.TaskQueue) {
					if sl, ok := st.Val.(*ssa.Slice); ok {
						if _, isTQ := isLoadOfField(sl.X, a.TaskQueue); isTQ {
							if lo, ok := constInt(sl.Low); ok && lo == 1 && sl.High == nil {
								pop = st
							}
						}
					}
				}
				if pop == nil {
					r1.Bad(key, in.Pos(), "the executed task is not removed from the front of the queue (taskQueue = taskQueue[1:])")
					return
				}
				if a.Mu == nil || !c.heldAt(g, qld, base, a.Mu, "w") || !c.heldAt(g, pop, base, a.Mu, "w") {
					r1.Bad(key, pop.Pos(), "the task is loaded or popped outside the client's exclusive lock")
					return
				}
				isUnlock := func(x ssa.Instruction) bool {
					lo := c.lockOpOf(x)
					return lo != nil && lo.Field == a.Mu && (lo.Op == "Unlock" || lo.Op == "RUnlock")
				}
				if !Dominated(g, pop, func(x ssa.Instruction) bool { return x == ssa.Instruction(qld) }, PathQ{}) {
					r1.Bad(key, pop.Pos(), "the pop is not preceded by the load of the task it removes")
					return
				}
				if _, found := CanReach(g, qld, func(x ssa.Instruction) bool { return x == ssa.Instruction(pop) }, PathQ{BlockInstr: isUnlock}); !found {
					r1.Bad(key, pop.Pos(), "the lock is released between loading the first task and popping it: a concurrent pushTask/pop can make the popped element differ from the executed one")
					return
				}
				r1.OK(key, in.Pos(), "executes taskQueue[0], popped in the same c.mu critical section, only in %s", gk)
			})
		}
		if n == 0 {
			r1.Lost(gk+"/task-call", "no invocation of a task-queue element found")
		}
		// started once: the go statement is dominated by "chTask was nil"
		sc := c.Method("RetryClient", "SetClient")
		var goI *ssa.Go
		eachInstr(sc, func(in ssa.Instruction) {
			if x, ok := in.(*ssa.Go); ok {
				goI = x
			}
		})
		okOnce := false
		if goI != nil {
			for _, b := range sc.Blocks {
				iff := blockIf(b)
				if iff == nil {
					continue
				}
				bin, ok := iff.Cond.(*ssa.BinOp)
				if !ok {
					continue
				}
				if _, isCT := isLoadOfField(bin.X, a.ChTask); !isCT || !isNilConst(bin.Y) {
					continue
				}
				edge := -1
				switch bin.Op {
				case token.NEQ:
					edge = 1
				case token.EQL:
					edge = 0
				}
				if edge >= 0 && DominatedByEdge(sc, goI, b, edge, PathQ{}) {
					okOnce = true
				}
			}
		}
		if okOnce {
			r1.OK("(*RetryClient).SetClient/go", goI.Pos(), "the consumer goroutine is started only when chTask was nil (once per RetryClient)")
		} else if goI != nil {
			r1.Bad("(*RetryClient).SetClient/go", goI.Pos(), "the task goroutine can be started more than once: two consumers pop the same queue and requests are executed out of order")
		}
	}

	// --- R-C03-2
	for _, f := range c.Funcs {
		for _, st := range storesToField(f, a.TaskQueue) {
			key := FuncName(f) + "/taskQueue"
			base, elems, ok := c.appendChain(st.Val)
			if _, isTQ := isLoadOfField(base, a.TaskQueue); ok && isTQ && len(elems) >= 1 {
				r2.OK(key, st.Pos(), "tail append")
				continue
			}
			if sl, ok := st.Val.(*ssa.Slice); ok {
				if _, isTQ := isLoadOfField(sl.X, a.TaskQueue); isTQ && sl.High == nil {
					if lo, ok := constInt(sl.Low); ok && lo == 1 {
						r2.OK(key, st.Pos(), "front pop")
						continue
					}
				}
			}
			r2.Bad(key, st.Pos(), "the task queue is modified other than by a tail append or a front pop: submission order is not preserved")
		}
		for _, st := range storesToField(f, a.RetryQueue) {
			key := FuncName(f) + "/retryQueue"
			if isNilConst(st.Val) {
				if f.Parent() != nil && enclosingTop(f) == c.Method("RetryClient", "Retry") {
					r2.OK(key, st.Pos(), "reset in Retry (after the snapshot, R-C03-5)")
				} else {
					r2.Bad(key, st.Pos(), "the retry queue is cleared outside Retry()")
				}
				continue
			}
			base, elems, ok := c.appendChain(st.Val)
			if _, isRQ := isLoadOfField(base, a.RetryQueue); ok && isRQ {
				if len(elems) >= 1 {
					r2.OK(key, st.Pos(), "tail append")
				} else {
					r2.OK(key, st.Pos(), "append of an empty list (no change)")
				}
				continue
			}
			r2.Bad(key, st.Pos(), "the retry queue is modified other than by a tail append (prepend / insertion / overwrite): retransmission order is permuted or entries are lost")
		}
	}

	// --- R-C03-4
	var roots []*ssa.Function
	for _, f := range c.Funcs {
		eachInstr(f, func(in ssa.Instruction) {
			if k, ok := in.(*ssa.Call); ok && c.StaticCalleeOf(&k.Call) == a.PushTask && pushTaskArg(k) != nil {
				if fn, _ := c.closureOf(pushTaskArg(k)); fn != nil {
					roots = append(roots, fn)
				}
			}
		})
	}
	reach := c.reachableFuncs(roots, true)
	// closures queued into the retry queue run in the task goroutine as well
	for f := range reach {
		for _, g := range withClosures(f) {
			reach[g] = true
		}
	}
	bad := false
	for f := range reach {
		eachInstr(f, func(in ssa.Instruction) {
			if _, ok := in.(*ssa.Go); ok {
				bad = true
				r4.Bad(FuncName(f)+"/go", in.Pos(), "a goroutine is started inside a task: the request no longer completes before the next task starts")
			}
		})
	}
	if !bad {
		r4.OK("tasks", a.PushTask.Pos(), "no go statement in the %d functions reachable from the %d task closures", len(reach), len(roots))
	}

	// --- R-C03-6
	m, why := c.reconnModel()
	if m == nil {
		r6.Lost("reconnect-loop", "%s", why)
		return
	}
	if m.Resub == nil || m.Retry == nil {
		r6.Lost("reconnect-loop/resub-retry", "Resubscribe or Retry call missing")
		return
	}
	stop := PathQ{BlockInstr: func(in ssa.Instruction) bool { return in == ssa.Instruction(m.Dial) }}
	if _, found := CanReach(m.F, m.Retry, func(in ssa.Instruction) bool { return in == ssa.Instruction(m.Resub) }, stop); found {
		r6.Bad(FuncName(m.F)+"/resub-before-retry", m.Resub.Pos(), "Resubscribe is queued after Retry: retransmitted publishes go out before the subscriptions are restored, and pending (un)subscribe requests are reordered against the resubscription")
	} else {
		r6.OK(FuncName(m.F)+"/resub-before-retry", m.Resub.Pos(), "within one iteration no path leads from Retry() to Resubscribe()")
	}
}
