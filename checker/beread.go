package main

import (
	"go/token"
	"go/types"

	"golang.org/x/tools/go/ssa"
)

// beRead16 recognises a 16-bit big-endian read written in place: uint16(b[i])<<8 | uint16(b[i+1]) (also with +), or
// encoding/binary's BigEndian.Uint16(b). It returns the slice read and the index of the most significant byte (nil = 0).
func (c *Ctx) beRead16(v ssa.Value) (base ssa.Value, at ssa.Value, ok bool) {
	for {
		if ct, isCT := v.(*ssa.ChangeType); isCT {
			v = ct.X
			continue
		}
		break
	}
	if call, isCall := v.(*ssa.Call); isCall {
		if isStdCall(&call.Call, "encoding/binary", "Uint16") {
			if f := c.StaticCalleeOf(&call.Call); f != nil && f.Signature.Recv() != nil && namedOf(f.Signature.Recv().Type()) != nil && namedOf(f.Signature.Recv().Type()).Obj().Name() == "bigEndian" && len(call.Call.Args) == 2 {
				return call.Call.Args[1], nil, true
			}
		}
		return nil, nil, false
	}
	bin, isBin := v.(*ssa.BinOp)
	if !isBin || (bin.Op != token.OR && bin.Op != token.ADD) {
		return nil, nil, false
	}
	byteAt := func(v ssa.Value) (ssa.Value, ssa.Value, bool) {
		cv, isCv := v.(*ssa.Convert)
		if !isCv {
			return nil, nil, false
		}
		if bt, isB := cv.Type().Underlying().(*types.Basic); !isB || bt.Info()&types.IsInteger == 0 || bt.Kind() == types.Uint8 || bt.Kind() == types.Int8 {
			return nil, nil, false
		}
		ld, isLd := cv.X.(*ssa.UnOp)
		if !isLd || ld.Op != token.MUL {
			return nil, nil, false
		}
		ia, isIA := ld.X.(*ssa.IndexAddr)
		if !isIA {
			return nil, nil, false
		}
		return ia.X, ia.Index, true
	}
	try := func(hi, lo ssa.Value) (ssa.Value, ssa.Value, bool) {
		sh, isSh := hi.(*ssa.BinOp)
		if !isSh || sh.Op != token.SHL {
			return nil, nil, false
		}
		if k, isK := constInt(sh.Y); !isK || k != 8 {
			return nil, nil, false
		}
		hb, hi0, okH := byteAt(sh.X)
		lb, lo0, okL := byteAt(lo)
		if !okH || !okL || hb != lb {
			return nil, nil, false
		}
		hk, hIsK := constInt(hi0)
		lk, lIsK := constInt(lo0)
		switch {
		case hIsK && lIsK && lk == hk+1:
			if hk == 0 {
				return hb, nil, true
			}
			return hb, hi0, true
		case !hIsK && !lIsK:
			if add, isAdd := lo0.(*ssa.BinOp); isAdd && add.Op == token.ADD {
				if k, isK := constInt(add.Y); isK && k == 1 && add.X == hi0 {
					return hb, hi0, true
				}
				if k, isK := constInt(add.X); isK && k == 1 && add.Y == hi0 {
					return hb, hi0, true
				}
			}
		}
		return nil, nil, false
	}
	if b, a, ok := try(bin.X, bin.Y); ok {
		return b, a, true
	}
	return try(bin.Y, bin.X)
}
