package main

import (
	"go/token"
	"go/types"

	"golang.org/x/tools/go/ssa"
)

// API method -> (request method of RetryClient, BaseClient method issued)
var retryAPIs = []struct{ API, Req, Base string }{
	{"Publish", "publish", "Publish"},
	{"Subscribe", "subscribe", "Subscribe"},
	{"Unsubscribe", "unsubscribe", "Unsubscribe"},
}

// edgeOfNilTest finds the If edges on which v (an error value) is non-nil / nil.
// Returns edges (block, k) where v != nil holds.
func nonNilEdges(f *ssa.Function, v ssa.Value) []ifEdge {
	var out []ifEdge
	// the library's error wrappers preserve nil-ness (checked: nonnil.go), so a test of wrapError(v, …) is a test of v
	cands := map[ssa.Value]bool{v: true}
	if c := curCtx; c != nil && c.wrapOK && v != nil {
		if refs := v.Referrers(); refs != nil {
			for _, u := range *refs {
				if k, ok := u.(*ssa.Call); ok && len(k.Call.Args) > 0 && k.Call.Args[0] == v {
					if g := c.StaticCalleeOf(&k.Call); g != nil && c.isWrapFn(g) {
						cands[k] = true
					}
				}
			}
		}
	}
	for _, b := range f.Blocks {
		iff := blockIf(b)
		if iff == nil {
			continue
		}
		bin, ok := iff.Cond.(*ssa.BinOp)
		if !ok {
			continue
		}
		var other ssa.Value
		if cands[bin.X] {
			other = bin.Y
		} else if cands[bin.Y] {
			other = bin.X
		} else {
			continue
		}
		if !isNilConst(other) {
			continue
		}
		switch bin.Op {
		case token.NEQ:
			out = append(out, ifEdge{b, 0})
		case token.EQL:
			out = append(out, ifEdge{b, 1})
		}
	}
	if len(out) > 1 {
		// a repeated test of the same value below an edge on which it is already known to be non-nil (left behind when a
		// helper's `return err` was threaded into the caller's `if err != nil`) is not a test of its own
		var prim []ifEdge
		for i, e := range out {
			redundant := false
			last := e.B.Instrs[len(e.B.Instrs)-1]
			for j, e2 := range out {
				if i != j && e2.B != e.B && DominatedByEdge(f, last, e2.B, e2.K, PathQ{}) {
					redundant = true
				}
			}
			if !redundant {
				prim = append(prim, e)
			}
		}
		if len(prim) > 0 {
			out = prim
		}
	}
	return out
}

func nilEdges(f *ssa.Function, v ssa.Value) []ifEdge {
	var out []ifEdge
	for _, e := range nonNilEdges(f, v) {
		out = append(out, ifEdge{e.B, 1 - e.K})
	}
	return out
}

// ---- R-C01-1 -----------------------------------------------------------------------------------------

func (c *Ctx) ruleAcceptedEnqueued(rr *RuleRep) {
	a := c.retryAnchors()
	if a.lost(rr) {
		return
	}
	rr.Floor(3)
	basePublish := c.Method("BaseClient", "Publish")
	for _, api := range retryAPIs {
		m := c.Method("RetryClient", api.API)
		key := "(*RetryClient)." + api.API
		if m == nil {
			rr.Lost(key, "API method not found")
			continue
		}
		push, task := c.taskClosureOf(a, m)
		if push == nil || task == nil {
			rr.Bad(key, m.Pos(), "%s does not hand the request to the task queue (no pushTask with a closure)", api.API)
			continue
		}
		// request parameter of the API (last parameter)
		reqParam := m.Params[len(m.Params)-1]
		good := true
		for _, ret := range returnsOf(m) {
			ev := c.Resolve(c.errResult(ret))
			inner := ev
			if call, callee := c.asCall(ev); call != nil && callee != nil && callee.Pkg == c.Pkg && c.isWrapFn(callee) && len(call.Call.Args) > 0 {
				inner = c.Resolve(call.Call.Args[0])
			}
			switch {
			case inner == ssa.Value(push):
				// nil iff pushTask returned nil
			case isNilConst(inner) && func() bool {
				for _, e := range nonNilEdges(m, push) {
					if DominatedByEdge(m, ret, e.B, 1-e.K, PathQ{}) {
						return true
					}
				}
				return false
			}():
				// `return nil` on the edge where pushTask returned nil: accepted and enqueued
			case func() bool {
				for _, e := range nonNilEdges(m, inner) {
					if DominatedByEdge(m, ret, e.B, e.K, PathQ{}) {
						return true
					}
				}
				return false
			}():
				// provably non-nil: rejected, not accepted
			case func() bool {
				call, callee := c.asCall(inner)
				return call != nil && callee == basePublish && basePublish != nil
			}():
				// direct publish: only under DirectlyPublishQoS0 && QoS == 0
				okDirect := false
				for _, b := range m.Blocks {
					iff := blockIf(b)
					if iff == nil {
						continue
					}
					if _, isD := isFieldLoad(iff.Cond, "RetryClient", "DirectlyPublishQoS0"); isD && DominatedByEdge(m, ret, b, 0, PathQ{}) {
						okDirect = true
					}
				}
				okQ := false
				for _, b := range m.Blocks {
					iff := blockIf(b)
					if iff == nil {
						continue
					}
					if bin, ok := iff.Cond.(*ssa.BinOp); ok && bin.Op == token.EQL {
						if base, isQ := isFieldLoad(bin.X, "Message", "QoS"); isQ && c.Resolve(base) == ssa.Value(reqParam) {
							if k, ok := constInt(bin.Y); ok && k == 0 && DominatedByEdge(m, ret, b, 0, PathQ{}) {
								okQ = true
							}
						}
					}
				}
				if !(okDirect && okQ) {
					good = false
					rr.Bad(key+"/bypass", ret.Pos(), "a request bypasses the queue (direct BaseClient.Publish) outside the documented DirectlyPublishQoS0 && QoS 0 case: a failure is returned nowhere and the message is neither queued nor retried")
				}
			default:
				good = false
				rr.Bad(key+"/return", ret.Pos(), "%s can return %s without having enqueued the request (accepted but never carried out)", api.API, describeVal(ev))
			}
		}
		// the closure issues the request with the API's own arguments, on every path
		req := c.Method("RetryClient", api.Req)
		var calls []*ssa.Call
		eachInstr(task, func(in ssa.Instruction) {
			if k, ok := in.(*ssa.Call); ok && req != nil && c.StaticCalleeOf(&k.Call) == req {
				calls = append(calls, k)
			}
		})
		if len(calls) != 1 {
			good = false
			rr.Bad(key+"/task", task.Pos(), "the queued task does not issue exactly one %s request (found %d)", api.Req, len(calls))
		} else {
			k := calls[0]
			args := k.Call.Args
			last := c.Resolve(args[len(args)-1])
			if last != ssa.Value(reqParam) {
				good = false
				rr.Bad(key+"/task-arg", k.Pos(), "the queued task issues %s with %s, not with the request the application passed to %s", api.Req, describeVal(last), api.API)
			}
			// ctx and cli of the task
			hasCtx, hasCli := false, false
			for _, x := range args {
				if x == ssa.Value(task.Params[0]) {
					hasCtx = true
				}
				if x == ssa.Value(task.Params[1]) {
					hasCli = true
				}
			}
			if !hasCtx || !hasCli {
				good = false
				rr.Bad(key+"/task-arg", k.Pos(), "the queued task does not run the request on the client/context it is given by the task goroutine")
			}
			if w, ok := CanReach(task, nil, realExit, PathQ{BlockInstr: func(in ssa.Instruction) bool { return in == ssa.Instruction(k) }}); ok {
				good = false
				rr.Bad(key+"/task-path", w.Pos(), "a path through the queued task skips the request")
			}
		}
		if good {
			rr.OK(key, push.Pos(), "every nil return passes pushTask(closure -> c.%s(ctx, cli, <API argument>))", api.Req)
		}
	}
	// pushTask itself
	pt := a.PushTask
	taskParam := pt.Params[len(pt.Params)-1]
	var appendStore *ssa.Store
	for _, st := range storesToField(pt, a.TaskQueue) {
		base, elems, ok := c.appendChain(st.Val)
		if !ok {
			continue
		}
		if _, isTQ := isLoadOfField(base, a.TaskQueue); isTQ && len(elems) == 1 && elems[0].Single == ssa.Value(taskParam) {
			appendStore = st
		}
	}
	if appendStore == nil {
		rr.Bad("pushTask/append", pt.Pos(), "pushTask does not append the task to the task queue")
		return
	}
	okPush := true
	for _, ret := range returnsOf(pt) {
		ev := c.Resolve(c.errResult(ret))
		if isNilConst(ev) {
			if !Dominated(pt, ret, func(in ssa.Instruction) bool { return in == ssa.Instruction(appendStore) }, PathQ{}) {
				okPush = false
				rr.Bad("pushTask/nil-return", ret.Pos(), "pushTask can return nil without having appended the task: the request is accepted and silently dropped")
			}
		} else if c.globalLoadName(ev) != "ErrClosedClient" {
			okPush = false
			rr.Bad("pushTask/return", ret.Pos(), "pushTask returns %s", describeVal(ev))
		}
	}
	if okPush {
		rr.OK("pushTask", appendStore.Pos(), "every nil return of pushTask is dominated by taskQueue = append(taskQueue, task); the other return is ErrClosedClient")
	}
}

// ---- R-C01-2 -----------------------------------------------------------------------------------------

func (c *Ctx) taskGoroutine(a *retryAnchors) *ssa.Function {
	sc := c.Method("RetryClient", "SetClient")
	if sc == nil {
		return nil
	}
	var out *ssa.Function
	eachInstr(sc, func(in ssa.Instruction) {
		if g, ok := in.(*ssa.Go); ok {
			if fn := c.StaticCalleeOf(&g.Call); fn != nil {
				out = fn
			}
		}
	})
	return out
}

func (c *Ctx) ruleWakeup(rr *RuleRep) {
	a := c.retryAnchors()
	if a.lost(rr) {
		return
	}
	rr.Floor(3)
	// creation sites of chTask
	n := 0
	for _, f := range c.Funcs {
		for _, st := range storesToField(f, a.ChTask) {
			n++
			mk, ok := c.Resolve(st.Val).(*ssa.MakeChan)
			if !ok {
				rr.Bad("chTask/creation", st.Pos(), "task wake-up channel is set to something that is not a fresh channel")
				continue
			}
			if k, ok := constInt(mk.Size); !ok || k < 1 {
				rr.Bad("chTask/creation", st.Pos(), "task wake-up channel is unbuffered: pushTask's non-blocking send is lost whenever the task goroutine is busy, and the task then waits although the queue is not empty")
			} else {
				rr.OK("chTask/creation", st.Pos(), "make(chan struct{}, %d)", k)
			}
		}
	}
	if n == 0 {
		rr.Lost("chTask/creation", "task wake-up channel is never created")
	}
	// pushTask: append precedes non-blocking send, both under mu
	pt := a.PushTask
	var send *ssa.Select
	eachInstr(pt, func(in ssa.Instruction) {
		if sel, ok := in.(*ssa.Select); ok {
			for _, s := range sel.States {
				if s.Dir == types.SendOnly {
					if _, ok := isLoadOfField(s.Chan, a.ChTask); ok {
						send = sel
					}
				}
			}
		}
	})
	if send == nil {
		rr.Bad("pushTask/wake", pt.Pos(), "pushTask does not wake the task goroutine")
	} else {
		ok := true
		if send.Blocking {
			ok = false
			rr.Bad("pushTask/wake", send.Pos(), "pushTask's wake-up send blocks while holding the client's lock")
		}
		isAppend := func(in ssa.Instruction) bool {
			st, isSt := in.(*ssa.Store)
			if !isSt {
				return false
			}
			_, isTQ := isAddrOfField(st.Addr, a.TaskQueue)
			return isTQ
		}
		if !Dominated(pt, send, isAppend, PathQ{}) {
			ok = false
			rr.Bad("pushTask/wake", send.Pos(), "the wake-up is sent before the task is appended: the task goroutine can find the queue empty, go back to sleep and never see the request")
		}
		if a.Mu != nil && !c.heldAt(pt, send, pt.Params[0], a.Mu, "w") {
			ok = false
			rr.Bad("pushTask/wake", send.Pos(), "append + wake-up are not done inside one critical section of the client's lock")
		}
		if ok {
			rr.OK("pushTask/wake", send.Pos(), "append, then non-blocking send on chTask, inside c.mu")
		}
	}
	// consumer: waits on chTask only after having seen the queue empty under mu
	g := c.taskGoroutine(a)
	if g == nil {
		rr.Lost("task-goroutine", "no goroutine started by SetClient")
		return
	}
	var wait *ssa.Select
	eachInstr(g, func(in ssa.Instruction) {
		if sel, ok := in.(*ssa.Select); ok && sel.Blocking {
			for _, s := range sel.States {
				if s.Dir == types.RecvOnly {
					if _, ok := isLoadOfField(s.Chan, a.ChTask); ok {
						wait = sel
					}
				}
			}
		}
	})
	if wait == nil {
		rr.Bad("task-goroutine/wait", g.Pos(), "the task goroutine never waits on the wake-up channel")
		return
	}
	okWait := false
	for _, b := range g.Blocks {
		iff := blockIf(b)
		if iff == nil {
			continue
		}
		bin, ok := iff.Cond.(*ssa.BinOp)
		if !ok || bin.Op != token.EQL {
			continue
		}
		k, isK := constInt(bin.Y)
		call, isCall := bin.X.(*ssa.Call)
		if !isK || k != 0 || !isCall {
			continue
		}
		bi, ok := call.Call.Value.(*ssa.Builtin)
		if !ok || bi.Name() != "len" {
			continue
		}
		ld, ok := call.Call.Args[0].(*ssa.UnOp)
		if !ok {
			continue
		}
		base, isTQ := isLoadOfField(ld, a.TaskQueue)
		if !isTQ {
			continue
		}
		if DominatedByEdge(g, wait, b, 0, PathQ{}) && a.Mu != nil && c.heldAt(g, ld, base, a.Mu, "r") {
			okWait = true
		}
	}
	if okWait {
		rr.OK("task-goroutine/wait", wait.Pos(), "waits on chTask only on the `len(taskQueue) == 0` edge evaluated under c.mu")
	} else {
		rr.Bad("task-goroutine/wait", wait.Pos(), "the task goroutine waits on the wake-up channel without having checked, under the lock, that the task queue is empty")
	}
}

// ---- R-C01-3 and R-C03-3 -----------------------------------------------------------------------------

// requestClosure: the closure inside (*RetryClient).<req> that calls BaseClient.<Base>.
func (c *Ctx) requestClosure(req *ssa.Function, base *ssa.Function) (*ssa.Function, *ssa.Call) {
	for _, g := range withClosures(req) {
		if g == req {
			continue
		}
		var hit *ssa.Call
		impl := c.implOf(base)
		eachInstr(g, func(in ssa.Instruction) {
			if k, ok := in.(*ssa.Call); ok {
				if callee := c.StaticCalleeOf(&k.Call); callee != nil && (callee == base || callee == impl) {
					hit = k
				}
			}
		})
		if hit != nil {
			return g, hit
		}
	}
	return nil, nil
}

// implOf: the package function a BaseClient request method delegates to (publishImpl for Publish, …).
func (c *Ctx) implOf(base *ssa.Function) *ssa.Function {
	if base == nil {
		return nil
	}
	switch base.Name() {
	case "Publish":
		return c.Func("publishImpl")
	case "Subscribe":
		return c.Func("subscribeImpl")
	case "Unsubscribe":
		return c.Func("unsubscribeImpl")
	}
	return nil
}

func (c *Ctx) ruleTaskNeverDiscards(rr *RuleRep) {
	c.ruleTaskQueueing(rr, nil)
}

// ruleTaskQueueing implements R-C01-3 (rr) and R-C03-3 (rq: queue-behind).
func (c *Ctx) ruleTaskQueueing(rr *RuleRep, rq *RuleRep, onlyReq ...string) {
	a := c.retryAnchors()
	rep := rr
	if rep == nil {
		rep = rq
	}
	if a.lost(rep) {
		return
	}
	validate := c.Method("BaseClient", "ValidateMessage")
	for _, api := range retryAPIs {
		if len(onlyReq) > 0 {
			keep := false
			for _, o := range onlyReq {
				if o == api.Req {
					keep = true
				}
			}
			if !keep {
				continue
			}
		}
		f := c.Method("RetryClient", api.Req)
		key := "(*RetryClient)." + api.Req
		if f == nil {
			rep.Lost(key, "request method not found")
			continue
		}
		base := c.Method("BaseClient", api.Base)
		reqC, _ := c.requestClosure(f, base)
		if reqC == nil {
			rep.Lost(key+"/closure", "no closure issuing BaseClient.%s found in %s", api.Base, api.Req)
			continue
		}
		implF := c.implOf(base)
		isDirect := func(in ssa.Instruction) bool {
			k, ok := in.(*ssa.Call)
			if !ok {
				return false
			}
			callee := c.StaticCalleeOf(&k.Call)
			// the request closure is invoked, or (its body inlined at the place of the call) the request is issued right here
			return callee != nil && (callee == reqC || callee == base || callee == implF)
		}
		isQueued := func(in ssa.Instruction) bool {
			st, ok := in.(*ssa.Store)
			if !ok {
				return false
			}
			if _, isRQ := isAddrOfField(st.Addr, a.RetryQueue); !isRQ {
				return false
			}
			bs, elems, ok := c.appendChain(st.Val)
			if !ok {
				return false
			}
			if _, isRQ := isLoadOfField(bs, a.RetryQueue); !isRQ {
				return false
			}
			for _, e := range elems {
				if e.Single == nil {
					continue
				}
				fn, _ := c.closureOf(e.Single)
				if fn == reqC {
					return true
				}
				if fn != nil {
					// a closure that invokes reqC on every path
					inv := false
					eachInstr(fn, func(x ssa.Instruction) {
						if isDirect(x) {
							inv = true
						}
					})
					if inv {
						if _, skip := CanReach(fn, nil, realExit, PathQ{BlockInstr: isDirect}); !skip {
							return true
						}
					}
				}
			}
			return false
		}
		var msg ssa.Value
		for _, p := range f.Params {
			if typeName(p.Type()) == "Message" {
				msg = p
			}
		}
		qs := []int{-1}
		if msg != nil {
			qs = []int{1, 2}
		}
		if rr != nil {
			good := true
			for _, q := range qs {
				pq := PathQ{BlockInstr: func(in ssa.Instruction) bool { return isDirect(in) || isQueued(in) }}
				var qf func(*ssa.BasicBlock, int) bool
				if q >= 0 {
					qf = c.qosEdgeFilter(f, msg, q)
				}
				// validation-failed edges are exempt
				var valEdges []ifEdge
				eachInstr(f, func(in ssa.Instruction) {
					if k, ok := in.(*ssa.Call); ok && validate != nil && c.StaticCalleeOf(&k.Call) == validate {
						valEdges = append(valEdges, nonNilEdges(f, k)...)
					}
				})
				pq.BlockEdge = func(b *ssa.BasicBlock, k int) bool {
					if qf != nil && qf(b, k) {
						return true
					}
					for _, e := range valEdges {
						if e.B == b && e.K == k {
							return true
						}
					}
					return false
				}
				if w, ok := CanReach(f, nil, realExit, pq); ok {
					good = false
					qn := ""
					if q >= 0 {
						qn = " (QoS " + string(rune('0'+q)) + ")"
					}
					rr.Bad(key+"/discard", w.Pos(), "a path through %s%s returns without issuing the request and without queueing it: an accepted QoS>=1 request is dropped", api.Req, qn)
				}
			}
			if good {
				rr.OK(key+"/discard", f.Pos(), "every path either invokes the request closure or tail-appends a closure invoking it to the retry queue (QoS 0 / validation failure exempt)")
			}
		}
		if rq != nil {
			// direct invocation only on the `len(retryQueue) == 0` edge
			var emptyEdges []ifEdge
			for _, b := range f.Blocks {
				iff := blockIf(b)
				if iff == nil {
					continue
				}
				bin, ok := iff.Cond.(*ssa.BinOp)
				if !ok {
					continue
				}
				k, isK := constInt(bin.Y)
				call, isCall := bin.X.(*ssa.Call)
				if !isK || k != 0 || !isCall {
					continue
				}
				bi, ok := call.Call.Value.(*ssa.Builtin)
				if !ok || bi.Name() != "len" {
					continue
				}
				if _, isRQ := isLoadOfField(call.Call.Args[0], a.RetryQueue); !isRQ {
					continue
				}
				switch bin.Op {
				case token.EQL:
					emptyEdges = append(emptyEdges, ifEdge{b, 0})
				case token.NEQ, token.GTR:
					emptyEdges = append(emptyEdges, ifEdge{b, 1})
				}
			}
			n := 0
			eachInstr(f, func(in ssa.Instruction) {
				if !isDirect(in) {
					return
				}
				n++
				dom := false
				for _, e := range emptyEdges {
					if DominatedByEdge(f, in, e.B, e.K, PathQ{}) {
						dom = true
					}
				}
				if dom {
					rq.OK(key+"/queue-behind", in.Pos(), "request is sent at once only on the `len(retryQueue) == 0` edge")
				} else {
					rq.Bad(key+"/queue-behind", in.Pos(), "a request can be sent at once although earlier requests are still waiting in the retry queue: it overtakes them on the wire")
				}
			})
			if n == 0 {
				rq.Lost(key+"/queue-behind", "no direct invocation of the request closure")
			}
		}
	}
}

// ---- R-C01-4 / R-C18-1,3 -----------------------------------------------------------------------------

// ruleFailedKeptFor runs R-C01-4 for the named request methods only.
func (c *Ctx) ruleFailedKeptFor(rr *RuleRep, reqs ...string) {
	onlyFailedKept = reqs
	defer func() { onlyFailedKept = nil }()
	c.ruleFailedKept(rr, nil)
}

var onlyFailedKept []string

func (c *Ctx) ruleFailedKept(rr *RuleRep, rr18 *RuleRep) {
	a := c.retryAnchors()
	rep := rr
	if rep == nil {
		rep = rr18
	}
	if a.lost(rep) {
		return
	}
	for _, api := range retryAPIs {
		if len(onlyFailedKept) > 0 {
			keep := false
			for _, o := range onlyFailedKept {
				if o == api.Req {
					keep = true
				}
			}
			if !keep {
				continue
			}
		}
		f := c.Method("RetryClient", api.Req)
		key := "(*RetryClient)." + api.Req
		if f == nil {
			rep.Lost(key, "request method not found")
			continue
		}
		base := c.Method("BaseClient", api.Base)
		g, call := c.requestClosure(f, base)
		if g == nil {
			rep.Lost(key+"/closure", "no closure issuing BaseClient.%s", api.Base)
			continue
		}
		key = FuncName(g)
		var errV ssa.Value = call
		if call.Type().(interface{ String() string }) != nil {
			if tup, ok := call.Type().(*types.Tuple); ok {
				for _, u := range *call.Referrers() {
					if ex, ok := u.(*ssa.Extract); ok && ex.Index == tup.Len()-1 {
						errV = ex
					}
				}
			}
		}
		fails := nonNilEdges(g, errV)
		if len(fails) != 1 {
			rep.Bad(key+"/failure-edge", call.Pos(), "the error of BaseClient.%s is not tested (found %d tests): a failed request is silently dropped", api.Base, len(fails))
			continue
		}
		fe := fails[0]
		dst := fe.B.Succs[fe.K]
		first := dst.Instrs[0]
		// exempt edges: false edge of comma-ok assertion of errV to ErrorWithRetry; ctx.Done() case of non-blocking select on own ctx
		var exempt []ifEdge
		for _, b := range g.Blocks {
			iff := blockIf(b)
			if iff == nil {
				continue
			}
			if ex, ok := iff.Cond.(*ssa.Extract); ok && ex.Index == 1 {
				if ta, ok := ex.Tuple.(*ssa.TypeAssert); ok && ta.CommaOk && typeName(ta.AssertedType) == "ErrorWithRetry" && c.errOrigin(ta.X) == ssa.Value(call) {
					exempt = append(exempt, ifEdge{b, 1})
				}
			}
		}
		eachInstr(g, func(in ssa.Instruction) {
			sel, ok := in.(*ssa.Select)
			if !ok || sel.Blocking {
				return
			}
			for _, cs := range selectCases(sel) {
				if cs.State != nil && cs.HasEdge && cs.State.Dir == types.RecvOnly && c.isCtxMethodOf(cs.State.Chan, "Done", g.Params[0]) {
					exempt = append(exempt, cs.Edge)
				}
			}
		})
		// the same test behind a predicate: `if cancelled(ctx) { return nil }` with cancelled = non-blocking receive from Done()
		for _, b := range g.Blocks {
			iff := blockIf(b)
			if iff == nil {
				continue
			}
			if k, ok := iff.Cond.(*ssa.Call); ok && len(k.Call.Args) == 1 && k.Call.Args[0] == ssa.Value(g.Params[0]) {
				if pf := c.StaticCalleeOf(&k.Call); pf != nil && c.isDoneProbe(pf) {
					exempt = append(exempt, ifEdge{b, 0})
				}
			}
		}
		isExempt := func(b *ssa.BasicBlock, k int) bool {
			for _, e := range exempt {
				if e.B == b && e.K == k {
					return true
				}
			}
			return false
		}
		isKeep := func(in ssa.Instruction) (bool, bool) {
			if k, isCall := in.(*ssa.Call); isCall {
				if g := c.StaticCalleeOf(&k.Call); g != nil && g.Pkg == c.Pkg {
					if sum := c.keepSummary(a, g); sum != nil && sum.Keeps && sum.ErrIdx < len(k.Call.Args) && c.errOrigin(k.Call.Args[sum.ErrIdx]) == ssa.Value(call) {
						return true, sum.Wrapped
					}
				}
				return false, false
			}
			st, ok := in.(*ssa.Store)
			if !ok {
				return false, false
			}
			if _, isRQ := isAddrOfField(st.Addr, a.RetryQueue); !isRQ {
				return false, false
			}
			bs, elems, ok := c.appendChain(st.Val)
			if !ok {
				return false, false
			}
			// the old queue must survive (as base or as a spread operand) and the handle of this error must be among the elements
			_, keepsOld := isLoadOfField(bs, a.RetryQueue)
			found, wrapped := false, false
			for _, e := range elems {
				if e.Spread != nil {
					if _, isRQ := isLoadOfField(e.Spread, a.RetryQueue); isRQ {
						keepsOld = true
					}
				}
				if e.Single != nil {
					if w, src, _ := c.retryHandleOf(a, e.Single); src == ssa.Value(call) {
						found, wrapped = true, w
					}
				}
			}
			return found && keepsOld, wrapped
		}
		if rr != nil {
			pred := func(in ssa.Instruction) bool { k, _ := isKeep(in); return k }
			if w, ok := c.mustFollowFrom(g, first, pred, isExempt); ok {
				rr.OK(key+"/keep", first.Pos(), "on failure the Retry handle of this error is tail-appended to the retry queue (not-retryable / user-cancelled paths exempt)")
			} else {
				rr.Bad(key+"/keep", w.Pos(), "a failed %s can leave the request closure without its retry handle having been queued: the accepted request is lost when the connection breaks", api.Base)
			}
			flag := func(in ssa.Instruction) bool {
				if k, isCall := in.(*ssa.Call); isCall {
					if g := c.StaticCalleeOf(&k.Call); g != nil && g.Pkg == c.Pkg {
						if sum := c.keepSummary(a, g); sum != nil && sum.Flags && sum.ErrIdx < len(k.Call.Args) && c.errOrigin(k.Call.Args[sum.ErrIdx]) == ssa.Value(call) {
							return true
						}
					}
					return false
				}
				st, ok := in.(*ssa.Store)
				if !ok {
					return false
				}
				if _, ok := isAddrOfField(st.Addr, a.NewRetry); !ok {
					return false
				}
				b, isK := constBool(st.Val)
				return isK && b
			}
			if w, ok := c.mustFollowFrom(g, first, flag, isExempt); ok {
				rr.OK(key+"/recycle", first.Pos(), "on failure the connection is marked for closing so that the reconnect loop comes round and retries")
			} else {
				rr.Bad(key+"/recycle", w.Pos(), "a failed %s does not mark the connection for closing: nothing triggers a reconnect, the queued request stays queued for ever and later requests pile up behind it", api.Base)
			}
		}
		if rr18 != nil {
			// every queued handle is wrapped
			eachInstr(g, func(in ssa.Instruction) {
				if k, wrapped := isKeep(in); k {
					if wrapped {
						rr18.OK(key+"/handle-bounded", in.Pos(), "queued handle is wrapped by withRequestContext")
					} else {
						rr18.Bad(key+"/handle-bounded", in.Pos(), "the retry handle is queued without the request-context wrapper: its retransmission is not bounded by ResponseTimeout")
					}
				}
			})
			// onError(err) on every path from the failure edge
			isOnErr := func(in ssa.Instruction) bool { return c.reportsError(a, in, ssa.Value(call)) }
			if w, ok := c.mustFollowFrom(g, first, isOnErr, c.noCallbackEdges(a, g)); ok {
				rr18.OK(key+"/report", first.Pos(), "failure is reported through OnError on every path")
			} else {
				rr18.Bad(key+"/report", w.Pos(), "a failed (e.g. timed-out) %s is not reported through OnError on every path", api.Base)
			}
		}
	}
}

// mustFollowFrom: from `first` (inclusive) every path to a real exit passes an instruction satisfying pred,
// unless it takes an exempt edge.
func (c *Ctx) mustFollowFrom(f *ssa.Function, first ssa.Instruction, pred func(ssa.Instruction) bool, exemptEdge func(*ssa.BasicBlock, int) bool) (ssa.Instruction, bool) {
	if pred(first) {
		return nil, true
	}
	if realExit(first) {
		return first, false
	}
	w, found := CanReach(f, first, realExit, PathQ{BlockInstr: pred, BlockEdge: exemptEdge})
	return w, !found
}

// keepSummary: helper g(…, err, …) that, unless err is not an ErrorWithRetry (false edge of a comma-ok assertion on that
// parameter), on every path tail-appends the Retry handle of err to the retry queue (Keeps, Wrapped) and sets the
// retry flag (Flags).
type keepSum struct {
	ErrIdx                int
	Keeps, Wrapped, Flags bool
}

func (c *Ctx) keepSummary(a *retryAnchors, g *ssa.Function) *keepSum {
	if g.Blocks == nil || g == a.PushTask || (a.OnError != nil && g == a.OnError) {
		return nil
	}
	for idx, p := range g.Params {
		tn := types.TypeString(p.Type(), func(*types.Package) string { return "" })
		if tn != "error" && tn != "ErrorWithRetry" {
			continue
		}
		var exempt []ifEdge
		for _, b := range g.Blocks {
			iff := blockIf(b)
			if iff == nil {
				continue
			}
			if ex, ok := iff.Cond.(*ssa.Extract); ok && ex.Index == 1 {
				if ta, ok := ex.Tuple.(*ssa.TypeAssert); ok && ta.CommaOk && typeName(ta.AssertedType) == "ErrorWithRetry" && c.errOrigin(ta.X) == ssa.Value(p) {
					exempt = append(exempt, ifEdge{b, 1})
				}
			}
		}
		isExempt := func(b *ssa.BasicBlock, k int) bool {
			for _, e := range exempt {
				if e.B == b && e.K == k {
					return true
				}
			}
			return false
		}
		wrapped := false
		keep := func(in ssa.Instruction) bool {
			st, ok := in.(*ssa.Store)
			if !ok {
				return false
			}
			if _, isRQ := isAddrOfField(st.Addr, a.RetryQueue); !isRQ {
				return false
			}
			bs, elems, ok := c.appendChain(st.Val)
			if !ok || len(elems) != 1 || elems[0].Single == nil {
				return false
			}
			if _, isRQ := isLoadOfField(bs, a.RetryQueue); !isRQ {
				return false
			}
			w, src, _ := c.retryHandleOf(a, elems[0].Single)
			if src == ssa.Value(p) {
				wrapped = w
				return true
			}
			return false
		}
		flag := func(in ssa.Instruction) bool {
			st, ok := in.(*ssa.Store)
			if !ok {
				return false
			}
			if _, ok := isAddrOfField(st.Addr, a.NewRetry); !ok {
				return false
			}
			b, isK := constBool(st.Val)
			return isK && b
		}
		first := g.Blocks[0].Instrs[0]
		sum := &keepSum{ErrIdx: idx}
		any := false
		eachInstr(g, func(in ssa.Instruction) {
			if keep(in) {
				any = true
			}
		})
		if !any {
			continue
		}
		if _, ok := c.mustFollowFrom(g, first, keep, isExempt); ok {
			sum.Keeps = true
			sum.Wrapped = wrapped
		}
		if _, ok := c.mustFollowFrom(g, first, flag, isExempt); ok {
			sum.Flags = true
		}
		return sum
	}
	return nil
}

// ruleWrapKeepsHandle: wrapErrorWithRetry loses the handle only for causes that wrapErrorImpl passes through unwrapped;
// that set must be {nil, io.EOF} — a sentinel such as ErrClosedTransport passing through would make every
// connection-closed failure non-retryable.
func (c *Ctx) ruleWrapKeepsHandle(rr *RuleRep) {
	impl := c.Func("wrapErrorImpl")
	wr := c.Func("wrapErrorWithRetry")
	if wr == nil {
		rr.Lost("wrapErrorImpl/wrapErrorWithRetry", "not found")
		return
	}
	if impl == nil {
		// no shared implementation: wrapErrorWithRetry decides itself; every return that is not the handle-carrying error
		// must lie behind an identity test of the cause against nil or io.EOF
		if len(wr.Params) == 0 {
			rr.Lost("wrapErrorWithRetry", "no cause parameter")
			return
		}
		guarded := c.identityGuard(wr, ssa.Value(wr.Params[0]))
		bad, has := false, false
		for _, ret := range returnsOf(wr) {
			v := c.Resolve(ret.Results[0])
			if al, ok := v.(*ssa.Alloc); ok && typeName(al.Type()) == "errorWithRetry" {
				has = true
				continue
			}
			if !guarded(ret) {
				bad = true
				rr.Bad("wrapErrorWithRetry/pass-through", ret.Pos(), "wrapErrorWithRetry returns %s without a retry handle for causes other than nil and io.EOF: a request interrupted by such a cause is never retransmitted", describeVal(v))
			}
		}
		if !has {
			bad = true
			rr.Bad("wrapErrorWithRetry/handle", wr.Pos(), "wrapErrorWithRetry never attaches the retry handle")
		}
		if !bad {
			rr.OK("wrapErrorWithRetry/pass-through", wr.Pos(), "the handle is dropped only behind an identity test of the cause against nil or io.EOF")
		}
		return
	}
	bad := false
	for _, ret := range returnsOf(impl) {
		v := c.Resolve(ret.Results[0])
		if isNilConst(v) || c.globalLoadName(v) == "io.EOF" {
			// only on the identity edge
			continue
		}
		if al, ok := v.(*ssa.Alloc); ok && typeName(al.Type()) == "Error" {
			continue
		}
		if len(impl.Params) > 0 && v == ssa.Value(impl.Params[0]) && c.identityGuard(impl, v)(ret) {
			continue // `if passesUnwrapped(err) { return err }`: the cause itself, behind the identity test
		}
		bad = true
		rr.Bad("wrapErrorImpl/pass-through", ret.Pos(), "wrapErrorImpl passes %s through unwrapped: wrapErrorWithRetry then returns it without a retry handle, so a request interrupted by this cause is never retransmitted", describeVal(v))
	}
	// io.EOF / nil pass-through only on identity comparison edges
	for _, ret := range returnsOf(impl) {
		v := c.Resolve(ret.Results[0])
		if c.globalLoadName(v) != "io.EOF" {
			continue
		}
		ok := false
		for _, b := range impl.Blocks {
			iff := blockIf(b)
			if iff == nil {
				continue
			}
			bin, isB := iff.Cond.(*ssa.BinOp)
			if isB && bin.Op == token.EQL && (c.globalLoadName(bin.X) == "io.EOF" || c.globalLoadName(bin.Y) == "io.EOF") && DominatedByEdge(impl, ret, b, 0, PathQ{}) {
				ok = true
			}
		}
		if !ok {
			bad = true
			rr.Bad("wrapErrorImpl/eof", ret.Pos(), "io.EOF is returned (dropping the retry handle and the cause chain) for errors that are not identical to io.EOF")
		}
	}
	has := false
	for _, ret := range returnsOf(wr) {
		if al, ok := c.Resolve(ret.Results[0]).(*ssa.Alloc); ok && typeName(al.Type()) == "errorWithRetry" {
			has = true
		}
	}
	if !has {
		bad = true
		rr.Bad("wrapErrorWithRetry/handle", wr.Pos(), "wrapErrorWithRetry never attaches the retry handle")
	}
	if !bad {
		rr.OK("wrapErrorWithRetry/pass-through", wr.Pos(), "the handle is dropped only for nil and io.EOF causes")
	}
}

// ruleTaskContext: tasks run under context.Background(), not under a caller's context: otherwise, once that context is
// cancelled, every later failure takes the `user cancelled; don't queue` branch and the request is dropped.
func (c *Ctx) ruleTaskContext(rr *RuleRep) {
	a := c.retryAnchors()
	g := c.taskGoroutine(a)
	if g == nil {
		rr.Lost("task-goroutine", "not found")
		return
	}
	eachInstr(g, func(in ssa.Instruction) {
		k, ok := in.(*ssa.Call)
		if !ok || k.Call.IsInvoke() || k.Call.StaticCallee() != nil || len(k.Call.Args) != 2 {
			return
		}
		ld, ok := k.Call.Value.(*ssa.UnOp)
		if !ok {
			return
		}
		if ia, ok := ld.X.(*ssa.IndexAddr); !ok || func() bool { _, isTQ := isLoadOfField(ia.X, a.TaskQueue); return !isTQ }() {
			return
		}
		call, _ := c.asCall(k.Call.Args[0])
		if call != nil && isStdCall(&call.Call, "context", "Background") {
			rr.OK(FuncName(g)+"/task-ctx", in.Pos(), "tasks run under context.Background()")
		} else {
			rr.Bad(FuncName(g)+"/task-ctx", in.Pos(), "tasks run under %s instead of context.Background(): when that context is cancelled (e.g. the caller's Connect context after connecting), failed requests take the user-cancelled branch and are dropped instead of being queued for retry", describeVal(c.Resolve(k.Call.Args[0])))
		}
	})
}

// identityGuard: for function f with cause parameter `cause`, the predicate "every path from the entry to `at` takes the
// true edge of an identity test of the cause against nil or io.EOF" (however the outcome of the test travels to the branch).
func (c *Ctx) identityGuard(f *ssa.Function, cause ssa.Value) func(at ssa.Instruction) bool {
	identity := func(v ssa.Value) bool {
		bin, ok := v.(*ssa.BinOp)
		if !ok || bin.Op != token.EQL {
			return false
		}
		other := bin.Y
		if bin.Y == cause {
			other = bin.X
		} else if bin.X != cause {
			return false
		}
		return isNilConst(other) || c.globalLoadName(other) == "io.EOF"
	}
	// every path from the entry to `at` takes the true edge of an identity test of the cause (however the outcome of the
	// test travels to the branch: directly, through `||`, or through a flag an extracted predicate returned)
	// cond being true means an identity test held: the test itself, or a short-circuit value all of whose ways of being
	// true are such tests (`a || b`: the constant-true edge comes from a's true edge, the other edge is b)
	var identityTrue func(v ssa.Value, depth int) bool
	identityTrue = func(v ssa.Value, depth int) bool {
		if depth > 4 {
			return false
		}
		if identity(v) {
			return true
		}
		phi, ok := v.(*ssa.Phi)
		if !ok || len(phi.Edges) == 0 {
			return false
		}
		for i, e := range phi.Edges {
			if kb, isK := constBool(e); isK {
				if !kb {
					continue
				}
				pb := blockIf(phi.Block().Preds[i])
				if pb == nil || !identityTrue(pb.Cond, depth+1) || phi.Block().Preds[i].Succs[0] != phi.Block() {
					return false
				}
				continue
			}
			if !identityTrue(e, depth+1) {
				return false
			}
		}
		return true
	}
	guarded := func(at ssa.Instruction) bool {
		_, reach := CanReach(f, nil, func(in ssa.Instruction) bool { return in == at }, PathQ{BlockEdge: func(b *ssa.BasicBlock, k int) bool {
			iff := blockIf(b)
			return iff != nil && k == 0 && identityTrue(iff.Cond, 0)
		}})
		return !reach
	}
	return guarded
}

// isDoneProbe: f(ctx) bool is a predicate for "ctx is done": one non-blocking select whose only receive is from
// ctx.Done(); every return behind that case is true, every return behind the default is false.
func (c *Ctx) isDoneProbe(f *ssa.Function) bool {
	if f == nil || f.Pkg != c.Pkg || len(f.Params) != 1 || len(f.Blocks) == 0 || f.Signature.Results().Len() != 1 {
		return false
	}
	if b, ok := f.Signature.Results().At(0).Type().Underlying().(*types.Basic); !ok || b.Kind() != types.Bool {
		return false
	}
	var sel *ssa.Select
	n := 0
	eachInstr(f, func(in ssa.Instruction) {
		switch x := in.(type) {
		case *ssa.Select:
			sel = x
			n++
		case *ssa.Call, *ssa.Go, *ssa.Defer, *ssa.Send, *ssa.Store, *ssa.MapUpdate:
			if k, isCall := in.(*ssa.Call); isCall && k.Call.IsInvoke() && k.Call.Method.Name() == "Done" {
				return
			}
			n += 10
		}
	})
	if sel == nil || n != 1 || sel.Blocking {
		return false
	}
	okAll := true
	seen := 0
	for _, cs := range selectCases(sel) {
		if !cs.HasEdge {
			return false
		}
		want := false
		if cs.State != nil {
			if cs.State.Dir != types.RecvOnly || !c.isCtxMethodOf(cs.State.Chan, "Done", f.Params[0]) {
				return false
			}
			want = true
		}
		reach := ReachableViaEdge(f, cs.Edge, PathQ{})
		for _, ret := range returnsOf(f) {
			if !reach[ret] {
				continue
			}
			rv := c.Resolve(ret.Results[0])
			if phi, isPhi := rv.(*ssa.Phi); isPhi {
				if vs, reached := valuesAlong(f, cs.Edge, ret, phi, nil); reached && len(vs) == 1 {
					rv = vs[0]
				}
			}
			seen++
			if b, isK := constBool(rv); !isK || b != want {
				okAll = false
			}
		}
	}
	return okAll && seen >= 2
}
