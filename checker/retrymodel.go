package main

import (
	"go/token"
	"go/types"

	"golang.org/x/tools/go/ssa"
)

// Anchors of the retry client, resolved by role with the name as a hint.
type retryAnchors struct {
	RC           *types.Named
	RetryQueue   *types.Var // field of type []retryFn
	TaskQueue    *types.Var // field of type []func(context.Context, *BaseClient)
	NewRetry     *types.Var // bool flag set when a request failed (newRetryByError)
	SubEst       *types.Var // field of type subscriptions
	ChTask       *types.Var
	ChConnErr    *types.Var
	Cli          *types.Var
	Handler      *types.Var
	Mu           *types.Var
	PushTask     *ssa.Function
	ReqCtx       *ssa.Function
	WithReqCtx   *ssa.Function
	OnError      *ssa.Function
	OnErrorField *types.Var // the exported callback field (the report may call it directly)
	problems     []string
}

func (c *Ctx) retryAnchors() *retryAnchors {
	a := &retryAnchors{}
	a.RC = c.NamedType("RetryClient")
	if a.RC == nil {
		a.problems = append(a.problems, "type RetryClient not found")
		return a
	}
	st := a.RC.Underlying().(*types.Struct)
	for i := 0; i < st.NumFields(); i++ {
		f := st.Field(i)
		ts := types.TypeString(f.Type(), func(p *types.Package) string { return "" })
		switch {
		case ts == "[]retryFn" || isRetryFnSlice(f.Type()):
			a.RetryQueue = f
		case isTaskSlice(f.Type()):
			a.TaskQueue = f
		case ts == "subscriptions":
			a.SubEst = f
		case f.Name() == aliasField("RetryClient", "newRetryByError"):
			a.NewRetry = f
		case f.Name() == aliasField("RetryClient", "chTask"):
			a.ChTask = f
		case f.Name() == aliasField("RetryClient", "chConnectErr"):
			a.ChConnErr = f
		case ts == "*BaseClient":
			a.Cli = f
		case ts == "Handler":
			a.Handler = f
		case f.Name() == aliasField("RetryClient", "mu"):
			a.Mu = f
		}
	}
	if a.RetryQueue == nil {
		// the queue (and possibly the flag) grouped into a by-value struct field of a package type
		for i := 0; i < st.NumFields(); i++ {
			inner, ok := st.Field(i).Type().Underlying().(*types.Struct)
			if !ok {
				continue
			}
			if n, isNamed := st.Field(i).Type().(*types.Named); !isNamed || n.Obj().Pkg() != c.TPkg {
				continue
			}
			for j := 0; j < inner.NumFields(); j++ {
				g := inner.Field(j)
				if isRetryFnSlice(g.Type()) {
					a.RetryQueue = g
				}
			}
			if a.RetryQueue != nil && a.NewRetry == nil {
				for j := 0; j < inner.NumFields(); j++ {
					g := inner.Field(j)
					if b, ok := g.Type().Underlying().(*types.Basic); ok && b.Kind() == types.Bool {
						a.NewRetry = g
					}
				}
			}
		}
	}
	// the task queue / wake-up channel / established list grouped into a by-value struct field of a package type
	for i := 0; i < st.NumFields(); i++ {
		inner, ok := st.Field(i).Type().Underlying().(*types.Struct)
		if !ok {
			continue
		}
		if n, isNamed := st.Field(i).Type().(*types.Named); !isNamed || n.Obj().Pkg() != c.TPkg {
			continue
		}
		for j := 0; j < inner.NumFields(); j++ {
			g := inner.Field(j)
			ts := types.TypeString(g.Type(), func(p *types.Package) string { return "" })
			switch {
			case a.TaskQueue == nil && isTaskSlice(g.Type()) && !isRetryFnSlice(g.Type()):
				a.TaskQueue = g
			case a.ChTask == nil && ts == "chan struct{}":
				a.ChTask = g
			case a.SubEst == nil && ts == "subscriptions":
				a.SubEst = g
			}
		}
	}
	if a.NewRetry == nil {
		// role: the only bool field stored `true` next to an append to the retry queue
		for i := 0; i < st.NumFields(); i++ {
			f := st.Field(i)
			if b, ok := f.Type().Underlying().(*types.Basic); ok && b.Kind() == types.Bool && f.Name() != "stopped" && !f.Exported() {
				a.NewRetry = f
			}
		}
	}
	if a.ChTask == nil {
		for i := 0; i < st.NumFields(); i++ {
			f := st.Field(i)
			if types.TypeString(f.Type(), nil) == "chan struct{}" && a.ChTask == nil && f.Name() != "chConnSwitch" {
				a.ChTask = f
			}
		}
	}
	a.PushTask = c.Method("RetryClient", "pushTask")
	a.ReqCtx = c.Method("RetryClient", "requestContext")
	if a.ReqCtx == nil {
		a.ReqCtx = c.requestCtxByRole()
	}
	a.WithReqCtx = c.Method("RetryClient", "withRequestContext")
	a.OnError = c.Method("RetryClient", "onError")
	chk := func(ok bool, what string) {
		if !ok {
			a.problems = append(a.problems, what)
		}
	}
	chk(a.RetryQueue != nil, "retry queue field ([]retryFn) of RetryClient")
	chk(a.TaskQueue != nil, "task queue field of RetryClient")
	chk(a.NewRetry != nil, "retry-by-error flag of RetryClient")
	chk(a.SubEst != nil, "established-subscriptions field of RetryClient")
	chk(a.ChTask != nil, "task wake-up channel of RetryClient")
	chk(a.PushTask != nil, "(*RetryClient).pushTask")
	chk(a.ReqCtx != nil, "(*RetryClient).requestContext")
	a.OnErrorField = c.structField("RetryClient", "OnError")
	chk(a.OnError != nil || a.OnErrorField != nil, "(*RetryClient).onError / the OnError callback field")
	return a
}

func (a *retryAnchors) lost(rr *RuleRep) bool {
	for _, p := range a.problems {
		rr.Lost("anchor/"+p, "anchor not resolved: %s", p)
	}
	return len(a.problems) > 0
}

// isFieldAddrOf: v is &x.fld
func isAddrOfField(v ssa.Value, fld *types.Var) (ssa.Value, bool) {
	fa, ok := v.(*ssa.FieldAddr)
	if !ok || fld == nil {
		return nil, false
	}
	b, f := fieldOf(fa)
	if f != fld {
		return nil, false
	}
	// a field of a struct held by value inside the owner (c.tasks.queue): the owner is the base
	for {
		outer, ok := b.(*ssa.FieldAddr)
		if !ok {
			break
		}
		b = outer.X
	}
	return b, true
}

func isLoadOfField(v ssa.Value, fld *types.Var) (ssa.Value, bool) {
	// a value-preserving change of type on the way (a named channel type viewed as `<-chan T`, a named slice type as its
	// underlying type) and a local the loaded value was kept in do not make it another value
	for i := 0; i < 4; i++ {
		switch x := v.(type) {
		case *ssa.ChangeType:
			v = x.X
			continue
		case *ssa.Convert:
			if _, isChan := x.Type().Underlying().(*types.Chan); isChan {
				v = x.X
				continue
			}
		}
		break
	}
	u, ok := v.(*ssa.UnOp)
	if !ok || u.Op != token.MUL {
		return nil, false
	}
	if b, ok := isAddrOfField(u.X, fld); ok {
		return b, true
	}
	if _, isAlloc := u.X.(*ssa.Alloc); isAlloc && curCtx != nil {
		if r := curCtx.Resolve(v); r != v {
			if u2, ok := r.(*ssa.UnOp); ok && u2.Op == token.MUL {
				return isAddrOfField(u2.X, fld)
			}
		}
	}
	return nil, false
}

func storesToField(f *ssa.Function, fld *types.Var) []*ssa.Store {
	var out []*ssa.Store
	eachInstr(f, func(in ssa.Instruction) {
		if st, ok := in.(*ssa.Store); ok {
			if _, ok := isAddrOfField(st.Addr, fld); ok {
				out = append(out, st)
			}
		}
	})
	return out
}

// appendElem is one operand group of an append chain.
type appendElem struct {
	Single ssa.Value // a single appended element, or
	Spread ssa.Value // a spread slice (x...)
}

// appendChain decomposes v = append(append(base, a), b...) ... into base and the appended groups in order.
func (c *Ctx) appendChain(v ssa.Value) (ssa.Value, []appendElem, bool) {
	v = stripConv(v) // a named slice type converts to/from its underlying type around append
	call, ok := v.(*ssa.Call)
	if !ok {
		// a slice literal []T{a, b} as the innermost base: fresh, with its elements as the first appended group
		if sl, isSl := v.(*ssa.Slice); isSl && sl.Low == nil && sl.High == nil {
			if al, isAl := sl.X.(*ssa.Alloc); isAl && al.Comment == "slicelit" {
				var elems []appendElem
				for _, e := range arrayElems(al) {
					if e == nil {
						return v, nil, true
					}
					elems = append(elems, appendElem{Single: e})
				}
				return nil, elems, true
			}
		}
		return v, nil, true
	}
	b, ok := call.Call.Value.(*ssa.Builtin)
	if !ok || b.Name() != "append" || len(call.Call.Args) != 2 {
		return v, nil, true
	}
	base, elems, ok := c.appendChain(call.Call.Args[0])
	if !ok {
		return nil, nil, false
	}
	arg := stripConv(call.Call.Args[1])
	if isNilConst(arg) {
		return base, elems, true // append(x, nil...) adds nothing
	}
	// varargs / a slice literal passed on as `xs...`: slice of a fresh [n]T alloc whose elements are stored individually
	if sl, ok := arg.(*ssa.Slice); ok && sl.Low == nil && sl.High == nil {
		if a, ok := sl.X.(*ssa.Alloc); ok && (a.Comment == "varargs" || a.Comment == "slicelit") {
			arr := a.Type().Underlying().(*types.Pointer).Elem().Underlying().(*types.Array)
			vals := make([]ssa.Value, arr.Len())
			for _, u := range *a.Referrers() {
				if ia, ok := u.(*ssa.IndexAddr); ok {
					k, okk := constInt(ia.Index)
					if !okk {
						return nil, nil, false
					}
					for _, uu := range *ia.Referrers() {
						if st, ok := uu.(*ssa.Store); ok && st.Addr == ssa.Value(ia) {
							vals[k] = st.Val
						}
					}
				}
			}
			for _, x := range vals {
				if x == nil {
					return nil, nil, false
				}
				elems = append(elems, appendElem{Single: x})
			}
			return base, elems, true
		}
	}
	elems = append(elems, appendElem{Spread: arg})
	return base, elems, true
}

// errOrigin strips comma-ok / plain type assertions and extracts: the call whose result an error value is.
func (c *Ctx) errOrigin(v ssa.Value) ssa.Value {
	for i := 0; i < 16; i++ {
		v = c.Resolve(v)
		switch x := v.(type) {
		case *ssa.Extract:
			if ta, ok := x.Tuple.(*ssa.TypeAssert); ok {
				v = ta.X
				continue
			}
			if call, ok := x.Tuple.(*ssa.Call); ok {
				return call
			}
			return v
		case *ssa.TypeAssert:
			v = x.X
		default:
			return v
		}
	}
	return v
}

// retryHandleOf describes an element appended to the retry queue:
// wrapped = passed through withRequestContext; src = the error value whose bound Retry it is (nil if not a bound Retry).
func (c *Ctx) retryHandleOf(a *retryAnchors, v ssa.Value) (wrapped bool, src ssa.Value, closure *ssa.Function) {
	v = c.Resolve(v)
	if call, ok := v.(*ssa.Call); ok && a.WithReqCtx != nil && c.StaticCalleeOf(&call.Call) == a.WithReqCtx && len(call.Call.Args) == 2 {
		wrapped = true
		v = c.Resolve(call.Call.Args[1])
		if _, isFn := v.Type().Underlying().(*types.Signature); !isFn {
			// the wrapper is given the error itself and its closure invokes the error's Retry method
			for _, w := range a.WithReqCtx.AnonFuncs {
				if bc := c.boundingClosure(a, w); bc != nil && bc.ViaErr && c.Resolve(bc.Invoke.Call.Value) == ssa.Value(a.WithReqCtx.Params[1]) {
					return true, c.errOrigin(v), nil
				}
			}
			return false, nil, nil
		}
	}
	if !wrapped {
		// the bounding closure written out where the handle is queued
		if fn, mc := c.closureOf(v); fn != nil && mc != nil {
			if bc := c.boundingClosure(a, fn); bc != nil {
				if h := c.boundHandle(bc, mc); h != nil {
					if bc.ViaErr {
						return true, c.errOrigin(c.Resolve(h)), nil
					}
					wrapped = true
					v = c.Resolve(h)
				}
			}
		}
	}
	if recv, name, ok := c.boundMethodOf(v); ok && name == "Retry" {
		return wrapped, c.errOrigin(recv), nil
	}
	if fn, _ := c.closureOf(v); fn != nil {
		return wrapped, nil, fn
	}
	return wrapped, nil, nil
}

// taskClosureOf: the closure passed to pushTask inside API method m.
func (c *Ctx) taskClosureOf(a *retryAnchors, m *ssa.Function) (*ssa.Call, *ssa.Function) {
	var call *ssa.Call
	var fn *ssa.Function
	eachInstr(m, func(in ssa.Instruction) {
		if k, ok := in.(*ssa.Call); ok && c.StaticCalleeOf(&k.Call) == a.PushTask {
			if arg := pushTaskArg(k); arg != nil {
				call = k
				fn, _ = c.closureOf(arg)
			}
		}
	})
	return call, fn
}

func isTaskSlice(t types.Type) bool {
	sl, ok := t.Underlying().(*types.Slice)
	if !ok {
		return false
	}
	sig, ok := sl.Elem().Underlying().(*types.Signature)
	return ok && sig.Params().Len() == 2 && sig.Results().Len() == 0
}

// isRetryFnSlice: a slice (possibly a named slice type) of retry handles.
func isRetryFnSlice(t types.Type) bool {
	sl, ok := t.Underlying().(*types.Slice)
	if !ok {
		return false
	}
	return typeName(sl.Elem()) == "retryFn"
}

// reportsError: `in` reports errV to the application: a call of the onError method, or a call of the OnError callback field
// itself (then the report is conditional on the callback being registered: exempt returns the edges on which it is nil).
func (c *Ctx) reportsError(a *retryAnchors, in ssa.Instruction, errV ssa.Value) bool {
	call, ok := in.(*ssa.Call)
	if !ok || call.Call.IsInvoke() {
		return false
	}
	if a.OnError != nil && c.StaticCalleeOf(&call.Call) == a.OnError && len(call.Call.Args) >= 2 {
		// the error operand, whatever else (an operation label for a trace hook, …) is passed along
		for i, arg := range call.Call.Args[1:] {
			if types.TypeString(arg.Type(), nil) == "error" && c.errOrigin(arg) == errV {
				return c.onErrorForwards(a, i+1)
			}
		}
		return false
	}
	if a.OnErrorField != nil && len(call.Call.Args) == 1 {
		if _, isCB := isLoadOfField(call.Call.Value, a.OnErrorField); isCB {
			return c.errOrigin(call.Call.Args[0]) == errV
		}
	}
	return false
}

// noCallbackEdges: edges of f on which the OnError callback field is nil (nothing to report to).
func (c *Ctx) noCallbackEdges(a *retryAnchors, f *ssa.Function) func(*ssa.BasicBlock, int) bool {
	type ek struct {
		b *ssa.BasicBlock
		k int
	}
	set := map[ek]bool{}
	if a.OnErrorField != nil {
		for _, b := range f.Blocks {
			iff := blockIf(b)
			if iff == nil {
				continue
			}
			bin, ok := iff.Cond.(*ssa.BinOp)
			if !ok || (bin.Op != token.NEQ && bin.Op != token.EQL) {
				continue
			}
			var v ssa.Value
			switch {
			case isNilConst(bin.Y):
				v = bin.X
			case isNilConst(bin.X):
				v = bin.Y
			default:
				continue
			}
			if _, isCB := isLoadOfField(v, a.OnErrorField); !isCB {
				continue
			}
			if bin.Op == token.NEQ {
				set[ek{b, 1}] = true
			} else {
				set[ek{b, 0}] = true
			}
		}
	}
	return func(b *ssa.BasicBlock, k int) bool { return set[ek{b, k}] }
}

// onErrorForwards: the onError method hands its parameter number idx to the OnError callback on every path on which a
// callback is registered.
func (c *Ctx) onErrorForwards(a *retryAnchors, idx int) bool {
	f := a.OnError
	if f == nil || f.Blocks == nil || idx >= len(f.Params) || a.OnErrorField == nil {
		return f != nil && f.Blocks != nil && a.OnErrorField == nil
	}
	p := f.Params[idx]
	isCB := func(in ssa.Instruction) bool {
		call, ok := in.(*ssa.Call)
		if !ok || call.Call.IsInvoke() || len(call.Call.Args) != 1 {
			return false
		}
		if _, isField := isLoadOfField(call.Call.Value, a.OnErrorField); !isField {
			return false
		}
		return c.Resolve(call.Call.Args[0]) == ssa.Value(p)
	}
	_, skip := CanReach(f, nil, realExit, PathQ{BlockInstr: isCB, BlockEdge: c.noCallbackEdges(a, f)})
	return !skip
}

// requestCtxByRole: the function that derives the context of one request — results (context.Context, cancel function) —
// and wraps the bounded context in the package's own context type (the one with an Err method): requestContext on the
// reference tree, possibly a free function taking the timeout as a parameter.
func (c *Ctx) requestCtxByRole() *ssa.Function {
	var hit *ssa.Function
	n := 0
	for _, f := range c.Funcs {
		if f.Parent() != nil || f.Blocks == nil || f.Pkg != c.Pkg || !reqCtxLikeSig(f.Signature) {
			continue
		}
		allocs := false
		eachInstr(f, func(in ssa.Instruction) {
			if al, ok := in.(*ssa.Alloc); ok {
				if tn := typeName(al.Type()); tn != "" && c.Method(tn, "Err") != nil {
					allocs = true
				}
			}
		})
		if allocs {
			hit = f
			n++
		}
	}
	if n == 1 {
		return hit
	}
	return nil
}

func reqCtxLikeSig(sig *types.Signature) bool {
	if sig.Results().Len() != 2 || types.TypeString(sig.Results().At(0).Type(), nil) != "context.Context" {
		return false
	}
	r1, ok := sig.Results().At(1).Type().Underlying().(*types.Signature)
	return ok && r1.Params().Len() == 0 && r1.Results().Len() == 0
}

// ctxParam: the context.Context parameter of f and its index among f.Params.
func ctxParam(f *ssa.Function) (*ssa.Parameter, int) {
	for i, p := range f.Params {
		if types.TypeString(p.Type(), nil) == "context.Context" {
			return p, i
		}
	}
	return nil, -1
}

// isResponseTimeout: v is RetryClient.ResponseTimeout — read from the field, or a duration parameter of f for which every
// caller passes that field.
func (c *Ctx) isResponseTimeout(f *ssa.Function, v ssa.Value) bool {
	if _, isRT := isFieldLoad(c.Resolve(v), "RetryClient", "ResponseTimeout"); isRT {
		return true
	}
	idx := -1
	for i, p := range f.Params {
		if c.Resolve(v) == ssa.Value(p) {
			idx = i
		}
	}
	if idx < 0 {
		return false
	}
	n := 0
	ok := true
	for _, g := range c.Funcs {
		eachInstr(g, func(in ssa.Instruction) {
			cc := callCommon(in)
			if cc == nil || c.StaticCalleeOf(cc) != f {
				return
			}
			n++
			if idx >= len(cc.Args) {
				ok = false
				return
			}
			if _, isRT := isFieldLoad(c.Resolve(cc.Args[idx]), "RetryClient", "ResponseTimeout"); !isRT {
				ok = false
			}
		})
	}
	return ok && n > 0
}

// pushTaskArg: the task operand of a pushTask call — the argument of function type func(ctx, *BaseClient) — wherever it
// stands in the argument list.
func pushTaskArg(k *ssa.Call) ssa.Value {
	for i := len(k.Call.Args) - 1; i >= 1; i-- {
		if sig, ok := k.Call.Args[i].Type().Underlying().(*types.Signature); ok && sig.Params().Len() == 2 && sig.Results().Len() == 0 {
			return k.Call.Args[i]
		}
	}
	return nil
}
