package main

import (
	"crypto/sha256"
	"encoding/json"
	"fmt"
	"os"
	"os/exec"
	"path/filepath"
	"sort"
	"strings"
	"sync"
)

// selfTestImpl (analysis F, thorough tier only): validates the rule set of one property against the catalogue of
// independently produced breaking changes (/verif/seeded) and behaviour-preserving variants (/verif/neutral).
// Each variant is applied to a scratch copy of /repo's current root package and analysed by a sub-process of this
// binary. The outcome is reported in the evidence file; it never produces a VIOLATION line (it is about the checker,
// not about /repo).
func selfTestImpl(prop, repo string) interface{} {
	verif := "/verif"
	if exe, err := os.Executable(); err == nil {
		if d := filepath.Dir(filepath.Dir(exe)); fileExists(filepath.Join(d, "seeded")) {
			verif = d
		}
	}
	type variant struct {
		ID, Patch string
		Breaking  bool
	}
	var vs []variant
	seeds, _ := filepath.Glob(filepath.Join(verif, "seeded", "*", "patch.diff"))
	for _, p := range seeds {
		id := filepath.Base(filepath.Dir(p))
		expect := strings.HasPrefix(id, prop+"-")
		if b, err := os.ReadFile(filepath.Join(filepath.Dir(p), "meta.json")); err == nil {
			var m struct {
				Static struct {
					Fires []string `json:"properties_whose_quick_check_fires"`
				} `json:"static_checks"`
			}
			if json.Unmarshal(b, &m) == nil && len(m.Static.Fires) > 0 {
				expect = false
				for _, f := range m.Static.Fires {
					if f == prop {
						expect = true
					}
				}
			}
		}
		if expect {
			vs = append(vs, variant{id, p, true})
		}
	}
	neutrals, _ := filepath.Glob(filepath.Join(verif, "neutral", "*", "patch.diff"))
	for _, p := range neutrals {
		vs = append(vs, variant{filepath.Base(filepath.Dir(p)), p, false})
	}
	sort.Slice(vs, func(i, j int) bool { return vs[i].ID < vs[j].ID })
	exe, err := os.Executable()
	if err != nil {
		return map[string]interface{}{"error": err.Error()}
	}
	type outcome struct {
		v       variant
		applied bool
		fired   bool
		detail  string
	}
	res := make([]outcome, len(vs))
	sem := make(chan struct{}, 16)
	var wg sync.WaitGroup
	for i, v := range vs {
		wg.Add(1)
		go func(i int, v variant) {
			defer wg.Done()
			sem <- struct{}{}
			defer func() { <-sem }()
			o := outcome{v: v}
			tmp, err := os.MkdirTemp("", "mqttcheck-selftest-")
			if err != nil {
				res[i] = o
				return
			}
			defer os.RemoveAll(tmp)
			src := filepath.Join(tmp, "src")
			os.MkdirAll(src, 0o755)
			ents, _ := os.ReadDir(repo)
			for _, e := range ents {
				n := e.Name()
				if e.IsDir() || (!strings.HasSuffix(n, ".go") && n != "go.mod" && n != "go.sum") || strings.HasSuffix(n, "_test.go") {
					continue
				}
				b, err := os.ReadFile(filepath.Join(repo, n))
				if err == nil {
					os.WriteFile(filepath.Join(src, n), b, 0o644)
				}
			}
			// only the non-test files of the root package are analysed: the parts of the patch that touch tests or other
			// directories are left out
			patchFile := v.Patch
			if pb, err := os.ReadFile(v.Patch); err == nil {
				var keep []string
				on := true
				for _, l := range strings.SplitAfter(string(pb), "\n") {
					if strings.HasPrefix(l, "diff --git ") {
						f := strings.Fields(l)
						name := strings.TrimPrefix(f[len(f)-1], "b/")
						on = !strings.HasSuffix(name, "_test.go") && !strings.Contains(name, "/") && strings.HasSuffix(name, ".go")
					}
					if on {
						keep = append(keep, l)
					}
				}
				patchFile = filepath.Join(tmp, "variant.diff")
				os.WriteFile(patchFile, []byte(strings.Join(keep, "")), 0o644)
			}
			ap := exec.Command("patch", "-p1", "-s", "-f", "-d", src, "-i", patchFile)
			if out, err := ap.CombinedOutput(); err != nil {
				o.detail = "patch does not apply to the current tree: " + firstLine(string(out))
				res[i] = o
				return
			}
			o.applied = true
			// every property's quick tier on one load of the variant (-allprops), remembered per tree contents and checker
			// binary: the twenty thorough checks analyse each variant once between them. The memory is an optimisation
			// only — a missing or unreadable entry is recomputed.
			verdicts := selfTestVerdicts(exe, src, filepath.Join(tmp, "v"))
			if vd, ok := verdicts[prop]; ok {
				o.fired, o.detail = vd.Fired, vd.Detail
			} else {
				cmd := exec.Command(exe, "-property", prop, "-tier", "quick", "-repo", src, "-verif", filepath.Join(tmp, "v"))
				out, _ := cmd.CombinedOutput()
				o.fired = cmd.ProcessState != nil && cmd.ProcessState.ExitCode() != 0
				o.detail = firstAlarmLine(string(out))
			}
			res[i] = o
		}(i, v)
	}
	wg.Wait()
	seeded, killed, neutral, silent := 0, 0, 0, 0
	var missed, noisy, skipped []string
	var killedBy []string
	for _, o := range res {
		if !o.applied {
			skipped = append(skipped, o.v.ID+": "+o.detail)
			continue
		}
		if o.v.Breaking {
			seeded++
			if o.fired {
				killed++
				killedBy = append(killedBy, o.v.ID+" -> "+o.detail)
			} else {
				missed = append(missed, o.v.ID)
				fmt.Printf("SELFTEST-MISS property=%s seeded=%s (the rule set stayed silent on a change recorded as breaking this property)\n", prop, o.v.ID)
			}
		} else {
			neutral++
			if o.fired {
				noisy = append(noisy, o.v.ID+" -> "+o.detail)
				fmt.Printf("SELFTEST-NOISE property=%s neutral=%s %s\n", prop, o.v.ID, o.detail)
			} else {
				silent++
			}
		}
	}
	fmt.Printf("   selftest %s: %d/%d seeded breaks detected, %d/%d neutral variants silent, %d skipped\n", prop, killed, seeded, silent, neutral, len(skipped))
	return map[string]interface{}{
		"seeded": seeded, "killed": killed, "missed": missed, "killed_detail": killedBy,
		"neutral": neutral, "silent": silent, "noisy": noisy, "skipped": skipped,
		"note": "seeded = independently produced breaking changes whose meta.json lists this property among those expected to fire; neutral = behaviour-preserving refactorings on which every rule must stay silent; each variant analysed on a scratch copy of /repo's root package",
	}
}

func fileExists(p string) bool {
	_, err := os.Stat(p)
	return err == nil
}

type selfVerdict struct {
	Fired  bool
	Detail string
}

func firstAlarmLine(out string) string {
	for _, l := range strings.Split(out, "\n") {
		if strings.Contains(l, "VIOLATED") || strings.Contains(l, "UNDECIDED") || strings.Contains(l, "ANCHOR-LOST") || strings.Contains(l, "LOAD FAILED") || strings.Contains(l, "PANIC") {
			if len(l) > 260 {
				l = l[:260]
			}
			return l
		}
	}
	return ""
}

// selfTestVerdicts: property -> verdict of the quick tier on the tree in src, from the memory or from one -allprops run.
func selfTestVerdicts(exe, src, scratch string) map[string]selfVerdict {
	h := sha256.New()
	fmt.Fprintf(h, "exe=%s\n", exeIdentity())
	ents, _ := os.ReadDir(src)
	for _, e := range ents {
		if e.IsDir() {
			continue
		}
		if b, err := os.ReadFile(filepath.Join(src, e.Name())); err == nil {
			fmt.Fprintf(h, "%s %d %x\n", e.Name(), len(b), sha256.Sum256(b))
		}
	}
	file := ""
	if cdir, err := os.UserCacheDir(); err == nil {
		cdir = filepath.Join(cdir, "mqttcheck-self")
		if os.MkdirAll(cdir, 0o755) == nil {
			file = filepath.Join(cdir, fmt.Sprintf("%x.json", h.Sum(nil)))
		}
	}
	if file != "" {
		if b, err := os.ReadFile(file); err == nil {
			var m map[string]selfVerdict
			if json.Unmarshal(b, &m) == nil && len(m) >= 20 {
				return m
			}
		}
	}
	cmd := exec.Command(exe, "-allprops", "-repo", src, "-verif", scratch)
	out, _ := cmd.CombinedOutput()
	m := map[string]selfVerdict{}
	cur, buf := "", []string{}
	for _, l := range strings.Split(string(out), "\n") {
		switch {
		case strings.HasPrefix(l, "ALLPROPS-BEGIN "):
			cur, buf = strings.TrimPrefix(l, "ALLPROPS-BEGIN "), nil
		case strings.HasPrefix(l, "ALLPROPS-END "):
			f := strings.Fields(l)
			if len(f) == 3 && f[1] == cur {
				m[cur] = selfVerdict{Fired: f[2] != "0", Detail: firstAlarmLine(strings.Join(buf, "\n"))}
			}
			cur = ""
		default:
			if cur != "" {
				buf = append(buf, l)
			}
		}
	}
	if len(m) < 20 {
		return map[string]selfVerdict{} // the sub-process did not get through (crash): fall back to one run per property
	}
	if file != "" {
		if b, err := json.Marshal(m); err == nil {
			tmp := fmt.Sprintf("%s.%d", file, os.Getpid())
			if os.WriteFile(tmp, b, 0o644) == nil {
				os.Rename(tmp, file)
			}
		}
		if list, err := os.ReadDir(filepath.Dir(file)); err == nil && len(list) > 3000 {
			for _, e := range list[:len(list)-2500] {
				os.Remove(filepath.Join(filepath.Dir(file), e.Name()))
			}
		}
	}
	return m
}
