package main

func selfTestImpl(prop, repo string) interface{} { return nil }
