package main

import (
	"go/token"
	"go/types"

	"golang.org/x/tools/go/ssa"
)

func init() {
	register("C14", "NOT decided: filter validation and matching semantics (MQTT 4.7) — they quantify over all strings and are implemented by data-dependent loops over split levels; no shape fact short of re-deriving the algorithm separates a correct matcher from an incorrect one, and a rule keyed to the present loop would fire on behaviour-preserving rewrites. Decided: the dispatch clause only. R-C14-1 ServeMux.Handle tail-appends (filter result of newTopicFilter(filter), handler) exactly on the nil-error edge and returns the error otherwise; HandleFunc delegates; R-C14-2 ServeMux.Serve ranges over the handlers in ascending index order without early exit and calls an element's handler exactly when that element's filter.Match(message.Topic) is true; R-C14-3 topicFilter values are constructed only by newTopicFilter (validation cannot be bypassed).", checkC14)
}

func checkC14(r *Run) {
	c := r.C
	r1 := r.Rule("R-C14-1", "registration: handlers = append(handlers, {filter: newTopicFilter(filter) result, handler: parameter}) only on the nil-error edge; error edge returns the error")
	r2 := r.Rule("R-C14-2", "dispatch: ascending range over handlers, no early exit; handler invoked exactly when the same element's filter.Match(message.Topic) is true")
	r3 := r.Rule("R-C14-3", "topicFilter values are constructed only by newTopicFilter")
	hF := c.structField("ServeMux", "handlers")
	// the registrations kept as two parallel lists (filters[i] belongs to handlers[i]) instead of one list of pairs
	var fSoA *types.Var
	if mux := c.NamedType("ServeMux"); mux != nil {
		if st, ok := mux.Underlying().(*types.Struct); ok {
			var hs, fs []*types.Var
			pairs := 0
			for i := 0; i < st.NumFields(); i++ {
				sl, ok := st.Field(i).Type().Underlying().(*types.Slice)
				if !ok {
					continue
				}
				switch typeName(sl.Elem()) {
				case "Handler":
					hs = append(hs, st.Field(i))
				case "topicFilter":
					fs = append(fs, st.Field(i))
				default:
					if _, isStruct := sl.Elem().Underlying().(*types.Struct); isStruct {
						pairs++
					}
				}
			}
			if pairs == 0 && len(hs) == 1 && len(fs) == 1 {
				hF, fSoA = hs[0], fs[0]
			}
		}
	}
	ntf := c.Func("newTopicFilter")
	handle := c.Method("ServeMux", "Handle")
	serve := c.Method("ServeMux", "Serve")
	if hF == nil || ntf == nil || handle == nil || serve == nil {
		r1.Lost("ServeMux", "ServeMux.handlers / newTopicFilter / Handle / Serve not found")
		return
	}
	// ---- R-C14-1
	var ntfCall *ssa.Call
	eachInstr(handle, func(in ssa.Instruction) {
		if c.isCallTo(in, ntf) {
			ntfCall = in.(*ssa.Call)
		}
	})
	if ntfCall == nil || ntfCall.Call.Args[0] != ssa.Value(handle.Params[1]) {
		r1.Bad("(*ServeMux).Handle/validate", handle.Pos(), "Handle does not validate its filter argument with newTopicFilter")
	} else {
		var fres, ferr ssa.Value
		for _, u := range *ntfCall.Referrers() {
			if ex, ok := u.(*ssa.Extract); ok {
				if ex.Index == 0 {
					fres = ex
				} else {
					ferr = ex
				}
			}
		}
		sts := storesToField(handle, hF)
		if fSoA != nil {
			c.checkC14ParallelAppend(r1, handle, hF, fSoA, fres, ferr)
		} else if len(sts) != 1 {
			r1.Bad("(*ServeMux).Handle/append", handle.Pos(), "Handle stores the handler list %d times (want one tail append)", len(sts))
		} else {
			st := sts[0]
			base, elems, ok := c.appendChain(st.Val)
			_, isH := isLoadOfField(base, hF)
			good := ok && isH && len(elems) == 1 && elems[0].Single != nil
			if good {
				// element: load of local composite whose filter = fres, handler = param
				ev := elems[0].Single
				var al *ssa.Alloc
				if ld, ok := ev.(*ssa.UnOp); ok {
					al, _ = ld.X.(*ssa.Alloc)
				}
				if al == nil || c.storedField(al, "filter") != fres || c.storedField(al, "handler") != ssa.Value(handle.Params[2]) {
					good = false
				}
			}
			okEdge := false
			if ferr != nil {
				for _, e := range nilEdges(handle, ferr) {
					if DominatedByEdge(handle, st, e.B, e.K, PathQ{}) {
						okEdge = true
					}
				}
			}
			switch {
			case !good:
				r1.Bad("(*ServeMux).Handle/append", st.Pos(), "the registration is not a tail append of {validated filter, given handler}: registration order or the filter/handler pairing is not preserved")
			case !okEdge:
				r1.Bad("(*ServeMux).Handle/append", st.Pos(), "a handler is registered although its filter was rejected")
			default:
				r1.OK("(*ServeMux).Handle/append", st.Pos(), "tail append of {newTopicFilter(filter) result, handler} on the nil-error edge")
			}
			// error edge returns the error, success returns nil after the append
			for _, ret := range returnsOf(handle) {
				ev := c.Resolve(c.errResult(ret))
				if isNilConst(ev) {
					if !Dominated(handle, ret, func(x ssa.Instruction) bool { return x == ssa.Instruction(st) }, PathQ{}) {
						r1.Bad("(*ServeMux).Handle/return", ret.Pos(), "Handle can return nil without having registered the handler")
					}
				} else if ev != ferr {
					r1.Bad("(*ServeMux).Handle/return", ret.Pos(), "Handle does not return newTopicFilter's error")
				}
			}
		}
	}
	if hf := c.Method("ServeMux", "HandleFunc"); hf != nil {
		ok := false
		eachInstr(hf, func(in ssa.Instruction) {
			if k, isCall := in.(*ssa.Call); isCall && c.StaticCalleeOf(&k.Call) == handle && k.Call.Args[1] == ssa.Value(hf.Params[1]) {
				ok = true
			}
		})
		if ok {
			r1.OK("(*ServeMux).HandleFunc", hf.Pos(), "delegates to Handle with the same filter")
		} else {
			r1.Bad("(*ServeMux).HandleFunc", hf.Pos(), "HandleFunc does not delegate to Handle")
		}
	}
	for _, f := range c.Funcs {
		if f == handle {
			continue
		}
		for _, st := range storesToField(f, hF) {
			r1.Bad(FuncName(f)+"/handlers", st.Pos(), "the handler list is written outside Handle")
		}
		if fSoA != nil {
			for _, st := range storesToField(f, fSoA) {
				r1.Bad(FuncName(f)+"/filters", st.Pos(), "the filter list is written outside Handle: it no longer runs parallel to the handler list")
			}
		}
	}
	// ---- R-C14-2
	matchM := c.Method("topicFilter", "Match")
	var invokes []serveHandover
	for _, ho := range c.serveHandovers(serve) {
		if ho.At != nil {
			invokes = append(invokes, ho)
		}
	}
	if len(invokes) == 0 {
		// the loop body may have been extracted into a method of the element: h.serveIfMatch(message)
		c.checkC14ViaHelper(r2, serve, hF, matchM)
		return
	}
	if len(invokes) != 1 {
		r2.Bad("(*ServeMux).Serve/invoke", serve.Pos(), "dispatcher has %d handler invocations (want one, inside the loop)", len(invokes))
		return
	}
	inv := invokes[0].At
	invRecv := c.Resolve(invokes[0].Recv)
	// element: handler loaded from an element copy / element address of handlers[i]
	elemIndex := func(v ssa.Value, field string) (ssa.Value, bool) {
		// v = load of &X.field where X is local copy of handlers[i] or &handlers[i]
		if fSoA != nil {
			// parallel lists: v = load of &L[i], L the list of that role
			ld, ok := c.Resolve(v).(*ssa.UnOp)
			if !ok || ld.Op != token.MUL {
				return nil, false
			}
			ia, ok := ld.X.(*ssa.IndexAddr)
			if !ok {
				return nil, false
			}
			want := hF
			if field == "filter" {
				want = fSoA
			}
			if _, isL := isLoadOfField(c.Resolve(ia.X), want); !isL {
				return nil, false
			}
			return ia.Index, true
		}
		ld, ok := v.(*ssa.UnOp)
		if !ok || ld.Op != token.MUL {
			return nil, false
		}
		fa, ok := ld.X.(*ssa.FieldAddr)
		if !ok {
			return nil, false
		}
		if _, fld := fieldOf(fa); fld == nil || fld.Name() != field {
			return nil, false
		}
		var ia *ssa.IndexAddr
		switch x := fa.X.(type) {
		case *ssa.IndexAddr:
			ia = x
		case *ssa.Alloc:
			// local copy: find the store `*local = *(&handlers[i])` reaching; all stores must be from the same IndexAddr
			// (a copy of a copy — the element handed to a helper by value — is followed to the first one)
			var from func(a *ssa.Alloc, depth int) bool
			from = func(a *ssa.Alloc, depth int) bool {
				if depth > 6 || c.escapesOtherwise(a) {
					return false
				}
				for _, s := range c.cellStores[a] {
					l2, ok := s.Val.(*ssa.UnOp)
					if !ok || l2.Op != token.MUL {
						return false
					}
					switch y := l2.X.(type) {
					case *ssa.IndexAddr:
						if ia != nil && ia != y {
							return false
						}
						ia = y
					case *ssa.Alloc:
						if !from(y, depth+1) {
							return false
						}
					default:
						return false
					}
				}
				return true
			}
			if !from(x, 0) {
				return nil, false
			}
		}
		if ia == nil {
			return nil, false
		}
		if _, isH := isLoadOfField(ia.X, hF); !isH {
			return nil, false
		}
		return ia.Index, true
	}
	hIdx, ok := elemIndex(invRecv, "handler")
	if !ok {
		r2.Bad("(*ServeMux).Serve/invoke", inv.Pos(), "the handler invoked is not an element of the registered handler list")
		return
	}
	if !ascendingFromZero(hIdx) {
		r2.Bad("(*ServeMux).Serve/order", inv.Pos(), "handlers are not visited in registration order (ascending index from 0)")
	} else {
		r2.OK("(*ServeMux).Serve/order", inv.Pos(), "ascending range over the handler list")
	}
	// match guard on the same element, with the message's topic
	guard := false
	for _, b := range serve.Blocks {
		iff := blockIf(b)
		if iff == nil {
			continue
		}
		// `if h.filter.Match(…) {…}` or its negation (`if !matched { skip }`): the edge on which the filter matched
		cond, onEdge := iff.Cond, 0
		for {
			n, isNot := cond.(*ssa.UnOp)
			if !isNot || n.Op != token.NOT {
				break
			}
			cond, onEdge = n.X, 1-onEdge
		}
		k, ok := cond.(*ssa.Call)
		if !ok || matchM == nil || c.StaticCalleeOf(&k.Call) != matchM {
			continue
		}
		fIdx, okF := elemIndex(k.Call.Args[0], "filter")
		tb, isT := isFieldLoad(k.Call.Args[1], "Message", "Topic")
		if !okF || fIdx != hIdx || !isT || c.Resolve(tb) != ssa.Value(serve.Params[1]) {
			continue
		}
		if DominatedByEdge(serve, inv, b, onEdge, PathQ{}) {
			// exact: on the true edge the invoke happens on every path before the next iteration
			first := b.Succs[onEdge].Instrs[0]
			if first == inv {
				guard = true
			} else if _, skip := CanReach(serve, first, func(x ssa.Instruction) bool { return realExit(x) || x == ssa.Instruction(k) }, PathQ{BlockInstr: func(x ssa.Instruction) bool { return x == inv }}); !skip {
				guard = true
			}
		}
	}
	if guard {
		r2.OK("(*ServeMux).Serve/guard", inv.Pos(), "handler[i] is invoked exactly when handlers[i].filter.Match(message.Topic) is true")
	} else {
		r2.Bad("(*ServeMux).Serve/guard", inv.Pos(), "the handler invocation is not guarded exactly by the same element's filter.Match(message.Topic) (another condition, another element's filter, or a topic other than the dispatched message's)")
	}
	// no early exit: every return is reached only when the range is exhausted (from the loop header's exit edge)
	var header *ssa.BasicBlock
	if b, ok := hIdx.(*ssa.BinOp); ok {
		header = b.Block()
	} else if p, ok := hIdx.(*ssa.Phi); ok {
		header = p.Block()
	}
	early := false
	if header != nil {
		for _, ret := range returnsOf(serve) {
			// the return must not be reachable from the loop body without passing the header
			if _, found := CanReach(serve, inv, func(x ssa.Instruction) bool { return x == ssa.Instruction(ret) }, PathQ{BlockInstr: func(x ssa.Instruction) bool { return x.Block() == header }}); found {
				early = true
			}
			for _, b := range serve.Blocks {
				if iff := blockIf(b); iff != nil {
					if k, ok := iff.Cond.(*ssa.Call); ok && c.StaticCalleeOf(&k.Call) == matchM {
						if _, found := CanReach(serve, k, func(x ssa.Instruction) bool { return x == ssa.Instruction(ret) }, PathQ{BlockInstr: func(x ssa.Instruction) bool { return x.Block() == header }}); found {
							early = true
						}
					}
				}
			}
		}
	}
	if early {
		r2.Bad("(*ServeMux).Serve/all", inv.Pos(), "the dispatch loop can stop before all registered handlers were examined (break / early return): later matching handlers are not invoked")
	} else {
		r2.OK("(*ServeMux).Serve/all", inv.Pos(), "no exit from the loop body other than through the range header")
	}
	// ---- R-C14-3
	tfT := c.NamedType("topicFilter")
	n := 0
	for _, f := range c.Funcs {
		eachInstr(f, func(in ssa.Instruction) {
			v, ok := in.(ssa.Value)
			if !ok {
				return
			}
			switch in.(type) {
			case *ssa.ChangeType, *ssa.Convert, *ssa.MakeSlice, *ssa.Slice:
			default:
				return
			}
			if tfT == nil || !types.Identical(v.Type(), tfT) {
				return
			}
			n++
			if f == ntf {
				r3.OKt("newTopicFilter/construct", in.Pos(), "constructed by the validating constructor")
			} else if _, isSlice := in.(*ssa.Slice); isSlice && f.Signature.Recv() != nil && namedOf(f.Signature.Recv().Type()) == tfT {
				r3.OKt(FuncName(f)+"/reslice", in.Pos(), "method of topicFilter reslicing itself")
			} else {
				r3.Bad(FuncName(f)+"/construct", in.Pos(), "a topicFilter is constructed outside newTopicFilter: an invalid filter can be registered without validation")
			}
		})
	}
	if n == 0 {
		r3.Lost("topicFilter/construct", "no construction site found")
	}
}

// checkC14ViaHelper: Serve ranges over the handlers and calls, for every element, a helper on that element which invokes
// the element's handler exactly when the element's filter matches the message topic.
func (c *Ctx) checkC14ViaHelper(r2 *RuleRep, serve *ssa.Function, hF *types.Var, matchM *ssa.Function) {
	var call *ssa.Call
	var g *ssa.Function
	eachInstr(serve, func(in ssa.Instruction) {
		k, ok := in.(*ssa.Call)
		if !ok {
			return
		}
		h := c.StaticCalleeOf(&k.Call)
		if h == nil || h.Pkg != c.Pkg || h.Signature.Recv() == nil || typeName(h.Signature.Recv().Type()) != "serveMuxHandler" {
			return
		}
		call, g = k, h
	})
	if call == nil {
		r2.Bad("(*ServeMux).Serve/invoke", serve.Pos(), "dispatcher never invokes a registered handler")
		return
	}
	// receiver = handlers[i] (possibly via a local copy), i ascending from 0; message = Serve's parameter
	var idx ssa.Value
	recv := call.Call.Args[0]
	if ld, ok := recv.(*ssa.UnOp); ok && ld.Op == token.MUL {
		switch x := ld.X.(type) {
		case *ssa.IndexAddr:
			if _, isH := isLoadOfField(x.X, hF); isH {
				idx = x.Index
			}
		case *ssa.Alloc:
			for _, st := range c.cellStores[x] {
				if l2, ok := st.Val.(*ssa.UnOp); ok {
					if ia, ok := l2.X.(*ssa.IndexAddr); ok {
						if _, isH := isLoadOfField(ia.X, hF); isH {
							idx = ia.Index
						}
					}
				}
			}
		}
	}
	msgArg := -1
	for i, a := range call.Call.Args {
		if c.Resolve(a) == ssa.Value(serve.Params[1]) {
			msgArg = i
		}
	}
	if idx == nil || msgArg < 0 {
		r2.Bad("(*ServeMux).Serve/invoke", call.Pos(), "the per-element dispatch helper is not called on handlers[i] with the dispatched message")
		return
	}
	if !ascendingFromZero(idx) {
		r2.Bad("(*ServeMux).Serve/order", call.Pos(), "handlers are not visited in registration order (ascending index from 0)")
	} else {
		r2.OK("(*ServeMux).Serve/order", call.Pos(), "ascending range over the handler list")
	}
	// the helper call happens for every element: no path from the loop header's body edge round to the header skipping it
	var header *ssa.BasicBlock
	if b, ok := idx.(*ssa.BinOp); ok {
		header = b.Block()
	} else if p, ok := idx.(*ssa.Phi); ok {
		header = p.Block()
	}
	if header != nil {
		skip := false
		for _, ret := range returnsOf(serve) {
			if _, found := CanReach(serve, call, func(x ssa.Instruction) bool { return x == ssa.Instruction(ret) }, PathQ{BlockInstr: func(x ssa.Instruction) bool { return x.Block() == header }}); found {
				skip = true
			}
		}
		if iff := blockIf(header); iff != nil {
			body := header.Succs[0]
			if len(body.Instrs) > 0 {
				first := body.Instrs[0]
				if first != ssa.Instruction(call) {
					if _, found := CanReach(serve, first, func(x ssa.Instruction) bool { return x.Block() == header || realExit(x) }, PathQ{BlockInstr: func(x ssa.Instruction) bool { return x == ssa.Instruction(call) }}); found {
						skip = true
					}
				}
			}
		}
		if skip {
			r2.Bad("(*ServeMux).Serve/all", call.Pos(), "not every registered handler is examined (the per-element helper can be skipped or the loop left early)")
		} else {
			r2.OK("(*ServeMux).Serve/all", call.Pos(), "the per-element helper runs for every element of the range")
		}
	}
	// inside the helper: invoke recv.handler exactly when recv.filter.Match(message.Topic)
	rp := g.Params[0]
	mp := g.Params[msgArg]
	var inv *ssa.Call
	n := 0
	eachInstr(g, func(in ssa.Instruction) {
		if k, ok := in.(*ssa.Call); ok && k.Call.IsInvoke() && k.Call.Method.Name() == "Serve" {
			inv = k
			n++
		}
	})
	fieldOfRecv := func(v ssa.Value, name string) bool {
		// value receiver: fields are read through a local copy of the parameter, or Field instructions
		switch x := v.(type) {
		case *ssa.Field:
			_, fld := fieldOf(x)
			return fld != nil && fld.Name() == name && c.Resolve(x.X) == ssa.Value(rp)
		case *ssa.UnOp:
			fa, ok := x.X.(*ssa.FieldAddr)
			if !ok {
				return false
			}
			_, fld := fieldOf(fa)
			if fld == nil || fld.Name() != name {
				return false
			}
			if c.Resolve(fa.X) == ssa.Value(rp) {
				return true
			}
			if al, ok := fa.X.(*ssa.Alloc); ok {
				for _, st := range c.cellStores[al] {
					if st.Val == ssa.Value(rp) {
						return true
					}
				}
			}
		}
		return false
	}
	if n != 1 || !fieldOfRecv(inv.Call.Value, "handler") {
		r2.Bad(FuncName(g)+"/invoke", g.Pos(), "the per-element helper does not invoke exactly its own element's handler")
		return
	}
	guard := false
	for _, b := range g.Blocks {
		iff := blockIf(b)
		if iff == nil {
			continue
		}
		k, ok := iff.Cond.(*ssa.Call)
		if !ok || matchM == nil || c.StaticCalleeOf(&k.Call) != matchM {
			continue
		}
		tb, isT := isFieldLoad(k.Call.Args[1], "Message", "Topic")
		if !fieldOfRecv(k.Call.Args[0], "filter") || !isT || c.Resolve(tb) != ssa.Value(mp) {
			continue
		}
		if DominatedByEdge(g, inv, b, 0, PathQ{}) {
			first := b.Succs[0].Instrs[0]
			if first == ssa.Instruction(inv) {
				guard = true
			} else if _, skip := CanReach(g, first, realExit, PathQ{BlockInstr: func(x ssa.Instruction) bool { return x == ssa.Instruction(inv) }}); !skip {
				guard = true
			}
		}
	}
	if guard {
		r2.OK(FuncName(g)+"/guard", inv.Pos(), "element's handler is invoked exactly when the element's filter.Match(message.Topic) is true")
	} else {
		r2.Bad(FuncName(g)+"/guard", inv.Pos(), "the handler invocation is not guarded exactly by the same element's filter.Match(message.Topic)")
	}
}

// checkC14ParallelAppend: the registration with two parallel lists. Handle appends the validated filter to the one and
// the given handler to the other, once each, both on the nil-error edge, and no path leaves Handle between the two
// appends; as nothing else writes either list (checked by the caller), the lists have the same length at all times and
// equal indices denote one registration.
func (c *Ctx) checkC14ParallelAppend(r1 *RuleRep, handle *ssa.Function, hF, fF *types.Var, fres, ferr ssa.Value) {
	key := "(*ServeMux).Handle/append"
	hs, fs := storesToField(handle, hF), storesToField(handle, fF)
	if len(hs) != 1 || len(fs) != 1 {
		r1.Bad(key, handle.Pos(), "Handle stores the handler list %d times and the filter list %d times (want one tail append each)", len(hs), len(fs))
		return
	}
	tail := func(st *ssa.Store, fld *types.Var, want ssa.Value) bool {
		base, elems, ok := c.appendChain(st.Val)
		if !ok || len(elems) != 1 || elems[0].Single == nil {
			return false
		}
		if _, isL := isLoadOfField(c.Resolve(base), fld); !isL {
			return false
		}
		return c.Resolve(elems[0].Single) == want
	}
	if !tail(hs[0], hF, ssa.Value(handle.Params[2])) || !tail(fs[0], fF, fres) {
		r1.Bad(key, hs[0].Pos(), "the registration is not a tail append of the validated filter and the given handler to their lists: registration order or the filter/handler pairing is not preserved")
		return
	}
	for _, st := range []*ssa.Store{hs[0], fs[0]} {
		okEdge := false
		if ferr != nil {
			for _, e := range nilEdges(handle, ferr) {
				if DominatedByEdge(handle, st, e.B, e.K, PathQ{}) {
					okEdge = true
				}
			}
		}
		if !okEdge {
			r1.Bad(key, st.Pos(), "a handler is registered although its filter was rejected")
			return
		}
	}
	first, second := fs[0], hs[0]
	if !Dominated(handle, second, func(x ssa.Instruction) bool { return x == ssa.Instruction(first) }, PathQ{}) {
		first, second = second, first
	}
	if !Dominated(handle, second, func(x ssa.Instruction) bool { return x == ssa.Instruction(first) }, PathQ{}) {
		r1.Bad(key, second.Pos(), "the two lists are not appended to together: one can grow without the other")
		return
	}
	if _, leaves := CanReach(handle, first, func(x ssa.Instruction) bool { return isExit(x) || x == ssa.Instruction(first) }, PathQ{BlockInstr: func(x ssa.Instruction) bool { return x == ssa.Instruction(second) }}); leaves {
		r1.Bad(key, first.Pos(), "a path leaves Handle after the first of the two appends: the lists get out of step and later registrations pair a filter with another handler")
		return
	}
	r1.OK(key, first.Pos(), "tail appends of newTopicFilter(filter)'s result and of the handler to the two parallel lists, together, on the nil-error edge")
	for _, ret := range returnsOf(handle) {
		ev := c.Resolve(c.errResult(ret))
		if isNilConst(ev) {
			if !Dominated(handle, ret, func(x ssa.Instruction) bool { return x == ssa.Instruction(second) }, PathQ{}) {
				r1.Bad("(*ServeMux).Handle/return", ret.Pos(), "Handle can return nil without having registered the handler")
			}
		} else if ev != ferr {
			r1.Bad("(*ServeMux).Handle/return", ret.Pos(), "Handle does not return newTopicFilter's error")
		}
	}
}
