package main

import (
	"fmt"
	"go/token"
	"go/types"

	"golang.org/x/tools/go/ssa"
)

// ---- R-C02-2 / R-C03-5 / R-C12-7 / R-C01-7: what Retry() puts back into the queue ----------------------

// ruleRetryRequeue checks the Retry task closure. rr18 (optional) receives the C18 clauses for the failure edge.
func (c *Ctx) ruleRetryRequeue(rr *RuleRep, rr18 *RuleRep, modeOpt ...string) {
	// mode: "exact" (C03: order matters), "multiset" (C02/C12: no duplicate, no loss; order free), "loss" (C01: nothing lost)
	mode := "exact"
	if len(modeOpt) > 0 {
		mode = modeOpt[0]
	}
	loss := mode == "loss"
	a := c.retryAnchors()
	if a.lost(rr) {
		return
	}
	m := c.Method("RetryClient", "Retry")
	if m == nil {
		rr.Lost("(*RetryClient).Retry", "method not found")
		return
	}
	_, f := c.taskClosureOf(a, m)
	if f == nil {
		rr.Lost("(*RetryClient).Retry/task", "Retry does not push a task closure")
		return
	}
	key := FuncName(f)
	// snapshot: a value that is append(fresh, load retryQueue...)
	var snap ssa.Value
	eachInstr(f, func(in ssa.Instruction) {
		if mk, ok := in.(*ssa.MakeSlice); ok {
			if src := c.makeCopySource(mk); src != nil {
				if _, isRQ := isLoadOfField(src, a.RetryQueue); isRQ {
					snap = mk
				}
			}
		}
		call, ok := in.(*ssa.Call)
		if !ok {
			return
		}
		base, elems, ok := c.appendChain(call)
		if !ok || len(elems) != 1 || elems[0].Spread == nil {
			return
		}
		if _, isRQ := isLoadOfField(elems[0].Spread, a.RetryQueue); isRQ && c.isFreshEmptySlice(base) {
			snap = call
		}
	})
	if snap == nil {
		// the queue taken over instead of copied: `old := c.retryQueue; c.retryQueue = nil` — the field is reset before
		// anything is added to it, so later appends go to a fresh array and the old one belongs to the task alone
		eachInstr(f, func(in ssa.Instruction) {
			ia, ok := in.(*ssa.IndexAddr)
			if !ok || snap != nil {
				return
			}
			ld, ok := c.Resolve(ia.X).(*ssa.UnOp)
			if !ok || ld.Op != token.MUL || ld.Parent() != f {
				return
			}
			if _, isRQ := isLoadOfField(ld, a.RetryQueue); !isRQ {
				return
			}
			var reset *ssa.Store
			for _, st := range storesToField(f, a.RetryQueue) {
				if isNilConst(st.Val) && Dominated(f, st, func(x ssa.Instruction) bool { return x == ssa.Instruction(ld) }, PathQ{}) {
					reset = st
				}
			}
			if reset == nil {
				return
			}
			// nothing is stored into the queue between the load and the reset
			if _, dirty := CanReach(f, ld, func(x ssa.Instruction) bool {
				st, isSt := x.(*ssa.Store)
				if !isSt || st == reset {
					return false
				}
				_, isRQ := isAddrOfField(st.Addr, a.RetryQueue)
				return isRQ
			}, PathQ{BlockInstr: func(x ssa.Instruction) bool { return x == ssa.Instruction(reset) }}); dirty {
				return
			}
			if ia.X == ssa.Value(ld) {
				snap = ld
			} else if v, isVal := ia.X.(ssa.Value); isVal {
				if _, isInstr := v.(ssa.Instruction); isInstr {
					snap = v // the local the taken-over queue travels in
				}
			}
		})
	}
	if snap == nil {
		rr.Bad(key+"/snapshot", f.Pos(), "Retry does not take a private copy of the retry queue before processing it")
		return
	}
	// reset to nil dominated by the snapshot
	nReset := 0
	for _, st := range storesToField(f, a.RetryQueue) {
		if isNilConst(st.Val) {
			nReset++
			if Dominated(f, st, func(in ssa.Instruction) bool { return in == snap.(ssa.Instruction) }, PathQ{}) {
				rr.OK(key+"/reset", st.Pos(), "queue is reset only after the snapshot was taken")
			} else {
				rr.Bad(key+"/reset", st.Pos(), "the retry queue is reset before its contents were copied: queued requests are lost")
			}
		}
	}
	if nReset == 0 {
		rr.Bad(key+"/reset", f.Pos(), "Retry never clears the retry queue: every entry would be executed again on each reconnect")
	}
	// invocations of snapshot elements
	type inv struct {
		call *ssa.Call
		idx  ssa.Value
	}
	var invs []inv
	eachInstr(f, func(in ssa.Instruction) {
		call, ok := in.(*ssa.Call)
		if !ok || call.Call.IsInvoke() {
			return
		}
		ld, ok := call.Call.Value.(*ssa.UnOp)
		if !ok || ld.Op != token.MUL {
			return
		}
		ia, ok := ld.X.(*ssa.IndexAddr)
		if !ok || ia.X != snap {
			return
		}
		invs = append(invs, inv{call, ia.Index})
	})
	// pop form: `for len(p) > 0 { p[0](…); p = p[1:] }` with p = phi(snapshot, p[1:])
	var cursor *ssa.Phi
	if len(invs) == 0 {
		eachInstr(f, func(in ssa.Instruction) {
			call, ok := in.(*ssa.Call)
			if !ok || call.Call.IsInvoke() {
				return
			}
			ld, ok := call.Call.Value.(*ssa.UnOp)
			if !ok || ld.Op != token.MUL {
				return
			}
			ia, ok := ld.X.(*ssa.IndexAddr)
			if !ok {
				return
			}
			phi, ok := ia.X.(*ssa.Phi)
			if !ok {
				return
			}
			if k, isK := constInt(ia.Index); !isK || k != 0 {
				return
			}
			fromSnap, adv := false, true
			for _, e := range phi.Edges {
				if e == snap {
					fromSnap = true
					continue
				}
				sl, isSl := e.(*ssa.Slice)
				if !isSl || sl.X != ssa.Value(phi) || sl.High != nil || sl.Max != nil {
					adv = false
					continue
				}
				if k, isK := constInt(sl.Low); !isK || k != 1 {
					adv = false
				}
			}
			if fromSnap && adv {
				cursor = phi
				invs = append(invs, inv{call, ia.Index})
			}
		})
	}
	if len(invs) != 1 {
		rr.Undecided(key+"/loop", f.Pos(), "expected exactly one invocation of snapshot[i] in the Retry task, found %d (unrecognised iteration idiom)", len(invs))
		return
	}
	iv := invs[0]
	// tailOf: the spread operand denotes (remaining sequence)[d:] where element 0 is the entry just invoked
	tailOf := func(v ssa.Value) (d int64, whole bool, ok bool) {
		if v == snap {
			return 0, true, true
		}
		if cursor != nil && v == ssa.Value(cursor) {
			return 0, false, true
		}
		sl, isSl := v.(*ssa.Slice)
		if !isSl || sl.High != nil || sl.Max != nil {
			return 0, false, false
		}
		switch {
		case cursor != nil && sl.X == ssa.Value(cursor):
			if sl.Low == nil {
				return 0, false, true
			}
			if k, isK := constInt(sl.Low); isK {
				return k, false, true
			}
		case cursor == nil && sl.X == snap:
			if sl.Low == nil {
				return 0, true, true
			}
			if d, ok := offsetFrom(sl.Low, iv.idx); ok {
				return d, false, true
			}
		}
		return 0, false, false
	}
	// ascending iteration from 0: idx is phi(0, idx+1) or (phi(-1, ·)+1)
	if mode != "exact" && mode != "order" {
		// order is not a concern of this property
	} else if cursor != nil {
		rr.OK(key+"/order", iv.call.Pos(), "the head of the remaining entries is invoked and the remainder advances by one")
	} else if !ascendingFromZero(iv.idx) {
		rr.Bad(key+"/order", iv.call.Pos(), "queued entries are not retried in ascending queue order starting at the first")
	} else {
		rr.OK(key+"/order", iv.call.Pos(), "snapshot entries are invoked by ascending index from 0")
	}
	// arguments: task's ctx and cli
	if len(iv.call.Call.Args) != 2 || iv.call.Call.Args[0] != ssa.Value(f.Params[0]) || iv.call.Call.Args[1] != ssa.Value(f.Params[1]) {
		rr.Bad(key+"/args", iv.call.Pos(), "queued entry is not invoked with the task's context and the current client")
	}
	// failure edge: comma-ok assertion of the result to ErrorWithRetry
	var failEdge *ifEdge
	for _, u := range *iv.call.Referrers() {
		ta, ok := u.(*ssa.TypeAssert)
		if !ok || !ta.CommaOk || typeName(ta.AssertedType) != "ErrorWithRetry" {
			continue
		}
		for _, uu := range *ta.Referrers() {
			ex, ok := uu.(*ssa.Extract)
			if !ok || ex.Index != 1 {
				continue
			}
			for _, u3 := range *ex.Referrers() {
				if iff, ok := u3.(*ssa.If); ok {
					failEdge = &ifEdge{iff.Block(), 0}
				}
			}
		}
	}
	if failEdge == nil {
		rr.Bad(key+"/failure-edge", iv.call.Pos(), "the result of a retried entry is not tested for ErrorWithRetry: a retransmission that fails again is dropped")
		return
	}
	dst := failEdge.B.Succs[failEdge.K]
	region := ReachableFromBlock(f, dst, PathQ{})
	// every other way out of the loop: nothing that was not attempted may be left behind
	if mode == "loss" || mode == "multiset" {
		c.ruleRetryLoopExits(rr, a, f, key, iv.call, iv.idx, failEdge, tailOf, cursor != nil)
	}
	// nothing is invoked after the first failure
	if loss {
	} else if region[iv.call] {
		rr.Bad(key+"/stop", iv.call.Pos(), "after a retransmission failed, later entries are still executed on the broken connection (and the re-queued tail is executed as well): entries are transmitted twice / out of order")
	} else {
		rr.OK(key+"/stop", failEdge.B.Instrs[len(failEdge.B.Instrs)-1].Pos(), "no entry is invoked after the first failing one")
	}
	// effect on the queue in the failure region: concatenation of appended groups in execution order
	var stores []*ssa.Store
	for _, st := range storesToField(f, a.RetryQueue) {
		if region[st] {
			stores = append(stores, st)
		}
	}
	// order stores by dominance
	for i := 0; i < len(stores); i++ {
		for j := i + 1; j < len(stores); j++ {
			sj := stores[j]
			if Dominated(f, stores[i], func(in ssa.Instruction) bool { return in == ssa.Instruction(sj) }, PathQ{}) {
				stores[i], stores[j] = stores[j], stores[i]
			}
		}
	}
	var seq []appendElem
	okChain := true
	for _, st := range stores {
		base, elems, ok := c.appendChain(st.Val)
		if !ok {
			okChain = false
			break
		}
		if _, isRQ := isLoadOfField(base, a.RetryQueue); !isRQ {
			rr.Bad(key+"/requeue", st.Pos(), "the retry queue is overwritten (not appended to) after a failed retransmission: entries queued meanwhile are lost")
			okChain = false
			break
		}
		if !Dominated(f, lastExitOf(f, region), func(in ssa.Instruction) bool { return in == ssa.Instruction(st) }, PathQ{BlockEdge: func(b *ssa.BasicBlock, k int) bool { return false }}) {
			// store not on every path of the failure region
		}
		// what is put back may have been collected in a local first (`pending = append(pending, handle); pending =
		// append(pending, rest...)` in an extracted loop, `c.retryQueue = append(c.retryQueue, pending...)` after it): the
		// local as it is on the paths through the failure edge, taken apart like the queue's own appends
		var flat []appendElem
		for _, e := range elems {
			if e.Spread == nil {
				// the handle travelling in a result variable of an extracted step (`rest := p.next(…); if rest != nil { … }`)
				if phi, isPhi := c.Resolve(e.Single).(*ssa.Phi); isPhi && phi.Parent() == f {
					if vs, reached := valuesAlong(f, *failEdge, st, phi, nil); reached && len(vs) == 1 {
						e.Single = vs[0]
					}
				}
				flat = append(flat, e)
				continue
			}
			sv := e.Spread
			if phi, isPhi := c.Resolve(sv).(*ssa.Phi); isPhi && phi.Parent() == f {
				if vs, reached := valuesAlong(f, *failEdge, st, phi, nil); reached && len(vs) == 1 {
					sv = vs[0]
				}
			}
			if _, _, isTail := tailOf(sv); !isTail {
				if b2, el2, ok2 := c.appendChain(sv); ok2 && len(el2) > 0 && (b2 == nil || isNilConst(c.Resolve(b2)) || c.isFreshEmptySlice(b2)) {
					flat = append(flat, el2...)
					continue
				}
			}
			flat = append(flat, e)
		}
		seq = append(seq, flat...)
	}
	if !okChain {
		if len(stores) > 0 {
			rr.Undecided(key+"/requeue", stores[0].Pos(), "unrecognised append form")
		}
		return
	}
	if loss {
		// loss-only mode (C01): the continuation of the failed entry and every unattempted entry must be among what is re-queued
		hasHead, hasTail := false, false
		for _, e := range seq {
			if e.Single != nil {
				if _, src, _ := c.retryHandleOf(a, e.Single); src != nil && src == ssa.Value(iv.call) {
					hasHead = true
				}
			}
			if e.Spread != nil {
				if d, whole, ok := tailOf(e.Spread); ok && (whole || d <= 1) {
					hasTail = true
				}
			}
		}
		pos := f.Pos()
		if len(stores) > 0 {
			pos = stores[0].Pos()
		}
		if hasHead {
			rr.OK(key+"/keeps-continuation", pos, "the failed entry's Retry handle is re-queued")
		} else {
			rr.Bad(key+"/keeps-continuation", pos, "after a failed retransmission the failed entry's continuation is not put back into the retry queue: the request is lost")
		}
		if hasTail {
			rr.OK(key+"/keeps-unattempted", pos, "every entry after the failed one is re-queued")
		} else {
			rr.Bad(key+"/keeps-unattempted", pos, "after a failed retransmission entries that were not attempted yet are not (all) put back into the retry queue: queued requests are lost")
		}
		return
	}
	if mode == "multiset" && len(seq) == 2 && seq[0].Spread != nil && seq[1].Single != nil {
		seq[0], seq[1] = seq[1], seq[0] // order is C03's concern
	}
	if len(seq) != 2 || seq[0].Single == nil || seq[1].Spread == nil {
		pos := f.Pos()
		if len(stores) > 0 {
			pos = stores[0].Pos()
		}
		what := "does not re-queue exactly [continuation of the failed entry, entries not yet attempted]"
		if len(seq) == 2 && seq[0].Spread != nil && seq[1].Single != nil {
			what = "re-queues the failed entry's continuation BEHIND the entries that were not attempted yet: the retransmission order is permuted (the failed request overtaken by later ones)"
		}
		if len(seq) < 2 {
			what = "re-queues fewer than [continuation, unattempted tail]: queued requests are lost after a failed retransmission"
		}
		rr.Bad(key+"/requeue", pos, "Retry %s", what)
		return
	}
	wrapped, src, _ := c.retryHandleOf(a, seq[0].Single)
	if src == nil || src != ssa.Value(iv.call) {
		rr.Bad(key+"/requeue-head", stores[0].Pos(), "the first re-queued entry is not the Retry handle of the error returned by the entry that just failed")
	} else {
		rr.OK(key+"/requeue-head", stores[0].Pos(), "head = Retry handle of the error returned by the failed entry")
	}
	if rr18 != nil {
		if wrapped {
			rr18.OK(key+"/requeue-head-bounded", stores[0].Pos(), "re-queued handle is wrapped by withRequestContext")
		} else {
			rr18.Bad(key+"/requeue-head-bounded", stores[0].Pos(), "the handle re-queued after a failed retransmission is not wrapped in the request context: its next retransmission waits for ever on a silent broker")
		}
	}
	// tail = snapshot[idx+1:]
	tpos := stores[len(stores)-1].Pos()
	d, whole, okT := tailOf(seq[1].Spread)
	switch {
	case !okT:
		if sl, isSl := seq[1].Spread.(*ssa.Slice); isSl && (sl.High != nil || sl.Max != nil) {
			rr.Bad(key+"/requeue-tail", sl.Pos(), "the re-queued tail is truncated: queued requests are lost")
		} else if isSl && (sl.X == snap || (cursor != nil && sl.X == ssa.Value(cursor))) {
			rr.Undecided(key+"/requeue-tail", sl.Pos(), "cannot relate the tail's low bound to the index of the failed entry")
		} else {
			rr.Bad(key+"/requeue-tail", tpos, "the re-queued tail is not a suffix of the snapshot")
		}
	case whole && mode == "order":
		rr.OK(key+"/requeue-tail", tpos, "tail keeps the snapshot's order (duplicates are not this property's concern)")
	case whole:
		rr.Bad(key+"/requeue-tail", tpos, "the whole snapshot is re-queued after a failure: entries that already completed (and the failed one) are transmitted again — a QoS 2 message is sent after its PUBCOMP")
	case d == 1:
		rr.OK(key+"/requeue-tail", tpos, "tail = the entries after the failed one")
	case d <= 0 && mode == "order":
		rr.OK(key+"/requeue-tail", tpos, "tail is a suffix of the snapshot containing every unattempted entry, in order")
	case d <= 0:
		rr.Bad(key+"/requeue-tail", tpos, "the re-queued tail starts at i%+d: the entry that just failed (and was replaced by its continuation) is queued again — after PUBREL/PUBCOMP the original PUBLISH would be re-sent", d)
	default:
		rr.Bad(key+"/requeue-tail", tpos, "the re-queued tail starts at i+%d: %d queued request(s) after the failed one are dropped", d, d-1)
	}
	// C18: report + flag on the failure edge
	if rr18 != nil {
		c.requireOnFailure(rr18, a, f, dst, iv.call, key)
	}
}

// ruleRetryLoopExits: the Retry loop is left (a) through its header when the entries are exhausted, (b) through the failure
// edge (checked separately), or (c) through some other edge — a break or return added to the loop. On (c) every entry that
// was not attempted must be put back: the remainder from the current entry when the edge is taken before the invocation,
// from the next one when it is taken after it.
func (c *Ctx) ruleRetryLoopExits(rr *RuleRep, a *retryAnchors, f *ssa.Function, key string, call *ssa.Call, idx ssa.Value, failEdge *ifEdge, tailOf func(ssa.Value) (int64, bool, bool), pop bool) {
	// the loop: blocks that reach the invocation and are reached from it
	fwd := map[*ssa.BasicBlock]bool{}
	var walk func(b *ssa.BasicBlock, seen map[*ssa.BasicBlock]bool, next func(*ssa.BasicBlock) []*ssa.BasicBlock)
	walk = func(b *ssa.BasicBlock, seen map[*ssa.BasicBlock]bool, next func(*ssa.BasicBlock) []*ssa.BasicBlock) {
		for _, s := range next(b) {
			if !seen[s] {
				seen[s] = true
				walk(s, seen, next)
			}
		}
	}
	walk(call.Block(), fwd, func(b *ssa.BasicBlock) []*ssa.BasicBlock {
		var out []*ssa.BasicBlock
		for k, s := range b.Succs {
			if !edgeInfeasible(b, k) {
				out = append(out, s)
			}
		}
		return out
	})
	bwd := map[*ssa.BasicBlock]bool{}
	walk(call.Block(), bwd, func(b *ssa.BasicBlock) []*ssa.BasicBlock { return b.Preds })
	loop := map[*ssa.BasicBlock]bool{}
	for b := range fwd {
		if bwd[b] {
			loop[b] = true
		}
	}
	if !loop[call.Block()] {
		return // not a loop (single execution): nothing to check here
	}
	var header *ssa.BasicBlock
	for b := range loop {
		dom := true
		for o := range loop {
			if !b.Dominates(o) {
				dom = false
			}
		}
		if dom {
			header = b
		}
	}
	failDst := failEdge.B.Succs[failEdge.K]
	n := 0
	for b := range loop {
		for k, s := range b.Succs {
			if loop[s] || edgeInfeasible(b, k) {
				continue
			}
			if b == header {
				continue // exhausted
			}
			if (b == failEdge.B && k == failEdge.K) || failDst.Dominates(b) {
				continue // the failure edge and what follows it
			}
			// an exit below a join that only the failure edge leads to (`if c.queueRetry(err, rest...) { break }`: the flag
			// tested is true only where the failure was handled)
			{
				bb, kk := b, k
				viaOther := false
				canReachFrom(f, call, nil, -1, func(in ssa.Instruction) bool { return false }, PathQ{BlockEdge: func(x *ssa.BasicBlock, j int) bool {
					if x == failEdge.B && j == failEdge.K {
						return true
					}
					if x == bb && j == kk {
						viaOther = true // the exit edge can be taken without the failure edge having been taken
					}
					return false
				}})
				if !viaOther {
					continue
				}
			}
			n++
			after := call.Block().Dominates(b)
			need := int64(0)
			if after {
				need = 1
			}
			// on every path from this exit a store re-queues the remainder starting at most at `need`
			isKeep := func(in ssa.Instruction) bool {
				st, ok := in.(*ssa.Store)
				if !ok {
					return false
				}
				if _, isRQ := isAddrOfField(st.Addr, a.RetryQueue); !isRQ {
					return false
				}
				_, elems, ok := c.appendChain(st.Val)
				if !ok {
					return false
				}
				for _, e := range elems {
					if e.Spread == nil {
						continue
					}
					if d, whole, ok := tailOf(e.Spread); ok && (whole || d <= need) {
						return true
					}
				}
				return false
			}
			first := s.Instrs[0]
			okKeep := isKeep(first)
			if !okKeep {
				_, okKeep = MustFollow(f, first, isKeep, func(in ssa.Instruction) bool { return !realExit(in) }, PathQ{})
			}
			k2 := fmt.Sprintf("%s/early-exit", key)
			pos := b.Instrs[len(b.Instrs)-1].Pos()
			for i := len(b.Instrs) - 1; i >= 0 && !pos.IsValid(); i-- {
				pos = b.Instrs[i].Pos()
			}
			for i := 0; i < len(s.Instrs) && !pos.IsValid(); i++ {
				pos = s.Instrs[i].Pos()
			}
			if okKeep {
				rr.OK(k2, pos, "the loop can be left early here; the entries not attempted are put back first")
			} else if after {
				rr.Bad(k2, pos, "the Retry loop can be left here after an entry completed without putting the remaining entries back into the retry queue: queued requests are lost")
			} else {
				rr.Bad(k2, pos, "the Retry loop can be left here before the current entry was attempted without putting it and the remaining entries back into the retry queue: queued requests are lost")
			}
		}
	}
	_ = n
}

func lastExitOf(f *ssa.Function, region map[ssa.Instruction]bool) ssa.Instruction {
	var out ssa.Instruction
	for in := range region {
		if realExit(in) {
			out = in
		}
	}
	if out == nil {
		return f.Blocks[0].Instrs[0]
	}
	return out
}

// offsetFrom: v == base + d  (d constant), through chains of +const.
func offsetFrom(v, base ssa.Value) (int64, bool) {
	if v == nil {
		return 0, false
	}
	var d int64
	for i := 0; i < 8; i++ {
		if v == base {
			return d, true
		}
		b, ok := v.(*ssa.BinOp)
		if !ok {
			return 0, false
		}
		switch b.Op {
		case token.ADD:
			if k, ok := constInt(b.Y); ok {
				d += k
				v = b.X
				continue
			}
			if k, ok := constInt(b.X); ok {
				d += k
				v = b.Y
				continue
			}
		case token.SUB:
			if k, ok := constInt(b.Y); ok {
				d -= k
				v = b.X
				continue
			}
		}
		return 0, false
	}
	return 0, false
}

// ascendingFromZero: idx is the index variable of a loop that starts at 0 and increments by 1.
func ascendingFromZero(idx ssa.Value) bool {
	// range form: idx = phi(-1, idx) + 1
	if b, ok := idx.(*ssa.BinOp); ok && b.Op == token.ADD {
		if k, ok := constInt(b.Y); ok && k == 1 {
			if phi, ok := b.X.(*ssa.Phi); ok && len(phi.Edges) >= 2 {
				start, _ := constInt(phi.Edges[0])
				okInit := false
				okStep := true
				for _, e := range phi.Edges {
					if kk, ok := constInt(e); ok {
						if kk == -1 {
							okInit = true
						} else {
							okStep = false
						}
					} else if e != idx {
						okStep = false
					}
				}
				_ = start
				return okInit && okStep
			}
		}
	}
	// classic form: idx = phi(0, idx+1)
	if phi, ok := idx.(*ssa.Phi); ok {
		okInit, okStep := false, true
		for _, e := range phi.Edges {
			if kk, ok := constInt(e); ok {
				if kk == 0 {
					okInit = true
				} else {
					okStep = false
				}
				continue
			}
			if d, ok := offsetFrom(e, idx); !ok || d != 1 {
				okStep = false
			}
		}
		if okInit && okStep {
			return true
		}
		// the counter kept across two nested loops (an iterator's position: the inner loop advances it to the next
		// match, the outer one resumes from there): a web of phis whose other incoming values are 0, arriving from
		// outside every cycle, or one more than the index itself
		web := map[*ssa.Phi]bool{}
		var collect func(p *ssa.Phi)
		collect = func(p *ssa.Phi) {
			if web[p] {
				return
			}
			web[p] = true
			for _, e := range p.Edges {
				if q, ok := e.(*ssa.Phi); ok {
					collect(q)
				}
			}
		}
		collect(phi)
		if len(web) < 2 || len(web) > 8 {
			return false
		}
		zero := false
		for p := range web {
			for i, e := range p.Edges {
				if q, ok := e.(*ssa.Phi); ok && web[q] {
					continue
				}
				if kk, ok := constInt(e); ok {
					if kk != 0 || i >= len(p.Block().Preds) || blockReachable(p.Block(), p.Block().Preds[i]) {
						return false
					}
					zero = true
					continue
				}
				b, ok := e.(*ssa.BinOp)
				if !ok || b.Op != token.ADD {
					return false
				}
				q, isPhi := b.X.(*ssa.Phi)
				if k, isK := constInt(b.Y); !isPhi || q != phi || !isK || k != 1 {
					// only the position the element was taken at is advanced: no index is passed over unvisited
					return false
				}
			}
		}
		return zero
	}
	return false
}

// blockReachable: `to` can be reached from `from` along CFG edges (from itself counts only through a cycle).
func blockReachable(from, to *ssa.BasicBlock) bool {
	seen := map[*ssa.BasicBlock]bool{}
	work := []*ssa.BasicBlock{from}
	for len(work) > 0 {
		b := work[len(work)-1]
		work = work[:len(work)-1]
		for _, s := range b.Succs {
			if s == to {
				return true
			}
			if !seen[s] {
				seen[s] = true
				work = append(work, s)
			}
		}
	}
	return false
}

// requireOnFailure (R-C18-3): on every path of the failure region: onError(err) and newRetryByError = true.
func (c *Ctx) requireOnFailure(rr *RuleRep, a *retryAnchors, f *ssa.Function, dst *ssa.BasicBlock, errCall ssa.Value, key string) {
	first := dst.Instrs[0]
	isOnErr := func(in ssa.Instruction) bool { return c.reportsError(a, in, errCall) }
	noCB := c.noCallbackEdges(a, f)
	isFlag := func(in ssa.Instruction) bool {
		st, ok := in.(*ssa.Store)
		if !ok {
			return false
		}
		if _, ok := isAddrOfField(st.Addr, a.NewRetry); !ok {
			return false
		}
		b, isK := constBool(st.Val)
		return isK && b
	}
	for _, chk := range []struct {
		name string
		pred func(ssa.Instruction) bool
		why  string
	}{
		{"report", isOnErr, "the failure is not reported through OnError on every path"},
		{"recycle", isFlag, "the connection is not marked for closing (newRetryByError) on every path: the task goroutine keeps using a connection whose broker is silent and the queue stalls"},
	} {
		pred := chk.pred
		if pred(first) {
			rr.OK(key+"/"+chk.name, first.Pos(), "%s present on the failure edge", chk.name)
			continue
		}
		q := PathQ{}
		if chk.name == "report" {
			q.BlockEdge = noCB // no callback registered: nothing to report to
		}
		w, ok := MustFollow(f, first, pred, func(in ssa.Instruction) bool { return !realExit(in) }, q)
		if ok {
			rr.OK(key+"/"+chk.name, first.Pos(), "%s on every path from the failure edge", chk.name)
		} else {
			rr.Bad(key+"/"+chk.name, w.Pos(), "after a failed retransmission %s", chk.why)
		}
	}
}

// ---- R-C12-4: deferred first transmission captures a complete private copy -----------------------------

func (c *Ctx) ruleDeferredCopy(rr *RuleRep, only ...string) {
	a := c.retryAnchors()
	if a.lost(rr) {
		return
	}
	f := c.Method("RetryClient", "publish")
	if f == nil {
		rr.Lost("(*RetryClient).publish", "method not found")
		return
	}
	var msg *ssa.Parameter
	for _, p := range f.Params {
		if typeName(p.Type()) == "Message" {
			msg = p
		}
	}
	n := 0
	for _, st := range storesToField(f, a.RetryQueue) {
		_, elems, ok := c.appendChain(st.Val)
		if !ok {
			rr.Undecided(FuncName(f)+"/deferred", st.Pos(), "unrecognised append")
			continue
		}
		for _, e := range elems {
			if e.Single == nil {
				continue
			}
			fn, mc := c.closureOf(e.Single)
			if fn == nil || mc == nil {
				continue
			}
			n++
			key := FuncName(fn) + "/copy"
			// the closure must not capture the caller's message pointer itself
			bad := false
			var copyAlloc *ssa.Alloc
			for _, b := range mc.Bindings {
				rb := c.Resolve(b)
				if rb == ssa.Value(msg) {
					bad = true
				}
				al, isAl := b.(*ssa.Alloc)
				if !isAl {
					continue
				}
				if typeName(al.Type()) == "Message" {
					if _, isStruct := al.Type().Underlying().(*types.Pointer).Elem().Underlying().(*types.Struct); isStruct {
						copyAlloc = al
						continue
					}
				}
				// a captured variable holding a *Message: what it holds when the closure is queued, and anything assigned later
				if pt, ok := al.Type().Underlying().(*types.Pointer).Elem().Underlying().(*types.Pointer); !ok || typeName(pt) != "Message" {
					continue
				}
				isCellStore := func(in ssa.Instruction) bool {
					s, ok := in.(*ssa.Store)
					return ok && s.Addr == ssa.Value(al)
				}
				for _, s := range c.cellStores[al] {
					if s.Parent() != f || s.Addr != ssa.Value(al) {
						bad = true
						continue
					}
					_, before := CanReach(f, s, func(in ssa.Instruction) bool { return in == ssa.Instruction(st) }, PathQ{BlockInstr: isCellStore})
					_, after := CanReach(f, st, func(in ssa.Instruction) bool { return in == ssa.Instruction(s) }, PathQ{})
					if !before && !after {
						continue
					}
					inner, ok := c.Resolve(s.Val).(*ssa.Alloc)
					if !ok || inner.Parent() != f || (copyAlloc != nil && copyAlloc != inner) {
						bad = true
						continue
					}
					if _, isStruct := inner.Type().Underlying().(*types.Pointer).Elem().Underlying().(*types.Struct); !isStruct || typeName(inner.Type()) != "Message" {
						bad = true
						continue
					}
					copyAlloc = inner
				}
			}
			if bad || copyAlloc == nil {
				rr.Bad(key, mc.Pos(), "the deferred first transmission captures the caller's *Message instead of a private copy: the caller may reuse or change it before it is sent")
				continue
			}
			// the copy is a whole-struct copy of *message taken before queuing, or field-exhaustive
			whole := false
			for _, s := range c.cellStores[copyAlloc] {
				if s.Addr == ssa.Value(copyAlloc) {
					if ld, ok := s.Val.(*ssa.UnOp); ok && ld.Op == token.MUL && c.Resolve(ld.X) == ssa.Value(msg) {
						if Dominated(f, st, func(in ssa.Instruction) bool { return in == ssa.Instruction(s) }, PathQ{}) {
							whole = true
						}
					}
				}
			}
			if whole {
				rr.OK(key, mc.Pos(), "captures a whole-struct copy of the message taken before it is queued")
				continue
			}
			// field-wise copy: every field of Message must be set from the same field
			stt := c.NamedType("Message").Underlying().(*types.Struct)
			missing := []string{}
			for i := 0; i < stt.NumFields(); i++ {
				fld := stt.Field(i)
				found := false
				for _, u := range *copyAlloc.Referrers() {
					if fa, ok := u.(*ssa.FieldAddr); ok && fa.Field == i {
						for _, uu := range *fa.Referrers() {
							if s, ok := uu.(*ssa.Store); ok && s.Addr == ssa.Value(fa) {
								found = true
							}
						}
					}
				}
				if !found && fld.Name() != "Dup" { // Dup is overwritten by publishImpl before Pack (R-C12-3)
					if len(only) > 0 {
						keep := false
						for _, o := range only {
							if o == fld.Name() {
								keep = true
							}
						}
						if !keep {
							continue
						}
					}
					missing = append(missing, fld.Name())
				}
			}
			if len(missing) > 0 {
				rr.Bad(key, st.Pos(), "the queued copy of the message lacks field(s) %v: the deferred transmission differs from what the application submitted (a caller-chosen id / flags are lost)", missing)
			} else {
				rr.OK(key, mc.Pos(), "captures a field-exhaustive copy")
			}
		}
	}
	if n == 0 {
		rr.Lost(FuncName(f)+"/deferred", "no deferred transmission closure queued in RetryClient.publish")
	}
}
