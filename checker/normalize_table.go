package main

// Dispatch tables.
//
// A switch over a small constant domain is sometimes rewritten as a table of functions indexed by the switched value
// (`handle := incomingHandlers[pktType>>4]; if handle == nil {…}; err := handle(in, flag, body)`). The table is a
// package-level variable initialised by a composite literal with constant keys and never written afterwards, so
// which function an index selects is a fact of the source. tableRound turns the selection back into a chain of
// comparisons, one per entry, each continuing with the statements that followed the selection:
//
//	k := e; _ = T[k]
//	if k == K1 { var h F = f1; rest } else if k == K2 { var h F = f2; rest } … else { var h F = nil; rest }
//
// funcVarRound then replaces calls through a local variable that is bound once to a named function or a method
// expression by direct calls, which the inliner and go/ssa resolve statically.

import (
	"bytes"
	"fmt"
	"go/ast"
	"go/constant"
	"go/printer"
	"go/token"
	"go/types"
	"os"
	"sort"
	"strconv"
	"strings"
)

type funcTable struct {
	obj     *types.Var
	kind    string // array, slice, map
	elemT   types.Type
	keys    []constant.Value
	vals    []ast.Expr // nil entry: explicit nil
	file    *ast.File
	keyType types.Type
}

// funcTables finds the package-level function tables that are never written.
func (n *normalizer) funcTables() map[types.Object]*funcTable {
	out := map[types.Object]*funcTable{}
	for _, f := range n.pp.Syntax {
		for _, d := range f.Decls {
			gd, ok := d.(*ast.GenDecl)
			if !ok || gd.Tok != token.VAR {
				continue
			}
			for _, sp := range gd.Specs {
				vs := sp.(*ast.ValueSpec)
				if len(vs.Names) != 1 || len(vs.Values) != 1 {
					continue
				}
				cl, ok := ast.Unparen(vs.Values[0]).(*ast.CompositeLit)
				if !ok {
					continue
				}
				obj, _ := n.info.Defs[vs.Names[0]].(*types.Var)
				if obj == nil {
					continue
				}
				t := &funcTable{obj: obj, file: f}
				switch u := obj.Type().Underlying().(type) {
				case *types.Array:
					t.kind, t.elemT = "array", u.Elem()
				case *types.Slice:
					t.kind, t.elemT = "slice", u.Elem()
				case *types.Map:
					t.kind, t.elemT, t.keyType = "map", u.Elem(), u.Key()
				default:
					continue
				}
				if _, isSig := t.elemT.Underlying().(*types.Signature); !isSig {
					continue
				}
				good := true
				next := int64(0)
				seen := map[string]bool{}
				for _, el := range cl.Elts {
					var kv constant.Value
					val := el
					if kve, isKV := el.(*ast.KeyValueExpr); isKV {
						tv, ok := n.info.Types[kve.Key]
						if !ok || tv.Value == nil {
							good = false
							break
						}
						kv = tv.Value
						val = kve.Value
						if t.kind != "map" {
							if iv, exact := constant.Int64Val(constant.ToInt(kv)); exact {
								next = iv + 1
							} else {
								good = false
								break
							}
						}
					} else {
						if t.kind == "map" {
							good = false
							break
						}
						kv = constant.MakeInt64(next)
						next++
					}
					if seen[kv.ExactString()] {
						good = false
						break
					}
					seen[kv.ExactString()] = true
					// value: a named function, a method expression, or nil
					switch v := ast.Unparen(val).(type) {
					case *ast.Ident:
						if _, isNil := n.info.Uses[v].(*types.Nil); isNil {
							val = nil
						} else if fn, isFn := n.info.Uses[v].(*types.Func); !isFn || fn.Pkg() != n.pp.Types {
							good = false
						}
					case *ast.SelectorExpr:
						if s := n.info.Selections[v]; s == nil || s.Kind() != types.MethodExpr {
							good = false
						}
					default:
						good = false
					}
					if !good {
						break
					}
					t.keys = append(t.keys, kv)
					t.vals = append(t.vals, val)
				}
				if !good || len(t.keys) == 0 || len(t.keys) > 64 {
					continue
				}
				out[obj] = t
			}
		}
	}
	if len(out) == 0 {
		return out
	}
	// every use: T[e] read, or len(T)
	for _, f := range n.pp.Syntax {
		var stack []ast.Node
		ast.Inspect(f, func(x ast.Node) bool {
			if x == nil {
				stack = stack[:len(stack)-1]
				return true
			}
			stack = append(stack, x)
			id, ok := x.(*ast.Ident)
			if !ok {
				return true
			}
			obj := n.info.Uses[id]
			if out[obj] == nil || len(stack) < 2 {
				return true
			}
			okUse := false
			switch p := stack[len(stack)-2].(type) {
			case *ast.IndexExpr:
				if p.X == ast.Expr(id) && len(stack) >= 3 {
					okUse = true
					switch g := stack[len(stack)-3].(type) {
					case *ast.AssignStmt:
						for _, l := range g.Lhs {
							if l == ast.Expr(p) {
								okUse = false
							}
						}
					case *ast.UnaryExpr:
						if g.Op == token.AND {
							okUse = false
						}
					case *ast.IncDecStmt:
						okUse = false
					}
				}
			case *ast.CallExpr:
				if fid, isId := p.Fun.(*ast.Ident); isId && fid.Name == "len" && len(p.Args) == 1 && p.Args[0] == ast.Expr(id) {
					okUse = true
				}
			}
			if !okUse {
				delete(out, obj)
			}
			return true
		})
	}
	return out
}

func constText(v constant.Value) string {
	switch v.Kind() {
	case constant.String:
		return strconv.Quote(constant.StringVal(v))
	case constant.Int:
		return v.ExactString()
	case constant.Bool:
		return v.String()
	}
	return ""
}

// tableRound rewrites one selection from a function table per round.
func (n *normalizer) tableRound() bool {
	tables := n.funcTables()
	if len(tables) == 0 {
		return false
	}
	for _, f := range n.pp.Syntax {
		filename := n.fset.File(f.Pos()).Name()
		done := false
		var stack []ast.Node
		ast.Inspect(f, func(x ast.Node) bool {
			if done {
				return false
			}
			if x == nil {
				stack = stack[:len(stack)-1]
				return true
			}
			stack = append(stack, x)
			as, ok := x.(*ast.AssignStmt)
			if !ok || as.Tok != token.DEFINE || len(as.Rhs) != 1 || len(as.Lhs) < 1 || len(as.Lhs) > 2 || len(stack) < 2 {
				return true
			}
			ix, ok := ast.Unparen(as.Rhs[0]).(*ast.IndexExpr)
			if !ok {
				return true
			}
			tid, ok := ast.Unparen(ix.X).(*ast.Ident)
			if !ok {
				return true
			}
			t := tables[n.info.Uses[tid]]
			if t == nil || (len(as.Lhs) == 2 && t.kind != "map") {
				return true
			}
			parent := stack[len(stack)-2]
			var list []ast.Stmt
			switch p := parent.(type) {
			case *ast.BlockStmt:
				list = p.List
			case *ast.CaseClause:
				list = p.Body
			case *ast.CommClause:
				list = p.Body
			default:
				return true
			}
			at := -1
			for i, st := range list {
				if st == ast.Stmt(as) {
					at = i
				}
			}
			if at < 0 || at+1 >= len(list) {
				return true
			}
			hid, ok := as.Lhs[0].(*ast.Ident)
			if !ok || hid.Name == "_" || n.info.Defs[hid] == nil || n.varBad[n.info.Defs[hid]] {
				return true
			}
			okName := ""
			if len(as.Lhs) == 2 {
				oid, ok := as.Lhs[1].(*ast.Ident)
				if !ok {
					return true
				}
				if oid.Name != "_" {
					if n.info.Defs[oid] == nil || n.varBad[n.info.Defs[oid]] {
						return true
					}
					okName = oid.Name
				}
			}
			tail := list[at+1:]
			bad := false
			for _, st := range tail {
				ast.Inspect(st, func(y ast.Node) bool {
					switch z := y.(type) {
					case *ast.LabeledStmt:
						bad = true
					case *ast.BranchStmt:
						if z.Tok == token.GOTO {
							bad = true
						}
					case *ast.FuncLit:
						return false
					}
					return !bad
				})
			}
			if bad {
				return true
			}
			start, end := n.off(as.Pos()), n.off(tail[len(tail)-1].End())
			if n.overlaps(filename, start, end) {
				return true
			}
			elemText, ok := n.typeText(t.elemT, f, filename)
			if !ok {
				return true
			}
			tailText := n.src(filename, tail[0].Pos(), tail[len(tail)-1].End())
			tailLine := n.fset.Position(tail[0].Pos()).Line
			line := n.fset.Position(as.Pos()).Line
			n.counter++
			kv := fmt.Sprintf("_inl%dk", n.counter)
			var sb strings.Builder
			head := fmt.Sprintf("%s := %s\n_ = %s\n", kv, n.src(filename, ix.Index.Pos(), ix.Index.End()), kv)
			if t.kind != "map" {
				// the index must still be in range: the same obligation on an array of the table's length
				nlen := int64(0)
				if at, isArr := t.obj.Type().Underlying().(*types.Array); isArr {
					nlen = at.Len()
				} else {
					for _, k := range t.keys {
						if iv, exact := constant.Int64Val(constant.ToInt(k)); exact && iv+1 > nlen {
							nlen = iv + 1
						}
					}
				}
				head += fmt.Sprintf("_ = [%d]struct{}{}[%s]\n", nlen, kv)
			}
			sb.WriteString("\n" + n.pinLines(head, filename, line))
			// deterministic order: by key
			order := make([]int, len(t.keys))
			for i := range order {
				order[i] = i
			}
			sort.SliceStable(order, func(a, b int) bool {
				ka, kb := t.keys[order[a]], t.keys[order[b]]
				if ka.Kind() == constant.Int && kb.Kind() == constant.Int {
					return constant.Compare(ka, token.LSS, kb)
				}
				return ka.ExactString() < kb.ExactString()
			})
			branch := func(cond, val, okv string) {
				if cond != "" {
					sb.WriteString(n.lineDirective(filename, line))
					sb.WriteString("if " + cond + " {\n")
				} else {
					sb.WriteString(n.lineDirective(filename, line))
					sb.WriteString("{\n")
				}
				decl := fmt.Sprintf("var %s %s = %s\n_ = %s\n", hid.Name, elemText, val, hid.Name)
				if okName != "" {
					decl += fmt.Sprintf("%s := %s\n_ = %s\n", okName, okv, okName)
				}
				sb.WriteString(n.pinLines(decl, filename, line))
				sb.WriteString(n.lineDirective(filename, tailLine))
				sb.WriteString(tailText)
				sb.WriteString("\n")
				sb.WriteString(n.lineDirective(filename, line))
				sb.WriteString("}")
			}
			for _, i := range order {
				kt := constText(t.keys[i])
				if kt == "" {
					return true
				}
				val := "nil"
				if t.vals[i] != nil {
					val = n.src(n.fset.File(t.file.Pos()).Name(), t.vals[i].Pos(), t.vals[i].End())
				}
				branch(kv+" == "+kt, val, "true")
				sb.WriteString(" else ")
			}
			branch("", "nil", "false")
			sb.WriteString("\n")
			sb.WriteString(n.lineDirective(filename, n.fset.Position(tail[len(tail)-1].End()).Line))
			n.addEdit(filename, start, end, sb.String())
			n.notes = append(n.notes, fmt.Sprintf("selection %s[...] from the function table at %s:%d expanded into %d comparisons", tid.Name, shortFile(filename), line, len(t.keys)))
			done = true
			return false
		})
		if done {
			return true
		}
	}
	return false
}

func shortFile(p string) string {
	if i := strings.LastIndex(p, "/"); i >= 0 {
		return p[i+1:]
	}
	return p
}

// funcVarRound: `h := f` / `var h F = (*T).m` (h never reassigned) followed by h(args…): the call is made directly.
func (n *normalizer) funcVarRound() bool {
	changed := false
	for _, f := range n.pp.Syntax {
		filename := n.fset.File(f.Pos()).Name()
		ast.Inspect(f, func(x ast.Node) bool {
			call, ok := x.(*ast.CallExpr)
			if !ok {
				return true
			}
			id, ok := ast.Unparen(call.Fun).(*ast.Ident)
			if !ok {
				return true
			}
			cur := id
			var target ast.Expr
			for depth := 0; depth < 10 && cur != nil; depth++ {
				v, ok := n.info.Uses[cur].(*types.Var)
				if !ok || v.IsField() || v.Parent() == nil || v.Parent() == n.pp.Types.Scope() || n.varBad[v] || n.varAssign[v] != nil {
					return true
				}
				e, ok := n.varDef[v]
				if !ok {
					return true
				}
				switch y := ast.Unparen(e).(type) {
				case *ast.Ident:
					if fn, isFn := n.info.Uses[y].(*types.Func); isFn {
						if fn.Pkg() == n.pp.Types && fn.Parent() == n.pp.Types.Scope() {
							target = y
						}
						cur = nil
						continue
					}
					cur = y
					continue
				case *ast.SelectorExpr:
					if s := n.info.Selections[y]; s != nil && s.Kind() == types.MethodExpr {
						target = y
					}
				}
				cur = nil
			}
			if target == nil {
				return true
			}
			if n.overlaps(filename, n.off(call.Pos()), n.off(call.End())) {
				return true
			}
			switch y := target.(type) {
			case *ast.Ident:
				// the function's name must still mean the function here
				if _, found := n.pp.Types.Scope().Innermost(call.Pos()).LookupParent(y.Name, call.Pos()); found != n.info.Uses[y] {
					return true
				}
				n.addEdit(filename, n.off(call.Fun.Pos()), n.off(call.Fun.End()), y.Name)
			case *ast.SelectorExpr:
				if len(call.Args) == 0 || call.Ellipsis.IsValid() && len(call.Args) == 1 {
					return true
				}
				a0 := call.Args[0]
				if !pureExpr(a0, n.info) {
					return true
				}
				fn, _ := n.info.Selections[y].Obj().(*types.Func)
				if fn == nil {
					return true
				}
				if _, isIface := n.info.Selections[y].Recv().Underlying().(*types.Interface); isIface {
					return true
				}
				// (*T).m(a0, rest…) == a0.m(rest…) when a0 has exactly the receiver type of the method expression
				if !types.Identical(n.info.TypeOf(a0), n.info.Selections[y].Recv()) {
					return true
				}
				recvText := "(" + n.src(filename, a0.Pos(), a0.End()) + ")." + y.Sel.Name
				if aid, isId := a0.(*ast.Ident); isId {
					recvText = aid.Name + "." + y.Sel.Name
				}
				n.addEdit(filename, n.off(call.Fun.Pos()), n.off(call.Fun.End()), recvText)
				// drop the first argument
				if len(call.Args) == 1 {
					n.addEdit(filename, n.off(a0.Pos()), n.off(a0.End()), "")
				} else {
					n.addEdit(filename, n.off(a0.Pos()), n.off(call.Args[1].Pos()), "")
				}
			}
			n.notes = append(n.notes, fmt.Sprintf("call through %s bound to %s made a direct call", id.Name, types.ExprString(target)))
			changed = true
			return true
		})
	}
	return changed
}

// constIfRound: `if h == nil {A} else {B}` where h is a local bound once to the literal nil, or to a named function, a
// method expression or a function literal (never nil): the statement is replaced by the branch taken; when that branch
// ends in a return, the statements after the if — never executed — are dropped.
func (n *normalizer) constIfRound() bool {
	changed := false
	for _, f := range n.pp.Syntax {
		filename := n.fset.File(f.Pos()).Name()
		var stack []ast.Node
		ast.Inspect(f, func(x ast.Node) bool {
			if x == nil {
				stack = stack[:len(stack)-1]
				return true
			}
			stack = append(stack, x)
			is, ok := x.(*ast.IfStmt)
			if !ok || is.Init != nil || len(stack) < 2 {
				return true
			}
			be, ok := ast.Unparen(is.Cond).(*ast.BinaryExpr)
			if !ok || (be.Op != token.EQL && be.Op != token.NEQ) {
				return true
			}
			var id *ast.Ident
			isNilExpr := func(e ast.Expr) bool {
				i, ok := ast.Unparen(e).(*ast.Ident)
				if !ok {
					return false
				}
				_, isNil := n.info.Uses[i].(*types.Nil)
				return isNil
			}
			switch {
			case isNilExpr(be.Y):
				id, _ = ast.Unparen(be.X).(*ast.Ident)
			case isNilExpr(be.X):
				id, _ = ast.Unparen(be.Y).(*ast.Ident)
			}
			known := 0 // +1 non-nil, -1 nil
			if id == nil {
				// x.f where f is an unexported field nothing in the package ever assigns (a seam only a test sets): nil
				var sel *ast.SelectorExpr
				switch {
				case isNilExpr(be.Y):
					sel, _ = ast.Unparen(be.X).(*ast.SelectorExpr)
				case isNilExpr(be.X):
					sel, _ = ast.Unparen(be.Y).(*ast.SelectorExpr)
				}
				if sel == nil {
					return true
				}
				s := n.info.Selections[sel]
				if s == nil || s.Kind() != types.FieldVal {
					return true
				}
				fv, isVar := s.Obj().(*types.Var)
				if !isVar || !n.neverAssignedField(fv) {
					return true
				}
				known = -1
			}
			var def ast.Expr
			if known == 0 {
				v, ok := n.info.Uses[id].(*types.Var)
				if !ok || v.IsField() || v.Parent() == nil || v.Parent() == n.pp.Types.Scope() || n.varBad[v] || n.varAssign[v] != nil {
					return true
				}
				if _, isSig := v.Type().Underlying().(*types.Signature); !isSig {
					return true
				}
				def, ok = n.varDef[v]
				if !ok {
					return true
				}
			}
			switch y := ast.Unparen(def).(type) {
			case *ast.Ident:
				if _, isNil := n.info.Uses[y].(*types.Nil); isNil {
					known = -1
				} else if _, isFn := n.info.Uses[y].(*types.Func); isFn {
					known = 1
				}
			case *ast.SelectorExpr:
				if s := n.info.Selections[y]; s != nil && s.Kind() == types.MethodExpr {
					known = 1
				}
			case *ast.FuncLit:
				known = 1
			}
			if known == 0 {
				return true
			}
			condTrue := (known == -1) == (be.Op == token.EQL)
			parent := stack[len(stack)-2]
			var list []ast.Stmt
			switch p := parent.(type) {
			case *ast.BlockStmt:
				list = p.List
			case *ast.CaseClause:
				list = p.Body
			case *ast.CommClause:
				list = p.Body
			default:
				return true
			}
			at := -1
			for i, st := range list {
				if st == ast.Stmt(is) {
					at = i
				}
			}
			if at < 0 {
				return true
			}
			var taken ast.Stmt
			if condTrue {
				taken = is.Body
			} else {
				taken = is.Else // may be nil
			}
			hasLabel := func(nodes ...ast.Node) bool {
				bad := false
				for _, nd := range nodes {
					if nd == nil {
						continue
					}
					ast.Inspect(nd, func(y ast.Node) bool {
						if _, isL := y.(*ast.LabeledStmt); isL {
							bad = true
						}
						return !bad
					})
				}
				return bad
			}
			// the branch not taken disappears: it must not hold a label something else jumps to
			if condTrue && is.Else != nil && hasLabel(is.Else) || !condTrue && hasLabel(is.Body) {
				return true
			}
			terminates := false
			if blk, isBlk := taken.(*ast.BlockStmt); isBlk && len(blk.List) > 0 {
				if _, isRet := blk.List[len(blk.List)-1].(*ast.ReturnStmt); isRet {
					terminates = true
				}
			}
			start, end := n.off(is.Pos()), n.off(is.End())
			if terminates && at+1 < len(list) {
				var rest []ast.Node
				for _, st := range list[at+1:] {
					rest = append(rest, st)
				}
				if hasLabel(rest...) {
					terminates = false
				} else {
					end = n.off(list[len(list)-1].End())
				}
			}
			if n.overlaps(filename, start, end) {
				return true
			}
			text := ""
			if taken != nil {
				text = n.src(filename, taken.Pos(), taken.End())
			}
			line := n.fset.Position(is.Pos()).Line
			tline := line
			if taken != nil {
				tline = n.fset.Position(taken.Pos()).Line
			}
			n.addEdit(filename, start, end, "\n"+n.lineDirective(filename, tline)+text+"\n"+n.lineDirective(filename, n.fset.Position(token.Pos(int(is.Pos())+end-start)).Line))
			if id != nil {
				n.notes = append(n.notes, fmt.Sprintf("nil test of %s at %s:%d decided by its single definition", id.Name, shortFile(filename), line))
			} else {
				n.notes = append(n.notes, fmt.Sprintf("nil test at %s:%d decided: nothing in the package assigns the field", shortFile(filename), line))
			}
			changed = true
			return false
		})
	}
	return changed
}

// deleteTables removes function tables nothing refers to any more (every selection from them was expanded).
func (n *normalizer) deleteTables(used map[types.Object]bool) bool {
	changed := false
	for obj, t := range n.funcTables() {
		if used[obj] {
			continue
		}
		filename := n.fset.File(t.file.Pos()).Name()
		for _, d := range t.file.Decls {
			gd, ok := d.(*ast.GenDecl)
			if !ok || gd.Tok != token.VAR {
				continue
			}
			for _, sp := range gd.Specs {
				vs := sp.(*ast.ValueSpec)
				if len(vs.Names) != 1 || n.info.Defs[vs.Names[0]] != types.Object(obj) {
					continue
				}
				var start, end token.Pos
				if len(gd.Specs) == 1 {
					start, end = gd.Pos(), gd.End()
					if gd.Doc != nil {
						start = gd.Doc.Pos()
					}
				} else {
					start, end = vs.Pos(), vs.End()
					if vs.Doc != nil {
						start = vs.Doc.Pos()
					}
				}
				if n.overlaps(filename, n.off(start), n.off(end)) {
					continue
				}
				n.addEdit(filename, n.off(start), n.off(end), "\n"+n.lineDirective(filename, n.fset.Position(end).Line))
				n.notes = append(n.notes, fmt.Sprintf("removed function table %s (every selection from it was expanded)", obj.Name()))
				changed = true
			}
		}
	}
	return changed
}

// condHoistRound: `if …f(args)… {A} else {B}` with f a new helper: the call is taken out of the condition
// (`{ t := f(args); if …t… {A} else {B} }`), so that the inliner can continue the test at each return of f.
func (n *normalizer) condHoistRound() bool {
	changed := false
	for _, f := range n.pp.Syntax {
		filename := n.fset.File(f.Pos()).Name()
		var stack []ast.Node
		ast.Inspect(f, func(x ast.Node) bool {
			if x == nil {
				stack = stack[:len(stack)-1]
				return true
			}
			stack = append(stack, x)
			is, ok := x.(*ast.IfStmt)
			if !ok || is.Init != nil || len(stack) < 2 || !isListParent(stack[len(stack)-2], is) {
				return true
			}
			if _, isLabeled := stack[len(stack)-2].(*ast.LabeledStmt); isLabeled {
				return true
			}
			var calls []*ast.CallExpr
			ast.Inspect(is.Cond, func(y ast.Node) bool {
				switch z := y.(type) {
				case *ast.FuncLit:
					return false
				case *ast.CallExpr:
					if callee, _ := n.calleeOf(z); callee != nil && n.helpers[callee] {
						calls = append(calls, z)
					}
				}
				return true
			})
			if len(calls) != 1 {
				return true
			}
			call := calls[0]
			callee, _ := n.calleeOf(call)
			sig := callee.Type().(*types.Signature)
			if sig.Results().Len() != 1 || sig.TypeParams().Len() > 0 {
				return true
			}
			fd := n.decls[callee]
			if fd == nil || fd.Body == nil {
				return true
			}
			// worth it only when the callee has several returns (otherwise the plain hoisting of the inliner does)
			nret := 0
			ast.Inspect(fd.Body, func(y ast.Node) bool {
				switch y.(type) {
				case *ast.FuncLit:
					return false
				case *ast.ReturnStmt:
					nret++
				}
				return true
			})
			if nret < 2 {
				return true
			}
			if !n.hoistable(is, call) || len(n.hoistFirst) > 0 {
				return true
			}
			tt, ok := n.typeText(sig.Results().At(0).Type(), f, filename)
			if !ok {
				return true
			}
			_ = tt
			start, end := n.off(is.Pos()), n.off(is.End())
			if n.overlaps(filename, start, end) {
				return true
			}
			n.counter++
			tmp := fmt.Sprintf("_inl%dc", n.counter)
			line := n.fset.Position(is.Pos()).Line
			callText := n.src(filename, call.Pos(), call.End())
			n.addEdit(filename, start, start, "\n"+n.pinLines(fmt.Sprintf("{\n%s := %s\n", tmp, callText), filename, line)+n.lineDirective(filename, line))
			n.addEdit(filename, n.off(call.Pos()), n.off(call.End()), tmp)
			n.addEdit(filename, end, end, "\n"+n.lineDirective(filename, n.fset.Position(is.End()).Line)+"}\n"+n.lineDirective(filename, n.fset.Position(is.End()).Line))
			n.notes = append(n.notes, fmt.Sprintf("call of %s taken out of the condition at %s:%d", funcKeyOf(callee), shortFile(filename), line))
			changed = true
			return false
		})
	}
	return changed
}

// sinkRound: a local variable declared in a function but used only inside one function literal that runs exactly once
// per evaluation (`go func(){…}()`, `defer func(){…}()`, `func(){…}()`) is declared inside that literal instead: state a
// refactoring moved into a struct (and SROA split again) becomes loop-local state of the goroutine that owns it.
func (n *normalizer) sinkRound() bool {
	type declInfo struct {
		stmt   *ast.DeclStmt
		spec   *ast.ValueSpec
		parent ast.Node
		encl   ast.Node
	}
	decls := map[types.Object]*declInfo{}
	blank := map[types.Object][]*ast.AssignStmt{}
	useLit := map[types.Object]map[*ast.FuncLit]bool{} // innermost once-literal (or nil: used outside any) per use
	onceLit := map[*ast.FuncLit]bool{}
	for _, f := range n.pp.Syntax {
		ast.Inspect(f, func(x ast.Node) bool {
			var call *ast.CallExpr
			switch y := x.(type) {
			case *ast.GoStmt:
				call = y.Call
			case *ast.DeferStmt:
				call = y.Call
			case *ast.ExprStmt:
				call, _ = y.X.(*ast.CallExpr)
			}
			if call != nil {
				// (arguments are evaluated where the literal is called or started, as before)
				if lit, ok := ast.Unparen(call.Fun).(*ast.FuncLit); ok {
					onceLit[lit] = true
				}
			}
			return true
		})
	}
	for _, f := range n.pp.Syntax {
		var stack []ast.Node
		ast.Inspect(f, func(x ast.Node) bool {
			if x == nil {
				stack = stack[:len(stack)-1]
				return true
			}
			stack = append(stack, x)
			switch y := x.(type) {
			case *ast.DeclStmt:
				gd, ok := y.Decl.(*ast.GenDecl)
				if !ok || gd.Tok != token.VAR || len(gd.Specs) != 1 || len(stack) < 2 {
					return true
				}
				vs := gd.Specs[0].(*ast.ValueSpec)
				if len(vs.Names) != 1 || len(vs.Values) > 1 || !strings.HasPrefix(vs.Names[0].Name, "_sroa") {
					return true
				}
				obj := n.info.Defs[vs.Names[0]]
				if obj == nil {
					return true
				}
				di := &declInfo{stmt: y, spec: vs, parent: stack[len(stack)-2]}
				for i := len(stack) - 2; i >= 0; i-- {
					switch stack[i].(type) {
					case *ast.FuncLit, *ast.FuncDecl:
						di.encl = stack[i]
					}
					if di.encl != nil {
						break
					}
				}
				decls[obj] = di
			case *ast.Ident:
				obj := n.info.Uses[y]
				if obj == nil {
					return true
				}
				if _, isVar := obj.(*types.Var); !isVar {
					return true
				}
				// `_ = x` keeps the compiler quiet, it is no use
				if as, ok := stack[len(stack)-2].(*ast.AssignStmt); ok && as.Tok == token.ASSIGN && len(as.Lhs) == 1 && len(as.Rhs) == 1 && as.Rhs[0] == ast.Expr(y) {
					if l, isId := as.Lhs[0].(*ast.Ident); isId && l.Name == "_" {
						blank[obj] = append(blank[obj], as)
						return true
					}
				}
				// the outermost enclosing function literal below the variable's declaring function
				var lit *ast.FuncLit
				for i := len(stack) - 2; i >= 0; i-- {
					if fl, ok := stack[i].(*ast.FuncLit); ok {
						if obj.Pos() < fl.Pos() || obj.Pos() >= fl.End() {
							lit = fl
						}
					}
				}
				if useLit[obj] == nil {
					useLit[obj] = map[*ast.FuncLit]bool{}
				}
				useLit[obj][lit] = true
			}
			return true
		})
	}
	var objs []types.Object
	for obj := range decls {
		objs = append(objs, obj)
	}
	sort.Slice(objs, func(i, j int) bool { return objs[i].Pos() < objs[j].Pos() })
	changed := false
	for _, obj := range objs {
		di := decls[obj]
		lits := useLit[obj]
		if len(lits) != 1 {
			continue
		}
		var lit *ast.FuncLit
		for l := range lits {
			lit = l
		}
		if lit == nil || !onceLit[lit] || !isListParent(di.parent, di.stmt) {
			continue
		}
		// the literal is created in the block that declares the variable (same number of instances of both)
		litHome := false
		if blk, ok := di.parent.(*ast.BlockStmt); ok {
			for _, st := range blk.List {
				var call *ast.CallExpr
				switch y := st.(type) {
				case *ast.GoStmt:
					call = y.Call
				case *ast.DeferStmt:
					call = y.Call
				case *ast.ExprStmt:
					call, _ = y.X.(*ast.CallExpr)
				case *ast.BlockStmt:
					// the block the inliner wraps a spawned call in
					for _, st2 := range y.List {
						switch z := st2.(type) {
						case *ast.GoStmt:
							if ast.Unparen(z.Call.Fun) == ast.Expr(lit) {
								litHome = true
							}
						case *ast.DeferStmt:
							if ast.Unparen(z.Call.Fun) == ast.Expr(lit) {
								litHome = true
							}
						}
					}
				}
				if call != nil && ast.Unparen(call.Fun) == ast.Expr(lit) {
					litHome = true
				}
			}
		}
		if !litHome {
			continue
		}
		// initialiser: none, a constant, or a variable that is never reassigned
		if len(di.spec.Values) == 1 {
			v := ast.Unparen(di.spec.Values[0])
			tv := n.info.Types[v]
			okInit := tv.Value != nil
			if id, isId := v.(*ast.Ident); isId {
				if vo, isVar := n.info.Uses[id].(*types.Var); isVar && !n.varBad[vo] && n.varAssign[vo] == nil {
					if _, reassigned := n.varDef[vo]; !reassigned || n.varDefNode[vo] != nil || true {
						okInit = true
					}
					// the name must mean the same variable inside the literal
					if inner := n.pp.Types.Scope().Innermost(lit.Body.Lbrace + 1); inner != nil {
						if _, found := inner.LookupParent(id.Name, lit.Body.Lbrace+1); found != types.Object(vo) {
							okInit = false
						}
					}
				}
			}
			if se, isSel := v.(*ast.SelectorExpr); isSel && !okInit {
				// a field path x.f.g rooted at a variable that is never reassigned, whose last field nothing in the declaring
				// function assigns (configuration read where the goroutine starts instead of just before)
				okInit = n.stableFieldPath(se, di.encl, lit)
			}
			if !okInit {
				continue
			}
		}
		filename := n.fset.File(di.stmt.Pos()).Name()
		if n.overlaps(filename, n.off(di.stmt.Pos()), n.off(di.stmt.End())) || n.overlaps(filename, n.off(lit.Body.Lbrace), n.off(lit.Body.Lbrace)+1) {
			continue
		}
		clash := false
		for _, as := range blank[obj] {
			if n.overlaps(filename, n.off(as.Pos()), n.off(as.End())) {
				clash = true
			}
		}
		if clash {
			continue
		}
		text := n.src(filename, di.stmt.Pos(), di.stmt.End())
		line := n.fset.Position(di.stmt.Pos()).Line
		n.addEdit(filename, n.off(di.stmt.Pos()), n.off(di.stmt.End()), "")
		for _, as := range blank[obj] {
			n.addEdit(filename, n.off(as.Pos()), n.off(as.End()), "")
		}
		litLine := n.fset.Position(lit.Body.Lbrace).Line
		n.addEdit(filename, n.off(lit.Body.Lbrace)+1, n.off(lit.Body.Lbrace)+1, "\n"+n.pinLines(text+"\n_ = "+obj.Name()+"\n", filename, line)+n.lineDirective(filename, litLine))
		n.notes = append(n.notes, fmt.Sprintf("variable %s, used only by the function literal at %s:%d, declared inside it", obj.Name(), shortFile(filename), litLine))
		changed = true
	}
	return changed
}

// zeroDeclRound: `var v T` for a struct type T that the tree under analysis introduced (not on the reference tree) becomes
// `v := T{}`, the form sroaRound splits into one variable per field.
func (n *normalizer) zeroDeclRound() bool {
	changed := false
	for _, f := range n.pp.Syntax {
		filename := n.fset.File(f.Pos()).Name()
		var stack []ast.Node
		ast.Inspect(f, func(x ast.Node) bool {
			if x == nil {
				stack = stack[:len(stack)-1]
				return true
			}
			stack = append(stack, x)
			ds, ok := x.(*ast.DeclStmt)
			if !ok || len(stack) < 2 || !isListParent(stack[len(stack)-2], ds) {
				return true
			}
			gd, ok := ds.Decl.(*ast.GenDecl)
			if !ok || gd.Tok != token.VAR || len(gd.Specs) != 1 {
				return true
			}
			vs := gd.Specs[0].(*ast.ValueSpec)
			if len(vs.Names) != 1 || len(vs.Values) != 0 || vs.Type == nil || vs.Names[0].Name == "_" {
				return true
			}
			obj := n.info.Defs[vs.Names[0]]
			if obj == nil {
				return true
			}
			named, ok := obj.Type().(*types.Named)
			if !ok || named.Obj().Pkg() != n.pp.Types || headTypes[named.Obj().Name()] || named.TypeArgs().Len() > 0 {
				return true
			}
			if _, isStruct := named.Underlying().(*types.Struct); !isStruct {
				return true
			}
			if n.varAssign[obj] != nil {
				return true
			}
			if n.overlaps(filename, n.off(ds.Pos()), n.off(ds.End())) {
				return true
			}
			tt := n.src(filename, vs.Type.Pos(), vs.Type.End())
			n.addEdit(filename, n.off(ds.Pos()), n.off(ds.End()), fmt.Sprintf("%s := %s{}", vs.Names[0].Name, tt))
			n.notes = append(n.notes, fmt.Sprintf("`var %s %s` written as a composite literal", vs.Names[0].Name, tt))
			changed = true
			return true
		})
	}
	return changed
}

// methodValueClosureRound: a method value `x.m` of a method the tree under analysis introduced, used as a value (a task
// handed to the queue, a callback) with x a pointer variable that is never reassigned, is spelled as the closure
// `func(p…) R { return x.m(p…) }`. The method then is an ordinary helper and is inlined into the closure: the shape the
// code had before the closure's body was moved into a method. Methods that (mutually) refer to themselves are left alone.
func (n *normalizer) methodValueClosureRound() bool {
	// reference graph among the new functions
	refs := map[*types.Func]map[*types.Func]bool{}
	for fn, fd := range n.decls {
		if !n.newFns[fn] || fd.Body == nil {
			continue
		}
		refs[fn] = map[*types.Func]bool{}
		ast.Inspect(fd.Body, func(x ast.Node) bool {
			if id, ok := x.(*ast.Ident); ok {
				if g, ok := n.info.Uses[id].(*types.Func); ok && n.newFns[g] {
					refs[fn][g] = true
				}
			}
			return true
		})
	}
	recursive := func(m *types.Func) bool {
		seen := map[*types.Func]bool{}
		work := []*types.Func{m}
		for len(work) > 0 {
			f := work[len(work)-1]
			work = work[:len(work)-1]
			for g := range refs[f] {
				if g == m {
					return true
				}
				if !seen[g] {
					seen[g] = true
					work = append(work, g)
				}
			}
		}
		return false
	}
	changed := false
	for _, f := range n.pp.Syntax {
		filename := n.fset.File(f.Pos()).Name()
		var stack []ast.Node
		ast.Inspect(f, func(x ast.Node) bool {
			if x == nil {
				stack = stack[:len(stack)-1]
				return true
			}
			stack = append(stack, x)
			sel, ok := x.(*ast.SelectorExpr)
			if !ok || len(stack) < 2 {
				return true
			}
			s := n.info.Selections[sel]
			if s == nil || s.Kind() != types.MethodVal || len(s.Index()) != 1 {
				return true
			}
			m, ok := s.Obj().(*types.Func)
			if !ok || !n.newFns[m] || m.Pkg() != n.pp.Types {
				return true
			}
			// not in call position
			var expr ast.Expr = sel
			i := len(stack) - 2
			for i >= 0 {
				if p, isParen := stack[i].(*ast.ParenExpr); isParen {
					expr = p
					i--
					continue
				}
				break
			}
			if i >= 0 {
				if call, isCall := stack[i].(*ast.CallExpr); isCall && call.Fun == expr {
					return true
				}
			}
			fd := n.decls[m]
			if fd == nil || fd.Body == nil || !n.inlinable(m, fd) || recursive(m) {
				return true
			}
			sig := m.Type().(*types.Signature)
			if sig.TypeParams().Len() > 0 || sig.RecvTypeParams().Len() > 0 {
				return true
			}
			if _, ptrRecv := sig.Recv().Type().(*types.Pointer); !ptrRecv {
				return true
			}
			recvText := ""
			if id, ok := ast.Unparen(sel.X).(*ast.Ident); ok {
				v, ok := n.info.Uses[id].(*types.Var)
				if !ok || v.IsField() || v.Parent() == nil || v.Parent() == n.pp.Types.Scope() || n.varBad[v] || n.varAssign[v] != nil {
					return true
				}
				if _, isPtr := v.Type().Underlying().(*types.Pointer); !isPtr {
					return true
				}
				recvText = id.Name
			} else if ue, ok := ast.Unparen(sel.X).(*ast.UnaryExpr); ok && ue.Op == token.AND {
				// (&T{f: x}).m — a fresh object per method value, whose fields are names that are never assigned again and
				// whose method does not write to its receiver: building the object when the closure is called gives the
				// same calls with the same values
				lit, ok := ast.Unparen(ue.X).(*ast.CompositeLit)
				if !ok {
					return true
				}
				for _, el := range lit.Elts {
					val := el
					if kv, isKV := el.(*ast.KeyValueExpr); isKV {
						val = kv.Value
					}
					vid, isId := ast.Unparen(val).(*ast.Ident)
					if !isId {
						return true
					}
					vv, isVar := n.info.Uses[vid].(*types.Var)
					if !isVar || vv.IsField() || vv.Parent() == n.pp.Types.Scope() || n.varBad[vv] || n.varAssign[vv] != nil {
						return true
					}
				}
				recvObj := (*types.Var)(nil)
				if fd.Recv != nil && len(fd.Recv.List) == 1 && len(fd.Recv.List[0].Names) == 1 {
					recvObj, _ = n.info.Defs[fd.Recv.List[0].Names[0]].(*types.Var)
				}
				writes := false
				ast.Inspect(fd.Body, func(y ast.Node) bool {
					switch z := y.(type) {
					case *ast.AssignStmt:
						for _, l := range z.Lhs {
							ast.Inspect(l, func(w ast.Node) bool {
								if id2, ok := w.(*ast.Ident); ok && recvObj != nil && n.info.Uses[id2] == types.Object(recvObj) {
									writes = true
								}
								return true
							})
						}
					case *ast.IncDecStmt:
						ast.Inspect(z.X, func(w ast.Node) bool {
							if id2, ok := w.(*ast.Ident); ok && recvObj != nil && n.info.Uses[id2] == types.Object(recvObj) {
								writes = true
							}
							return true
						})
					case *ast.UnaryExpr:
						if z.Op == token.AND {
							ast.Inspect(z.X, func(w ast.Node) bool {
								if id2, ok := w.(*ast.Ident); ok && recvObj != nil && n.info.Uses[id2] == types.Object(recvObj) {
									writes = true
								}
								return true
							})
						}
					}
					return true
				})
				if recvObj == nil || writes {
					return true
				}
				recvText = "(" + n.src(filename, ue.Pos(), ue.End()) + ")"
			} else {
				return true
			}
			if n.overlaps(filename, n.off(sel.Pos()), n.off(sel.End())) {
				return true
			}
			n.counter++
			var params, args []string
			okT := true
			for k := 0; k < sig.Params().Len(); k++ {
				t := sig.Params().At(k).Type()
				name := fmt.Sprintf("_inl%dp%d", n.counter, k)
				if sig.Variadic() && k == sig.Params().Len()-1 {
					tt, ok := n.typeText(t.(*types.Slice).Elem(), f, filename)
					okT = okT && ok
					params = append(params, name+" ..."+tt)
					args = append(args, name+"...")
				} else {
					tt, ok := n.typeText(t, f, filename)
					okT = okT && ok
					params = append(params, name+" "+tt)
					args = append(args, name)
				}
			}
			var results []string
			for k := 0; k < sig.Results().Len(); k++ {
				tt, ok := n.typeText(sig.Results().At(k).Type(), f, filename)
				okT = okT && ok
				results = append(results, tt)
			}
			if !okT {
				return true
			}
			res := ""
			ret := ""
			if len(results) == 1 {
				res, ret = " "+results[0], "return "
			} else if len(results) > 1 {
				res, ret = " ("+strings.Join(results, ", ")+")", "return "
			}
			text := fmt.Sprintf("func(%s)%s { %s%s.%s(%s) }", strings.Join(params, ", "), res, ret, recvText, sel.Sel.Name, strings.Join(args, ", "))
			n.addEdit(filename, n.off(sel.Pos()), n.off(sel.End()), text)
			n.notes = append(n.notes, fmt.Sprintf("method value %s.%s written as a closure calling the method", recvText, sel.Sel.Name))
			changed = true
			return true
		})
	}
	return changed
}

// pureExprRound: a new helper whose whole body is `return E`, E an expression without calls (conversions, make/len/cap/new,
// literals, selectors, operators allowed), called with side-effect-free arguments: the call is replaced in place by
// `(T)(E[args])`. Evaluation happens exactly where the call stood, so this works in every position — a channel operand of
// a select case, a composite-literal element, a condition — where statement-level inlining would have to move the call.
func (n *normalizer) pureExprRound() bool {
	changed := false
	for _, f := range n.pp.Syntax {
		filename := n.fset.File(f.Pos()).Name()
		var stack []ast.Node
		ast.Inspect(f, func(x ast.Node) bool {
			if x == nil {
				stack = stack[:len(stack)-1]
				return true
			}
			stack = append(stack, x)
			call, ok := x.(*ast.CallExpr)
			if !ok || call.Ellipsis.IsValid() {
				return true
			}
			callee, _ := n.calleeOf(call)
			if callee == nil || callee.Origin() != callee || !n.helpers[callee] {
				return true
			}
			fd := n.decls[callee]
			sig := callee.Type().(*types.Signature)
			if fd == nil || fd.Body == nil || len(fd.Body.List) != 1 || sig.Results().Len() != 1 || sig.Variadic() || sig.TypeParams().Len() > 0 || sig.RecvTypeParams().Len() > 0 {
				return true
			}
			ret, ok := fd.Body.List[0].(*ast.ReturnStmt)
			if !ok || len(ret.Results) != 1 {
				return true
			}
			// not inside the helper's own declaration
			for _, a := range stack {
				if a == ast.Node(fd) {
					return true
				}
			}
			// parameters (and receiver) -> argument texts
			subst := map[types.Object]string{}
			okArgs := true
			bind := func(id *ast.Ident, arg ast.Expr) {
				if id == nil || id.Name == "_" {
					if !pureExpr(arg, n.info) {
						okArgs = false
					}
					return
				}
				if !pureExpr(arg, n.info) {
					okArgs = false
					return
				}
				subst[n.info.Defs[id]] = "(" + n.src(filename, arg.Pos(), arg.End()) + ")"
			}
			params := fieldIdents(fd.Type.Params)
			if len(params) != len(call.Args) {
				return true
			}
			for i, p := range params {
				bind(p, call.Args[i])
			}
			if fd.Recv != nil {
				sel, isSel := ast.Unparen(call.Fun).(*ast.SelectorExpr)
				if !isSel {
					return true
				}
				// receiver and argument of the same kind (no implicit & or *); with a pointer operand the selection counts as
				// indirect although nothing is dereferenced implicitly
				_, recvPtr := sig.Recv().Type().(*types.Pointer)
				_, argPtr := n.info.TypeOf(sel.X).Underlying().(*types.Pointer)
				if s := n.info.Selections[sel]; s == nil || s.Kind() != types.MethodVal || len(s.Index()) != 1 || (s.Indirect() && !argPtr) {
					return true
				}
				rids := fieldIdents(fd.Recv)
				if recvPtr && !argPtr {
					// p.m() with m on *T and p an addressable variable: (&p).m(). When the body mentions the receiver only as
					// the operand of field selections, l.f is (&p).f, i.e. p.f
					if _, isVar := ast.Unparen(sel.X).(*ast.Ident); !isVar || len(rids) != 1 {
						return true
					}
					robj := n.info.Defs[rids[0]]
					onlySel := true
					var par []ast.Node
					ast.Inspect(ret.Results[0], func(y ast.Node) bool {
						if y == nil {
							par = par[:len(par)-1]
							return true
						}
						if id, isID := y.(*ast.Ident); isID && n.info.Uses[id] == robj {
							se, isSel := (ast.Node)(nil), false
							if len(par) > 0 {
								se = par[len(par)-1]
								_, isSel = se.(*ast.SelectorExpr)
							}
							if !isSel || se.(*ast.SelectorExpr).X != ast.Expr(id) {
								onlySel = false
							} else if s2 := n.info.Selections[se.(*ast.SelectorExpr)]; s2 == nil || s2.Kind() != types.FieldVal {
								onlySel = false
							}
						}
						par = append(par, y)
						return true
					})
					if !onlySel {
						return true
					}
				} else if recvPtr != argPtr {
					return true
				}
				if len(rids) == 1 {
					bind(rids[0], sel.X)
				}
			}
			if !okArgs {
				return true
			}
			// E: no calls except conversions and allocation/length builtins, no receives, no function literals, every
			// identifier a parameter, a package-level name or a universe name
			okE := true
			ast.Inspect(ret.Results[0], func(y ast.Node) bool {
				switch z := y.(type) {
				case *ast.FuncLit:
					okE = false
				case *ast.UnaryExpr:
					if z.Op == token.ARROW {
						okE = false
					}
				case *ast.CallExpr:
					if tv, ok := n.info.Types[z.Fun]; ok && tv.IsType() {
						return okE
					}
					if id, ok := z.Fun.(*ast.Ident); ok {
						if _, isB := n.info.Uses[id].(*types.Builtin); isB {
							switch id.Name {
							case "make", "len", "cap", "new":
								return okE
							}
						}
					}
					okE = false
				case *ast.Ident:
					obj := n.info.Uses[z]
					if obj == nil {
						return okE
					}
					if _, isParam := subst[obj]; isParam {
						return okE
					}
					if v, isVar := obj.(*types.Var); isVar && v.IsField() {
						return okE
					}
					if obj.Parent() == types.Universe || obj.Parent() == n.pp.Types.Scope() {
						// the name must mean the same at the call site
						if sc := n.pp.Types.Scope().Innermost(call.Pos()); sc != nil {
							if _, found := sc.LookupParent(z.Name, call.Pos()); found != obj {
								okE = false
							}
						}
						return okE
					}
					if _, isPkg := obj.(*types.PkgName); isPkg {
						okE = false // would need the import at the call site; left to statement-level inlining
						return okE
					}
					if _, isFn := obj.(*types.Func); isFn {
						return okE // a method name in a selector
					}
					okE = false
				}
				return okE
			})
			if !okE {
				return true
			}
			tt, ok := n.typeText(sig.Results().At(0).Type(), f, filename)
			if !ok {
				return true
			}
			if n.overlaps(filename, n.off(call.Pos()), n.off(call.End())) {
				return true
			}
			m := map[ast.Node]ast.Node{}
			e := cloneAST(ret.Results[0], m).(ast.Expr)
			for on, cn := range m {
				if id, ok := on.(*ast.Ident); ok {
					if txt, isParam := subst[n.info.Uses[id]]; isParam {
						cn.(*ast.Ident).Name = txt
					}
				}
			}
			var buf bytes.Buffer
			if err := printer.Fprint(&buf, n.fset, e); err != nil {
				return true
			}
			text := strings.ReplaceAll(buf.String(), "\n", " ")
			repl := "(" + tt + ")(" + text + ")"
			litLike := ast.Unparen(ret.Results[0])
			if u, isAddr := litLike.(*ast.UnaryExpr); isAddr && u.Op == token.AND {
				litLike = ast.Unparen(u.X)
			}
			if _, isLit := litLike.(*ast.CompositeLit); isLit {
				if t := n.info.TypeOf(ret.Results[0]); t != nil && types.Identical(t, sig.Results().At(0).Type()) {
					repl = "(" + text + ")" // a composite literal of the result type needs no conversion (and stays splittable)
				}
			}
			n.addEdit(filename, n.off(call.Pos()), n.off(call.End()), repl)
			n.notes = append(n.notes, fmt.Sprintf("call of %s at %s:%d replaced by the expression it returns", funcKeyOf(callee), shortFile(filename), n.fset.Position(call.Pos()).Line))
			changed = true
			return false
		})
	}
	return changed
}

// switchInitRound: `switch x := f(); tag {…}` with f a new helper becomes `{ x := f(); switch tag {…} }`, the position in
// which the inliner handles the call.
func (n *normalizer) switchInitRound() bool {
	changed := false
	for _, f := range n.pp.Syntax {
		filename := n.fset.File(f.Pos()).Name()
		var stack []ast.Node
		ast.Inspect(f, func(x ast.Node) bool {
			if x == nil {
				stack = stack[:len(stack)-1]
				return true
			}
			stack = append(stack, x)
			sw, ok := x.(*ast.SwitchStmt)
			if !ok || sw.Init == nil || len(stack) < 2 || !isListParent(stack[len(stack)-2], sw) {
				return true
			}
			if _, isLabeled := stack[len(stack)-2].(*ast.LabeledStmt); isLabeled {
				return true
			}
			has := false
			ast.Inspect(sw.Init, func(y ast.Node) bool {
				if call, ok := y.(*ast.CallExpr); ok {
					if callee, _ := n.calleeOf(call); callee != nil && n.helpers[callee.Origin()] {
						has = true
					}
				}
				return !has
			})
			if !has {
				return true
			}
			start, end := n.off(sw.Pos()), n.off(sw.End())
			if n.overlaps(filename, start, end) {
				return true
			}
			initText := n.src(filename, sw.Init.Pos(), sw.Init.End())
			line := n.fset.Position(sw.Pos()).Line
			// drop "INIT;" from the header, open a block before and close it after
			semi := n.off(sw.Init.End())
			src := n.content(filename)
			for semi < len(src) && src[semi] != ';' {
				semi++
			}
			if semi >= len(src) {
				return true
			}
			n.addEdit(filename, start, start, "\n"+n.pinLines("{\n"+initText+"\n", filename, line)+n.lineDirective(filename, line))
			n.addEdit(filename, n.off(sw.Init.Pos()), semi+1, "")
			n.addEdit(filename, end, end, "\n"+n.lineDirective(filename, n.fset.Position(sw.End()).Line)+"}\n"+n.lineDirective(filename, n.fset.Position(sw.End()).Line))
			n.notes = append(n.notes, fmt.Sprintf("init statement of the switch at %s:%d moved in front of it", shortFile(filename), line))
			changed = true
			return false
		})
	}
	return changed
}

// paramSplitRound: a parameter of a struct type the reference tree does not have (or a pointer to one), used in the
// function only through its fields, becomes one parameter per field; every call site passes the fields of its argument in
// field order. By value: the argument is a plain name (`f(x)` -> `f(x.a, x.b)`; a struct argument is copied at the call in
// both forms). By pointer: the fields must only be read in the function, and every argument must be a keyed literal
// `&T{a: e1, b: e2}` with side-effect-free values (-> `f(e1, e2)`, a field left out passes its zero value) or the
// function's own parameter handed on.
func (n *normalizer) paramSplitRound() bool {
	valueUsed := n.funcValueUses()
	type csite struct {
		call     *ast.CallExpr
		filename string
		file     *ast.File
	}
	sites := map[*types.Func][]csite{}
	for _, f := range n.pp.Syntax {
		filename := n.fset.File(f.Pos()).Name()
		ast.Inspect(f, func(x ast.Node) bool {
			if call, ok := x.(*ast.CallExpr); ok {
				if callee, _ := n.calleeOf(call); callee != nil {
					sites[callee.Origin()] = append(sites[callee.Origin()], csite{call, filename, f})
				}
			}
			return true
		})
	}
	changed := false
	for _, f := range n.pp.Syntax {
		filename := n.fset.File(f.Pos()).Name()
		for _, d := range f.Decls {
			fd, ok := d.(*ast.FuncDecl)
			if !ok || fd.Body == nil || fd.Type.Params == nil || fd.Type.TypeParams != nil {
				continue
			}
			fn, _ := n.info.Defs[fd.Name].(*types.Func)
			if fn == nil || valueUsed[fn] {
				continue
			}
			if fd.Recv != nil {
				if sig, ok := fn.Type().(*types.Signature); ok && sig.RecvTypeParams().Len() > 0 {
					continue
				}
			}
			argIdx := 0
			for _, fld := range fd.Type.Params.List {
				idx := argIdx
				if len(fld.Names) == 0 {
					argIdx++
				} else {
					argIdx += len(fld.Names)
				}
				if len(fld.Names) != 1 || fld.Names[0].Name == "_" {
					continue
				}
				if _, isEll := fld.Type.(*ast.Ellipsis); isEll {
					continue
				}
				pobj, _ := n.info.Defs[fld.Names[0]].(*types.Var)
				if pobj == nil {
					continue
				}
				pt := pobj.Type()
				ptrMode := false
				if p2, isPtr := pt.(*types.Pointer); isPtr {
					pt = p2.Elem()
					ptrMode = true
				}
				named, ok := pt.(*types.Named)
				if !ok || named.Obj().Pkg() != n.pp.Types || headTypes[named.Obj().Name()] || named.TypeArgs().Len() > 0 {
					continue
				}
				st, ok := named.Underlying().(*types.Struct)
				if !ok || st.NumFields() == 0 || st.NumFields() > 8 {
					continue
				}
				okFields := true
				for i := 0; i < st.NumFields(); i++ {
					if st.Field(i).Embedded() || st.Field(i).Name() == "_" {
						okFields = false
					}
				}
				if !okFields {
					continue
				}
				// uses: only p.f (by pointer: read only)
				parent := map[ast.Node]ast.Node{}
				var stack []ast.Node
				ast.Inspect(fd.Body, func(x ast.Node) bool {
					if x == nil {
						stack = stack[:len(stack)-1]
						return true
					}
					if len(stack) > 0 {
						parent[x] = stack[len(stack)-1]
					}
					stack = append(stack, x)
					return true
				})
				var sels []*ast.SelectorExpr
				selX := map[*ast.Ident]bool{}
				good := true
				ast.Inspect(fd.Body, func(x ast.Node) bool {
					se, ok := x.(*ast.SelectorExpr)
					if !ok {
						return true
					}
					id, ok := ast.Unparen(se.X).(*ast.Ident) // (p).f, as a substituted expression writes it
					if !ok || n.info.Uses[id] != types.Object(pobj) {
						return true
					}
					sel := n.info.Selections[se]
					if sel == nil || sel.Kind() != types.FieldVal || len(sel.Index()) != 1 {
						return true
					}
					sels = append(sels, se)
					selX[id] = true
					if ptrMode {
						switch pp := parent[se].(type) {
						case *ast.AssignStmt:
							for _, l := range pp.Lhs {
								if l == ast.Expr(se) {
									good = false
								}
							}
						case *ast.IncDecStmt:
							good = false
						case *ast.UnaryExpr:
							if pp.Op == token.AND {
								good = false
							}
						case *ast.RangeStmt:
							if pp.Key == ast.Expr(se) || pp.Value == ast.Expr(se) {
								good = false
							}
						}
					}
					return true
				})
				// whole uses: only as the argument of a call of fn itself at the same position
				cs := sites[fn]
				selfArg := map[*ast.Ident]bool{}
				for _, s := range cs {
					if idx < len(s.call.Args) {
						if id, ok := ast.Unparen(s.call.Args[idx]).(*ast.Ident); ok && n.info.Uses[id] == types.Object(pobj) {
							selfArg[id] = true
						}
					}
				}
				ast.Inspect(fd.Body, func(x ast.Node) bool {
					if id, ok := x.(*ast.Ident); ok && n.info.Uses[id] == types.Object(pobj) && !selX[id] && !selfArg[id] {
						good = false
					}
					return true
				})
				if !good || len(cs) == 0 {
					continue
				}
				// names
				taken := map[string]bool{}
				ast.Inspect(fd, func(x ast.Node) bool {
					if id, ok := x.(*ast.Ident); ok {
						taken[id.Name] = true
					}
					return true
				})
				nf := st.NumFields()
				names := make([]string, nf)
				fieldIdx := map[string]int{}
				var decls []string
				for i := 0; i < nf; i++ {
					fieldIdx[st.Field(i).Name()] = i
					nm := pobj.Name() + "_" + st.Field(i).Name()
					for taken[nm] || n.pp.Types.Scope().Lookup(nm) != nil {
						nm += "_"
					}
					taken[nm] = true
					names[i] = nm
					tt, ok := n.typeText(st.Field(i).Type(), f, filename)
					if !ok {
						good = false
						break
					}
					decls = append(decls, nm+" "+tt)
				}
				if !good {
					continue
				}
				// text of an expression with the selections of the parameter replaced by the new names
				inArg := map[*ast.SelectorExpr]bool{}
				subst := func(fname string, e ast.Expr) string {
					src := n.content(fname)
					from, to := n.off(e.Pos()), n.off(e.End())
					type rep struct {
						s, e int
						t    string
					}
					var reps []rep
					ast.Inspect(e, func(x ast.Node) bool {
						if se, ok := x.(*ast.SelectorExpr); ok {
							for _, s0 := range sels {
								if s0 == se {
									inArg[se] = true
									reps = append(reps, rep{n.off(se.Pos()), n.off(se.End()), names[n.info.Selections[se].Index()[0]]})
									return false
								}
							}
						}
						return true
					})
					sort.Slice(reps, func(i, j int) bool { return reps[i].s < reps[j].s })
					var b strings.Builder
					at := from
					for _, r := range reps {
						b.Write(src[at:r.s])
						b.WriteString(r.t)
						at = r.e
					}
					b.Write(src[at:to])
					return b.String()
				}
				type argEdit struct {
					fname string
					s, e  int
					text  string
				}
				var argEdits []argEdit
				for _, s := range cs {
					if idx >= len(s.call.Args) || s.call.Ellipsis.IsValid() {
						good = false
						break
					}
					if len(s.call.Args) == 1 {
						if tv, ok := n.info.Types[s.call.Args[0]]; ok {
							if _, isTuple := tv.Type.(*types.Tuple); isTuple {
								good = false
								break
							}
						}
					}
					a := ast.Unparen(s.call.Args[idx])
					var parts []string
					switch x := a.(type) {
					case *ast.Ident:
						if n.info.Uses[x] == types.Object(pobj) {
							parts = append(parts, names...)
						} else if !ptrMode {
							for i := 0; i < nf; i++ {
								parts = append(parts, x.Name+"."+st.Field(i).Name())
							}
						} else {
							good = false
						}
					case *ast.UnaryExpr, *ast.CompositeLit:
						var lit *ast.CompositeLit
						isLit := false
						if ue, isU := x.(*ast.UnaryExpr); isU {
							// &T{…} for a pointer parameter
							lit, isLit = ast.Unparen(ue.X).(*ast.CompositeLit)
							if !ptrMode || ue.Op != token.AND {
								isLit = false
							}
						} else {
							// T{…} for a value parameter
							lit, isLit = x.(*ast.CompositeLit)
							if ptrMode {
								isLit = false
							}
						}
						if !isLit {
							good = false
							break
						}
						vals := make([]string, nf)
						for _, el := range lit.Elts {
							kv, isKV := el.(*ast.KeyValueExpr)
							if !isKV {
								good = false
								break
							}
							k, isId := kv.Key.(*ast.Ident)
							if !isId || !pureExpr(kv.Value, n.info) {
								good = false
								break
							}
							i, known := fieldIdx[k.Name]
							if !known || vals[i] != "" {
								good = false
								break
							}
							vals[i] = subst(s.filename, kv.Value)
						}
						if !good {
							break
						}
						for i := 0; i < nf; i++ {
							if vals[i] == "" {
								vals[i] = n.zeroText(st.Field(i).Type(), s.file, s.filename)
								if vals[i] == "" {
									good = false
								}
							}
						}
						parts = vals
					default:
						good = false
					}
					if !good {
						break
					}
					argEdits = append(argEdits, argEdit{s.filename, n.off(s.call.Args[idx].Pos()), n.off(s.call.Args[idx].End()), strings.Join(parts, ", ")})
				}
				if !good || n.overlaps(filename, n.off(fld.Pos()), n.off(fld.End())) {
					continue
				}
				for _, ae := range argEdits {
					if n.overlaps(ae.fname, ae.s, ae.e) {
						good = false
					}
				}
				for _, se := range sels {
					if !inArg[se] && n.overlaps(filename, n.off(se.Pos()), n.off(se.End())) {
						good = false
					}
				}
				if !good {
					continue
				}
				n.addEdit(filename, n.off(fld.Pos()), n.off(fld.End()), strings.Join(decls, ", "))
				for _, se := range sels {
					if inArg[se] {
						continue
					}
					sel := n.info.Selections[se]
					n.addEdit(filename, n.off(se.Pos()), n.off(se.End()), names[sel.Index()[0]])
				}
				for _, ae := range argEdits {
					n.addEdit(ae.fname, ae.s, ae.e, ae.text)
				}
				mode := "struct"
				if ptrMode {
					mode = "pointer to struct"
				}
				n.notes = append(n.notes, fmt.Sprintf("parameter %s of %s (%s type %s, used by field only) split into one parameter per field", pobj.Name(), fn.Name(), mode, named.Obj().Name()))
				changed = true
				break // one parameter per function per round
			}
		}
	}
	return changed
}

// zeroText: the zero value of t written out in the given file ("" if it cannot be).
func (n *normalizer) zeroText(t types.Type, file *ast.File, filename string) string {
	basic := func(b *types.Basic) string {
		switch {
		case b.Info()&types.IsBoolean != 0:
			return "false"
		case b.Info()&types.IsString != 0:
			return `""`
		case b.Info()&types.IsNumeric != 0:
			return "0"
		}
		return ""
	}
	switch x := t.(type) {
	case *types.Basic:
		if x.Kind() == types.UnsafePointer {
			return ""
		}
		return basic(x)
	case *types.Pointer, *types.Slice, *types.Map, *types.Chan, *types.Signature, *types.Interface:
		return "nil"
	case *types.Named:
		tt, ok := n.typeText(t, file, filename)
		if !ok {
			return ""
		}
		switch u := x.Underlying().(type) {
		case *types.Basic:
			if z := basic(u); z != "" {
				return tt + "(" + z + ")"
			}
		case *types.Struct, *types.Array:
			return tt + "{}"
		case *types.Pointer, *types.Slice, *types.Map, *types.Chan, *types.Signature, *types.Interface:
			return "nil"
		}
	}
	return ""
}

// structAssignRound: a local of a struct type the reference tree does not have, which is only ever read and
// written field by field, or assigned as a whole from keyed composite literals, becomes one local per field;
// a whole assignment becomes the parallel assignment of its fields (the operands keep their order; a field the
// literal leaves out gets its zero value).
func (n *normalizer) structAssignRound() bool {
	changed := false
	for _, f := range n.pp.Syntax {
		filename := n.fset.File(f.Pos()).Name()
		for _, d := range f.Decls {
			fd, ok := d.(*ast.FuncDecl)
			if !ok || fd.Body == nil || fd.Type.TypeParams != nil {
				continue
			}
			if changed {
				break
			}
			// candidates: locals defined by `v := T{…}` or `var v T`
			type cand struct {
				obj   *types.Var
				named *types.Named
				st    *types.Struct
				def   ast.Stmt
				lit   *ast.CompositeLit // nil for var v T
			}
			var cands []*cand
			parentOf := map[ast.Node]ast.Node{}
			var stack []ast.Node
			ast.Inspect(fd.Body, func(x ast.Node) bool {
				if x == nil {
					stack = stack[:len(stack)-1]
					return true
				}
				if len(stack) > 0 {
					parentOf[x] = stack[len(stack)-1]
				}
				stack = append(stack, x)
				return true
			})
			newStruct := func(t types.Type) (*types.Named, *types.Struct) {
				named, ok := t.(*types.Named)
				if !ok || named.Obj().Pkg() != n.pp.Types || headTypes[named.Obj().Name()] || named.TypeArgs().Len() > 0 {
					return nil, nil
				}
				st, ok := named.Underlying().(*types.Struct)
				if !ok || st.NumFields() == 0 || st.NumFields() > 8 {
					return nil, nil
				}
				for i := 0; i < st.NumFields(); i++ {
					if st.Field(i).Embedded() || st.Field(i).Name() == "_" {
						return nil, nil
					}
				}
				return named, st
			}
			keyedLit := func(e ast.Expr, named *types.Named) *ast.CompositeLit {
				lit, ok := ast.Unparen(e).(*ast.CompositeLit)
				if !ok || !types.Identical(n.info.TypeOf(lit), named) {
					return nil
				}
				seen := map[string]bool{}
				for _, el := range lit.Elts {
					kv, ok := el.(*ast.KeyValueExpr)
					if !ok {
						return nil
					}
					k, ok := kv.Key.(*ast.Ident)
					if !ok || seen[k.Name] {
						return nil
					}
					seen[k.Name] = true
				}
				return lit
			}
			ast.Inspect(fd.Body, func(x ast.Node) bool {
				switch y := x.(type) {
				case *ast.AssignStmt:
					if y.Tok == token.DEFINE && len(y.Lhs) == 1 && len(y.Rhs) == 1 && isListParent(parentOf[y], y) {
						if id, ok := y.Lhs[0].(*ast.Ident); ok {
							if obj, _ := n.info.Defs[id].(*types.Var); obj != nil {
								if named, st := newStruct(obj.Type()); named != nil {
									if lit := keyedLit(y.Rhs[0], named); lit != nil {
										cands = append(cands, &cand{obj, named, st, y, lit})
									}
								}
							}
						}
					}
				case *ast.DeclStmt:
					if gd, ok := y.Decl.(*ast.GenDecl); ok && gd.Tok == token.VAR && len(gd.Specs) == 1 && isListParent(parentOf[y], y) {
						if vs := gd.Specs[0].(*ast.ValueSpec); len(vs.Names) == 1 && len(vs.Values) == 0 {
							if obj, _ := n.info.Defs[vs.Names[0]].(*types.Var); obj != nil {
								if named, st := newStruct(obj.Type()); named != nil {
									cands = append(cands, &cand{obj, named, st, y, nil})
								}
							}
						}
					}
				}
				return true
			})
			for _, cd := range cands {
				if _, isLabeled := parentOf[cd.def].(*ast.LabeledStmt); isLabeled {
					continue
				}
				// classify every use
				type wholeAssign struct {
					as  *ast.AssignStmt
					idx int
					lit *ast.CompositeLit
					src *ast.Ident // instead of a literal: another local of the same struct type, copied as a whole
				}
				var sels []*ast.SelectorExpr
				var blanks []*ast.AssignStmt
				var wholes []wholeAssign
				good := true
				nWhole := 0
				ast.Inspect(fd.Body, func(x ast.Node) bool {
					id, ok := x.(*ast.Ident)
					if !ok || n.info.Uses[id] != types.Object(cd.obj) {
						return true
					}
					switch p := parentOf[id].(type) {
					case *ast.SelectorExpr:
						if p.X == ast.Expr(id) {
							if sel := n.info.Selections[p]; sel != nil && sel.Kind() == types.FieldVal && len(sel.Index()) == 1 {
								sels = append(sels, p)
								return true
							}
						}
					case *ast.AssignStmt:
						if p.Tok == token.ASSIGN && len(p.Lhs) == len(p.Rhs) {
							for i, l := range p.Lhs {
								if l == ast.Expr(id) {
									if lit := keyedLit(p.Rhs[i], cd.named); lit != nil && isListParent(parentOf[p], p) {
										wholes = append(wholes, wholeAssign{p, i, lit, nil})
										nWhole++
										return true
									}
									if rid, isID := ast.Unparen(p.Rhs[i]).(*ast.Ident); isID && isListParent(parentOf[p], p) {
										if ro, _ := n.info.Uses[rid].(*types.Var); ro != nil && ro != cd.obj && !ro.IsField() && ro.Parent() != n.pp.Types.Scope() && types.Identical(ro.Type(), cd.obj.Type()) {
											wholes = append(wholes, wholeAssign{p, i, nil, rid})
											nWhole++
											return true
										}
									}
								}
							}
							if len(p.Lhs) == 1 && len(p.Rhs) == 1 && p.Rhs[0] == ast.Expr(id) {
								if b, ok := p.Lhs[0].(*ast.Ident); ok && b.Name == "_" && isListParent(parentOf[p], p) {
									blanks = append(blanks, p)
									return true
								}
							}
						}
					}
					good = false
					return true
				})
				if !good || nWhole == 0 {
					continue // (without whole assignments the single-definition splitting applies)
				}
				// one whole assignment of this variable per statement
				seenAs := map[*ast.AssignStmt]bool{}
				for _, w := range wholes {
					if seenAs[w.as] {
						good = false
					}
					seenAs[w.as] = true
				}
				// names, types, zero values
				taken := map[string]bool{}
				ast.Inspect(fd, func(x ast.Node) bool {
					if id, ok := x.(*ast.Ident); ok {
						taken[id.Name] = true
					}
					return true
				})
				nf := cd.st.NumFields()
				names, tts, zeros := make([]string, nf), make([]string, nf), make([]string, nf)
				fieldIdx := map[string]int{}
				for i := 0; i < nf && good; i++ {
					fieldIdx[cd.st.Field(i).Name()] = i
					nm := cd.obj.Name() + "_" + cd.st.Field(i).Name()
					for taken[nm] || n.pp.Types.Scope().Lookup(nm) != nil {
						nm += "_"
					}
					taken[nm] = true
					names[i] = nm
					tt, ok := n.typeText(cd.st.Field(i).Type(), f, filename)
					z := n.zeroText(cd.st.Field(i).Type(), f, filename)
					if !ok || z == "" {
						good = false
					}
					tts[i], zeros[i] = tt, z
				}
				if !good {
					continue
				}
				// the literal's fields as (targets, values), in the literal's order, then the fields left out
				spread := func(lit *ast.CompositeLit) ([]string, []string) {
					var ts, vs []string
					done := map[int]bool{}
					for _, el := range lit.Elts {
						kv := el.(*ast.KeyValueExpr)
						i := fieldIdx[kv.Key.(*ast.Ident).Name]
						done[i] = true
						ts = append(ts, names[i])
						vs = append(vs, n.src(filename, kv.Value.Pos(), kv.Value.End()))
					}
					for i := 0; i < nf; i++ {
						if !done[i] {
							ts = append(ts, names[i])
							vs = append(vs, zeros[i])
						}
					}
					return ts, vs
				}
				type ed struct {
					s, e int
					t    string
				}
				var eds []ed
				// declaration
				var decl strings.Builder
				for i := 0; i < nf; i++ {
					fmt.Fprintf(&decl, "var %s %s; _ = %s; ", names[i], tts[i], names[i])
				}
				if cd.lit != nil && len(cd.lit.Elts) > 0 {
					ts, vs := spread(cd.lit)
					decl.WriteString(strings.Join(ts, ", ") + " = " + strings.Join(vs, ", "))
				}
				eds = append(eds, ed{n.off(cd.def.Pos()), n.off(cd.def.End()), decl.String()})
				for _, se := range sels {
					eds = append(eds, ed{n.off(se.Pos()), n.off(se.End()), names[n.info.Selections[se].Index()[0]]})
				}
				for _, b := range blanks {
					eds = append(eds, ed{n.off(b.Pos()), n.off(b.End()), strings.Repeat("_, ", nf-1) + "_ = " + strings.Join(names, ", ")})
				}
				for _, w := range wholes {
					var ts, vs []string
					if w.src != nil {
						for i := 0; i < nf; i++ {
							ts = append(ts, names[i])
							vs = append(vs, w.src.Name+"."+cd.st.Field(i).Name())
						}
					} else {
						ts, vs = spread(w.lit)
					}
					eds = append(eds, ed{n.off(w.as.Lhs[w.idx].Pos()), n.off(w.as.Lhs[w.idx].End()), strings.Join(ts, ", ")})
					eds = append(eds, ed{n.off(w.as.Rhs[w.idx].Pos()), n.off(w.as.Rhs[w.idx].End()), strings.Join(vs, ", ")})
				}
				// selectors inside a literal that is itself rewritten would overlap: refuse
				sort.Slice(eds, func(i, j int) bool { return eds[i].s < eds[j].s })
				for i := 1; i < len(eds); i++ {
					if eds[i].s < eds[i-1].e {
						good = false
					}
				}
				for _, e := range eds {
					if n.overlaps(filename, e.s, e.e) {
						good = false
					}
				}
				if !good {
					continue
				}
				for _, e := range eds {
					n.addEdit(filename, e.s, e.e, e.t)
				}
				n.notes = append(n.notes, fmt.Sprintf("struct local %s of %s (type %s), assigned as a whole from literals, split into one local per field", cd.obj.Name(), fd.Name.Name, cd.named.Obj().Name()))
				changed = true
				break
			}
		}
	}
	return changed
}

// unwrapRound: a struct type the reference tree does not have, with exactly one field and no methods left (they have been
// inlined), is the type of that field in other clothes: every use of the type becomes the field's type, `x.f` becomes `x`,
// `T{f: e}` becomes `e` and `T{}` the zero value. A struct with one field has the layout and the copy semantics of that
// field, so nothing observable changes; the result is type-checked like every other round.
func (n *normalizer) unwrapRound() bool {
	changed := false
	if os.Getenv("MQTTCHECK_NO_UNWRAP") != "" {
		return false
	}
	for _, f := range n.pp.Syntax {
		for _, d := range f.Decls {
			gd, ok := d.(*ast.GenDecl)
			if !ok || gd.Tok != token.TYPE || changed {
				continue
			}
			for _, sp := range gd.Specs {
				ts, ok := sp.(*ast.TypeSpec)
				if !ok || ts.TypeParams != nil || ts.Assign.IsValid() || headTypes[ts.Name.Name] {
					continue
				}
				stx, ok := ts.Type.(*ast.StructType)
				if !ok {
					continue
				}
				tn, _ := n.info.Defs[ts.Name].(*types.TypeName)
				if tn == nil {
					continue
				}
				named, ok := tn.Type().(*types.Named)
				if !ok || named.NumMethods() > 0 {
					continue
				}
				st, ok := named.Underlying().(*types.Struct)
				if !ok || st.NumFields() != 1 || st.Field(0).Name() == "_" {
					continue
				}
				fld := st.Field(0)
				// the field's type must not be an interface or a pointer to a type with methods the wrapper would hide… (kept
				// simple: any type; promoted methods resolve on the field's type directly once the wrapper is gone)
				if n.tryUnwrap(tn, named, fld, ts, stx) {
					changed = true
					break
				}
			}
		}
	}
	return changed
}

func (n *normalizer) tryUnwrap(tn *types.TypeName, named *types.Named, fld *types.Var, ts *ast.TypeSpec, stx *ast.StructType) bool {
	type ed struct {
		file string
		s, e int
		t    string
	}
	var eds []ed
	good := true
	for _, f := range n.pp.Syntax {
		filename := n.fset.File(f.Pos()).Name()
		gtext, ok := n.typeText(fld.Type(), f, filename)
		if !ok {
			return false
		}
		parent := map[ast.Node]ast.Node{}
		var stack []ast.Node
		ast.Inspect(f, func(x ast.Node) bool {
			if x == nil {
				stack = stack[:len(stack)-1]
				return true
			}
			if len(stack) > 0 {
				parent[x] = stack[len(stack)-1]
			}
			stack = append(stack, x)
			return true
		})
		handledLit := map[*ast.CompositeLit]bool{}
		ast.Inspect(f, func(x ast.Node) bool {
			if !good {
				return false
			}
			switch y := x.(type) {
			case *ast.CompositeLit:
				if t := n.info.TypeOf(y); t == nil || !types.Identical(t, named) {
					return true
				}
				if u, isAddr := parent[y].(*ast.UnaryExpr); isAddr && u.Op == token.AND {
					good = false
					return false
				}
				handledLit[y] = true
				text := ""
				switch len(y.Elts) {
				case 0:
					text = n.zeroText(fld.Type(), f, filename)
					if text == "" {
						good = false
						return false
					}
					if text == "nil" {
						text = gtext + "(nil)"
					}
				case 1:
					v := y.Elts[0]
					if kv, isKV := v.(*ast.KeyValueExpr); isKV {
						v = kv.Value
					}
					text = gtext + "(" + n.src(filename, v.Pos(), v.End()) + ")"
					// nested uses inside the value are not rewritten in the same round
					nested := false
					ast.Inspect(v, func(z ast.Node) bool {
						if id, ok := z.(*ast.Ident); ok && n.info.Uses[id] == types.Object(tn) {
							nested = true
						}
						if se, ok := z.(*ast.SelectorExpr); ok {
							if sel := n.info.Selections[se]; sel != nil && sel.Obj() == types.Object(fld) {
								nested = true
							}
						}
						return true
					})
					if nested {
						good = false
						return false
					}
				default:
					good = false
					return false
				}
				eds = append(eds, ed{filename, n.off(y.Pos()), n.off(y.End()), text})
				return false
			case *ast.SelectorExpr:
				sel := n.info.Selections[y]
				if sel == nil || sel.Kind() != types.FieldVal {
					return true
				}
				if sel.Obj() == types.Object(fld) && len(sel.Index()) == 1 {
					// x.f -> x, (*p).f / p.f -> *p
					xt := n.info.TypeOf(y.X)
					xs := n.src(filename, y.X.Pos(), y.X.End())
					// selections of the field nested in the operand are rewritten in a later round
					nested := false
					ast.Inspect(y.X, func(z ast.Node) bool {
						if se, ok := z.(*ast.SelectorExpr); ok {
							if s2 := n.info.Selections[se]; s2 != nil && s2.Obj() == types.Object(fld) {
								nested = true
							}
						}
						if cl, ok := z.(*ast.CompositeLit); ok {
							if t := n.info.TypeOf(cl); t != nil && types.Identical(t, named) {
								nested = true
							}
						}
						return true
					})
					if nested {
						good = false
						return false
					}
					if _, isPtr := xt.Underlying().(*types.Pointer); isPtr {
						eds = append(eds, ed{filename, n.off(y.Pos()), n.off(y.End()), "(*" + xs + ")"})
					} else {
						eds = append(eds, ed{filename, n.off(y.Pos()), n.off(y.End()), "(" + xs + ")"})
					}
					return false
				}
				return true
			case *ast.Ident:
				if n.info.Uses[y] != types.Object(tn) {
					return true
				}
				if cl, isLit := parent[y].(*ast.CompositeLit); isLit && cl.Type == ast.Expr(y) && handledLit[cl] {
					return true
				}
				if kv, isKV := parent[y].(*ast.KeyValueExpr); isKV && kv.Key == ast.Expr(y) {
					return true // the embedded field's key inside a literal that is replaced as a whole
				}
				eds = append(eds, ed{filename, n.off(y.Pos()), n.off(y.End()), gtext})
			}
			return true
		})
	}
	if !good {
		return false
	}
	// the declaration itself: an alias nobody uses any more
	declFile := n.fset.File(ts.Pos()).Name()
	var declF *ast.File
	for _, f := range n.pp.Syntax {
		if n.fset.File(f.Pos()).Name() == declFile {
			declF = f
		}
	}
	gtext, ok := n.typeText(fld.Type(), declF, declFile)
	if !ok {
		return false
	}
	eds = append(eds, ed{declFile, n.off(stx.Pos()), n.off(stx.End()), "= " + gtext})
	sort.Slice(eds, func(i, j int) bool {
		if eds[i].file != eds[j].file {
			return eds[i].file < eds[j].file
		}
		return eds[i].s < eds[j].s
	})
	for i := 1; i < len(eds); i++ {
		if eds[i].file == eds[i-1].file && eds[i].s < eds[i-1].e {
			return false
		}
	}
	for _, e := range eds {
		if n.overlaps(e.file, e.s, e.e) {
			return false
		}
	}
	for _, e := range eds {
		n.addEdit(e.file, e.s, e.e, e.t)
	}
	n.notes = append(n.notes, fmt.Sprintf("one-field struct type %s replaced by the type of its field %s", tn.Name(), fld.Name()))
	return true
}

// copyPropRound: `x := y` for a local y of a struct type the reference tree does not have, where x is only read field by
// field (the receiver copy of an inlined value-receiver method) and y is not written, nor its address taken, while x is in
// scope: x.f reads the value y.f has — the copy is dropped and its reads go to y.
func (n *normalizer) copyPropRound() bool {
	changed := false
	for _, f := range n.pp.Syntax {
		filename := n.fset.File(f.Pos()).Name()
		for _, d := range f.Decls {
			fd, ok := d.(*ast.FuncDecl)
			if !ok || fd.Body == nil {
				continue
			}
			parent := map[ast.Node]ast.Node{}
			inLit := map[ast.Node]bool{}
			litOf := map[ast.Node]*ast.FuncLit{} // innermost enclosing function literal
			var stack []ast.Node
			litDepth := 0
			ast.Inspect(fd.Body, func(x ast.Node) bool {
				if x == nil {
					if _, isLit := stack[len(stack)-1].(*ast.FuncLit); isLit {
						litDepth--
					}
					stack = stack[:len(stack)-1]
					return true
				}
				if len(stack) > 0 {
					parent[x] = stack[len(stack)-1]
				}
				if _, isLit := x.(*ast.FuncLit); isLit {
					litDepth++
				}
				if litDepth > 0 {
					inLit[x] = true
					for k := len(stack) - 1; k >= 0 && litOf[x] == nil; k-- {
						if l, isLit := stack[k].(*ast.FuncLit); isLit {
							litOf[x] = l
						}
					}
					if l, isLit := x.(*ast.FuncLit); isLit {
						litOf[x] = l
					}
				}
				stack = append(stack, x)
				return true
			})
			newStruct := func(t types.Type) bool {
				if p, isPtr := t.(*types.Pointer); isPtr {
					t = p.Elem() // a pointer to such a struct: the copy names the same object
				}
				named, ok := t.(*types.Named)
				if !ok || named.Obj().Pkg() != n.pp.Types || headTypes[named.Obj().Name()] {
					return false
				}
				_, isStruct := named.Underlying().(*types.Struct)
				return isStruct
			}
			// writes and address-takings per variable: positions
			type acc struct {
				pos   token.Pos
				inLit bool
			}
			writes := map[types.Object][]acc{}
			rootOf := func(e ast.Expr) types.Object {
				for {
					switch y := ast.Unparen(e).(type) {
					case *ast.SelectorExpr:
						// x.p.f with p a pointer writes what p points to, not x
						if t := n.info.TypeOf(y.X); t != nil {
							if _, isPtr := t.Underlying().(*types.Pointer); isPtr {
								if _, isID := ast.Unparen(y.X).(*ast.Ident); !isID {
									return nil
								}
							}
						}
						e = y.X
						continue
					case *ast.IndexExpr:
						if t := n.info.TypeOf(y.X); t != nil {
							switch t.Underlying().(type) {
							case *types.Slice, *types.Map, *types.Pointer:
								if _, isID := ast.Unparen(y.X).(*ast.Ident); !isID {
									return nil // an element of what a field refers to
								}
							}
						}
						e = y.X
						continue
					case *ast.Ident:
						if o := n.info.Uses[y]; o != nil {
							return o
						}
						return n.info.Defs[y]
					}
					return nil
				}
			}
			ast.Inspect(fd.Body, func(x ast.Node) bool {
				switch y := x.(type) {
				case *ast.AssignStmt:
					if y.Tok != token.DEFINE {
						for _, l := range y.Lhs {
							if o := rootOf(l); o != nil {
								writes[o] = append(writes[o], acc{y.Pos(), inLit[y]})
							}
						}
					}
				case *ast.IncDecStmt:
					if o := rootOf(y.X); o != nil {
						writes[o] = append(writes[o], acc{y.Pos(), inLit[y]})
					}
				case *ast.UnaryExpr:
					if y.Op == token.AND {
						if o := rootOf(y.X); o != nil {
							writes[o] = append(writes[o], acc{token.NoPos, true}) // address taken: anything may write it
						}
					}
				case *ast.RangeStmt:
					if y.Tok != token.DEFINE {
						for _, l := range []ast.Expr{y.Key, y.Value} {
							if l != nil {
								if o := rootOf(l); o != nil {
									writes[o] = append(writes[o], acc{y.Pos(), inLit[y]})
								}
							}
						}
					}
				case *ast.CallExpr:
					// a method with a pointer receiver called on an addressable variable takes its address
					if se, ok := y.Fun.(*ast.SelectorExpr); ok {
						if sel := n.info.Selections[se]; sel != nil && sel.Kind() == types.MethodVal {
							if sig, ok := sel.Obj().Type().(*types.Signature); ok && sig.Recv() != nil {
								if _, ptr := sig.Recv().Type().(*types.Pointer); ptr {
									if _, isPtr := n.info.TypeOf(se.X).Underlying().(*types.Pointer); !isPtr {
										if o := rootOf(se.X); o != nil {
											writes[o] = append(writes[o], acc{token.NoPos, true})
										}
									}
								}
							}
						}
					}
				}
				return true
			})
			appliedX, appliedY := map[types.Object]bool{}, map[types.Object]bool{}
			ast.Inspect(fd.Body, func(x ast.Node) bool {
				as, ok := x.(*ast.AssignStmt)
				if !ok || as.Tok != token.DEFINE || len(as.Lhs) != 1 || len(as.Rhs) != 1 {
					return true
				}
				xid, ok1 := as.Lhs[0].(*ast.Ident)
				yid, ok2 := ast.Unparen(as.Rhs[0]).(*ast.Ident)
				if !ok1 || !ok2 || xid.Name == "_" {
					return true
				}
				xo, _ := n.info.Defs[xid].(*types.Var)
				yo, _ := n.info.Uses[yid].(*types.Var)
				if xo == nil || yo == nil || xo == yo || yo.IsField() || yo.Parent() == n.pp.Types.Scope() || !newStruct(xo.Type()) || !types.Identical(xo.Type(), yo.Type()) {
					return true
				}
				if appliedX[yo] || appliedY[xo] || appliedX[xo] {
					return true // a link of a chain of copies that is being shortened in this round: next round
				}
				blk, ok := parent[as].(*ast.BlockStmt)
				if !ok {
					return true
				}
				// inside a function literal (which runs at some later time): y is never written at all
				if inLit[as] && len(writes[yo]) > 0 {
					return true
				}
				// y untouched while x is in scope
				for _, w := range writes[yo] {
					if w.inLit || (w.pos >= as.End() && w.pos <= blk.End()) {
						return true
					}
				}
				if len(writes[xo]) > 0 {
					return true
				}
				// uses of x
				var reads []*ast.Ident
				var blanks []*ast.AssignStmt
				good := true
				ast.Inspect(fd.Body, func(z ast.Node) bool {
					id, ok := z.(*ast.Ident)
					if !ok || n.info.Uses[id] != types.Object(xo) {
						return true
					}
					if litOf[id] != litOf[as] {
						good = false
						return true
					}
					switch p := parent[id].(type) {
					case *ast.SelectorExpr:
						if p.X == ast.Expr(id) {
							if sel := n.info.Selections[p]; sel != nil && sel.Kind() == types.FieldVal {
								// the name y must mean y here
								if sc := n.pp.Types.Scope().Innermost(id.Pos()); sc != nil {
									if _, o := sc.LookupParent(yo.Name(), id.Pos()); o == types.Object(yo) {
										reads = append(reads, id)
										return true
									}
								}
							}
						}
					case *ast.AssignStmt:
						if len(p.Lhs) == 1 && len(p.Rhs) == 1 && p.Rhs[0] == ast.Expr(id) {
							if b, ok := p.Lhs[0].(*ast.Ident); ok && b.Name == "_" && p.Tok == token.ASSIGN {
								blanks = append(blanks, p)
								return true
							}
						}
					}
					good = false
					return true
				})
				if !good {
					return true
				}
				type ed struct {
					s, e int
					t    string
				}
				eds := []ed{{n.off(as.Pos()), n.off(as.End()), ""}}
				for _, b := range blanks {
					eds = append(eds, ed{n.off(b.Pos()), n.off(b.End()), ""})
				}
				for _, id := range reads {
					eds = append(eds, ed{n.off(id.Pos()), n.off(id.End()), yo.Name()})
				}
				for _, e := range eds {
					if n.overlaps(filename, e.s, e.e) {
						return true
					}
				}
				for _, e := range eds {
					n.addEdit(filename, e.s, e.e, e.t)
				}
				n.notes = append(n.notes, fmt.Sprintf("copy %s of struct local %s in %s dropped: its field reads go to %s", xo.Name(), yo.Name(), fd.Name.Name, yo.Name()))
				changed = true
				appliedX[xo], appliedY[yo] = true, true
				return true
			})
		}
	}
	return changed
}

// neverAssignedField: fv is an unexported field of a struct type of the package, of a type whose zero value is nil, and
// no non-test source of the package gives it a value: no assignment through a selector, no composite literal that sets it
// (keyed, or positional for its struct), its address is never taken, and no value of another struct type is converted to
// its struct. Every load of it then yields nil.
func (n *normalizer) neverAssignedField(fv *types.Var) bool {
	if !fv.IsField() || fv.Exported() || fv.Pkg() != n.pp.Types || fv.Embedded() {
		return false
	}
	switch fv.Type().Underlying().(type) {
	case *types.Signature, *types.Pointer, *types.Interface, *types.Map, *types.Slice, *types.Chan:
	default:
		return false
	}
	// the struct types that declare fv
	owner := func(t types.Type) bool {
		st, ok := t.Underlying().(*types.Struct)
		if !ok {
			if p, isP := t.Underlying().(*types.Pointer); isP {
				st, ok = p.Elem().Underlying().(*types.Struct)
			}
		}
		if !ok {
			return false
		}
		for i := 0; i < st.NumFields(); i++ {
			if st.Field(i) == fv {
				return true
			}
		}
		return false
	}
	selects := func(e ast.Expr) bool {
		sel, ok := ast.Unparen(e).(*ast.SelectorExpr)
		if !ok {
			return false
		}
		s := n.info.Selections[sel]
		return s != nil && s.Kind() == types.FieldVal && s.Obj() == types.Object(fv)
	}
	assigned := false
	for _, f := range n.pp.Syntax {
		ast.Inspect(f, func(x ast.Node) bool {
			if assigned {
				return false
			}
			switch y := x.(type) {
			case *ast.AssignStmt:
				for _, l := range y.Lhs {
					if selects(l) {
						assigned = true
					}
				}
			case *ast.RangeStmt:
				if (y.Key != nil && selects(y.Key)) || (y.Value != nil && selects(y.Value)) {
					assigned = true
				}
			case *ast.UnaryExpr:
				if y.Op == token.AND && selects(y.X) {
					assigned = true
				}
			case *ast.CompositeLit:
				tv, ok := n.info.Types[y]
				if !ok || !owner(tv.Type) {
					return true
				}
				for _, el := range y.Elts {
					kv, isKV := el.(*ast.KeyValueExpr)
					if !isKV {
						assigned = true // positional: every field is given a value
						break
					}
					if k, isID := kv.Key.(*ast.Ident); isID && n.info.Uses[k] == types.Object(fv) {
						assigned = true
					}
				}
			case *ast.CallExpr:
				// a conversion T(v) to the owning struct from a different type
				if tv, ok := n.info.Types[y.Fun]; ok && tv.IsType() && owner(tv.Type) && len(y.Args) == 1 {
					if at, ok := n.info.Types[y.Args[0]]; ok && !types.Identical(at.Type, tv.Type) {
						assigned = true
					}
				}
			}
			return true
		})
	}
	return !assigned
}

// stableFieldPath: se is x.f1…fn, all field selections, x a variable that is never reassigned and means the same inside
// lit; no statement of the enclosing function assigns a field named by the path's last selection.
func (n *normalizer) stableFieldPath(se *ast.SelectorExpr, encl ast.Node, lit *ast.FuncLit) bool {
	var last *types.Var
	e := ast.Expr(se)
	for {
		s, ok := ast.Unparen(e).(*ast.SelectorExpr)
		if !ok {
			break
		}
		sel := n.info.Selections[s]
		if sel == nil || sel.Kind() != types.FieldVal {
			return false
		}
		if last == nil {
			last, _ = sel.Obj().(*types.Var)
		}
		e = s.X
	}
	id, ok := ast.Unparen(e).(*ast.Ident)
	if !ok || last == nil {
		return false
	}
	vo, isVar := n.info.Uses[id].(*types.Var)
	if !isVar || n.varBad[vo] || n.varAssign[vo] != nil {
		return false
	}
	if inner := n.pp.Types.Scope().Innermost(lit.Body.Lbrace + 1); inner != nil {
		if _, found := inner.LookupParent(id.Name, lit.Body.Lbrace+1); found != types.Object(vo) {
			return false
		}
	}
	if encl == nil {
		return false
	}
	assigned := false
	ast.Inspect(encl, func(x ast.Node) bool {
		var lhs []ast.Expr
		switch y := x.(type) {
		case *ast.AssignStmt:
			lhs = y.Lhs
		case *ast.IncDecStmt:
			lhs = []ast.Expr{y.X}
		case *ast.UnaryExpr:
			if y.Op == token.AND {
				lhs = []ast.Expr{y.X}
			}
		}
		for _, l := range lhs {
			if s, ok := ast.Unparen(l).(*ast.SelectorExpr); ok {
				if sel := n.info.Selections[s]; sel != nil && sel.Obj() == types.Object(last) {
					assigned = true
				}
			}
		}
		return !assigned
	})
	return !assigned
}
