package main

// Infeasible nil-test edges. A path query must not walk from `err = wrapErrorWithRetry(ErrClosedTransport, …)` through
// the false edge of `if err != nil` into the success continuation: that path does not exist at run time, and after a
// helper was inlined (normalize.go) such tests appear where the reference tree returns directly. The oracle is
// deliberately small: a value is known non-nil when it is an allocation, a closure, a freshly made interface around such
// a value, errors.New/fmt.Errorf, a library error wrapper applied to a known non-nil cause (checked structurally: the
// wrappers return nil only on the `cause == nil` edge), a package-level error sentinel assigned once in init, or ctx.Err()
// evaluated after a receive from the same ctx.Done(). Edges pruned this way are never taken by any execution.

import (
	"go/ast"
	"go/token"
	"go/types"

	"golang.org/x/tools/go/ssa"
)

// infeasibleEdges: block -> (index of the successor edge that cannot be taken)+1. Filled by (*Ctx).computeInfeasible.
var infeasibleEdges = map[*ssa.BasicBlock]int{}

var (
	nnPhiOpen   = map[*ssa.Phi]bool{}
	nnFuncCache = map[*ssa.Function]bool{}
	nnDepth     int
)

func edgeInfeasible(b *ssa.BasicBlock, k int) bool {
	v, ok := infeasibleEdges[b]
	return ok && v == k+1
}

func (c *Ctx) computeInfeasible() {
	c.wrapOK = c.wrappersPreserveNonNil()
	// a select case on a channel that is nil on every path never fires (a waiter field left unset for the kinds not expected)
	for _, f := range c.Funcs {
		eachInstr(f, func(in ssa.Instruction) {
			sel, ok := in.(*ssa.Select)
			if !ok {
				return
			}
			for _, cs := range selectCases(sel) {
				if cs.State == nil || !cs.HasEdge {
					continue
				}
				if isNilConst(stripConv(c.Resolve(cs.State.Chan))) {
					if _, taken := infeasibleEdges[cs.Edge.B]; !taken {
						infeasibleEdges[cs.Edge.B] = cs.Edge.K + 1
					}
				}
			}
		})
	}
	for _, f := range c.Funcs {
		for _, b := range f.Blocks {
			iff := blockIf(b)
			if iff == nil {
				continue
			}
			// a condition that is a constant after inlining (`queueable := true; if queueable {…}`)
			if k, isK := constBool(iff.Cond); isK {
				if k {
					infeasibleEdges[b] = 1 + 1
				} else {
					infeasibleEdges[b] = 0 + 1
				}
				continue
			}
			bin, ok := iff.Cond.(*ssa.BinOp)
			if ok && (bin.Op == token.EQL || bin.Op == token.NEQ) {
				// a sentinel compared with itself (a marker error assigned and tested in the same inlined block)
				if ux, isX := c.Resolve(bin.X).(*ssa.UnOp); isX && ux.Op == token.MUL {
					if uy, isY := c.Resolve(bin.Y).(*ssa.UnOp); isY && uy.Op == token.MUL && ux.X == uy.X {
						if g, isG := ux.X.(*ssa.Global); isG && c.sentinelNonNil(g) {
							if bin.Op == token.EQL {
								infeasibleEdges[b] = 1 + 1
							} else {
								infeasibleEdges[b] = 0 + 1
							}
							continue
						}
					}
				}
			}
			if ok {
				// two integer constants compared (`switch kind {…}` in a helper inlined with a constant kind)
				if xk, isX := constInt(stripConv(c.Resolve(bin.X))); isX {
					if yk, isY := constInt(stripConv(c.Resolve(bin.Y))); isY && isIntType(bin.X.Type()) && isIntType(bin.Y.Type()) {
						holds, known := false, true
						switch bin.Op {
						case token.EQL:
							holds = xk == yk
						case token.NEQ:
							holds = xk != yk
						case token.LSS:
							holds = xk < yk
						case token.LEQ:
							holds = xk <= yk
						case token.GTR:
							holds = xk > yk
						case token.GEQ:
							holds = xk >= yk
						default:
							known = false
						}
						if known {
							if holds {
								infeasibleEdges[b] = 1 + 1
							} else {
								infeasibleEdges[b] = 0 + 1
							}
							continue
						}
					}
				}
			}
			if !ok || (bin.Op != token.NEQ && bin.Op != token.EQL) {
				continue
			}
			var x ssa.Value
			switch {
			case isNilConst(bin.Y):
				x = bin.X
			case isNilConst(bin.X):
				x = bin.Y
			default:
				continue
			}
			if isNilConst(stripConv(x)) || isNilConst(stripConv(c.Resolve(x))) {
				// nil compared with nil (a function variable bound to nil by the expansion of a dispatch table; a hook field or
				// package variable that nothing in the library ever assigns)
				if bin.Op == token.EQL {
					infeasibleEdges[b] = 1 + 1
				} else {
					infeasibleEdges[b] = 0 + 1
				}
				continue
			}
			if !c.knownNonNil(x, map[ssa.Value]bool{}) {
				// a repeated test of a value below an edge that already decided it
				last := b.Instrs[len(b.Instrs)-1]
				decided := 0 // +1 known non-nil, -1 known nil
				for _, e := range nonNilEdgesRaw(f, x) {
					if e.B == b {
						continue
					}
					if DominatedByEdge(f, last, e.B, e.K, PathQ{}) {
						decided = 1
					} else if DominatedByEdge(f, last, e.B, 1-e.K, PathQ{}) {
						decided = -1
					}
				}
				switch {
				case decided == 1 && bin.Op == token.NEQ, decided == -1 && bin.Op == token.EQL:
					infeasibleEdges[b] = 1 + 1
				case decided == 1 && bin.Op == token.EQL, decided == -1 && bin.Op == token.NEQ:
					infeasibleEdges[b] = 0 + 1
				}
				continue
			}
			if bin.Op == token.NEQ {
				infeasibleEdges[b] = 1 + 1 // the false edge
			} else {
				infeasibleEdges[b] = 0 + 1 // the true edge
			}
		}
	}
}

func (c *Ctx) knownNonNil(v ssa.Value, seen map[ssa.Value]bool) bool {
	if v == nil {
		return false
	}
	if phi, isPhi := v.(*ssa.Phi); isPhi && nnPhiOpen[phi] {
		return true // a join reached again through its own inputs (`b = append(b, …)` in a loop): decided by its other inputs
	}
	if seen[v] {
		return false
	}
	seen[v] = true
	v = stripConv(v)
	switch x := v.(type) {
	case *ssa.Parameter:
		return c.paramNonNil(x)
	case *ssa.Slice:
		// a slice of an array, or of a slice that is not nil, is not nil
		if pt, isPtr := x.X.Type().Underlying().(*types.Pointer); isPtr {
			if _, isArr := pt.Elem().Underlying().(*types.Array); isArr {
				return true
			}
		}
		if _, isSl := x.X.Type().Underlying().(*types.Slice); isSl {
			return c.knownNonNil(x.X, seen)
		}
		return false
	case *ssa.Alloc, *ssa.MakeClosure, *ssa.Function, *ssa.MakeChan, *ssa.MakeMap, *ssa.MakeSlice:
		return true
	case *ssa.MakeInterface:
		if _, isPtr := x.X.Type().Underlying().(*types.Pointer); isPtr {
			return c.knownNonNil(x.X, seen)
		}
		switch x.X.Type().Underlying().(type) {
		case *types.Struct, *types.Basic, *types.Array:
			return true
		}
		return false
	case *ssa.ChangeInterface:
		return c.knownNonNil(x.X, seen)

	case *ssa.Phi:
		nnPhiOpen[x] = true
		defer delete(nnPhiOpen, x)
		for _, e := range x.Edges {
			if !c.knownNonNil(e, seen) {
				return false
			}
		}
		return len(x.Edges) > 0
	case *ssa.Call:
		if bi, isB := x.Call.Value.(*ssa.Builtin); isB {
			// append to a slice that is not nil
			return bi.Name() == "append" && len(x.Call.Args) > 0 && c.knownNonNil(x.Call.Args[0], seen)
		}
		isRefResult := false
		switch x.Type().Underlying().(type) {
		case *types.Slice, *types.Signature, *types.Pointer, *types.Map, *types.Chan:
			isRefResult = true
		}
		if g0 := c.StaticCalleeOf(&x.Call); isRefResult && !x.Call.IsInvoke() && (g0 == nil || !c.isWrapFn(g0)) {
			// a package function that returns a non-nil slice, closure, pointer, map or channel on every path (Pack() ->
			// pack(): a literal appended to; withRequestContext: a function literal)
			if g := c.StaticCalleeOf(&x.Call); g != nil && g.Pkg == c.Pkg && len(g.Blocks) > 0 && nnDepth < 4 {
				if r, done := nnFuncCache[g]; done {
					return r
				}
				nnDepth++
				all, n := true, 0
				for _, ret := range returnsOf(g) {
					if len(ret.Results) != 1 {
						all = false
						break
					}
					n++
					if !c.knownNonNil(ret.Results[0], map[ssa.Value]bool{}) {
						all = false
						break
					}
				}
				nnDepth--
				nnFuncCache[g] = all && n > 0
				return all && n > 0
			}
			return false
		}
		if x.Call.IsInvoke() {
			if x.Call.Method.Name() == "Err" && x.Call.Method.Pkg() != nil && x.Call.Method.Pkg().Path() == "context" {
				return c.doneObserved(x)
			}
			return false
		}
		if isStdCall(&x.Call, "errors", "New") || isStdCall(&x.Call, "fmt", "Errorf") {
			return true
		}
		g := c.StaticCalleeOf(&x.Call)
		if g != nil && c.wrapOK && c.isWrapFn(g) && len(x.Call.Args) > 0 {
			if c.knownNonNil(x.Call.Args[0], seen) {
				return true
			}
			// the cause was found non-nil by a comparison whose edge dominates this call
			for _, cand := range []ssa.Value{x.Call.Args[0], c.Resolve(x.Call.Args[0])} {
				for _, e := range nonNilEdgesRaw(x.Parent(), cand) {
					if DominatedByEdge(x.Parent(), x, e.B, e.K, PathQ{}) {
						return true
					}
				}
			}
			return false
		}
		return false
	case *ssa.UnOp:
		if x.Op != token.MUL {
			return false
		}
		if g, ok := x.X.(*ssa.Global); ok {
			return c.sentinelNonNil(g)
		}
		// an element of a slice field into which only values known to be non-nil are ever appended (the task queue: every
		// task handed to pushTask is a function literal)
		if ia, isIA := x.X.(*ssa.IndexAddr); isIA {
			if qld, isLd := ia.X.(*ssa.UnOp); isLd && qld.Op == token.MUL {
				if fa, isFA := qld.X.(*ssa.FieldAddr); isFA {
					if _, fld := fieldOf(fa); fld != nil && c.sliceFieldElemsNonNil(fld) {
						return true
					}
				}
			}
		}
		// pkt.Message of the packet a PUBLISH parser returned without error: the parser stores a fresh Message on every
		// successful path (the same fact R-C04-9 reports)
		if c.parsedMessageNonNil(x) {
			return true
		}
		// single-store local cell
		if r := c.Resolve(v); r != v {
			return c.knownNonNil(r, seen)
		}
	}
	return false
}

// doneObserved: every path to the ctx.Err() call passes a receive from Done() of the same context.
func (c *Ctx) doneObserved(call *ssa.Call) bool {
	f := call.Parent()
	ctx := call.Call.Value
	isDoneRecv := func(in ssa.Instruction) bool {
		switch y := in.(type) {
		case *ssa.UnOp:
			return y.Op == token.ARROW && c.isCtxMethodOf(y.X, "Done", nil) && c.sameCtx(y.X, ctx)
		}
		return false
	}
	if Dominated(f, call, isDoneRecv, PathQ{}) {
		return true
	}
	// an earlier Err() of the same context that was found non-nil (once non-nil, Err keeps returning that error)
	for _, b := range f.Blocks {
		iff := blockIf(b)
		if iff == nil {
			continue
		}
		bin, isBin := iff.Cond.(*ssa.BinOp)
		if !isBin || (bin.Op != token.NEQ && bin.Op != token.EQL) {
			continue
		}
		var x ssa.Value
		switch {
		case isNilConst(bin.Y):
			x = bin.X
		case isNilConst(bin.X):
			x = bin.Y
		default:
			continue
		}
		k2, isCall := x.(*ssa.Call)
		if !isCall || k2 == call || !k2.Call.IsInvoke() || k2.Call.Method.Name() != "Err" || !c.Same(k2.Call.Value, ctx) {
			continue
		}
		edge := 0
		if bin.Op == token.EQL {
			edge = 1
		}
		if DominatedByEdge(f, call, b, edge, PathQ{}) {
			return true
		}
	}
	// select case edge
	ok := false
	eachInstr(f, func(in ssa.Instruction) {
		sel, isSel := in.(*ssa.Select)
		if !isSel || ok {
			return
		}
		for _, cs := range selectCases(sel) {
			if cs.State == nil || !cs.HasEdge || cs.State.Dir != types.RecvOnly {
				continue
			}
			if c.isCtxMethodOf(cs.State.Chan, "Done", nil) && c.sameCtx(cs.State.Chan, ctx) && DominatedByEdge(f, call, cs.Edge.B, cs.Edge.K, PathQ{}) {
				ok = true
			}
		}
	})
	return ok
}

// sameCtx: doneCall is X.Done() with X the same context value as ctx.
func (c *Ctx) sameCtx(doneChan ssa.Value, ctx ssa.Value) bool {
	k, ok := c.Resolve(doneChan).(*ssa.Call)
	if !ok {
		return false
	}
	return c.Same(k.Call.Value, ctx)
}

// sentinelNonNil: a package-level variable that is stored exactly once, in the package initialiser, with a non-nil value.
func (c *Ctx) sentinelNonNil(g *ssa.Global) bool {
	if v, ok := c.sentinelCache[g]; ok {
		return v
	}
	if c.sentinelCache == nil {
		c.sentinelCache = map[*ssa.Global]bool{}
	}
	c.sentinelCache[g] = false
	if g.Pkg != c.Pkg {
		// io.EOF and friends: stdlib sentinels are initialised with errors.New
		if g.Pkg != nil && g.Pkg.Pkg.Path() == "io" && g.Name() == "EOF" {
			c.sentinelCache[g] = true
			return true
		}
		return false
	}
	n := 0
	good := true
	for _, m := range c.Pkg.Members {
		fn, ok := m.(*ssa.Function)
		if !ok {
			continue
		}
		var visit func(f *ssa.Function)
		visit = func(f *ssa.Function) {
			eachInstr(f, func(in ssa.Instruction) {
				if st, ok := in.(*ssa.Store); ok && st.Addr == ssa.Value(g) {
					n++
					if f.Name() != "init" || !c.knownNonNil(st.Val, map[ssa.Value]bool{}) {
						good = false
					}
				}
			})
			for _, a := range f.AnonFuncs {
				visit(a)
			}
		}
		visit(fn)
	}
	for _, f := range c.Funcs {
		eachInstr(f, func(in ssa.Instruction) {
			if st, ok := in.(*ssa.Store); ok && st.Addr == ssa.Value(g) && f.Name() != "init" {
				good = false
			}
		})
	}
	res := good && n == 1
	c.sentinelCache[g] = res
	return res
}

// wrappersPreserveNonNil: each library error wrapper returns nil only on the edge where its cause parameter is nil.
func (c *Ctx) wrappersPreserveNonNil() bool {
	names := []string{"wrapErrorImpl", "wrapError", "wrapErrorf", "wrapErrorWithRetry"}
	for _, nm := range names {
		f := c.Func(nm)
		if f == nil && nm == "wrapErrorImpl" {
			continue // the shared implementation may have been merged into the wrappers
		}
		if f == nil || len(f.Params) == 0 {
			return false
		}
		cause := f.Params[0]
		for _, ret := range returnsOf(f) {
			if len(ret.Results) != 1 {
				return false
			}
			if !c.wrapResultNonNil(f, ret, ret.Results[0], cause, 0) {
				return false
			}
		}
	}
	return true
}

func (c *Ctx) wrapResultNonNil(f *ssa.Function, at ssa.Instruction, v ssa.Value, cause ssa.Value, depth int) bool {
	if depth > 6 {
		return false
	}
	v = stripConv(v)
	if v == cause || c.Resolve(v) == cause {
		return true // the cause itself: nil exactly when the cause is
	}
	if isNilConst(v) {
		// only where cause == nil
		for _, b := range f.Blocks {
			iff := blockIf(b)
			if iff == nil {
				continue
			}
			bin, ok := iff.Cond.(*ssa.BinOp)
			if !ok || bin.Op != token.EQL {
				continue
			}
			if (bin.X == cause && isNilConst(bin.Y)) || (bin.Y == cause && isNilConst(bin.X)) {
				if DominatedByEdge(f, at, b, 0, PathQ{}) {
					return true
				}
			}
		}
		return false
	}
	switch x := v.(type) {
	case *ssa.Alloc:
		return true
	case *ssa.MakeInterface:
		return c.wrapResultNonNil(f, at, x.X, cause, depth+1)
	case *ssa.ChangeInterface:
		return c.wrapResultNonNil(f, at, x.X, cause, depth+1)
	case *ssa.Phi:
		for _, e := range x.Edges {
			if !c.wrapResultNonNil(f, at, e, cause, depth+1) {
				return false
			}
		}
		return true
	case *ssa.UnOp:
		if x.Op == token.MUL {
			if g, ok := x.X.(*ssa.Global); ok {
				return c.sentinelNonNil(g)
			}
		}
		return false
	case *ssa.Call:
		g := c.StaticCalleeOf(&x.Call)
		if g != nil && c.isWrapFn(g) && len(x.Call.Args) > 0 && x.Call.Args[0] == cause {
			return true // verified for g in its own turn
		}
		return false
	}
	return false
}

// nonNilEdgesRaw: every edge on which v is non-nil by a direct comparison with nil.
func nonNilEdgesRaw(f *ssa.Function, v ssa.Value) []ifEdge {
	var out []ifEdge
	for _, b := range f.Blocks {
		iff := blockIf(b)
		if iff == nil {
			continue
		}
		bin, ok := iff.Cond.(*ssa.BinOp)
		if !ok {
			continue
		}
		var other ssa.Value
		if bin.X == v {
			other = bin.Y
		} else if bin.Y == v {
			other = bin.X
		} else {
			continue
		}
		if !isNilConst(other) {
			continue
		}
		switch bin.Op {
		case token.NEQ:
			out = append(out, ifEdge{b, 0})
		case token.EQL:
			out = append(out, ifEdge{b, 1})
		}
	}
	return out
}

// nonNilAt: v is non-nil whenever `at` executes: by construction (knownNonNil) or because `at` lies below an edge on which
// a comparison with nil decided it.
func (c *Ctx) nonNilAt(f *ssa.Function, v ssa.Value, at ssa.Instruction) bool {
	if c.knownNonNil(v, map[ssa.Value]bool{}) {
		return true
	}
	if at != nil && at.Parent() == f && c.nonNilOnAllPaths(f, v, at) {
		return true
	}
	for _, cand := range []ssa.Value{v, c.Resolve(v)} {
		for _, e := range nonNilEdgesRaw(f, cand) {
			if DominatedByEdge(f, at, e.B, e.K, PathQ{}) {
				return true
			}
		}
	}
	return false
}

// parsedMessageNonNil: ld loads field Message of a *pktPublish that is the result of pktPublish.Parse, and that parser
// stores a freshly allocated Message into the packet it returns before every nil-error return.
func (c *Ctx) parsedMessageNonNil(ld *ssa.UnOp) bool {
	base, ok := isFieldLoad(ld, "pktPublish", "Message")
	if !ok {
		return false
	}
	ex, ok := c.Resolve(base).(*ssa.Extract)
	if !ok || ex.Index != 0 {
		return false
	}
	call, ok := ex.Tuple.(*ssa.Call)
	if !ok {
		return false
	}
	g := c.StaticCalleeOf(&call.Call)
	if g == nil || g != c.Method("pktPublish", "Parse") || len(g.Blocks) == 0 {
		return false
	}
	msgField := c.structField("pktPublish", "Message")
	if msgField == nil {
		return false
	}
	freshStore := func(in ssa.Instruction) bool {
		st, ok := in.(*ssa.Store)
		if !ok {
			return false
		}
		fa, ok := st.Addr.(*ssa.FieldAddr)
		if !ok {
			return false
		}
		if _, fld := fieldOf(fa); fld != msgField {
			return false
		}
		_, fresh := c.Resolve(st.Val).(*ssa.Alloc)
		return fresh
	}
	n := 0
	for _, ret := range returnsOf(g) {
		if len(ret.Results) != 2 || !isNilConst(c.Resolve(ret.Results[1])) {
			continue
		}
		n++
		if !Dominated(g, ret, freshStore, PathQ{}) {
			return false
		}
	}
	// and nothing stores anything else into the field
	other := false
	for _, f := range c.Funcs {
		eachInstr(f, func(in ssa.Instruction) {
			st, ok := in.(*ssa.Store)
			if !ok {
				return
			}
			fa, ok := st.Addr.(*ssa.FieldAddr)
			if !ok {
				return
			}
			if _, fld := fieldOf(fa); fld == msgField && !freshStore(in) {
				if _, isAl := c.Resolve(fa.X).(*ssa.Alloc); !isAl || f == g {
					other = true
				}
			}
		})
	}
	return n > 0 && !other
}

var (
	sliceFieldNN = map[*types.Var]int{} // 0 unknown, 1 in progress / no, 2 yes
	paramNN      = map[*ssa.Parameter]int{}
)

// sliceFieldElemsNonNil: every store to the slice-typed field fld in the package is a re-slice of the field, nil, or an
// append to the field of single elements that are known to be non-nil.
func (c *Ctx) sliceFieldElemsNonNil(fld *types.Var) bool {
	if fld.Pkg() != c.TPkg || fld.Exported() {
		return false
	}
	if _, isSl := fld.Type().Underlying().(*types.Slice); !isSl {
		return false
	}
	switch sliceFieldNN[fld] {
	case 1:
		return false
	case 2:
		return true
	}
	sliceFieldNN[fld] = 1
	ok, n := true, 0
	for _, f := range c.Funcs {
		eachInstr(f, func(in ssa.Instruction) {
			switch x := in.(type) {
			case *ssa.Store:
				fa, isFA := x.Addr.(*ssa.FieldAddr)
				if !isFA {
					return
				}
				if _, g := fieldOf(fa); g != fld {
					return
				}
				n++
				if isNilConst(x.Val) {
					return
				}
				if sl, isSl := x.Val.(*ssa.Slice); isSl {
					if _, same := isLoadOfField(sl.X, fld); same {
						return
					}
				}
				base, elems, okc := c.appendChain(x.Val)
				if _, same := isLoadOfField(base, fld); !okc || !same {
					ok = false
					return
				}
				for _, e := range elems {
					if e.Single == nil || !c.knownNonNil(e.Single, map[ssa.Value]bool{}) {
						ok = false
					}
				}
			case *ssa.FieldAddr:
				// the field's address used for anything but loads and stores
				if _, g := fieldOf(x); g != fld {
					return
				}
				for _, u := range *x.Referrers() {
					switch y := u.(type) {
					case *ssa.UnOp, *ssa.DebugRef:
					case *ssa.Store:
						if y.Addr != ssa.Value(x) {
							ok = false
						}
					default:
						ok = false
					}
				}
			}
		})
	}
	if ok && n > 0 {
		sliceFieldNN[fld] = 2
		return true
	}
	return false
}

// paramNonNil: p is a parameter of an unexported function or method of the package that is only ever called directly
// (its value is never taken), and every call in the package passes a value known to be non-nil.
func (c *Ctx) paramNonNil(p *ssa.Parameter) bool {
	switch paramNN[p] {
	case 1:
		return false
	case 2:
		return true
	}
	paramNN[p] = 1
	f := p.Parent()
	if f == nil || f.Pkg != c.Pkg || f.Parent() != nil || f.Object() == nil || f.Object().Exported() {
		return false
	}
	idx := -1
	for i, q := range f.Params {
		if q == p {
			idx = i
		}
	}
	if idx < 0 {
		return false
	}
	// every mention of the function in the package's syntax is the callee of a call
	if c.PP == nil || c.PP.TypesInfo == nil {
		return false
	}
	callFun := map[*ast.Ident]bool{}
	for _, file := range c.PP.Syntax {
		ast.Inspect(file, func(n ast.Node) bool {
			if call, ok := n.(*ast.CallExpr); ok {
				switch fn := ast.Unparen(call.Fun).(type) {
				case *ast.Ident:
					callFun[fn] = true
				case *ast.SelectorExpr:
					callFun[fn.Sel] = true
				}
			}
			return true
		})
	}
	for id, obj := range c.PP.TypesInfo.Uses {
		if obj == f.Object() && !callFun[id] {
			return false
		}
	}
	n := 0
	ok := true
	for _, g := range c.Funcs {
		eachInstr(g, func(in ssa.Instruction) {
			cc := callCommon(in)
			if cc == nil || cc.IsInvoke() || cc.StaticCallee() != f {
				return
			}
			n++
			if idx >= len(cc.Args) || !c.knownNonNil(cc.Args[idx], map[ssa.Value]bool{}) {
				ok = false
			}
		})
	}
	if ok && n > 0 {
		paramNN[p] = 2
		return true
	}
	return false
}
