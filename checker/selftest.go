package main

// runSelfTests is filled in by the thorough tier (analysis F); see selftest_impl.go.
func runSelfTests(prop, repo string) interface{} {
	return selfTestImpl(prop, repo)
}
