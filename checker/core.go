package main

import (
	"bytes"
	"crypto/sha256"
	"encoding/json"
	"fmt"
	"go/ast"
	"go/constant"
	"go/token"
	"go/types"
	"io"
	"os"
	"path/filepath"
	"sort"
	"strings"
	"sync"

	"golang.org/x/tools/go/packages"
	"golang.org/x/tools/go/ssa"
	"golang.org/x/tools/go/ssa/ssautil"
)

const modPath = "github.com/at-wat/mqtt-go"

// Ctx is the resolved program: type-checked syntax + SSA of package mqtt, plus derived indexes.
type Ctx struct {
	Dir              string
	Fset             *token.FileSet
	PP               *packages.Package
	Prog             *ssa.Program
	Pkg              *ssa.Package
	TPkg             *types.Package
	Funcs            []*ssa.Function // every function of the package: functions, methods, closures (source order)
	globalConst      map[*ssa.Global]ssa.Value
	boundCache       map[*ssa.Function]*boundClosure
	tableCache       map[*ssa.Global]map[int64]int64
	tableBad         map[*ssa.Global]bool
	constructedCache map[*ssa.UnOp]ssa.Value
	constructedBool  map[string]bool
	fieldStored      map[string]bool // "T#k": some instruction of the package stores into field k of T

	makeClosures map[*ssa.Function][]*ssa.MakeClosure // closure fn -> creation sites
	cellStores   map[*ssa.Alloc][]*ssa.Store          // alloc -> every store whose address resolves to it
	reachCache   map[*ssa.UnOp]*ssa.Store             // load of a multi-store cell -> the one store it sees
	immutCache   map[string]bool
	wholeCopyOf  map[*ssa.Alloc]ssa.Value // a local struct that starts as a whole copy of *value (R-C20-1)
	implCache    map[string]*ssa.Function
	immutMutable map[string]bool
	Files        []string
	GOARCH       string
	wordBits     int
	NormNotes    []string // what the normalisation step did (normalize.go)

	wrapOK        bool
	sentinelCache map[*ssa.Global]bool
}

func baseEnv() []string {
	env := []string{}
	for _, e := range os.Environ() {
		k := strings.SplitN(e, "=", 2)[0]
		switch k {
		case "GOFLAGS", "GOPROXY", "GOSUMDB", "GOTOOLCHAIN", "GOWORK", "GOARCH", "GOOS":
			continue
		}
		env = append(env, e)
	}
	return append(env, "GOFLAGS=-mod=mod", "GOPROXY=off", "GOSUMDB=off", "GOTOOLCHAIN=local", "GOWORK=off", "GOOS=linux")
}

// LoadNormalized: Load after inlining the call sites of new helper functions (normalize.go). If the normalised source
// does not load, the tree is analysed as written.
func LoadNormalized(dir, goarch string, tags []string) (*Ctx, error) {
	if os.Getenv("MQTTCHECK_NO_NORMALIZE") != "" {
		return Load(dir, goarch, tags, nil)
	}
	overlay, notes := cachedNormalize(dir, goarch, tags)
	if d := os.Getenv("MQTTCHECK_DUMP_NORM"); d != "" && overlay != nil {
		os.MkdirAll(d, 0o755)
		for k, v := range overlay {
			os.WriteFile(filepath.Join(d, filepath.Base(k)), v, 0o644)
		}
	}
	if overlay != nil {
		c, err := Load(dir, goarch, tags, overlay)
		if err == nil {
			c.NormNotes = notes
			return c, nil
		}
		notes = append(notes, fmt.Sprintf("normalised source rejected (%v); analysing the tree as written", err))
	}
	c, err := Load(dir, goarch, tags, nil)
	if c != nil {
		c.NormNotes = notes
	}
	return c, err
}

// Load type-checks and builds SSA for the root package of dir (non-test files).
func Load(dir, goarch string, tags []string, overlay map[string][]byte) (*Ctx, error) {
	env := baseEnv()
	if goarch == "" {
		goarch = "amd64"
	}
	env = append(env, "GOARCH="+goarch)
	cfg := &packages.Config{
		Mode:    packages.LoadAllSyntax,
		Dir:     dir,
		Env:     env,
		Tests:   false,
		Overlay: overlay,
	}
	if len(tags) > 0 {
		cfg.BuildFlags = []string{"-tags=" + strings.Join(tags, ",")}
	}
	pkgs, err := packages.Load(cfg, ".")
	if err != nil {
		return nil, fmt.Errorf("packages.Load: %v", err)
	}
	if len(pkgs) != 1 {
		return nil, fmt.Errorf("expected exactly 1 root package, got %d", len(pkgs))
	}
	pp := pkgs[0]
	if pp.PkgPath != modPath {
		return nil, fmt.Errorf("unexpected package path %q (want %s)", pp.PkgPath, modPath)
	}
	var errs []string
	packages.Visit(pkgs, nil, func(p *packages.Package) {
		for _, e := range p.Errors {
			errs = append(errs, e.Error())
		}
	})
	if len(errs) > 0 {
		return nil, fmt.Errorf("type-check/load errors: %s", strings.Join(errs, "; "))
	}
	if len(pp.Syntax) == 0 {
		return nil, fmt.Errorf("package has no syntax")
	}
	prog, _ := ssautil.AllPackages(pkgs, ssa.BuilderMode(0))
	prog.Build()
	sp := prog.Package(pp.Types)
	if sp == nil {
		return nil, fmt.Errorf("no SSA package")
	}
	c := &Ctx{Dir: dir, Fset: pp.Fset, PP: pp, Prog: prog, Pkg: sp, TPkg: pp.Types, GOARCH: goarch}
	c.wordBits = 64
	if goarch == "386" || goarch == "arm" {
		c.wordBits = 32
	}
	for _, f := range pp.CompiledGoFiles {
		c.Files = append(c.Files, filepath.Base(f))
	}
	curCtx = c
	c.index()
	return c, nil
}

// curCtx: the program being analysed (set by Load; used by free helper functions that need to recognise the library's
// own functions).
var curCtx *Ctx

func (c *Ctx) index() {
	seen := map[*ssa.Function]bool{}
	var add func(f *ssa.Function)
	add = func(f *ssa.Function) {
		if f == nil || seen[f] || f.Blocks == nil {
			return
		}
		if f.Pkg != c.Pkg {
			return
		}
		seen[f] = true
		c.Funcs = append(c.Funcs, f)
		for _, a := range f.AnonFuncs {
			add(a)
		}
	}
	for _, m := range c.Pkg.Members {
		switch m := m.(type) {
		case *ssa.Function:
			add(m)
		case *ssa.Type:
			for _, t := range []types.Type{m.Type(), types.NewPointer(m.Type())} {
				ms := c.Prog.MethodSets.MethodSet(t)
				for i := 0; i < ms.Len(); i++ {
					fn := c.Prog.MethodValue(ms.At(i))
					if fn != nil && fn.Synthetic == "" {
						add(fn)
					}
				}
			}
		}
	}
	sort.Slice(c.Funcs, func(i, j int) bool { return c.Funcs[i].Pos() < c.Funcs[j].Pos() })
	c.makeClosures = map[*ssa.Function][]*ssa.MakeClosure{}
	for _, f := range c.Funcs {
		for _, b := range f.Blocks {
			for _, in := range b.Instrs {
				if mc, ok := in.(*ssa.MakeClosure); ok {
					if fn, ok := mc.Fn.(*ssa.Function); ok {
						c.makeClosures[fn] = append(c.makeClosures[fn], mc)
					}
				}
			}
		}
	}
	c.cellStores = map[*ssa.Alloc][]*ssa.Store{}
	c.reachCache = map[*ssa.UnOp]*ssa.Store{}
	for _, f := range c.Funcs {
		for _, b := range f.Blocks {
			for _, in := range b.Instrs {
				if st, ok := in.(*ssa.Store); ok {
					if a, ok := c.addrRoot(st.Addr).(*ssa.Alloc); ok {
						c.cellStores[a] = append(c.cellStores[a], st)
					}
				}
			}
		}
	}
	c.computeAliases()
	c.computeInfeasible()
	if os.Getenv("MQTTCHECK_DEBUG_INFEAS") != "" {
		for b, k := range infeasibleEdges {
			fmt.Fprintf(os.Stderr, "infeasible: %s block %d (%s) edge %d\n", b.Parent().Name(), b.Index, b.Comment, k-1)
		}
	}
}

// addrRoot follows an address expression to the cell it denotes when that is a captured variable:
// FreeVar -> the binding at the (unique) MakeClosure site. Other addresses are returned unchanged.
func (c *Ctx) addrRoot(v ssa.Value) ssa.Value {
	for i := 0; i < 8; i++ {
		fv, ok := v.(*ssa.FreeVar)
		if !ok {
			return v
		}
		fn := fv.Parent()
		sites := c.makeClosures[fn]
		if len(sites) != 1 {
			return v
		}
		idx := -1
		for k, x := range fn.FreeVars {
			if x == fv {
				idx = k
			}
		}
		if idx < 0 || idx >= len(sites[0].Bindings) {
			return v
		}
		v = sites[0].Bindings[idx]
	}
	return v
}

// Resolve looks through value-preserving wrappers to the value's origin:
// type changes, interface construction, loads from single-store cells (captured variables), free variables,
// phis whose incoming values all resolve to the same value.
func (c *Ctx) Resolve(v ssa.Value) ssa.Value {
	return c.resolve(v, map[ssa.Value]bool{})
}

func (c *Ctx) resolve(v ssa.Value, seen map[ssa.Value]bool) ssa.Value {
	for i := 0; i < 32; i++ {
		if seen[v] {
			return v
		}
		seen[v] = true
		switch x := v.(type) {
		case *ssa.ChangeType:
			v = x.X
		case *ssa.ChangeInterface:
			v = x.X
		case *ssa.MakeInterface:
			v = x.X
		case *ssa.FreeVar:
			r := c.addrRoot(x)
			if r == v {
				return v
			}
			v = r
		case *ssa.Parameter:
			// a parameter of a function literal that is called (or started) right where it is written, once:
			// `go func(ctx context.Context, cli *BaseClient) {…}(ctxKeepAlive, baseCli)` — the argument of that call
			r := c.literalArg(x)
			if r == nil {
				return v
			}
			v = r
		case *ssa.UnOp:
			if x.Op != token.MUL {
				return v
			}
			if g, isG := x.X.(*ssa.Global); isG {
				if r := c.constGlobal(g); r != nil {
					v = r
					continue
				}
				return v
			}
			if fa, isFA := x.X.(*ssa.FieldAddr); isFA {
				if r := c.constructedFieldValue(x); r != nil {
					v = r
					continue
				}
				if r := c.immutableFieldLoad(x, fa, seen); r != nil && r != v {
					v = r
					continue
				}
				return v
			}
			root := c.addrRoot(x.X)
			a, ok := root.(*ssa.Alloc)
			if !ok {
				return v
			}
			sts := c.cellStores[a]
			if c.escapesOtherwise(a) {
				return v
			}
			if len(sts) != 1 {
				st := c.reachingStore(a, x)
				if st == nil {
					return v
				}
				v = st.Val
				continue
			}
			v = sts[0].Val
		case *ssa.Phi:
			var first ssa.Value
			same := true
			live := feasibleBlocks(x.Parent())
			for i, e := range x.Edges {
				if e == ssa.Value(x) {
					continue
				}
				if live != nil && i < len(x.Block().Preds) {
					// the value arriving over an edge no execution takes (a test of constants) does not count
					pred := x.Block().Preds[i]
					if !live[pred] {
						continue
					}
					dead := true
					for k, sc := range pred.Succs {
						if sc == x.Block() && !edgeInfeasible(pred, k) {
							dead = false
						}
					}
					if dead {
						continue
					}
				}
				s2 := map[ssa.Value]bool{}
				for k := range seen {
					s2[k] = true
				}
				r := c.resolve(e, s2)
				if r == ssa.Value(x) {
					continue
				}
				if first == nil {
					first = r
				} else if r != first {
					same = false
				}
			}
			if !same || first == nil {
				return v
			}
			v = first
		default:
			return v
		}
	}
	return v
}

// reachingStore: the load reads a local variable that is assigned more than once (all assignments in the variable's own
// function): the one store whose value the load sees on every path, or nil.
func (c *Ctx) reachingStore(a *ssa.Alloc, ld *ssa.UnOp) *ssa.Store {
	if ld.X != ssa.Value(a) || ld.Parent() != a.Parent() {
		return nil
	}
	if r, ok := c.reachCache[ld]; ok {
		return r
	}
	c.reachCache[ld] = nil
	sts := c.cellStores[a]
	for _, s := range sts {
		if s.Parent() != a.Parent() || s.Addr != ssa.Value(a) {
			return nil
		}
	}
	isStore := func(in ssa.Instruction) bool {
		s, ok := in.(*ssa.Store)
		return ok && s.Addr == ssa.Value(a)
	}
	isLoad := func(in ssa.Instruction) bool { return in == ssa.Instruction(ld) }
	var hit *ssa.Store
	for _, s := range sts {
		if _, ok := CanReach(a.Parent(), s, isLoad, PathQ{BlockInstr: isStore}); ok {
			if hit != nil {
				return nil
			}
			hit = s
		}
	}
	if hit == nil {
		return nil
	}
	// no path from the entry to the load that avoids every store (the zero value)
	if _, ok := CanReach(a.Parent(), nil, isLoad, PathQ{BlockInstr: isStore}); ok {
		return nil
	}
	c.reachCache[ld] = hit
	return hit
}

// escapesOtherwise: the alloc's address is used other than by loads, stores to it, closure bindings,
// field/index addressing (which we treat as part of the aggregate, not a re-binding of the variable).
func (c *Ctx) escapesOtherwise(a *ssa.Alloc) bool {
	// Only pointer-typed/func-typed/scalar cells matter for Resolve (we never resolve aggregates by value);
	// a cell whose address is passed to a call could be overwritten there.
	for _, u := range *a.Referrers() {
		switch u := u.(type) {
		case *ssa.Store:
			if u.Addr != a {
				return true // address itself stored somewhere
			}
		case *ssa.UnOp, *ssa.MakeClosure, *ssa.FieldAddr, *ssa.IndexAddr, *ssa.DebugRef:
		default:
			_ = u
			return true
		}
	}
	return false
}

func (c *Ctx) PosStr(p token.Pos) string {
	if !p.IsValid() {
		return "-"
	}
	pos := c.Fset.Position(p)
	rel, err := filepath.Rel(c.Dir, pos.Filename)
	if err != nil {
		rel = pos.Filename
	}
	return fmt.Sprintf("%s:%d:%d", rel, pos.Line, pos.Column)
}

// FuncName is a stable readable name: "(*T).M", "f", "(*T).M$1".
func FuncName(f *ssa.Function) string {
	if f == nil {
		return "<nil>"
	}
	if f.Parent() != nil {
		// closure: parent's name + suffix after last '$'
		n := f.Name()
		if i := strings.LastIndex(n, "$"); i >= 0 {
			return FuncName(f.Parent()) + n[i:]
		}
		return FuncName(f.Parent()) + "$" + n
	}
	if recv := f.Signature.Recv(); recv != nil {
		t := recv.Type()
		star := ""
		if p, ok := t.(*types.Pointer); ok {
			t = p.Elem()
			star = "*"
		}
		if n, ok := t.(*types.Named); ok {
			return fmt.Sprintf("(%s%s).%s", star, n.Obj().Name(), f.Name())
		}
	}
	return f.Name()
}

// Func finds a package-level function by name.
func (c *Ctx) Func(name string) *ssa.Function {
	if f := c.Pkg.Func(name); f != nil && f.Blocks != nil {
		return f
	}
	if f := c.funcByRole(name); f != nil {
		return f
	}
	return c.implByRole(name)
}

// implByRole: the request implementation behind an exported BaseClient method, when it no longer is the package function
// of the reference tree (made a method, say): the one function of the package that the exported method calls and that
// writes to the transport through (*BaseClient).write.
func (c *Ctx) implByRole(name string) *ssa.Function {
	api := map[string]string{"publishImpl": "Publish", "subscribeImpl": "Subscribe", "unsubscribeImpl": "Unsubscribe"}[name]
	if api == "" {
		return nil
	}
	if c.implCache == nil {
		c.implCache = map[string]*ssa.Function{}
	}
	if f, ok := c.implCache[name]; ok {
		return f
	}
	c.implCache[name] = nil
	m := c.Method("BaseClient", api)
	write := c.Method("BaseClient", "write")
	if m == nil || write == nil {
		return nil
	}
	var hit *ssa.Function
	n := 0
	for _, g := range c.calleesOf(m, false) {
		if g.Pkg != c.Pkg || g.Blocks == nil || g == write {
			continue
		}
		writes := false
		for _, h := range withClosures(g) {
			eachInstr(h, func(in ssa.Instruction) {
				if c.isCallTo(in, write) {
					writes = true
				}
			})
		}
		if writes {
			hit = g
			n++
		}
	}
	if n != 1 {
		return nil
	}
	c.implCache[name] = hit
	return hit
}

// Method finds method `name` on named type `typ` (pointer or value receiver).
func (c *Ctx) Method(typ, name string) *ssa.Function {
	obj := c.TPkg.Scope().Lookup(typ)
	if obj == nil {
		return nil
	}
	tn, ok := obj.(*types.TypeName)
	if !ok {
		return nil
	}
	for _, t := range []types.Type{types.NewPointer(tn.Type()), tn.Type()} {
		sel := c.Prog.MethodSets.MethodSet(t).Lookup(c.TPkg, name)
		if sel != nil {
			fn := c.Prog.MethodValue(sel)
			if fn != nil && fn.Synthetic == "" && fn.Blocks != nil {
				return fn
			}
			// promoted method wrappers are synthetic: return nil for those
		}
	}
	return c.methodByRole(typ, name)
}

func (c *Ctx) NamedType(name string) *types.Named {
	obj := c.TPkg.Scope().Lookup(name)
	if obj == nil {
		return nil
	}
	if tn, ok := obj.(*types.TypeName); ok {
		if n, ok := tn.Type().(*types.Named); ok {
			return n
		}
	}
	return nil
}

func (c *Ctx) Global(name string) *ssa.Global {
	if g, ok := c.Pkg.Members[name].(*ssa.Global); ok {
		return g
	}
	return nil
}

func (c *Ctx) ConstVal(name string) (constant.Value, types.Type, bool) {
	obj := c.TPkg.Scope().Lookup(name)
	if k, ok := obj.(*types.Const); ok {
		return k.Val(), k.Type(), true
	}
	return nil, nil, false
}

// ---- instruction helpers ------------------------------------------------------------------

func eachInstr(f *ssa.Function, fn func(ssa.Instruction)) {
	if f == nil {
		return
	}
	for _, b := range f.Blocks {
		for _, in := range b.Instrs {
			fn(in)
		}
	}
}

// withClosures returns f and every closure nested in it (transitively).
func withClosures(f *ssa.Function) []*ssa.Function {
	if f == nil {
		return nil
	}
	out := []*ssa.Function{f}
	for _, a := range f.AnonFuncs {
		out = append(out, withClosures(a)...)
	}
	return out
}

func instrIndex(in ssa.Instruction) int {
	for i, x := range in.Block().Instrs {
		if x == in {
			return i
		}
	}
	return -1
}

// StaticCalleeOf resolves the callee of a call/go/defer: static callee, or a closure / function value
// reached through Resolve (captured single-store variables, bound-method closures are returned as such).
func (c *Ctx) StaticCalleeOf(cc *ssa.CallCommon) *ssa.Function {
	if cc.IsInvoke() {
		return nil
	}
	if f := cc.StaticCallee(); f != nil {
		return f
	}
	v := c.Resolve(cc.Value)
	switch x := v.(type) {
	case *ssa.MakeClosure:
		if f, ok := x.Fn.(*ssa.Function); ok {
			return f
		}
	case *ssa.Function:
		return x
	}
	return nil
}

func callCommon(in ssa.Instruction) *ssa.CallCommon {
	switch x := in.(type) {
	case *ssa.Call:
		return &x.Call
	case *ssa.Go:
		return &x.Call
	case *ssa.Defer:
		return &x.Call
	}
	return nil
}

// isCallTo: instruction is a (plain) call whose resolved callee is fn.
func (c *Ctx) isCallTo(in ssa.Instruction, fn *ssa.Function) bool {
	if fn == nil {
		return false
	}
	call, ok := in.(*ssa.Call)
	if !ok {
		return false
	}
	return c.StaticCalleeOf(&call.Call) == fn
}

// isStdCall: call to package-level function or method `name` of std package path `pkg`
// (method name given as "(*T).M" or "(T).M" or plain function name).
func isStdCall(cc *ssa.CallCommon, pkg, name string) bool {
	if cc == nil {
		return false
	}
	if cc.IsInvoke() {
		m := cc.Method
		return m.Pkg() != nil && m.Pkg().Path() == pkg && m.Name() == name
	}
	f := cc.StaticCallee()
	if f == nil && curCtx != nil {
		f = curCtx.StaticCalleeOf(cc) // through a function-valued variable that only ever holds this function
	}
	if f == nil || f.Pkg == nil || f.Pkg.Pkg.Path() != pkg {
		// method of a std type may have Pkg set; function with nil Pkg -> synthetic
		if f == nil || f.Object() == nil || f.Object().Pkg() == nil || f.Object().Pkg().Path() != pkg {
			return false
		}
	}
	return f.Name() == name || FuncName(f) == name
}

// fieldOf: if v is &x.f (FieldAddr) or x.f (Field), return base and field var.
func fieldOf(v ssa.Value) (ssa.Value, *types.Var) {
	switch x := v.(type) {
	case *ssa.FieldAddr:
		st := derefStruct(x.X.Type())
		if st == nil {
			return nil, nil
		}
		return x.X, st.Field(x.Field)
	case *ssa.Field:
		st, _ := x.X.Type().Underlying().(*types.Struct)
		if st == nil {
			return nil, nil
		}
		return x.X, st.Field(x.Field)
	}
	return nil, nil
}

func derefStruct(t types.Type) *types.Struct {
	if p, ok := t.Underlying().(*types.Pointer); ok {
		t = p.Elem()
	}
	st, _ := t.Underlying().(*types.Struct)
	return st
}

func namedOf(t types.Type) *types.Named {
	for {
		switch x := t.(type) {
		case *types.Pointer:
			t = x.Elem()
		case *types.Named:
			return x
		default:
			return nil
		}
	}
}

func typeName(t types.Type) string {
	if n := namedOf(t); n != nil {
		return n.Obj().Name()
	}
	return ""
}

// isFieldAddr reports whether v is the address of field `field` of a struct of named type `typ`.
func isFieldAddr(v ssa.Value, typ, field string) (ssa.Value, bool) {
	fa, ok := v.(*ssa.FieldAddr)
	if !ok {
		return nil, false
	}
	base, f := fieldOf(fa)
	if f == nil || f.Name() != aliasField(typ, field) {
		return nil, false
	}
	if typeName(fa.X.Type()) != ownerOf(typ, field) {
		return nil, false
	}
	return base, true
}

// isFieldLoad: v is a load (*&x.f) of field `field` of named struct type `typ`; returns base x.
func isFieldLoad(v ssa.Value, typ, field string) (ssa.Value, bool) {
	switch x := v.(type) {
	case *ssa.UnOp:
		if x.Op != token.MUL {
			return nil, false
		}
		return isFieldAddr(x.X, typ, field)
	case *ssa.Field:
		base, f := fieldOf(x)
		if f != nil && f.Name() == aliasField(typ, field) && typeName(x.X.Type()) == ownerOf(typ, field) {
			return base, true
		}
	}
	return nil, false
}

// fieldStores lists stores to field `typ.field` in f.
func fieldStores(f *ssa.Function, typ, field string) []*ssa.Store {
	var out []*ssa.Store
	eachInstr(f, func(in ssa.Instruction) {
		if st, ok := in.(*ssa.Store); ok {
			if _, ok := isFieldAddr(st.Addr, typ, field); ok {
				out = append(out, st)
			}
		}
	})
	return out
}

func constInt(v ssa.Value) (int64, bool) {
	k, ok := v.(*ssa.Const)
	if !ok || k.Value == nil {
		return 0, false
	}
	if k.Value.Kind() != constant.Int {
		return 0, false
	}
	n, exact := constant.Int64Val(k.Value)
	return n, exact
}

func constBool(v ssa.Value) (bool, bool) {
	k, ok := v.(*ssa.Const)
	if !ok || k.Value == nil || k.Value.Kind() != constant.Bool {
		return false, false
	}
	return constant.BoolVal(k.Value), true
}

func isNilConst(v ssa.Value) bool {
	k, ok := v.(*ssa.Const)
	return ok && k.Value == nil
}

// ---- CFG path queries ---------------------------------------------------------------------

// PathQ restricts a path search.
type PathQ struct {
	BlockInstr func(ssa.Instruction) bool                // paths may not pass through these instructions
	BlockEdge  func(from *ssa.BasicBlock, succ int) bool // paths may not take these edges
	MustEdge   *ifEdge                                   // the goal counts, and the two restrictions above apply, only once the path has taken this edge
}

func isExit(in ssa.Instruction) bool {
	switch in.(type) {
	case *ssa.Return, *ssa.Panic:
		return true
	}
	return false
}

// CanReach: is there a CFG path that starts right after `from` (or at function entry if from == nil),
// reaches an instruction satisfying goal, without crossing blocked instructions/edges?
// The goal test is applied before the block test. Returns a witness instruction.
func CanReach(f *ssa.Function, from ssa.Instruction, goal func(ssa.Instruction) bool, q PathQ) (ssa.Instruction, bool) {
	return canReachFrom(f, from, nil, -1, goal, q)
}

// canReachFrom is CanReach; with viaBlock/viaPred set, the search starts at the first instruction of viaBlock as entered
// through its predecessor number viaPred (what the phis of that block are is then known to the path).
func canReachFrom(f *ssa.Function, from ssa.Instruction, viaBlock *ssa.BasicBlock, viaPred int, goal func(ssa.Instruction) bool, q PathQ) (ssa.Instruction, bool) {
	if f == nil || len(f.Blocks) == 0 {
		return nil, false
	}
	type start struct {
		b     *ssa.BasicBlock
		i     int
		facts pathFacts
	}
	type vkey struct {
		b     *ssa.BasicBlock
		facts pathFacts
	}
	ci := corrOf(f)
	track := (len(ci.classes) > 0 || len(ci.tphis) > 0) && os.Getenv("MQTTCHECK_NO_CORR") == ""
	var st start
	switch {
	case viaBlock != nil:
		st = start{b: viaBlock}
		for _, j := range ci.tphiBlocks[viaBlock] {
			st.facts.sel[j] = int8(viaPred + 1)
		}
	case from == nil:
		st = start{b: f.Blocks[0]}
	default:
		st = start{b: from.Block(), i: instrIndex(from) + 1}
	}
	visited := map[vkey]bool{}
	var work []start
	work = append(work, st)
	for len(work) > 0 {
		w := work[len(work)-1]
		work = work[:len(work)-1]
		blocked := false
		facts := w.facts
		for i := w.i; i < len(w.b.Instrs); i++ {
			in := w.b.Instrs[i]
			if q.MustEdge == nil || facts.passed {
				ci.cur = &facts
				hit := goal(in)
				ci.cur = nil
				if hit {
					return in, true
				}
			}
			if q.BlockInstr != nil && (q.MustEdge == nil || facts.passed) && q.BlockInstr(in) {
				blocked = true
				break
			}
			if track && facts.bits != 0 {
				if m, ok := ci.kills[in]; ok {
					facts.bits = corrClear(facts.bits, m)
				}
			}
		}
		if blocked {
			continue
		}
		mem, isMem := corrMember{}, false
		var decided, decidedVal bool
		if track {
			mem, isMem = ci.members[w.b]
			if len(ci.tphis) > 0 {
				if iff := blockIf(w.b); iff != nil {
					ci.at = w.b
					decidedVal, decided = ci.evalCond(iff.Cond, &facts, 0)
					ci.at = nil
				}
			}
		}
		for k, s := range w.b.Succs {
			if edgeInfeasible(w.b, k) {
				continue
			}
			if decided && len(w.b.Succs) == 2 && (k == 0) != decidedVal {
				continue // the constants that reached this test along the path exclude this edge
			}
			if q.BlockEdge != nil && (q.MustEdge == nil || facts.passed) && q.BlockEdge(w.b, k) {
				continue
			}
			nf := facts
			if q.MustEdge != nil && q.MustEdge.B == w.b && q.MustEdge.K == k {
				nf.passed = true
			}
			if isMem && len(w.b.Succs) == 2 {
				val := (k == 0) == mem.pol // truth of the class condition on this edge
				switch corrGet(facts.bits, mem.class) {
				case 1:
					if val {
						continue // contradicts what an earlier test on this path established
					}
				case 2:
					if !val {
						continue
					}
				}
				nf.bits = corrSet(facts.bits, mem.class, val)
			}
			if track {
				if idxs := ci.tphiBlocks[s]; len(idxs) > 0 {
					// which incoming edge of s this is (ambiguous when the block is a predecessor twice)
					pi, np := -1, 0
					for i, p := range s.Preds {
						if p == w.b {
							pi = i
							np++
						}
					}
					for _, j := range idxs {
						nf.sel[j] = 0
						if np == 1 {
							nf.sel[j] = int8(pi + 1)
						}
					}
				}
			}
			if track && ci.liveSel != nil {
				// records that can no longer be consulted from s on (see corrInfo.liveness)
				ls := ci.liveSel[s]
				for j := range ci.tphis {
					if nf.sel[j] != 0 && ls&(1<<uint(j)) == 0 {
						nf.sel[j] = 0
					}
				}
				if dead := ci.valMask &^ ci.liveVal[s]; dead != 0 && nf.bits != 0 {
					nf.bits = corrClear(nf.bits, dead)
				}
			}
			if !visited[vkey{s, nf}] {
				visited[vkey{s, nf}] = true
				work = append(work, start{b: s, facts: nf})
			}
		}
	}
	return nil, false
}

// ReachableInstrs returns every instruction on some path starting after `from` (entry if nil).
func ReachableInstrs(f *ssa.Function, from ssa.Instruction, q PathQ) map[ssa.Instruction]bool {
	out := map[ssa.Instruction]bool{}
	CanReach(f, from, func(in ssa.Instruction) bool {
		if q.BlockInstr != nil && q.BlockInstr(in) {
			return false
		}
		out[in] = true
		return false
	}, q)
	return out
}

// ReachableFromBlock returns every instruction on some path starting at the first instruction of blk.
func ReachableFromBlock(f *ssa.Function, blk *ssa.BasicBlock, q PathQ) map[ssa.Instruction]bool {
	out := map[ssa.Instruction]bool{}
	if len(blk.Instrs) == 0 {
		return out
	}
	// entered through one edge only: follow whole paths from the function's entry that take this edge, so that what the
	// path established before the edge (conditions tested, constants assigned to result variables) is known after it
	if len(blk.Preds) == 1 && q.MustEdge == nil && blk != f.Blocks[0] {
		p := blk.Preds[0]
		k, n := -1, 0
		for i, s := range p.Succs {
			if s == blk {
				k = i
				n++
			}
		}
		if n == 1 {
			q2 := q
			q2.MustEdge = &ifEdge{p, k}
			canReachFrom(f, nil, nil, -1, func(in ssa.Instruction) bool {
				if q.BlockInstr != nil && q.BlockInstr(in) {
					return false
				}
				out[in] = true
				return false
			}, q2)
			return out
		}
	}
	first := blk.Instrs[0]
	if q.BlockInstr != nil && q.BlockInstr(first) {
		return out
	}
	out[first] = true
	for in := range ReachableInstrs(f, first, q) {
		out[in] = true
	}
	return out
}

// ReachableViaEdge: the instructions on paths that start at the function's entry and have taken the edge e, from
// that edge on; q restricts the part after the edge. What a path established before the edge is known after it.
func ReachableViaEdge(f *ssa.Function, e ifEdge, q PathQ) map[ssa.Instruction]bool {
	out := map[ssa.Instruction]bool{}
	q2 := q
	q2.MustEdge = &e
	canReachFrom(f, nil, nil, -1, func(in ssa.Instruction) bool {
		if q.BlockInstr != nil && q.BlockInstr(in) {
			return false
		}
		out[in] = true
		return false
	}, q2)
	return out
}

// Dominated: every path from entry to target passes through an instruction satisfying by.
func Dominated(f *ssa.Function, target ssa.Instruction, by func(ssa.Instruction) bool, q PathQ) bool {
	q2 := q
	q2.BlockInstr = func(in ssa.Instruction) bool {
		if in == target {
			return false
		}
		if by(in) {
			return true
		}
		return q.BlockInstr != nil && q.BlockInstr(in)
	}
	_, ok := CanReach(f, nil, func(in ssa.Instruction) bool { return in == target }, q2)
	return !ok
}

// DominatedByEdge: every path from entry to target takes edge (ifBlock -> succ k).
func DominatedByEdge(f *ssa.Function, target ssa.Instruction, ifb *ssa.BasicBlock, k int, q PathQ) bool {
	// remove all *other* out-edges of ifb... no: remove nothing but require the edge. Equivalent test:
	// target unreachable from entry when edge (ifb,k) is removed.
	q2 := q
	q2.BlockEdge = func(from *ssa.BasicBlock, succ int) bool {
		if from == ifb && succ == k {
			return true
		}
		return q.BlockEdge != nil && q.BlockEdge(from, succ)
	}
	_, ok := CanReach(f, nil, func(in ssa.Instruction) bool { return in == target }, q2)
	return !ok
}

// MustFollow: from `from`, every path to an exit (Return/Panic) that is not exempt passes through an
// instruction satisfying `then`. Returns the offending exit if not.
func MustFollow(f *ssa.Function, from ssa.Instruction, then func(ssa.Instruction) bool, exempt func(ssa.Instruction) bool, q PathQ) (ssa.Instruction, bool) {
	q2 := q
	q2.BlockInstr = func(in ssa.Instruction) bool {
		if then(in) {
			return true
		}
		return q.BlockInstr != nil && q.BlockInstr(in)
	}
	w, ok := CanReach(f, from, func(in ssa.Instruction) bool {
		if then(in) {
			return false
		}
		return isExit(in) && (exempt == nil || !exempt(in))
	}, q2)
	return w, !ok
}

// ifEdge describes a conditional edge.
type ifEdge struct {
	B *ssa.BasicBlock
	K int // 0 = true successor, 1 = false successor
}

func blockIf(b *ssa.BasicBlock) *ssa.If {
	if len(b.Instrs) == 0 {
		return nil
	}
	x, _ := b.Instrs[len(b.Instrs)-1].(*ssa.If)
	return x
}

// ---- misc -----------------------------------------------------------------------------------

func (c *Ctx) exprString(e ast.Expr) string { return types.ExprString(e) }

// enclosingTop returns the outermost named function containing f.
func enclosingTop(f *ssa.Function) *ssa.Function {
	for f.Parent() != nil {
		f = f.Parent()
	}
	return f
}

func ssaString(in ssa.Instruction) string {
	if v, ok := in.(ssa.Value); ok {
		return v.Name() + " = " + in.String()
	}
	return in.String()
}

// Key is a canonical name for a value that identifies loads of the same field of the same object
// (go/ssa has no CSE: `c.sig` loaded twice gives two values). It assumes the field is not rewritten between
// the two loads; the who-may-write rules guard the fields this is used for.
func (c *Ctx) Key(v ssa.Value) string {
	v = c.Resolve(v)
	switch x := v.(type) {
	case *ssa.UnOp:
		if x.Op == token.MUL {
			if fa, ok := x.X.(*ssa.FieldAddr); ok {
				_, fld := fieldOf(fa)
				if fld != nil {
					return "(" + c.Key(fa.X) + ")." + fld.Name()
				}
			}
		}
	case *ssa.Extract:
		return fmt.Sprintf("%s#%d", c.Key(x.Tuple), x.Index)
	}
	if u, ok := v.(*ssa.UnOp); ok && u.Op == token.MUL {
		if a, ok := c.addrRoot(u.X).(*ssa.Alloc); ok {
			return fmt.Sprintf("*cell(%p)", a)
		}
	}
	return fmt.Sprintf("%p", v)
}

func (c *Ctx) Same(a, b ssa.Value) bool { return c.Key(a) == c.Key(b) }

// immutableFieldLoad: v = *(&base.f) where f is a field that is only ever written while its struct is being constructed
// (every store to it, anywhere in the package, goes into a struct freshly allocated by the storing function). All loads of
// base.f then see one value: the value stored at construction when base is that allocation, otherwise the first load of
// base.f in the function stands for all of them.
func (c *Ctx) immutableFieldLoad(ld *ssa.UnOp, fa *ssa.FieldAddr, seen map[ssa.Value]bool) ssa.Value {
	pt, ok := fa.X.Type().Underlying().(*types.Pointer)
	if !ok {
		return nil
	}
	named, ok := pt.Elem().(*types.Named)
	if !ok || named.Obj().Pkg() == nil || named.Obj().Pkg() != c.Pkg.Pkg {
		return nil
	}
	if !c.fieldImmutable(named, fa.Field) {
		return nil
	}
	// an unexported field nothing in the package ever assigns (a hook or seam that only a test sets) holds its zero value
	if st, isStruct := named.Underlying().(*types.Struct); isStruct && fa.Field < st.NumFields() {
		fld := st.Field(fa.Field)
		if !fld.Exported() && !c.fieldStored[fmt.Sprintf("%s#%d", named.String(), fa.Field)] {
			switch fld.Type().Underlying().(type) {
			case *types.Pointer, *types.Signature, *types.Interface, *types.Slice, *types.Map, *types.Chan:
				return ssa.NewConst(nil, fld.Type())
			}
		}
	}
	s2 := map[ssa.Value]bool{}
	for k := range seen {
		s2[k] = true
	}
	base := c.resolve(fa.X, s2)
	if al, isAl := base.(*ssa.Alloc); isAl {
		var val ssa.Value
		n := 0
		for _, u := range *al.Referrers() {
			if f2, ok := u.(*ssa.FieldAddr); ok && f2.Field == fa.Field {
				for _, uu := range *f2.Referrers() {
					if st, ok := uu.(*ssa.Store); ok && st.Addr == ssa.Value(f2) {
						val = st.Val
						n++
					}
				}
			}
		}
		if n == 1 {
			return val
		}
		if n == 0 && al.Parent() == ld.Parent() {
			return nil // zero value
		}
		return nil
	}
	// representative: the first load of base.f in this function
	f := ld.Parent()
	if f == nil {
		return nil
	}
	for _, b := range f.Blocks {
		for _, in := range b.Instrs {
			l2, ok := in.(*ssa.UnOp)
			if !ok || l2.Op != token.MUL {
				continue
			}
			f2, ok := l2.X.(*ssa.FieldAddr)
			if !ok || f2.Field != fa.Field || !types.Identical(f2.X.Type(), fa.X.Type()) {
				continue
			}
			s3 := map[ssa.Value]bool{}
			if c.resolve(f2.X, s3) == base {
				if l2 == ld {
					return nil
				}
				return l2
			}
		}
	}
	return nil
}

// fieldImmutable: no store to field k of struct T in the package other than into a struct the storing function has just
// allocated, no whole-struct store over an existing T, and the field's address is never taken for anything but loads/stores.
func (c *Ctx) fieldImmutable(named *types.Named, k int) bool {
	if c.immutCache == nil {
		c.immutCache = map[string]bool{}
		mutable := map[string]bool{}
		stored := map[string]bool{}
		c.fieldStored = stored
		key := func(t types.Type, i int) string { return fmt.Sprintf("%s#%d", t.String(), i) }
		for _, f := range c.Funcs {
			eachInstr(f, func(in ssa.Instruction) {
				switch x := in.(type) {
				case *ssa.FieldAddr:
					pt, ok := x.X.Type().Underlying().(*types.Pointer)
					if !ok {
						return
					}
					nt, ok := pt.Elem().(*types.Named)
					if !ok {
						return
					}
					_, fresh := x.X.(*ssa.Alloc)
					for _, u := range *x.Referrers() {
						switch y := u.(type) {
						case *ssa.Store:
							if y.Addr == ssa.Value(x) {
								stored[key(nt, x.Field)] = true
								if !fresh {
									mutable[key(nt, x.Field)] = true
								}
							} else {
								mutable[key(nt, x.Field)] = true // the field's address is stored somewhere
							}
						case *ssa.UnOp, *ssa.DebugRef:
						case *ssa.FieldAddr, *ssa.IndexAddr:
							// a nested aggregate: parts of it may be written through this address
							mutable[key(nt, x.Field)] = true
						default:
							mutable[key(nt, x.Field)] = true
						}
					}
				case *ssa.Store:
					// *p = T{…} over an existing object
					if nt, ok := x.Val.Type().(*types.Named); ok {
						if st, isStruct := nt.Underlying().(*types.Struct); isStruct {
							if _, fresh := x.Addr.(*ssa.Alloc); !fresh {
								for i := 0; i < st.NumFields(); i++ {
									mutable[key(nt, i)] = true
								}
							}
						}
					}
				}
			})
		}
		c.immutMutable = mutable
	}
	k2 := fmt.Sprintf("%s#%d", named.String(), k)
	return !c.immutMutable[k2]
}

// ResolveAt resolves v like Resolve; a phi whose incoming values differ is narrowed to the incoming edges from which `at`
// can still be reached before the phi's block is entered again (a result variable assigned in one select case and read
// after the other cases have returned).
func (c *Ctx) ResolveAt(v ssa.Value, at ssa.Instruction) ssa.Value {
	r := c.Resolve(v)
	phi, ok := r.(*ssa.Phi)
	if !ok || at == nil || phi.Parent() != at.Parent() {
		return r
	}
	blk := phi.Block()
	var first ssa.Value
	for i, e := range phi.Edges {
		if i >= len(blk.Preds) {
			return r
		}
		noReentry := PathQ{BlockEdge: func(b *ssa.BasicBlock, k int) bool { return b.Succs[k] == blk }}
		if _, reach := canReachFrom(phi.Parent(), nil, blk, i, func(in ssa.Instruction) bool { return in == at }, noReentry); !reach {
			continue
		}
		re := c.ResolveAt(e, at)
		if first == nil {
			first = re
		} else if re != first {
			return r
		}
	}
	if first == nil {
		return r
	}
	return first
}

// cachedNormalize: Normalize, remembered per (directory, file contents, architecture, tags, checker binary) in the user's
// cache directory: the twenty checks of one tree normalise it once. The cache is an optimisation only; it is keyed by
// content, and a missing or unreadable entry is recomputed.
func cachedNormalize(dir, goarch string, tags []string) (map[string][]byte, []string) {
	if os.Getenv("MQTTCHECK_NO_NORM_CACHE") != "" || os.Getenv("MQTTCHECK_DEBUG_NORM") != "" {
		return Normalize(dir, goarch, tags)
	}
	abs, err := filepath.Abs(dir)
	if err != nil {
		return Normalize(dir, goarch, tags)
	}
	h := sha256.New()
	fmt.Fprintf(h, "arch=%s\ntags=%v\n", goarch, tags)
	fmt.Fprintf(h, "exe=%s\n", exeIdentity())
	ents, err := os.ReadDir(abs)
	if err != nil {
		return Normalize(dir, goarch, tags)
	}
	for _, e := range ents {
		n := e.Name()
		if e.IsDir() || (!strings.HasSuffix(n, ".go") && n != "go.mod") {
			continue
		}
		b, err := os.ReadFile(filepath.Join(abs, n))
		if err != nil {
			return Normalize(dir, goarch, tags)
		}
		fmt.Fprintf(h, "%s %d %x\n", n, len(b), sha256.Sum256(b))
	}
	cdir, err := os.UserCacheDir()
	if err != nil {
		return Normalize(dir, goarch, tags)
	}
	cdir = filepath.Join(cdir, "mqttcheck-norm")
	file := filepath.Join(cdir, fmt.Sprintf("%x.json", h.Sum(nil)))
	type entry struct {
		Dir     string
		Overlay map[string][]byte
		Notes   []string
		None    bool
	}
	if b, err := os.ReadFile(file); err == nil {
		var e entry
		if json.Unmarshal(b, &e) == nil {
			if e.None {
				return nil, e.Notes
			}
			if e.Dir == abs {
				return e.Overlay, e.Notes
			}
			// the same sources in another directory: file names (map keys and //line directives) are rebased
			out := map[string][]byte{}
			for k, v := range e.Overlay {
				if !strings.HasPrefix(k, e.Dir+string(filepath.Separator)) {
					out = nil
					break
				}
				nk := filepath.Join(abs, strings.TrimPrefix(k, e.Dir+string(filepath.Separator)))
				out[nk] = bytes.ReplaceAll(v, []byte("//line "+e.Dir+"/"), []byte("//line "+abs+"/"))
			}
			if out != nil {
				var notes []string
				for _, nt := range e.Notes {
					notes = append(notes, strings.ReplaceAll(nt, e.Dir+"/", abs+"/"))
				}
				return out, notes
			}
		}
	}
	overlay, notes := Normalize(dir, goarch, tags)
	if os.MkdirAll(cdir, 0o755) == nil {
		if b, err := json.Marshal(entry{Dir: abs, Overlay: overlay, Notes: notes, None: overlay == nil}); err == nil {
			tmp := fmt.Sprintf("%s.%d", file, os.Getpid())
			if os.WriteFile(tmp, b, 0o644) == nil {
				os.Rename(tmp, file)
			}
		}
		// keep the cache small
		if list, err := os.ReadDir(cdir); err == nil && len(list) > 3000 {
			for _, e := range list[:len(list)-2500] {
				os.Remove(filepath.Join(cdir, e.Name()))
			}
		}
	}
	return overlay, notes
}

// constGlobal: the value of a package-level variable of the library that is only ever loaded — assigned at most once, by
// its own initialiser, and never having its address taken (`var timeNow = time.Now`, a hook that is nil unless a test sets
// it). Such a variable is a constant of the library as shipped; nil if g is not of this kind.
func (c *Ctx) constGlobal(g *ssa.Global) ssa.Value {
	if g.Pkg != c.Pkg {
		return nil
	}
	if c.globalConst == nil {
		c.globalConst = map[*ssa.Global]ssa.Value{}
		type info struct {
			stores []*ssa.Store
			other  bool
		}
		inf := map[*ssa.Global]*info{}
		get := func(g *ssa.Global) *info {
			if inf[g] == nil {
				inf[g] = &info{}
			}
			return inf[g]
		}
		for _, f := range c.Funcs {
			for _, b := range f.Blocks {
				for _, in := range b.Instrs {
					var ops [12]*ssa.Value
					for _, op := range in.Operands(ops[:0]) {
						gg, ok := (*op).(*ssa.Global)
						if !ok || gg.Pkg != c.Pkg {
							continue
						}
						switch x := in.(type) {
						case *ssa.UnOp:
							if x.Op == token.MUL {
								continue
							}
						case *ssa.Store:
							if x.Addr == ssa.Value(gg) && x.Val != ssa.Value(gg) {
								get(gg).stores = append(get(gg).stores, x)
								continue
							}
						case *ssa.DebugRef:
							continue
						}
						get(gg).other = true
					}
				}
			}
		}
		for _, m := range c.Pkg.Members {
			gg, ok := m.(*ssa.Global)
			if !ok {
				continue
			}
			i := get(gg)
			if i.other || len(i.stores) > 1 {
				continue
			}
			elem := gg.Type().(*types.Pointer).Elem()
			if len(i.stores) == 0 {
				switch elem.Underlying().(type) {
				case *types.Pointer, *types.Signature, *types.Interface, *types.Slice, *types.Map, *types.Chan:
					c.globalConst[gg] = ssa.NewConst(nil, elem)
				}
				continue
			}
			st := i.stores[0]
			if fn := st.Parent(); fn == nil || fn.Name() != "init" || fn.Synthetic == "" {
				continue
			}
			switch st.Val.(type) {
			case *ssa.Function, *ssa.Const:
				c.globalConst[gg] = st.Val
			}
		}
	}
	return c.globalConst[g]
}

// literalArg: for a parameter of an anonymous function whose only closure value is used by exactly one call, go or defer
// instruction as the callee, the argument passed for it there; nil otherwise.
func (c *Ctx) literalArg(p *ssa.Parameter) ssa.Value {
	fn := p.Parent()
	if fn == nil || fn.Parent() == nil {
		return nil
	}
	sites := c.makeClosures[fn]
	var callee ssa.Value
	switch {
	case len(sites) == 1:
		callee = sites[0]
	case len(sites) == 0 && len(fn.FreeVars) == 0:
		return nil // a literal without captures is used as a plain function value: its uses are not indexed
	default:
		return nil
	}
	refs := callee.Referrers()
	if refs == nil {
		return nil
	}
	var cc *ssa.CallCommon
	n := 0
	for _, u := range *refs {
		if _, isDbg := u.(*ssa.DebugRef); isDbg {
			continue
		}
		n++
		if k := callCommon(u); k != nil && k.Value == callee && !k.IsInvoke() {
			cc = k
		}
	}
	if n != 1 || cc == nil {
		return nil
	}
	for i, q := range fn.Params {
		if q == p && i < len(cc.Args) {
			return cc.Args[i]
		}
	}
	return nil
}

var (
	exeIDOnce sync.Once
	exeID     string
)

// exeIdentity: a hash of this binary's contents (what the on-disk memories of normalisations and self-test verdicts are
// keyed by: rebuilding the same sources gives the same identity, whatever the file's time stamp).
func exeIdentity() string {
	exeIDOnce.Do(func() {
		exe, err := os.Executable()
		if err != nil {
			exeID = fmt.Sprintf("unknown-%d", os.Getpid())
			return
		}
		f, err := os.Open(exe)
		if err != nil {
			exeID = fmt.Sprintf("unknown-%d", os.Getpid())
			return
		}
		defer f.Close()
		h := sha256.New()
		if _, err := io.Copy(h, f); err != nil {
			exeID = fmt.Sprintf("unknown-%d", os.Getpid())
			return
		}
		exeID = fmt.Sprintf("%x", h.Sum(nil))
	})
	return exeID
}
