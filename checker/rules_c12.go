package main

import (
	"go/types"

	"golang.org/x/tools/go/ssa"
)

func init() {
	register("C12", "Decided: who may write the message and which handles can be handed out. R-C12-1 Message.ID is stored only in publishImpl under `ID == 0` with a freshly drawn id; R-C12-2 Topic/Payload/QoS/Retain of a caller-visible message are never stored (Subscription only by the SUBACK copy-back); R-C12-3 Dup is set from the dup parameter on every path before Pack, first transmission passes false, the retry handle true, no other callers; R-C12-4 the retry handle re-issues the enclosing call's own message; R-C12-5 after PUBREC no path or handle leads back to PUBLISH; R-C12-6 QoS 0 never yields a handle; R-C12-7 Retry re-queues exactly continuation + unattempted tail (and leaves its loop early only after putting the unattempted entries back); R-C12-8 the DUP bit on the wire is Message.Dup for every QoS; R-C12-9 PUBREL is written only by the PUBREL stage of the QoS 2 publish, so no PUBREL can be followed by a PUBLISH-stage handle. Not decided: byte equality of retransmitted packets (follows from these + C05), applications mutating their Message during a publish.", checkC12)
}

// freshBase: the struct a field address belongs to was allocated in the same function (composite literal / local copy).
func (c *Ctx) freshBase(fa *ssa.FieldAddr) bool {
	a, ok := fa.X.(*ssa.Alloc)
	return ok && a.Parent() == fa.Parent()
}

func checkC12(r *Run) {
	c := r.C
	r1 := r.Rule("R-C12-1", "Message.ID of a caller-visible message is assigned only in publishImpl, only when it is 0, from newID()")
	r2 := r.Rule("R-C12-2", "Topic/Payload/QoS/Retain of a caller-visible Message are never written; Subscription fields only by the SUBACK copy-back")
	r3 := r.Rule("R-C12-3", "Dup := dup parameter on every path before Pack; Publish passes false, the stage-1 handle passes true; no other callers of publishImpl")
	r4 := r.Rule("R-C12-4", "retry handle re-issues the enclosing call's own message with dup=true")
	r5 := r.Rule("R-C12-5", "stage monotonicity: after PUBREC only PUBREL-stage handles; no call path to (*pktPublish).Pack")
	r6 := r.Rule("R-C12-6", "QoS 0 publish never produces a retry handle")
	r7 := r.Rule("R-C12-7", "Retry re-queues exactly the failed entry's continuation followed by the unattempted tail")
	r8 := r.Rule("R-C12-8", "the DUP bit on the wire is Message.Dup for every QoS: PUBLISH header = 0x30 | retain | qos | (Dup ? 0x08), the DUP contribution not nested in a QoS arm")
	r9 := r.Rule("R-C12-9", "PUBREL is written only by the PUBREL stage of the QoS 2 publish (whose every later handle is PUBREL-stage): a PUBREL emitted anywhere else can be followed by a PUBLISH-stage handle re-sending PUBLISH")
	{
		stageWrites := map[ssa.Instruction]bool{}
		pubTop := c.Func("publishImpl")
		la := c.locks()
		inStage := func(f *ssa.Function) bool {
			top := enclosingTop(f)
			if top == pubTop {
				return true
			}
			n := 0
			for _, site := range la.callers[top] {
				n++
				if ct := enclosingTop(site.Parent()); ct != pubTop && ct != top {
					return false
				}
			}
			return n > 0
		}
		for _, s := range c.cachedSites() {
			if s.Kind == "pubrel" && s.Write != nil && inStage(s.F) {
				stageWrites[s.Write] = true
			}
		}
		n := 0
		for _, f := range c.Funcs {
			eachInstr(f, func(in ssa.Instruction) {
				pt, _, ok := c.writeOf(in)
				if !ok || pt != "pktPubRel" {
					return
				}
				n++
				key := FuncName(f) + "/write-PUBREL"
				if stageWrites[in] {
					r9.OK(key, in.Pos(), "the PUBREL stage of the QoS 2 publish")
				} else {
					r9.Bad(key, in.Pos(), "PUBREL is written in %s, outside the PUBREL stage of publishImpl: the sender's stage bookkeeping does not know about it, so a retry handle of the PUBLISH stage can still re-send PUBLISH after this PUBREL", FuncName(f))
				}
			})
		}
		if n == 0 {
			r9.Lost("write-PUBREL", "no PUBREL write found")
		}
	}
	r1.Floor(1)
	r3.Floor(2)
	r5.Floor(2)
	for _, pi := range c.packSites() {
		if pi.T != "pktPublish" {
			continue
		}
		cc := c.newChain()
		base, items, ok := cc.decomposeOr(pi.Call.Call.Args[0])
		if !ok {
			r8.Undecided(FuncName(pi.F)+"/header", pi.Call.Pos(), "cannot decompose the PUBLISH header byte (%s)", cc.err)
			continue
		}
		c.checkPublishHeader(r8, pi, base, items)
	}

	sites := c.sitesOrLost(r5)
	uses := c.ruleRetryableFailures(nil, sites)
	c.ruleStageMonotone(r5, sites, uses)
	c.ruleQoS0NoRetry(r6, sites)
	c.ruleHandleReissues(r4, uses, "no-capture-checks")
	c.ruleRetryRequeue(r7, nil, "multiset")

	pub := c.ruleMessageStores(r1, r2, r3)
	if pub == nil {
		return
	}
	// --- call sites of publishImpl
	for _, f := range c.Funcs {
		eachInstr(f, func(in ssa.Instruction) {
			call, ok := in.(*ssa.Call)
			if !ok || c.StaticCalleeOf(&call.Call) != pub {
				return
			}
			key := FuncName(f) + "/call-publishImpl"
			if len(call.Call.Args) < 4 {
				r3.Undecided(key, in.Pos(), "unexpected arity")
				return
			}
			b, isK := constBool(call.Call.Args[3])
			switch {
			case f == c.Method("BaseClient", "Publish"):
				if isK && !b {
					r3.OK(key, in.Pos(), "first transmission passes dup=false")
				} else {
					r3.Bad(key, in.Pos(), "BaseClient.Publish must pass dup=false")
				}
			case f.Parent() == pub:
				if isK && b {
					r3.OK(key, in.Pos(), "retry handle passes dup=true")
				} else {
					r3.Bad(key, in.Pos(), "the retry handle must pass dup=true")
				}
			case isK && !b:
				// any other caller: a first transmission (e.g. the retrying client issuing a request directly) —
				// legitimate as long as it is not one of publishImpl's own retry handles
				r3.OK(key, in.Pos(), "first transmission from %s passes dup=false", FuncName(f))
			default:
				r3.Bad(key, in.Pos(), "%s calls %s with a DUP flag that is not the constant false of a first transmission", FuncName(f), FuncName(pub))
			}
		})
	}
}

// positiveControlMessageStore: the predicate used above recognises `m.Topic = x` on a parameter m.
// (The control lives in the checker: a synthetic classification of a FieldAddr on a Parameter.)
func (c *Ctx) positiveControlMessageStore() bool {
	// publishImpl itself contains `message.Dup = dup`, a store to a non-fresh Message: the generic detector must see it.
	pub := c.Func("publishImpl")
	if pub == nil {
		return true
	}
	found := false
	eachInstr(pub, func(in ssa.Instruction) {
		if st, ok := in.(*ssa.Store); ok {
			if fa, ok := st.Addr.(*ssa.FieldAddr); ok && typeName(fa.X.Type()) == "Message" && !c.freshBase(fa) {
				found = true
			}
		}
	})
	return found
}

// ruleMessageStores: every store to a field of a caller-visible Message / Subscription in the package (R-C12-1/2/3; R-C15-5
// uses the Message.ID part). Returns the publish implementation.
func (c *Ctx) ruleMessageStores(r1, r2, r3 *RuleRep) *ssa.Function {
	pub := c.Func("publishImpl")
	if pub == nil {
		if m := c.Method("BaseClient", "Publish"); m != nil {
			for _, g := range c.calleesOf(m, false) {
				if g.Name() != "ValidateMessage" {
					pub = g
				}
			}
		}
	}
	if pub == nil {
		r1.Lost("publishImpl", "publish implementation not found")
		return nil
	}
	newID := c.Method("BaseClient", "newID")
	var msgParam, dupParam *ssa.Parameter
	for _, p := range pub.Params {
		if typeName(p.Type()) == "Message" {
			msgParam = p
		}
		if b, ok := p.Type().Underlying().(*types.Basic); ok && b.Kind() == types.Bool {
			dupParam = p
		}
	}
	// --- all stores to Message / Subscription fields in the package
	nID, nDup, zero2 := 0, 0, 0
	for _, f := range c.Funcs {
		eachInstr(f, func(in ssa.Instruction) {
			st, ok := in.(*ssa.Store)
			if !ok {
				return
			}
			fa, ok := st.Addr.(*ssa.FieldAddr)
			if !ok {
				return
			}
			tn := typeName(fa.X.Type())
			_, fld := fieldOf(fa)
			if fld == nil {
				return
			}
			if tn == "Message" {
				if c.freshBase(fa) {
					return // construction of a new message (Parse, clone, literals)
				}
				// message freshly allocated by Parse: p.Message = &Message{...}; p.Message.X = ... : base is a load of pktPublish.Message
				if _, ok := isFieldLoad(fa.X, "pktPublish", "Message"); ok && f.Name() == "Parse" {
					return
				}
				key := FuncName(f) + "/Message." + fld.Name()
				switch fld.Name() {
				case "ID":
					nID++
					if f != pub || msgParam == nil || c.Resolve(fa.X) != ssa.Value(msgParam) {
						r1.Bad(key, st.Pos(), "Message.ID is written outside the single assignment point in %s", FuncName(pub))
						return
					}
					// value from newID
					call, callee := c.asCall(st.Val)
					if call == nil || callee != newID || newID == nil {
						r1.Bad(key, st.Pos(), "Message.ID is assigned a value that is not a fresh newID() draw")
						return
					}
					// dominated by true edge of message.ID == 0
					dom := false
					for _, b := range pub.Blocks {
						iff := blockIf(b)
						if iff == nil {
							continue
						}
						bin, ok := iff.Cond.(*ssa.BinOp)
						if !ok {
							continue
						}
						base, isID := isFieldLoad(bin.X, "Message", "ID")
						k, isK := constInt(bin.Y)
						if !isID || !isK || k != 0 || c.Resolve(base) != ssa.Value(msgParam) {
							continue
						}
						edge := -1
						if bin.Op.String() == "==" {
							edge = 0
						} else if bin.Op.String() == "!=" {
							edge = 1
						}
						if edge >= 0 && DominatedByEdge(pub, st, b, edge, PathQ{}) {
							dom = true
						}
					}
					if dom {
						r1.OK(key, st.Pos(), "assigned from newID() only on the `message.ID == 0` edge")
					} else {
						r1.Bad(key, st.Pos(), "Message.ID is overwritten although it may already be non-zero: a retransmission (or a caller-chosen id) would get a different packet identifier")
					}
				case "Dup":
					nDup++
					if f != pub || msgParam == nil || c.Resolve(fa.X) != ssa.Value(msgParam) {
						r3.Bad(key, st.Pos(), "Message.Dup is written outside %s", FuncName(pub))
						return
					}
					if dupParam == nil || st.Val != ssa.Value(dupParam) {
						r3.Bad(key, st.Pos(), "Message.Dup is set to %s, not to the dup parameter: a first transmission could carry DUP=1 or a retransmission DUP=0", st.Val.String())
						return
					}
					// dominates every Pack of pktPublish in pub
					packP := c.Method("pktPublish", "Pack")
					okAll := true
					eachInstr(pub, func(x ssa.Instruction) {
						if c.isCallTo(x, packP) {
							if !Dominated(pub, x, func(y ssa.Instruction) bool { return y == ssa.Instruction(st) }, PathQ{}) {
								okAll = false
							}
						}
					})
					if okAll {
						r3.OK(key, st.Pos(), "message.Dup = dup on every path before the packet is packed")
					} else {
						r3.Bad(key, st.Pos(), "a path reaches Pack() without message.Dup having been set from the dup parameter: a stale DUP flag goes on the wire")
					}
				default:
					zero2++
					r2.Bad(key, st.Pos(), "the library rewrites %s of a caller-visible message: a retransmission would differ from the first transmission", fld.Name())
				}
			}
			if tn == "Subscription" && !c.freshBase(fa) {
				if _, isImpl := c.subscribeImpls()[f]; (isImpl || f == c.Func("subscribeImpl")) && fld.Name() == "QoS" {
					return // SUBACK copy-back, R-C07-5
				}
				zero2++
				r2.Bad(FuncName(f)+"/Subscription."+fld.Name(), st.Pos(), "the library rewrites %s of a caller-visible subscription", fld.Name())
			}
		})
	}
	if nID == 0 {
		r1.Lost("publishImpl/Message.ID", "no assignment of Message.ID found")
	}
	if nDup == 0 {
		r3.Bad("publishImpl/Message.Dup", pub.Pos(), "publishImpl never sets Message.Dup: the DUP flag on the wire is whatever the caller's struct holds")
	}
	if zero2 == 0 {
		r2.OK("package", pub.Pos(), "no store to Topic/Payload/QoS/Retain of a non-fresh Message or to a non-fresh Subscription in %d functions", len(c.Funcs))
	}
	// positive control for the zero-expected rule: the detector must recognise a store to a non-fresh Message field
	if !c.positiveControlMessageStore() {
		r2.Undecided("positive-control", pub.Pos(), "the store detector did not fire on the built-in positive example")
	}
	return pub
}
