package main

import (
	"go/token"
	"go/types"

	"golang.org/x/tools/go/ssa"
)

func init() {
	register("C20", "Decided: aliasing structure of the two dispatchers. R-C20-1: (*Message).clone returns a freshly allocated Message; every field of the struct (enumerated from go/types) is copied from the same field of the receiver, reference-typed fields through a fresh backing array. R-C20-2: every Handler.Serve hand-over in ServeMux.Serve / ServeAsync.Serve passes the result of a clone() of the dispatcher's own parameter, taken anew before each hand-over and in the dispatching goroutine. R-C20-3: neither dispatcher stores the incoming message or a clone anywhere. Not decided: handlers sharing state by other means.", checkC20)
}

// stripStringCopy looks through string<->[]byte conversions (string([]byte(s)) copies a string).
func stripConv(v ssa.Value) ssa.Value {
	for {
		switch cv := v.(type) {
		case *ssa.Convert:
			v = cv.X
		case *ssa.ChangeType:
			v = cv.X
		default:
			return v
		}
	}
}

// loadOfField: v is a load of field `fld` of struct pointed to by base (after Resolve).
func (c *Ctx) loadOfFieldOf(v ssa.Value, base ssa.Value, fld *types.Var) bool {
	v = c.Resolve(v)
	u, ok := v.(*ssa.UnOp)
	if !ok || u.Op != token.MUL {
		return false
	}
	fa, ok := u.X.(*ssa.FieldAddr)
	if !ok {
		return false
	}
	b, f := fieldOf(fa)
	if f != fld {
		return false
	}
	if c.Resolve(b) == base {
		return true
	}
	// the same field read back from a whole-struct copy of base (`c := *m; c.Topic = f(c.Topic)`)
	if al, ok := c.Resolve(b).(*ssa.Alloc); ok && c.wholeCopyOf[al] == base && base != nil {
		return true
	}
	return false
}

// freshCopyOf: v is a freshly allocated slice whose contents are copied from src (a load of fld of base).
func (c *Ctx) freshSliceCopyOfField(v ssa.Value, base ssa.Value, fld *types.Var) (bool, string) {
	v = c.Resolve(v)
	if src := c.makeCopySource(v); src != nil {
		if c.loadOfFieldOf(src, base, fld) {
			return true, "make + copy(dst, recv." + fld.Name() + ")"
		}
		return false, "copy source is not the receiver's " + fld.Name()
	}
	call, ok := v.(*ssa.Call)
	if !ok {
		return false, "stored value is not the result of append/clone call: " + v.String()
	}
	if b, ok := call.Call.Value.(*ssa.Builtin); ok && b.Name() == "append" && len(call.Call.Args) == 2 {
		if !c.isFreshEmptySlice(call.Call.Args[0]) {
			return false, "append destination is not a fresh zero-length slice"
		}
		if !c.loadOfFieldOf(call.Call.Args[1], base, fld) {
			return false, "appended source is not the receiver's " + fld.Name()
		}
		return true, "append(fresh-empty, recv." + fld.Name() + "...)"
	}
	if isStdCall(&call.Call, "bytes", "Clone") || isStdCall(&call.Call, "slices", "Clone") {
		if len(call.Call.Args) == 1 && c.loadOfFieldOf(call.Call.Args[0], base, fld) {
			return true, "bytes/slices.Clone(recv." + fld.Name() + ")"
		}
	}
	return false, "unrecognised copy idiom: " + v.String()
}

// isFreshEmptySlice: nil slice constant, []T{} literal, or make([]T, 0[, n]).
func (c *Ctx) isFreshEmptySlice(v ssa.Value) bool {
	if v == nil {
		return true // appendChain's marker for a literal base whose elements were moved into the element list
	}
	v = c.Resolve(v)
	if isNilConst(v) {
		return true
	}
	switch x := v.(type) {
	case *ssa.Slice:
		if a, ok := x.X.(*ssa.Alloc); ok {
			if p, ok := a.Type().Underlying().(*types.Pointer); ok {
				if arr, ok := p.Elem().Underlying().(*types.Array); ok && arr.Len() == 0 {
					return true
				}
			}
		}
	case *ssa.MakeSlice:
		if n, ok := constInt(x.Len); ok && n == 0 {
			return true
		}
	}
	return false
}

func isRefType(t types.Type) bool {
	switch t.Underlying().(type) {
	case *types.Slice, *types.Map, *types.Pointer, *types.Chan, *types.Interface, *types.Signature:
		return true
	}
	return false
}

func checkC20(r *Run) {
	c := r.C
	msgT := c.NamedType("Message")
	clone := c.Method("Message", "clone")
	r1 := r.Rule("R-C20-1", "clone() returns a fresh Message whose every field is copied from the receiver's same field; slice fields through a fresh backing array")
	r2 := r.Rule("R-C20-2", "every Handler.Serve hand-over in ServeMux.Serve / ServeAsync.Serve receives a clone of the dispatcher's parameter taken anew per hand-over, in the dispatching goroutine")
	r3 := r.Rule("R-C20-3", "the dispatchers do not store the incoming message or its clones")
	r1.Floor(4)
	r2.Floor(2)
	if msgT == nil {
		r1.Lost("type Message", "type Message not found")
		return
	}
	st := msgT.Underlying().(*types.Struct)
	if clone == nil {
		// role fallback: the unexported method of *Message returning *Message
		for _, f := range c.Funcs {
			if f.Parent() == nil && f.Signature.Recv() != nil && namedOf(f.Signature.Recv().Type()) == msgT &&
				f.Signature.Params().Len() == 0 && f.Signature.Results().Len() == 1 && namedOf(f.Signature.Results().At(0).Type()) == msgT {
				clone = f
			}
		}
	}
	if clone == nil {
		r1.Lost("(*Message).clone", "no copy method on Message found")
	} else {
		c.checkCloneDeep(r1, clone, st)
	}

	// --- R-C20-2 / R-C20-3
	for _, disp := range []struct{ typ, name string }{{"ServeMux", "Serve"}, {"ServeAsync", "Serve"}} {
		f := c.Method(disp.typ, disp.name)
		if f == nil {
			r2.Lost("("+disp.typ+").Serve", "dispatcher not found")
			continue
		}
		if len(f.Params) < 2 {
			r2.Lost(FuncName(f), "unexpected signature")
			continue
		}
		type disp2 struct {
			f   *ssa.Function
			msg *ssa.Parameter
		}
		work := []disp2{{f, f.Params[1]}}
		top := f
		seenD := map[*ssa.Function]bool{f: true}
		totalHandovers := 0
		for len(work) > 0 {
			f := work[0].f
			msg := work[0].msg
			work = work[1:]
			handovers := 0
			hos := c.serveHandovers(f)
			for _, ho := range hos {
				func(ho serveHandover) {
					g, in := ho.Fn, ho.In
					handovers++
					key := FuncName(g) + "/Serve"
					cc := &ssa.CallCommon{Args: []ssa.Value{ho.Arg}}
					arg := c.Resolve(cc.Args[0])
					k, ok := arg.(*ssa.Call)
					if !ok || c.StaticCalleeOf(&k.Call) != clone || clone == nil {
						// a copy made in place: a Message allocated for this hand-over and filled field by field from the
						// dispatcher's message, by the criteria clone() itself is held to (R-C20-1)
						if al, isAlloc := arg.(*ssa.Alloc); isAlloc && al.Parent() == f && ho.At != nil {
							if okIP, why := c.inPlaceDeepCopy(f, al, msg, st, ho.At, hos); okIP {
								r2.OK(key, ho.At.Pos(), "argument is a Message allocated for this hand-over and filled as a deep copy of %s before it", msg.Name())
								return
							} else if why != "" {
								r2.Bad(key, in.Pos(), "handler receives a Message filled in place that is not a private deep copy of the dispatcher's message: %s", why)
								return
							}
						}
						r2.Bad(key, in.Pos(), "handler receives %s, which is not the result of a clone() call", cc.Args[0].Name())
						return
					}
					if len(k.Call.Args) != 1 || c.Resolve(k.Call.Args[0]) != ssa.Value(msg) {
						r2.Bad(key, in.Pos(), "the clone handed over is not taken from the dispatcher's own parameter (receiver %s): an earlier handler's copy or another message leaks into this hand-over", k.Call.Args[0].Name())
						return
					}
					if k.Parent() != f {
						r2.Bad(key, in.Pos(), "clone() is evaluated inside closure %s, i.e. possibly after the dispatcher returned / in another goroutine; the caller may already have reused its message", FuncName(k.Parent()))
						return
					}
					if ho.At == nil {
						r2.Bad(key, in.Pos(), "hand-over happens inside closure %s, which the dispatcher does not itself invoke exactly once; the copy must be an operand of the go statement", FuncName(g))
						return
					}
					in = ho.At
					// fresh per hand-over: no path from entry or from any hand-over to this one avoiding the clone call
					avoid := PathQ{BlockInstr: func(x ssa.Instruction) bool { return x == ssa.Instruction(k) }}
					if _, ok := CanReach(f, nil, func(x ssa.Instruction) bool { return x == in }, avoid); ok {
						r2.Bad(key, in.Pos(), "a path reaches this hand-over without executing its clone() call")
						return
					}
					stale := false
					for _, other := range hos {
						if other.At == nil {
							continue
						}
						if _, ok := CanReach(f, other.At, func(x ssa.Instruction) bool { return x == in }, avoid); ok {
							stale = true
						}
					}
					if stale {
						r2.Bad(key, in.Pos(), "the same clone can be handed to two handlers (a path from one hand-over to the next avoids the clone() call: hoisted out of the loop?)")
						return
					}
					r2.OK(key, in.Pos(), "argument is clone(%s) evaluated in %s before each hand-over", msg.Name(), FuncName(f))
				}(ho)
			}
			totalHandovers += handovers
			// helpers that receive the dispatcher's message unchanged are analysed as part of the dispatcher
			eachInstr(f, func(in ssa.Instruction) {
				k, ok := in.(*ssa.Call)
				if !ok {
					return
				}
				h := c.StaticCalleeOf(&k.Call)
				if h == nil || h.Pkg != c.Pkg || h == clone || seenD[h] || h.Name() == "Match" {
					return
				}
				for i, a := range k.Call.Args {
					if c.Resolve(a) == ssa.Value(msg) && i < len(h.Params) {
						seenD[h] = true
						work = append(work, disp2{h, h.Params[i]})
					}
				}
			})
			// R-C20-3
			c.checkNoBackChannel(r3, f, msg, clone, seenD)
		}
		if totalHandovers == 0 {
			r2.Lost(FuncName(top), "no Handler.Serve hand-over found in dispatcher")
		}
	}
}

func (c *Ctx) checkCloneDeep(r1 *RuleRep, clone *ssa.Function, st *types.Struct) {
	recv := clone.Params[0]
	var rets []*ssa.Return
	eachInstr(clone, func(in ssa.Instruction) {
		if rt, ok := in.(*ssa.Return); ok {
			rets = append(rets, rt)
		}
	})
	for _, rt := range rets {
		res := c.Resolve(rt.Results[0])
		alloc, ok := res.(*ssa.Alloc)
		if !ok {
			r1.Bad("clone/return", rt.Pos(), "clone does not return a freshly allocated Message (returns %s)", res.String())
			continue
		}
		// whole-struct copy?
		var whole *ssa.Store
		for _, u := range *alloc.Referrers() {
			if s, ok := u.(*ssa.Store); ok && s.Addr == ssa.Value(alloc) {
				v := c.Resolve(s.Val)
				if l, ok := v.(*ssa.UnOp); ok && l.Op == token.MUL && c.Resolve(l.X) == ssa.Value(recv) {
					whole = s
					if c.wholeCopyOf == nil {
						c.wholeCopyOf = map[*ssa.Alloc]ssa.Value{}
					}
					c.wholeCopyOf[alloc] = recv
				} else {
					r1.Bad("clone/whole-store", s.Pos(), "result is overwritten with a value that is not *receiver")
				}
			}
		}
		for i := 0; i < st.NumFields(); i++ {
			fld := st.Field(i)
			key := "clone/" + fld.Name()
			var stores []*ssa.Store
			for _, u := range *alloc.Referrers() {
				if fa, ok := u.(*ssa.FieldAddr); ok && fa.Field == i {
					for _, uu := range *fa.Referrers() {
						if s, ok := uu.(*ssa.Store); ok && s.Addr == ssa.Value(fa) {
							stores = append(stores, s)
						}
					}
				}
			}
			ref := isRefType(fld.Type())
			if len(stores) == 0 {
				if whole != nil && !ref {
					r1.OK(key, whole.Pos(), "copied by the whole-struct copy of the receiver")
				} else if whole != nil {
					r1.Bad(key, whole.Pos(), "reference-typed field %s is only shallow-copied by the struct copy: clone shares its backing store with the original", fld.Name())
				} else {
					r1.Bad(key, clone.Pos(), "field %s of Message is not copied by clone()", fld.Name())
				}
				continue
			}
			okAll := true
			why := ""
			for _, s := range stores {
				if ref {
					if _, isSlice := fld.Type().Underlying().(*types.Slice); !isSlice {
						okAll = false
						why = "reference-typed field with no known deep-copy idiom"
						r1.Undecided(key, s.Pos(), "%s", why)
						continue
					}
					ok, w := c.freshSliceCopyOfField(s.Val, recv, fld)
					why = w
					if !ok {
						okAll = false
						r1.Bad(key, s.Pos(), "field %s: %s — the clone aliases the original's bytes", fld.Name(), w)
					}
				} else {
					v := stripConv(c.Resolve(s.Val))
					if !c.loadOfFieldOf(v, recv, fld) {
						okAll = false
						r1.Bad(key, s.Pos(), "field %s is set from %s, not from the receiver's %s", fld.Name(), s.Val.String(), fld.Name())
					}
					why = "copied from recv." + fld.Name()
				}
			}
			if !okAll {
				continue
			}
			// at least one store dominates the return (and follows the whole-struct copy if any)
			dom := false
			for _, s := range stores {
				s := s
				if Dominated(clone, rt, func(x ssa.Instruction) bool { return x == ssa.Instruction(s) }, PathQ{}) {
					if whole != nil {
						if _, later := CanReach(clone, s, func(x ssa.Instruction) bool { return x == ssa.Instruction(whole) }, PathQ{}); later {
							continue
						}
					}
					dom = true
				}
			}
			if !dom && !(whole != nil && !ref) {
				r1.Bad(key, rt.Pos(), "field %s is not set on every path to the return", fld.Name())
				continue
			}
			r1.OK(key, stores[0].Pos(), "%s on every path to return", why)
		}
	}
	if len(rets) == 0 {
		r1.Lost("clone/return", "no return")
	}
}

// inPlaceDeepCopy: `al` is a Message of the dispatcher's own that is handed over at `at`; it is a private deep copy of
// msg if nothing but the hand-over and its own field stores refers to it, every field is stored (before the hand-over on
// every path, never after it) with what clone() would store, and it is allocated anew for every hand-over.
// ("", false): not this shape at all.
func (c *Ctx) inPlaceDeepCopy(f *ssa.Function, al *ssa.Alloc, msg ssa.Value, st *types.Struct, at ssa.Instruction, hos []serveHandover) (bool, string) {
	pt, ok := al.Type().Underlying().(*types.Pointer)
	if !ok || st == nil || !types.Identical(pt.Elem().Underlying(), st) {
		return false, ""
	}
	stores := map[int][]*ssa.Store{}
	for _, u := range *al.Referrers() {
		switch x := u.(type) {
		case *ssa.DebugRef:
		case *ssa.FieldAddr:
			for _, uu := range *x.Referrers() {
				switch y := uu.(type) {
				case *ssa.DebugRef:
				case *ssa.UnOp:
				case *ssa.Store:
					if y.Addr != ssa.Value(x) {
						return false, "the address of field " + st.Field(x.Field).Name() + " is stored elsewhere"
					}
					stores[x.Field] = append(stores[x.Field], y)
				default:
					return false, "field " + st.Field(x.Field).Name() + " of the copy is used by something other than its own assignment"
				}
			}
		default:
			if u == at {
				continue
			}
			if ld, isLoad := u.(*ssa.UnOp); isLoad && ld.Op == token.MUL {
				// a load nobody uses (`_ = x`, left behind by the normaliser)
				used := false
				for _, r := range *ld.Referrers() {
					if _, dbg := r.(*ssa.DebugRef); !dbg {
						used = true
					}
				}
				if !used {
					continue
				}
			}
			isHO := false
			for _, h := range hos {
				if u == h.In || (h.At != nil && u == h.At) {
					isHO = true
				}
			}
			if !isHO {
				return false, "the copy is also referred to outside the hand-over (" + u.String() + ")"
			}
		}
	}
	for i := 0; i < st.NumFields(); i++ {
		fld := st.Field(i)
		if len(stores[i]) == 0 {
			return false, "field " + fld.Name() + " is not copied"
		}
		dom := false
		for _, s := range stores[i] {
			s := s
			if isRefType(fld.Type()) {
				if _, isSlice := fld.Type().Underlying().(*types.Slice); !isSlice {
					return false, "reference-typed field " + fld.Name() + " with no known deep-copy idiom"
				}
				if ok, w := c.freshSliceCopyOfField(s.Val, msg, fld); !ok {
					return false, "field " + fld.Name() + ": " + w
				}
			} else if !c.loadOfFieldOf(stripConv(c.Resolve(s.Val)), msg, fld) {
				return false, "field " + fld.Name() + " is not set from the message's " + fld.Name()
			}
			if Dominated(f, at, func(x ssa.Instruction) bool { return x == ssa.Instruction(s) }, PathQ{}) {
				dom = true
			}
			if _, later := CanReach(f, at, func(x ssa.Instruction) bool { return x == ssa.Instruction(s) }, PathQ{BlockInstr: func(x ssa.Instruction) bool { return x == ssa.Instruction(al) }}); later {
				return false, "field " + fld.Name() + " is written again after the hand-over"
			}
		}
		if !dom {
			return false, "field " + fld.Name() + " is not set on every path to the hand-over"
		}
	}
	// allocated anew for every hand-over
	avoid := PathQ{BlockInstr: func(x ssa.Instruction) bool { return x == ssa.Instruction(al) }}
	if _, ok := CanReach(f, nil, func(x ssa.Instruction) bool { return x == at }, avoid); ok {
		return false, "a path reaches the hand-over without allocating the copy"
	}
	for _, other := range hos {
		if other.At == nil {
			continue
		}
		if _, ok := CanReach(f, other.At, func(x ssa.Instruction) bool { return x == at }, avoid); ok {
			return false, "the same Message can be handed over twice"
		}
	}
	return true, ""
}

// checkNoBackChannel: the message parameter and clone results are used only to read fields, as clone receiver,
// or as the hand-over argument.
func (c *Ctx) checkNoBackChannel(r3 *RuleRep, f *ssa.Function, msg *ssa.Parameter, clone *ssa.Function, helpers map[*ssa.Function]bool) {
	var vals []ssa.Value
	vals = append(vals, msg)
	for _, g := range withClosures(f) {
		eachInstr(g, func(in ssa.Instruction) {
			if k, ok := in.(*ssa.Call); ok && clone != nil && c.StaticCalleeOf(&k.Call) == clone {
				vals = append(vals, k)
			}
		})
	}
	bad := false
	seen := map[ssa.Value]bool{}
	for len(vals) > 0 {
		v := vals[0]
		vals = vals[1:]
		if seen[v] {
			continue
		}
		seen[v] = true
		refs := v.Referrers()
		if refs == nil {
			continue
		}
		for _, u := range *refs {
			switch u := u.(type) {
			case *ssa.FieldAddr, *ssa.DebugRef:
			case *ssa.UnOp:
				// load through a cell: follow
				vals = append(vals, u)
			case *ssa.Phi:
				vals = append(vals, u)
			case *ssa.Store:
				if u.Val == v {
					if a, ok := c.addrRoot(u.Addr).(*ssa.Alloc); ok && u.Addr == ssa.Value(a) {
						// local variable / capture cell: follow loads of it
						for _, lu := range *a.Referrers() {
							if l, ok := lu.(*ssa.UnOp); ok {
								vals = append(vals, l)
							}
						}
						continue
					}
					bad = true
					r3.Bad(FuncName(f)+"/store", u.Pos(), "message (or its clone) is stored to %s: a back-channel between hand-overs", u.Addr.String())
				}
			case *ssa.Call, *ssa.Go, *ssa.Defer:
				cc := callCommon(u.(ssa.Instruction))
				if cc.IsInvoke() && cc.Method.Name() == "Serve" {
					continue
				}
				if clone != nil && c.StaticCalleeOf(cc) == clone {
					continue
				}
				if callee := c.StaticCalleeOf(cc); callee != nil && callee.Pkg == c.Pkg && (callee.Name() == "Match" || helpers[callee]) {
					continue
				}
				bad = true
				r3.Bad(FuncName(f)+"/call", u.Pos(), "message (or its clone) is passed to %s", cc.String())
			case *ssa.MakeClosure:
				// captured: closure body is scanned through FreeVar below
				if fn, ok := u.Fn.(*ssa.Function); ok {
					for i, b := range u.Bindings {
						if b == v && i < len(fn.FreeVars) {
							vals = append(vals, fn.FreeVars[i])
						}
					}
				}
			case *ssa.MapUpdate, *ssa.Send, *ssa.MakeInterface, *ssa.Return:
				bad = true
				r3.Bad(FuncName(f)+"/escape", u.Pos(), "message (or its clone) escapes through %s", u.String())
			default:
			}
		}
	}
	if !bad {
		r3.OK(FuncName(f), f.Pos(), "message parameter and clone results are only read, cloned or handed to Handler.Serve")
	}
}

// makeCopySource: v is make([]T, len(src)[, cap]) that is filled by copy(v, src) before any other use; returns src.
func (c *Ctx) makeCopySource(v ssa.Value) ssa.Value {
	mk, ok := v.(*ssa.MakeSlice)
	if !ok {
		return nil
	}
	var src ssa.Value
	for _, u := range *mk.Referrers() {
		k, ok := u.(*ssa.Call)
		if !ok {
			continue
		}
		if b, ok := k.Call.Value.(*ssa.Builtin); ok && b.Name() == "copy" && len(k.Call.Args) == 2 && k.Call.Args[0] == ssa.Value(mk) {
			src = k.Call.Args[1]
		}
	}
	if src == nil {
		return nil
	}
	// length = len(src)
	lc, ok := mk.Len.(*ssa.Call)
	if !ok {
		return nil
	}
	if b, ok := lc.Call.Value.(*ssa.Builtin); !ok || b.Name() != "len" || !c.Same(lc.Call.Args[0], src) {
		return nil
	}
	return src
}
