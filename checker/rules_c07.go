package main

import (
	"go/token"
	"sort"

	"golang.org/x/tools/go/ssa"
)

func init() {
	register("C07", "Decided: the routing structure that makes a request complete only on its own acknowledgement. R-C07-1 a fresh buffered waiter is registered (in the signaller of the client written to, under its lock, keyed by the packet's own id) before the request is written; R-C07-2 per acknowledgement kind the chain serve-arm -> Parse type -> look-up method -> map field -> requester's registration closes; R-C07-3 every look-up deletes the entry it returns and serve's hand-over is a non-blocking send; R-C07-4 every nil-error return after registration is dominated by the receive from the registered waiter; R-C07-5 Subscribe's count comparison and index-wise copy-back. Not decided: schedules of concurrent callers (reduced to C10 lock consistency + C15 id uniqueness).", checkC07)
}

func checkC07(r *Run) {
	c := r.C
	r1 := r.Rule("R-C07-1", "register-before-write: fresh chan(cap>=1) stored in the signaller of the client written to, under sig.mu, key = packet id, dominating the write")
	r2 := r.Rule("R-C07-2", "kind table: serve arm constant <-> Parse type <-> signaller look-up <-> map field <-> requester registration")
	r3 := r.Rule("R-C07-3", "look-up consumes the entry on every path; serve hands over with a non-blocking send")
	r4 := r.Rule("R-C07-4", "success (nil error) only through the request's own waiter")
	r5 := r.Rule("R-C07-5", "SUBACK shape: count equality dominates the copy-back; ErrInvalidSubAck otherwise; same index both sides")
	r1.Floor(3)
	r4.Floor(5)
	var sites []*reqSite
	for _, s := range c.sitesOrLost(r1) {
		if s.Kind == "publish" || s.Kind == "pubrel" || s.Kind == "subscribe" || s.Kind == "unsubscribe" {
			sites = append(sites, s) // the statement speaks of Publish, Subscribe and Unsubscribe
		}
	}
	c.ruleRegisterBeforeWrite(r1, sites)
	c.ruleThreeWaySelect(r4, r4, sites)
	c.ruleServeRouting(r2, r3)
	c.ruleSubAckShape(r5)
}

// ruleSubAckShape: R-C07-5.
// subscribeImpls: the functions that write a SUBSCRIBE request, each with the slice of subscriptions the packet is built from.
func (c *Ctx) subscribeImpls() map[*ssa.Function]ssa.Value {
	out := map[*ssa.Function]ssa.Value{}
	for _, s := range c.cachedSites() {
		if s.Kind != "subscribe" || s.Write == nil || len(s.Write.Call.Args) != 2 {
			continue
		}
		_, pcall := c.packedType(s.Write.Call.Args[1])
		if pcall == nil || len(pcall.Call.Args) != 1 {
			continue
		}
		if v := c.packetField(pcall.Call.Args[0], "Subscriptions"); v != nil {
			out[s.F] = c.Resolve(v)
		}
	}
	return out
}

func (c *Ctx) ruleSubAckShape(rr *RuleRep) {
	impls := c.subscribeImpls()
	if len(impls) == 0 {
		rr.Lost("subscribeImpl", "subscribe implementation not found")
		return
	}
	rr.Floor(2)
	var fs []*ssa.Function
	for f := range impls {
		fs = append(fs, f)
	}
	sort.Slice(fs, func(i, j int) bool { return FuncName(fs[i]) < FuncName(fs[j]) })
	for _, f := range fs {
		c.ruleSubAckShapeIn(rr, f, impls[f], len(fs) > 1)
	}
}

func (c *Ctx) ruleSubAckShapeIn(rr *RuleRep, f *ssa.Function, subs ssa.Value, qualify bool) {
	pfx := "subscribeImpl"
	if qualify {
		pfx = FuncName(f)
	}
	if subs == nil {
		rr.Lost(pfx+"/subs", "no []Subscription the packet is built from")
		return
	}
	// find comparisons len(X.Codes) ? len(subs)
	isLenOf := func(v ssa.Value, pred func(ssa.Value) bool) bool {
		call, ok := v.(*ssa.Call)
		if !ok {
			return false
		}
		b, ok := call.Call.Value.(*ssa.Builtin)
		return ok && b.Name() == "len" && len(call.Call.Args) == 1 && pred(call.Call.Args[0])
	}
	isCodes := func(v ssa.Value) bool {
		_, ok := isFieldLoad(c.Resolve(v), "pktSubAck", "Codes")
		return ok
	}
	isSubs := func(v ssa.Value) bool { return c.Resolve(v) == subs }
	type eqEdge struct {
		iff  *ssa.If
		eqK  int // successor index on which lengths are equal
		neqK int
	}
	var eqs []eqEdge
	for _, b := range f.Blocks {
		iff := blockIf(b)
		if iff == nil {
			continue
		}
		bin, ok := iff.Cond.(*ssa.BinOp)
		if !ok {
			continue
		}
		if !((isLenOf(bin.X, isCodes) && isLenOf(bin.Y, isSubs)) || (isLenOf(bin.X, isSubs) && isLenOf(bin.Y, isCodes))) {
			continue
		}
		switch bin.Op {
		case token.NEQ:
			eqs = append(eqs, eqEdge{iff, 1, 0})
		case token.EQL:
			eqs = append(eqs, eqEdge{iff, 0, 1})
		}
	}
	// success returns
	nSucc := 0
	for _, ret := range returnsOf(f) {
		ev := c.errResult(ret)
		if ev == nil {
			continue
		}
		// where the nil result comes from: the return itself, or — with a single exit and a result variable — the end of
		// each block through which nil enters the join
		var points []ssa.Instruction
		switch rv := c.Resolve(ev).(type) {
		case *ssa.Phi:
			if rv.Parent() != f {
				continue
			}
			for _, lf := range phiLeaves(rv, map[ssa.Value]bool{}) {
				if lf.Pred != nil && len(lf.Pred.Instrs) > 0 && isNilConst(c.Resolve(lf.V)) {
					points = append(points, lf.Pred.Instrs[len(lf.Pred.Instrs)-1])
				}
			}
		default:
			if isNilConst(rv) {
				points = append(points, ret)
			}
		}
		for _, pt := range points {
			nSucc++
			ok := false
			for _, e := range eqs {
				if DominatedByEdge(f, pt, e.iff.Block(), e.eqK, PathQ{}) {
					ok = true
				}
			}
			if ok {
				rr.OK(pfx+"/count", pt.Pos(), "success return dominated by len(subAck.Codes) == len(subs)")
			} else {
				rr.Bad(pfx+"/count", pt.Pos(), "Subscribe can return success without having established that the SUBACK carries exactly one return code per requested filter (no dominating equality of len(Codes) and len(subs))")
			}
		}
	}
	if nSucc == 0 {
		rr.Lost(pfx+"/success", "no success return")
	}
	// mismatch edge returns ErrInvalidSubAck
	for _, e := range eqs {
		dst := e.iff.Block().Succs[e.neqK]
		reach := ReachableFromBlock(f, dst, PathQ{})
		n := 0
		for _, ret := range returnsOf(f) {
			if !reach[ret] {
				continue
			}
			n++
			ev := c.errResult(ret)
			if phi, isPhi := c.Resolve(ev).(*ssa.Phi); isPhi && phi.Parent() == f {
				// a result variable: what it holds on the paths through the mismatch edge
				if vs, reached := valuesAlong(f, ifEdge{e.iff.Block(), e.neqK}, ret, phi, nil); reached && len(vs) == 1 {
					ev = vs[0]
				}
			}
			call, callee := c.asCall(ev)
			if call != nil && callee != nil && callee.Pkg == c.Pkg && len(call.Call.Args) > 0 && c.isGlobalLoad(call.Call.Args[0], "ErrInvalidSubAck") {
				rr.OK(pfx+"/mismatch", ret.Pos(), "count mismatch returns an error whose cause is ErrInvalidSubAck")
			} else {
				rr.Bad(pfx+"/mismatch", ret.Pos(), "count mismatch does not return ErrInvalidSubAck")
			}
		}
		if n == 0 {
			rr.Bad(pfx+"/mismatch", e.iff.Pos(), "count mismatch edge does not return")
		}
	}
	// copy-back: stores to Subscription.QoS through subs[i] with value from Codes[i]
	nCopy := 0
	eachInstr(f, func(in ssa.Instruction) {
		st, ok := in.(*ssa.Store)
		if !ok {
			return
		}
		fa, ok := st.Addr.(*ssa.FieldAddr)
		if !ok || typeName(fa.X.Type()) != "Subscription" {
			return
		}
		_, fld := fieldOf(fa)
		nCopy++
		if fld == nil || fld.Name() != "QoS" {
			rr.Bad(pfx+"/copy-back", st.Pos(), "Subscribe overwrites field %s of the caller's subscription", fld.Name())
			return
		}
		ia, ok := fa.X.(*ssa.IndexAddr)
		if !ok || c.Resolve(ia.X) != subs {
			rr.Bad(pfx+"/copy-back", st.Pos(), "granted QoS is not stored into the caller's subs slice")
			return
		}
		v := stripConv(st.Val)
		ld, ok := v.(*ssa.UnOp)
		var ia2 *ssa.IndexAddr
		if ok && ld.Op == token.MUL {
			ia2, _ = ld.X.(*ssa.IndexAddr)
		}
		if ia2 == nil || !isCodes(ia2.X) {
			rr.Bad(pfx+"/copy-back", st.Pos(), "granted QoS is not taken from the SUBACK return codes")
			return
		}
		if ia.Index != ia2.Index {
			rr.Bad(pfx+"/copy-back", st.Pos(), "granted QoS for filter %s is taken from return code %s: request order is not preserved", ia.Index.Name(), ia2.Index.Name())
			return
		}
		// index starts at 0 and steps by 1
		if phi, ok := ia.Index.(*ssa.Phi); ok {
			okIdx := false
			for _, e := range phi.Edges {
				if k, ok := constInt(e); ok && k == 0 {
					okIdx = true
				}
			}
			if !okIdx {
				rr.Bad(pfx+"/copy-back", st.Pos(), "copy-back index does not start at 0")
				return
			}
		}
		// executed for every index: no path from the index increment round the loop that skips the store
		if phi, ok := ia.Index.(*ssa.Phi); ok {
			hdr := phi.Block()
			if iff := blockIf(hdr); iff != nil && len(hdr.Succs[0].Instrs) > 0 {
				first := hdr.Succs[0].Instrs[0]
				if first != ssa.Instruction(st) {
					if _, skip := CanReach(f, first, func(x ssa.Instruction) bool { return x.Block() == hdr || realExit(x) }, PathQ{BlockInstr: func(x ssa.Instruction) bool { return x == ssa.Instruction(st) }}); skip {
						rr.Bad(pfx+"/copy-back", st.Pos(), "the granted QoS is copied back only under an additional condition: some return codes (e.g. the failure code 0x80) are not reported to the caller")
						return
					}
				}
			}
		}
		rr.OK(pfx+"/copy-back", st.Pos(), "subs[i].QoS = QoS(subAck.Codes[i]) with the same index, from 0, for every index")
	})
	if nCopy == 0 {
		rr.Bad(pfx+"/copy-back", f.Pos(), "granted QoS values are not copied back into the returned subscriptions")
	}
}
