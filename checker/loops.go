package main

import (
	"golang.org/x/tools/go/ssa"
)

// innermostLoop: the innermost natural loop containing block b — its header (a block that dominates b and can be reached
// again from b) and its blocks (those the header dominates and from which the header can be reached). Nil when b is in no
// loop.
func innermostLoop(b *ssa.BasicBlock) (*ssa.BasicBlock, map[*ssa.BasicBlock]bool) {
	f := b.Parent()
	reach := func(from *ssa.BasicBlock, to *ssa.BasicBlock) bool {
		seen := map[*ssa.BasicBlock]bool{}
		work := append([]*ssa.BasicBlock{}, from.Succs...)
		for len(work) > 0 {
			x := work[len(work)-1]
			work = work[:len(work)-1]
			if x == to {
				return true
			}
			if seen[x] {
				continue
			}
			seen[x] = true
			work = append(work, x.Succs...)
		}
		return false
	}
	var header *ssa.BasicBlock
	for _, h := range f.Blocks {
		if !h.Dominates(b) || !reach(b, h) {
			continue
		}
		// a header has a back edge: a predecessor it dominates
		back := false
		for _, p := range h.Preds {
			if h.Dominates(p) {
				back = true
			}
		}
		if !back {
			continue
		}
		if header == nil || header.Dominates(h) {
			header = h
		}
	}
	if header == nil {
		return nil, nil
	}
	blocks := map[*ssa.BasicBlock]bool{}
	for _, x := range f.Blocks {
		if header.Dominates(x) && (x == header || reach(x, header)) {
			blocks[x] = true
		}
	}
	return header, blocks
}
