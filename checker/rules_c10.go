package main

import (
	"fmt"
	"go/token"
	"go/types"
	"sort"
	"strings"

	"golang.org/x/tools/go/ssa"
)

func init() {
	register("C10", "This is a lock-discipline property and is decided as one: R-C10-1 every field of the shared structs (BaseClient, signaller, RetryClient, reconnectClient, ReconnectOptions, firstError and their stats) has one consistent protection on all paths of all functions — every write shares an exclusively-held lock with every other access, or all accesses are confined to one goroutine context, or the field is only touched through sync/atomic, or never written after construction, or the write happens before the goroutine that reads it is spawned (lock-sets from an interprocedural must-analysis; goroutine contexts from the call graph including task/retry closures); R-C10-2 Transport.Write is called only from BaseClient.write, with muWrite of the shared client (not of a by-value copy) held over the whole buffer; R-C10-3 every operand of write() is one whole packet (the unsliced result of a Pack()/pack()); R-C10-4 the retry queue, the established-subscription list and the retry flag are confined to the task goroutine; R-C10-5 the deleting signaller look-ups run only in the reader goroutine; R-C10-6 the id counter is atomic. Not decided: races inside user callbacks, on the *Message the application passes in, or in the mock/paho packages; schedule-level confirmation is the race detector's job.", checkC10)
}

var sharedStructs = map[string]bool{"BaseClient": true, "signaller": true, "RetryClient": true, "reconnectClient": true, "ReconnectOptions": true, "firstError": true}

type fieldAccess struct {
	Field string // Type.field or Type.field[] for contents
	Write bool
	Atom  bool
	In    ssa.Instruction
	Fn    *ssa.Function
	Locks lockSet
	Fresh bool // object freshly allocated in this function (construction)
}

// outerField walks a FieldAddr chain up to the outermost shared struct field: &c.stats.TotalTasks -> RetryClient.stats
func outerField(fa *ssa.FieldAddr) (string, ssa.Value, bool) {
	cur := fa
	path := ""
	for {
		owner := typeName(cur.X.Type())
		_, fld := fieldOf(cur)
		if fld == nil {
			return "", nil, false
		}
		if sharedStructs[owner] {
			return owner + "." + fld.Name() + path, cur.X, true
		}
		// a field of a struct held by value inside a shared struct: named by its full path, so that parts with different
		// protection (c.tasks.ch / c.tasks.stopped) are judged separately; accesses to the whole inner struct are judged
		// together with each of its parts (see the grouping in checkC10)
		path = "." + fld.Name() + path
		inner, ok := cur.X.(*ssa.FieldAddr)
		if !ok {
			return "", nil, false
		}
		cur = inner
	}
}

func isMutexType(t types.Type) bool {
	n := namedOf(t)
	return n != nil && n.Obj().Pkg() != nil && n.Obj().Pkg().Path() == "sync"
}

func (c *Ctx) collectAccesses() []fieldAccess {
	la := c.locks()
	var out []fieldAccess
	add := func(field string, write, atom bool, in ssa.Instruction, base ssa.Value) {
		fresh := false
		if al, ok := base.(*ssa.Alloc); ok && al.Parent() == in.Parent() {
			fresh = true
		}
		out = append(out, fieldAccess{Field: field, Write: write, Atom: atom, In: in, Fn: in.Parent(), Locks: la.at[in], Fresh: fresh})
	}
	for _, f := range c.Funcs {
		eachInstr(f, func(in ssa.Instruction) {
			fa, ok := in.(*ssa.FieldAddr)
			if !ok {
				return
			}
			_, fld := fieldOf(fa)
			if fld == nil || isMutexType(fld.Type()) {
				return
			}
			name, base, ok := outerField(fa)
			if !ok {
				return
			}
			// nested: only classify at the innermost FieldAddr that is actually loaded/stored
			for _, u := range *fa.Referrers() {
				switch x := u.(type) {
				case *ssa.FieldAddr:
					// handled when visiting the inner FieldAddr
				case *ssa.UnOp:
					if x.Op != token.MUL {
						continue
					}
					add(name, false, false, x, base)
					// contents
					for _, uu := range *x.Referrers() {
						switch y := uu.(type) {
						case *ssa.MapUpdate:
							if y.Map == ssa.Value(x) {
								add(name+"[]", true, false, y, base)
							}
						case *ssa.Lookup:
							if y.X == ssa.Value(x) {
								add(name+"[]", false, false, y, base)
							}
						case *ssa.Range:
							add(name+"[]", false, false, y, base)
						case *ssa.Call, *ssa.Defer:
							cc := callCommon(uu.(ssa.Instruction))
							if b, ok := cc.Value.(*ssa.Builtin); ok && b.Name() == "delete" && len(cc.Args) > 0 && cc.Args[0] == ssa.Value(x) {
								// a deferred delete runs at function exit with the deferred unlocks not yet run if it was deferred later; use the set at the defer
								add(name+"[]", true, false, uu.(ssa.Instruction), base)
							}
						case *ssa.IndexAddr:
							for _, u3 := range *y.Referrers() {
								if st, ok := u3.(*ssa.Store); ok && st.Addr == ssa.Value(y) {
									add(name+"[]", true, false, st, base)
								}
								if ld, ok := u3.(*ssa.UnOp); ok && ld.Op == token.MUL {
									add(name+"[]", false, false, ld, base)
								}
							}
						}
					}
				case *ssa.Store:
					if x.Addr == ssa.Value(fa) {
						add(name, true, false, x, base)
					}
				case *ssa.Call, *ssa.Go, *ssa.Defer:
					cc := callCommon(u.(ssa.Instruction))
					callee := cc.StaticCallee()
					if callee != nil && callee.Pkg != nil && callee.Pkg.Pkg.Path() == "sync/atomic" {
						add(name, strings.HasPrefix(callee.Name(), "Store") || strings.HasPrefix(callee.Name(), "Add") || strings.HasPrefix(callee.Name(), "Swap") || strings.HasPrefix(callee.Name(), "CompareAndSwap"), true, u.(ssa.Instruction), base)
						continue
					}
					// address passed to a call (e.g. &c.subEstablished to applyTo): the callee may write through it
					add(name, true, false, u.(ssa.Instruction), base)
				}
			}
		})
	}
	return out
}

// goroutineContexts: for each function, the set of goroutine contexts it may run in.
func (c *Ctx) goroutineContexts() (map[*ssa.Function]map[string]bool, map[string]*ssa.Function, map[string]map[string]bool) {
	la := c.locks()
	roots := map[string]*ssa.Function{}
	spawner := map[string]*ssa.Function{} // context -> function containing the go statement
	for _, f := range c.Funcs {
		eachInstr(f, func(in ssa.Instruction) {
			g, ok := in.(*ssa.Go)
			if !ok {
				return
			}
			if fn := c.StaticCalleeOf(&g.Call); fn != nil {
				name := "go:" + FuncName(fn)
				roots[name] = fn
				spawner[name] = f
			}
		})
	}
	ctxs := map[*ssa.Function]map[string]bool{}
	mark := func(root *ssa.Function, name string) {
		seen := map[*ssa.Function]bool{root: true}
		work := []*ssa.Function{root}
		for len(work) > 0 {
			f := work[len(work)-1]
			work = work[:len(work)-1]
			if ctxs[f] == nil {
				ctxs[f] = map[string]bool{}
			}
			ctxs[f][name] = true
			next := append([]*ssa.Function{}, c.calleesOf(f, false)...)
			next = append(next, la.dynEdges[f]...)
			for _, g := range next {
				if !seen[g] {
					seen[g] = true
					work = append(work, g)
				}
			}
		}
	}
	for name, fn := range roots {
		mark(fn, name)
	}
	// API context: exported functions, exported methods of exported types and of the unexported types handed to users
	escaping := map[string]bool{"reconnectClient": true, "requestContext": true, "errorWithRetry": true}
	for _, f := range c.Funcs {
		if f.Parent() != nil || f.Object() == nil || !f.Object().Exported() {
			continue
		}
		if recv := f.Signature.Recv(); recv != nil {
			tn := typeName(recv.Type())
			n := c.NamedType(tn)
			if n == nil || (!n.Obj().Exported() && !escaping[tn]) {
				continue
			}
		}
		mark(f, "api")
	}
	// context -> set of contexts it (transitively) spawns
	spawns := map[string]map[string]bool{}
	for name, sp := range spawner {
		for parentCtx := range ctxs[sp] {
			if spawns[parentCtx] == nil {
				spawns[parentCtx] = map[string]bool{}
			}
			spawns[parentCtx][name] = true
		}
	}
	return ctxs, spawner, spawns
}

func ctxString(m map[string]bool) string {
	var s []string
	for k := range m {
		s = append(s, k)
	}
	sort.Strings(s)
	return "{" + strings.Join(s, ",") + "}"
}

func checkC10(r *Run) {
	c := r.C
	r1 := r.Rule("R-C10-1", "consistent protection of every shared field: common exclusive lock / single-goroutine confinement / atomic / read-only after construction / written before the reading goroutine is spawned")
	r2 := r.Rule("R-C10-2", "single writer to the wire: Transport.Write only in BaseClient.write under muWrite of the shared client")
	r3 := r.Rule("R-C10-3", "every operand of write() is one whole packet (unsliced Pack()/pack() result)")
	r4 := r.Rule("R-C10-4", "retryQueue, subEstablished and newRetryByError are confined to the task goroutine")
	r5 := r.Rule("R-C10-5", "the deleting signaller look-ups are called only from the reader goroutine's serve")
	r6 := r.Rule("R-C10-6", "the id counter is accessed only through sync/atomic")
	r7 := r.Rule("R-C10-7", "a variable captured by a goroutine closure is not written after that goroutine may have started (outside the goroutine itself)")
	r1.Floor(15)
	r3.Floor(6)
	c.ruleCapturedVars(r7)
	la := c.locks()
	accs := c.collectAccesses()
	ctxs, spawner, _ := c.goroutineContexts()
	byField := map[string][]fieldAccess{}
	for _, a := range accs {
		if a.Fresh {
			continue
		}
		// option closures configure an object before it is shared
		top := enclosingTop(a.Fn)
		if strings.HasPrefix(top.Name(), "With") && a.Fn.Parent() != nil {
			continue
		}
		byField[a.Field] = append(byField[a.Field], a)
	}
	// an access to a whole inner struct (stats := c.stats) touches every part of it
	{
		own := map[string][]fieldAccess{}
		for k, v := range byField {
			own[k] = v
		}
		for k := range own {
			for anc, as := range own {
				if anc != k && strings.HasPrefix(k, anc+".") {
					byField[k] = append(byField[k], as...)
					byField[anc] = append(byField[anc], own[k]...)
				}
			}
		}
	}
	var fields []string
	for f := range byField {
		fields = append(fields, f)
	}
	sort.Strings(fields)
	// pre-spawn: write instruction w (in function g) happens before goroutine context X is spawned
	preSpawn := func(w fieldAccess, readerCtx map[string]bool) bool {
		if len(readerCtx) == 0 {
			return false
		}
		for name := range readerCtx {
			sp := spawner[name]
			if sp == nil {
				return false
			}
			// the go statement(s) in sp creating `name`
			var gos []ssa.Instruction
			eachInstr(sp, func(in ssa.Instruction) {
				if g, ok := in.(*ssa.Go); ok {
					if fn := c.StaticCalleeOf(&g.Call); fn != nil && "go:"+FuncName(fn) == name {
						gos = append(gos, in)
					}
				}
			})
			// locate w relative to sp: w in sp itself, or in a callee invoked from sp at a single site
			var at ssa.Instruction
			if w.Fn == sp {
				at = w.In
			} else {
				sites := la.callers[w.Fn]
				if len(sites) != 1 || sites[0].Parent() != sp {
					// transitive spawn (e.g. keep-alive goroutine spawned by the reconnect loop spawned by Connect): walk up
					parentOK := false
					for pctx := range ctxs[sp] {
						if preSpawnCtx(c, la, spawner, w, pctx) {
							parentOK = true
						}
					}
					if !parentOK {
						return false
					}
					continue
				}
				at = sites[0]
			}
			// the write must belong to the invocation that spawns: a function that starts its goroutine only the first time
			// it is called (SetClient: `if c.chTask != nil { return }`) but writes the field every time races with the
			// goroutine from the second call on. So: no way from the write to a return that does not pass a spawn.
			isGo := func(x ssa.Instruction) bool {
				for _, g := range gos {
					if x == g {
						return true
					}
				}
				return false
			}
			if len(gos) > 0 && !isGo(at) {
				isRet := func(x ssa.Instruction) bool { _, r := x.(*ssa.Return); return r }
				skips := false
				if blk := at.Block(); blk != nil && len(blk.Preds) == 1 {
					// whole paths through the edge that leads to the write (a flag tested before the write and again before
					// the early return is known on them)
					pr := blk.Preds[0]
					for k, sc := range pr.Succs {
						if sc == blk {
							e := ifEdge{pr, k}
							if _, found := CanReach(sp, nil, isRet, PathQ{BlockInstr: isGo, MustEdge: &e}); found {
								skips = true
							}
						}
					}
				} else {
					_, skips = CanReach(sp, at, isRet, PathQ{BlockInstr: isGo})
				}
				if skips {
					return false
				}
			}
			for _, g := range gos {
				if _, after := CanReach(sp, g, func(x ssa.Instruction) bool { return x == at }, PathQ{}); after {
					return false
				}
				if !Dominated(sp, g, func(x ssa.Instruction) bool { return x == at }, PathQ{}) {
					// the write need not dominate the spawn, but must not follow it; accepted
				}
			}
		}
		return true
	}
	confined := map[string]string{}
	for _, fld := range fields {
		as := byField[fld]
		var writes []fieldAccess
		for _, a := range as {
			if a.Write {
				writes = append(writes, a)
			}
		}
		if strings.HasPrefix(fld, "ServeMux.") {
			continue
		}
		if len(writes) == 0 {
			r1.OKt(fld, as[0].In.Pos(), "never written after construction (%d reads)", len(as))
			continue
		}
		allAtomic := true
		for _, a := range as {
			if !a.Atom {
				allAtomic = false
			}
		}
		if allAtomic {
			r1.OK(fld, as[0].In.Pos(), "accessed only through sync/atomic (%d sites)", len(as))
			continue
		}
		// single-context confinement
		union := map[string]bool{}
		for _, a := range as {
			for k := range ctxs[a.Fn] {
				union[k] = true
			}
			if len(ctxs[a.Fn]) == 0 {
				union["?"+FuncName(a.Fn)] = true
			}
		}
		if len(union) == 1 && !union["api"] {
			for k := range union {
				confined[fld] = k
				r1.OK(fld, as[0].In.Pos(), "all %d accesses are confined to goroutine context %s", len(as), k)
			}
			continue
		}
		bad := false
		lifecycle := map[string]bool{"(*reconnectClient).Connect": true, "(*BaseClient).Connect": true, "(*RetryClient).SetClient": true, "NewReconnectClient": true}
		single := func(f *ssa.Function) bool { return len(ctxs[f]) == 1 && !ctxs[f]["api"] }
		for _, w := range writes {
			for _, a := range as {
				if a.In == w.In {
					continue
				}
				ok := false
				// (i) a common lock held exclusively by at least one of the two (mutual exclusion)
				for L, wm := range w.Locks {
					if am, held := a.Locks[L]; held && (wm == 'w' || am == 'w') {
						ok = true
					}
				}
				// (ii) same single non-api goroutine
				if !ok && single(w.Fn) && ctxString(ctxs[w.Fn]) == ctxString(ctxs[a.Fn]) {
					ok = true
				}
				// (iii) both atomic
				if !ok && w.Atom && a.Atom {
					ok = true
				}
				// (iv) one access precedes the spawn of the goroutine(s) the other runs in
				if !ok && !ctxs[a.Fn]["api"] && preSpawn(w, ctxs[a.Fn]) {
					ok = true
				}
				if !ok && a.Write && !ctxs[w.Fn]["api"] && preSpawn(a, ctxs[w.Fn]) {
					ok = true
				}
				// (v) both in the same lifecycle function (called once per object; program order)
				if !ok && w.Fn == a.Fn && lifecycle[FuncName(w.Fn)] {
					ok = true
				}
				if !ok {
					bad = true
					mode := "read"
					if a.Write {
						mode = "write"
					}
					r1.Bad(fld, w.In.Pos(), "field %s: the write in %s (locks %s, goroutines %s) and the %s in %s at %s (locks %s, goroutines %s) are not mutually excluded by a common lock, not confined to one goroutine and not ordered by a goroutine start: a data race under some schedule", fld, FuncName(w.Fn), w.Locks, ctxString(ctxs[w.Fn]), mode, FuncName(a.Fn), c.PosStr(a.In.Pos()), a.Locks, ctxString(ctxs[a.Fn]))
					break
				}
			}
			if bad {
				break
			}
		}
		if !bad {
			r1.OK(fld, writes[0].In.Pos(), "%d write(s) / %d accesses pairwise protected (common exclusive lock, confinement or spawn order)", len(writes), len(as))
		}
	}
	// locks on by-value copies
	for _, in := range la.copyLock {
		r1.Bad(FuncName(in.Parent())+"/lock-on-copy", in.Pos(), "a mutex is locked inside a by-value copy of its struct (value receiver / local copy): the lock excludes nobody")
	}
	// ---- R-C10-4
	a := c.retryAnchors()
	if !a.lost(r4) {
		for _, fv := range []*types.Var{a.RetryQueue, a.SubEst, a.NewRetry} {
			name := "RetryClient." + fv.Name()
			bad := false
			for _, acc := range append(byField[name], byField[name+"[]"]...) {
				cx := ctxs[acc.Fn]
				if len(cx) != 1 || !strings.HasPrefix(ctxString(cx), "{go:(*RetryClient).SetClient$") {
					bad = true
					r4.Bad(name, acc.In.Pos(), "%s is accessed in %s, which runs in %s: the field is owned by the task goroutine and has no lock", name, FuncName(acc.Fn), ctxString(cx))
					break
				}
			}
			if !bad {
				r4.OK(name, token.NoPos, "all %d accesses run only in the task goroutine", len(byField[name])+len(byField[name+"[]"]))
			}
		}
	}
	// ---- R-C10-2
	write := c.Method("BaseClient", "write")
	tF := c.structField("BaseClient", "Transport")
	nW := 0
	for _, f := range c.Funcs {
		eachInstr(f, func(in ssa.Instruction) {
			cc := callCommon(in)
			if cc == nil || !cc.IsInvoke() || cc.Method.Name() != "Write" {
				return
			}
			if _, isT := isLoadOfField(cc.Value, tF); !isT {
				return
			}
			nW++
			key := FuncName(f) + "/Transport.Write"
			if f != write {
				r2.Bad(key, in.Pos(), "Transport.Write is called outside BaseClient.write: this writer is not serialised with the others and packets can interleave on the wire")
				return
			}
			if la.at[in][lockID("BaseClient."+aliasField("BaseClient", "muWrite"))] != 'w' {
				r2.Bad(key, in.Pos(), "Transport.Write is called without the shared client's muWrite held (held: %s): concurrent writers — the reader goroutine's acknowledgements, pings, other callers — can interleave their bytes inside a packet", la.at[in])
				return
			}
			// whole buffer in one critical section: no Unlock between loop iterations
			isUnlock := func(x ssa.Instruction) bool {
				lo := c.lockOpOf(x)
				return lo != nil && !lo.Defer && lo.Field.Name() == aliasField("BaseClient", "muWrite") && lo.Op == "Unlock"
			}
			if _, again := CanReach(f, in, func(x ssa.Instruction) bool { return x == in }, PathQ{BlockInstr: func(x ssa.Instruction) bool { return !isUnlock(x) && false }}); again {
				if _, viaUnlock := CanReach(f, in, isUnlock, PathQ{BlockInstr: func(x ssa.Instruction) bool { return x == in }}); viaUnlock {
					if _, back := CanReach(f, in, func(x ssa.Instruction) bool { return x == in }, PathQ{}); back {
						// there is a loop; make sure it does not pass an Unlock
						if _, loopNoUnlock := CanReach(f, in, func(x ssa.Instruction) bool { return x == in }, PathQ{BlockInstr: isUnlock}); !loopNoUnlock {
							r2.Bad(key, in.Pos(), "muWrite is released between partial writes of one packet")
							return
						}
					}
				}
			}
			r2.OK(key, in.Pos(), "the only Transport.Write site; BaseClient.muWrite held exclusively over the whole buffer")
		})
	}
	if nW == 0 {
		r2.Lost("Transport.Write", "no Transport.Write call found")
	}
	// ---- R-C10-3
	for _, f := range c.Funcs {
		eachInstr(f, func(in ssa.Instruction) {
			if !c.isCallTo(in, write) {
				return
			}
			k := in.(*ssa.Call)
			key := FuncName(f) + "/write-operand"
			pt, pcall := c.packedType(k.Call.Args[1])
			if phi, isPhi := c.Resolve(k.Call.Args[1]).(*ssa.Phi); isPhi && (pt == "" || pcall == nil) {
				// `var reply []byte` assigned a packed packet per case and written once below: every value that can arrive is a
				// whole packet, or nil (nothing is written)
				whole, n := true, 0
				for _, lf := range phiLeaves(phi, map[ssa.Value]bool{}) {
					lv := c.Resolve(lf.V)
					if isNilConst(lv) {
						continue
					}
					t, pc := c.packedType(lv)
					if t == "" || pc == nil {
						whole = false
					}
					pt = t
					n++
				}
				if whole && n > 0 {
					r3.OK(key, in.Pos(), "operand is, on every way it is assigned, nil or the whole result of a Pack()/pack() call")
					return
				}
				pt, pcall = "", nil
			}
			if pt == "" || pcall == nil {
				r3.Bad(key, in.Pos(), "write() is given %s, which is not the complete result of a Pack()/pack() call: a packet written in pieces can be interleaved with another writer's packet", describeVal(c.Resolve(k.Call.Args[1])))
				return
			}
			r3.OK(key, in.Pos(), "operand is the whole result of %s", pt)
		})
	}
	// ---- R-C10-5
	serve := c.Method("BaseClient", "serve")
	// the deleting look-ups: functions that delete from a map field of the signaller
	nDel := 0
	for _, m := range c.Funcs {
		deletes := false
		eachInstr(m, func(in ssa.Instruction) {
			cc := callCommon(in)
			if cc == nil {
				return
			}
			b, ok := cc.Value.(*ssa.Builtin)
			if !ok || b.Name() != "delete" || len(cc.Args) != 2 {
				return
			}
			if ld, ok := cc.Args[0].(*ssa.UnOp); ok {
				if fa, ok := ld.X.(*ssa.FieldAddr); ok && inSignaller(fa) {
					deletes = true
				}
			}
		})
		if !deletes {
			continue
		}
		nDel++
		name := FuncName(m)
		if m == serve {
			r5.OK(name, m.Pos(), "the look-up and its delete are part of serve itself")
			continue
		}
		bad := false
		for _, site := range la.callers[m] {
			if site.Parent() != serve {
				bad = true
				r5.Bad(name, site.Pos(), "%s is called from %s: the look-up deletes under a read lock, which is only safe while a single goroutine (the reader) performs look-ups", name, FuncName(site.Parent()))
			}
		}
		if !bad {
			r5.OK(name, m.Pos(), "called only from serve (%d site(s))", len(la.callers[m]))
		}
	}
	if nDel == 0 {
		r5.Lost("(*signaller) look-ups", "no function deletes a waiter from the signaller")
	}
	// ---- R-C10-6
	im := c.idModel()
	okAtomic := len(im.Accesses) > 0
	for _, acc := range im.Accesses {
		if acc.Kind == "plain" || acc.Kind == "escape" {
			okAtomic = false
			r6.Bad("BaseClient.idLast", acc.In.Pos(), "non-atomic access to the id counter in %s", FuncName(acc.Fn))
		}
	}
	if okAtomic {
		r6.OK("BaseClient.idLast", im.Accesses[0].In.Pos(), "%d accesses, all operands of sync/atomic calls", len(im.Accesses))
	}
	_ = fmt.Sprintf
}

// preSpawnCtx: w happens before context pctx spawns its children (used for transitive spawns).
func preSpawnCtx(c *Ctx, la *lockAnalysis, spawner map[string]*ssa.Function, w fieldAccess, pctx string) bool {
	sp := spawner[pctx]
	if sp == nil {
		return false
	}
	var at ssa.Instruction
	if w.Fn == sp {
		at = w.In
	} else {
		sites := la.callers[w.Fn]
		if len(sites) != 1 || sites[0].Parent() != sp {
			return false
		}
		at = sites[0]
	}
	ok := true
	eachInstr(sp, func(in ssa.Instruction) {
		if g, isGo := in.(*ssa.Go); isGo {
			if fn := c.StaticCalleeOf(&g.Call); fn != nil && "go:"+FuncName(fn) == pctx {
				if _, after := CanReach(sp, in, func(x ssa.Instruction) bool { return x == at }, PathQ{}); after {
					ok = false
				}
			}
		}
	})
	return ok
}

// ruleCapturedVars: for every `go` statement whose callee is a closure, every captured variable (heap cell) must not be
// stored to on any path after the go statement by the spawning function (or its other closures running in the spawner's
// goroutine) — the spawned goroutine reads it without synchronisation.
func (c *Ctx) ruleCapturedVars(rr *RuleRep) {
	n := 0
	for _, f := range c.Funcs {
		eachInstr(f, func(in ssa.Instruction) {
			g, ok := in.(*ssa.Go)
			if !ok {
				return
			}
			mc, ok := g.Call.Value.(*ssa.MakeClosure)
			if !ok {
				return
			}
			fn, _ := mc.Fn.(*ssa.Function)
			for bi, b := range mc.Bindings {
				cell, ok := c.addrRoot(b).(*ssa.Alloc)
				if !ok {
					continue
				}
				n++
				name := cell.Comment
				if fn != nil && bi < len(fn.FreeVars) {
					name = fn.FreeVars[bi].Name()
				}
				key := FuncName(f) + "/go-capture/" + name
				// is the variable used inside the goroutine at all?
				bad := false
				for _, st := range c.cellStores[cell] {
					sf := st.Parent()
					if fn != nil && (sf == fn || enclosingIs(sf, fn)) {
						continue // written by the goroutine itself
					}
					if sf == f {
						// a fresh cell is allocated each time control passes the `new` instruction: only paths that reach the store without re-allocating matter
						if _, after := CanReach(f, in, func(x ssa.Instruction) bool { return x == ssa.Instruction(st) }, PathQ{BlockInstr: func(x ssa.Instruction) bool { return x == ssa.Instruction(cell) }}); after {
							bad = true
							rr.Bad(key, st.Pos(), "variable %s is captured by the goroutine started at %s and assigned again afterwards (e.g. on the next loop iteration): the goroutine reads whatever the variable holds when it gets round to it — a data race, and it may act on the wrong object", name, c.PosStr(in.Pos()))
							break
						}
					} else if sf.Parent() == f || enclosingIs(sf, f) {
						// another closure of the spawner: runs in the spawner's goroutine (e.g. sync.Once body) — a write there after the go races too
						bad2 := false
						for _, mc2 := range c.makeClosures[sf] {
							if mc2.Parent() == f {
								if _, after := CanReach(f, in, func(x ssa.Instruction) bool { return x == ssa.Instruction(mc2) }, PathQ{}); after {
									bad2 = true
								}
							}
						}
						if bad2 {
							bad = true
							rr.Bad(key, st.Pos(), "variable %s is captured by the goroutine started at %s and written by closure %s created afterwards", name, c.PosStr(in.Pos()), FuncName(sf))
							break
						}
					}
				}
				if !bad {
					rr.OK(key, in.Pos(), "captured variable %s is not assigned after the goroutine starts", name)
				}
			}
		})
	}
	if n == 0 {
		rr.OKt("go-captures", token.NoPos, "no goroutine closure captures a variable")
	}
}

func enclosingIs(f, anc *ssa.Function) bool {
	for p := f.Parent(); p != nil; p = p.Parent() {
		if p == anc {
			return true
		}
	}
	return false
}
