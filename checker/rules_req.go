package main

import (
	"fmt"
	"go/token"
	"go/types"

	"golang.org/x/tools/go/ssa"
)

// Rules over the request/acknowledgement sites (publishImpl, its PUBREL stage, subscribeImpl,
// unsubscribeImpl, Ping, Connect). Shared by C01, C02, C07, C11, C12, C15, C18, C19.

func (c *Ctx) sitesOrLost(rr *RuleRep) []*reqSite {
	sites, problems := c.requestSites()
	for _, p := range problems {
		rr.Lost("request-sites", "%s", p)
	}
	if len(sites) == 0 {
		rr.Lost("request-sites", "no request site (call of (*BaseClient).write with a request packet) found")
	}
	return sites
}

func (c *Ctx) sameID(a, b ssa.Value) bool {
	ra, rb := c.Resolve(a), c.Resolve(b)
	if ra == rb {
		return true
	}
	ba, ok1 := isFieldLoad(ra, "Message", "ID")
	bb, ok2 := isFieldLoad(rb, "Message", "ID")
	return ok1 && ok2 && c.Resolve(ba) == c.Resolve(bb)
}

// packetIDOf: identifier placed into the request packet written at site s.
func (c *Ctx) packetIDOf(s *reqSite) (ssa.Value, string) {
	_, pcall := c.packedType(s.Write.Call.Args[1])
	if pcall == nil || len(pcall.Call.Args) < 1 {
		return nil, "packet operand of write is not a Pack() result"
	}
	if lit, _ := c.packetLiteral(pcall.Call.Args[0]); lit == nil {
		return nil, "Pack receiver is not a packet literal"
	}
	if s.Kind == "publish" {
		// id travels as message.ID
		return nil, ""
	}
	v := c.packetField(pcall.Call.Args[0], "ID")
	if v == nil {
		return nil, "packet literal has no single ID store"
	}
	return v, ""
}

// ruleRegisterBeforeWrite: R-C07-1.
func (c *Ctx) ruleRegisterBeforeWrite(rr *RuleRep, sites []*reqSite, opts ...string) {
	// opts: "no-sig-origin" skips the check that the signaller belongs to the client written to; "no-fresh-in-stage" skips the check that the channel is created in the registering stage
	has := func(o string) bool {
		for _, x := range opts {
			if x == o {
				return true
			}
		}
		return false
	}
	sigM := c.Method("BaseClient", "signaller")
	for _, s := range sites {
		if s.AckT == "" {
			continue
		}
		key := s.Name
		if s.Reg == nil {
			rr.Bad(key, s.Write.Pos(), "no registration of a %s waiter found before this request is written: the acknowledgement could never be routed to the caller", s.AckT)
			continue
		}
		// (a) registration dominates the write
		if !Dominated(s.F, s.Write, func(in ssa.Instruction) bool { return in == s.Reg }, s.Q) {
			rr.Bad(key, s.Reg.Pos(), "the %s waiter is not registered on every path before the request is written (write at %s): an acknowledgement arriving right after the write finds no waiter and is dropped", s.AckT, c.PosStr(s.Write.Pos()))
			continue
		}
		// (b) signaller belongs to the client written to
		okSig := false
		if ex, ok := s.SigBase.(*ssa.Extract); ok && ex.Index == 0 {
			if call, ok := ex.Tuple.(*ssa.Call); ok && sigM != nil && c.StaticCalleeOf(&call.Call) == sigM && len(call.Call.Args) == 1 && c.Resolve(call.Call.Args[0]) == s.Cli && call.Parent() == s.F {
				okSig = true
			}
		}
		if !okSig {
			// Connect: c.sig field of the same client
			if u, ok := s.SigBase.(*ssa.UnOp); ok && u.Op == token.MUL {
				if b, ok := isFieldAddr(u.X, "BaseClient", "sig"); ok && c.Resolve(b) == s.Cli {
					okSig = true
				}
			}
		}
		if !okSig && !has("no-sig-origin") {
			rr.Bad(key, s.Reg.Pos(), "the waiter is registered in a signaller that is not obtained, in this function, from the client the request is written to (%s): on a retry with a new client the acknowledgement is routed to the old connection's waiter table", s.SigBase.String())
			continue
		}
		// (c) channel freshly made in this function with capacity >= 1
		mk, ok := s.RegChan.(*ssa.MakeChan)
		if !ok && s.RegViaHelper != nil && s.RegChan == ssa.Value(s.Reg.(*ssa.Call)) {
			// the helper makes the buffered channel itself (checked by its summary)
		} else if !ok {
			rr.Bad(key, s.Reg.Pos(), "registered waiter is not a freshly made channel (%s)", s.RegChan.String())
			continue
		}
		if mk != nil && mk.Parent() != s.F && !has("no-fresh-in-stage") {
			rr.Bad(key, s.Reg.Pos(), "the waiter channel is created in %s, not in the stage that registers it: an acknowledgement delivered before this stage started would already sit in it and complete the request spuriously", FuncName(mk.Parent()))
			continue
		}
		if mk == nil {
		} else if n, ok := constInt(mk.Size); !ok || n < 1 {
			rr.Bad(key, mk.Pos(), "waiter channel has no buffer: serve's non-blocking send would drop the acknowledgement if the requester is not yet receiving")
			continue
		}
		// (d) key == id in packet
		if s.RegKey != nil {
			pid, why := c.packetIDOf(s)
			if why != "" {
				rr.Undecided(key, s.Write.Pos(), "%s", why)
				continue
			}
			if s.Kind == "publish" {
				b, ok := isFieldLoad(c.Resolve(s.RegKey), "Message", "ID")
				if !ok || c.Resolve(b) != s.Msg {
					rr.Bad(key, s.Reg.Pos(), "waiter key is not the ID of the message being published")
					continue
				}
			} else if !c.sameID(s.RegKey, pid) {
				rr.Bad(key, s.Reg.Pos(), "waiter is registered under %s but the packet carries %s", s.RegKey.Name(), pid.Name())
				continue
			}
		}
		// (e) under the signaller's exclusive lock
		muF := c.structField("signaller", "mu")
		if s.RegViaHelper == nil && muF != nil && !c.heldAt(s.F, s.Reg, s.SigBase, muF, "w") {
			rr.Bad(key, s.Reg.Pos(), "waiter registration is not inside signaller.mu's exclusive section")
			continue
		}
		rr.OK(key, s.Reg.Pos(), "fresh chan(cap>=1) registered for %s under sig.mu, same id as the packet, dominating the write at %s", s.AckT, c.PosStr(s.Write.Pos()))
	}
}

func (c *Ctx) structField(typ, field string) *types.Var {
	n := c.NamedType(ownerOf(typ, field))
	if n == nil {
		return nil
	}
	st, ok := n.Underlying().(*types.Struct)
	if !ok {
		return nil
	}
	field = aliasField(typ, field)
	for i := 0; i < st.NumFields(); i++ {
		if st.Field(i).Name() == field {
			return st.Field(i)
		}
	}
	return nil
}

// isNilErrReturn: the error result (last result) of ret is the nil constant.
func (c *Ctx) errResult(ret *ssa.Return) ssa.Value {
	if len(ret.Results) == 0 {
		return nil
	}
	return c.RetVal(ret, len(ret.Results)-1)
}

// ruleThreeWaySelect: R-C11-1 (+ R-C07-4 success only via own waiter, + R-C19 ctx cause).
func (c *Ctx) ruleThreeWaySelect(rr *RuleRep, rSucc *RuleRep, sites []*reqSite) {
	for _, s := range sites {
		if s.AckT == "" {
			continue
		}
		key := s.Name
		if len(s.Selects) == 0 {
			if rr != nil {
				rr.Bad(key, s.Write.Pos(), "no blocking select follows the write of this request: the call cannot wait for its %s", s.AckT)
			}
			continue
		}
		var waiterEdges []ifEdge
		for _, sel := range s.Selects {
			cases := selectCases(sel)
			var closedC, ctxC, waitC *selCase
			var others []*selCase
			for i := range cases {
				cs := &cases[i]
				if cs.State == nil || cs.State.Dir != types.RecvOnly {
					continue
				}
				switch {
				case c.isClosedChanOf(cs.State.Chan, s.Cli):
					closedC = cs
				case c.isCtxMethodOf(cs.State.Chan, "Done", s.Ctx):
					ctxC = cs
				case s.RegChan != nil && c.ResolveQ(s.F, cs.State.Chan, s.Q) == s.RegChan:
					waitC = cs
				default:
					others = append(others, cs)
				}
			}
			if rSucc != nil && waitC != nil {
				// a wait shared between the QoS levels: a case on the waiter of another acknowledgement kind must be dead at
				// this level (its channel nil on the paths of this level), or that acknowledgement completes this stage too
				for _, cs := range others {
					rv := c.ResolveQ(s.F, cs.State.Chan, s.Q)
					if isNilConst(stripConv(rv)) {
						continue
					}
					if other := chanElemName(cs.State.Chan.Type()); specKind(other) && other != s.AckT {
						rSucc.Bad(key+"/other-waiter", sel.Pos(), "the wait for %s also ends on a receive from a %s waiter that is registered at this level: an acknowledgement of the wrong kind carrying this identifier completes the stage", s.AckT, other)
					}
				}
			}
			if rr != nil {
				switch {
				case closedC == nil:
					rr.Bad(key+"/closed-case", sel.Pos(), "select waiting for %s has no case on the connection-closed channel of the client the request was written to: the call blocks for ever when the connection ends", s.AckT)
				case ctxC == nil:
					rr.Bad(key+"/ctx-case", sel.Pos(), "select waiting for %s has no case on Done() of the call's own context: the call cannot be cancelled", s.AckT)
				case waitC == nil:
					rr.Bad(key+"/waiter-case", sel.Pos(), "select waiting for %s does not receive from the channel that was registered as its waiter", s.AckT)
				default:
					// bodies of closed / ctx cases return non-nil errors
					good := true
					for _, cs := range []*selCase{closedC, ctxC} {
						if !cs.HasEdge {
							rr.Undecided(key+"/case-body", sel.Pos(), "cannot locate case body")
							good = false
							continue
						}
						// whole paths through the case's edge; a result or cause that is a join (`err = …` per case, one return or
						// one wrap call below) is what it holds on those paths
						edge := cs.Edge
						narrow := func(v ssa.Value, at ssa.Instruction) ssa.Value {
							if v == nil {
								return v
							}
							if phi, ok := c.Resolve(v).(*ssa.Phi); ok && phi.Parent() == s.F {
								if vs, reached := valuesAlong(s.F, edge, at, phi, nil); reached && len(vs) == 1 {
									return vs[0]
								}
							}
							// a named result kept in memory (the function has a defer): the one assignment that reaches `at` on
							// the paths through this case
							if ld, ok := c.Resolve(v).(*ssa.UnOp); ok && ld.Op == token.MUL {
								if cell, ok := ld.X.(*ssa.Alloc); ok && cell.Parent() == s.F {
									if val := c.cellValueAlong(s.F, edge, at, cell); val != nil {
										return val
									}
								}
							}
							return v
						}
						reach := ReachableViaEdge(s.F, edge, s.Q)
						nret := 0
						for _, ret := range returnsOf(s.F) {
							if !reach[ret] {
								continue
							}
							nret++
							ev := narrow(c.errResult(ret), ret)
							if ev == nil || isNilConst(c.Resolve(ev)) {
								rr.Bad(key+"/case-returns-nil", ret.Pos(), "a path through the %s case of the wait reaches a nil-error return: the request would be reported as completed without its %s", caseName(cs == closedC), s.AckT)
								good = false
								continue
							}
							if cs == ctxC && !c.errCauseIsCtxErr(ev, s.Ctx, narrow) {
								rr.Bad(key+"/ctx-cause", ret.Pos(), "the cancelled-context case does not report ctx.Err() of the call's own context as the cause")
								good = false
							}
							if cs == closedC && !c.errCauseNonNil(s.F, ev, ret, narrow) {
								rr.Bad(key+"/closed-cause", ret.Pos(), "the connection-closed case returns an error built from a cause that may be nil (%s): wrapping nil yields nil, so the request is reported as completed without its %s (e.g. after a graceful Disconnect)", describeVal(c.Resolve(ev)), s.AckT)
								good = false
							}
						}
						if nret == 0 {
							rr.Bad(key+"/case-no-return", sel.Pos(), "the %s case of the wait never returns", caseName(cs == closedC))
							good = false
						}
					}
					if good {
						rr.OK(key, sel.Pos(), "three-way select: closed(%s) / ctx.Done() / registered %s waiter; non-waiter cases return errors", s.Cli.Name(), s.AckT)
					}
				}
			}
			if waitC != nil && waitC.HasEdge {
				waiterEdges = append(waiterEdges, waitC.Edge)
			}
		}
		// success only through own waiter
		if rSucc != nil {
			reach := ReachableInstrs(s.F, s.Reg, s.Q)
			if s.Reg == nil {
				reach = ReachableInstrs(s.F, s.Write, s.Q)
			}
			n := 0
			for _, ret := range returnsOf(s.F) {
				if !reach[ret] {
					continue
				}
				ev := c.errResult(ret)
				if ev == nil {
					continue
				}
				// the point the nil result comes from: the return itself, or — with a single exit — the end of the block
				// through which a nil value (the constant, or an error tested before and nil on this way) enters the join
				var from []ssa.Instruction
				viaWaiterEdge := map[ssa.Instruction]bool{} // the join is entered straight from the waiter case's edge
				switch rv := c.Resolve(ev).(type) {
				case *ssa.Phi:
					if rv.Parent() != s.F {
						continue
					}
					for _, lf := range phiLeaves(rv, map[ssa.Value]bool{}) {
						if lf.Pred == nil || len(lf.Pred.Instrs) == 0 {
							continue
						}
						last := lf.Pred.Instrs[len(lf.Pred.Instrs)-1]
						lv := c.Resolve(lf.V)
						isNil := isNilConst(lv)
						if !isNil {
							for _, e := range nilEdges(s.F, lv) {
								if DominatedByEdge(s.F, last, e.B, e.K, PathQ{}) {
									isNil = true
								}
							}
						}
						if isNil && reach[last] {
							from = append(from, last)
							for _, e := range waiterEdges {
								if e.B == lf.Pred && e.K < len(lf.Pred.Succs) && lf.Pred.Succs[e.K] == rv.Block() {
									viaWaiterEdge[last] = true
								}
							}
						}
					}
				default:
					if isNilConst(rv) {
						from = append(from, ret)
					}
				}
				if len(from) == 0 {
					continue
				}
				n++
				dom := true
				for _, at := range from {
					d := viaWaiterEdge[at]
					for _, e := range waiterEdges {
						if DominatedByEdge(s.F, at, e.B, e.K, s.Q) {
							d = true
						}
					}
					if !d {
						dom = false
					}
				}
				if dom {
					rSucc.OK(s.Name+"/success", ret.Pos(), "nil-error return is dominated by the receive from the registered %s waiter", s.AckT)
				} else {
					rSucc.Bad(s.Name+"/success", ret.Pos(), "a nil-error return is reachable after the request was registered without receiving from its own %s waiter", s.AckT)
				}
			}
			if n == 0 && !(s.Kind == "publish" && s.QoS == 2) {
				rSucc.Undecided(s.Name+"/success", s.Write.Pos(), "no success return found after the wait")
			}
		}
	}
}

func caseName(closed bool) string {
	if closed {
		return "connection-closed"
	}
	return "context-done"
}

// instrAfterEdge: target is reachable from the edge's destination.
func (c *Ctx) instrAfterEdge(f *ssa.Function, target ssa.Instruction, e ifEdge, q PathQ) bool {
	dst := e.B.Succs[e.K]
	if len(dst.Instrs) == 0 {
		return false
	}
	first := dst.Instrs[0]
	if first == target {
		return true
	}
	_, ok := CanReach(f, first, func(in ssa.Instruction) bool { return in == target }, q)
	return ok
}

// errCauseIsCtxErr: ev is wrapError*(cause, ...) with cause = ctx.Err() of ctx (or is ctx.Err() itself).
func (c *Ctx) errCauseIsCtxErr(ev ssa.Value, ctx ssa.Value, narrow ...func(ssa.Value, ssa.Instruction) ssa.Value) bool {
	if ev == nil {
		return false
	}
	if len(narrow) > 0 {
		if call, callee := c.asCall(ev); call != nil && callee != nil && callee.Pkg == c.Pkg && c.isWrapFn(callee) && len(call.Call.Args) > 0 {
			if c.isCtxMethodOf(narrow[0](call.Call.Args[0], call), "Err", ctx) {
				return true
			}
		}
	}
	if c.isCtxMethodOf(ev, "Err", ctx) {
		return true
	}
	call, callee := c.asCall(ev)
	if call == nil || callee == nil || callee.Pkg != c.Pkg {
		return false
	}
	if c.isWrapFn(callee) {
		return len(call.Call.Args) > 0 && c.isCtxMethodOf(call.Call.Args[0], "Err", ctx)
	}
	return false
}

// handleUse is one wrapErrorWithRetry(cause, handle, ...) call.
type handleUse struct {
	Site   *reqSite
	Call   *ssa.Call
	Ret    *ssa.Return
	Handle *ssa.Function
	MC     *ssa.MakeClosure
}

// ruleRetryableFailures: R-C01-5 — every non-nil return after registration carries a retry handle.
func (c *Ctx) ruleRetryableFailures(rr *RuleRep, sites []*reqSite) []handleUse {
	var uses []handleUse
	wrapRetry := c.Func("wrapErrorWithRetry")
	if wrapRetry == nil {
		if rr != nil {
			rr.Lost("wrapErrorWithRetry", "function not found")
		}
		return nil
	}
	siteFns := map[*ssa.Function]bool{}
	for _, s := range sites {
		siteFns[s.F] = true
	}
	for _, s := range sites {
		if s.AckT == "" || s.Reg == nil || s.Kind == "ping" || s.Kind == "connect" {
			continue
		}
		reach := ReachableInstrs(s.F, s.Reg, s.Q)
		for _, ret := range returnsOf(s.F) {
			if !reach[ret] {
				continue
			}
			ev := c.errResult(ret)
			if ev == nil {
				continue
			}
			rv0 := c.Resolve(ev)
			if isNilConst(rv0) {
				continue
			}
			// a single exit (`err = wrapErrorWithRetry(…)` per case, `return err` below): every value the result can hold
			// is judged; a value that is nil on the way it enters the join (the error of the write, tested before) is the
			// success return
			leaves := []phiLeaf{{rv0, nil}}
			if phi, isPhi := rv0.(*ssa.Phi); isPhi && phi.Parent() == s.F {
				leaves = phiLeaves(phi, map[ssa.Value]bool{})
			}
			for li, lf := range leaves {
				rv := c.Resolve(lf.V)
				if isNilConst(rv) {
					continue
				}
				if lf.Pred != nil && len(lf.Pred.Instrs) > 0 && !reach[lf.Pred.Instrs[len(lf.Pred.Instrs)-1]] {
					continue // assigned on a way this QoS level does not take (`if qos > QoS0 {…} else { result = wrapError(…) }`)
				}
				if lf.Pred != nil && len(lf.Pred.Instrs) > 0 {
					nilHere := false
					for _, e := range nilEdges(s.F, rv) {
						if DominatedByEdge(s.F, lf.Pred.Instrs[len(lf.Pred.Instrs)-1], e.B, e.K, PathQ{}) {
							nilHere = true
						}
					}
					if nilHere {
						continue
					}
				}
				key := s.Name + "/failure-return"
				if li > 0 {
					key = fmt.Sprintf("%s/failure-return[%d]", s.Name, li)
				}
				call, callee := c.asCall(rv)
				if ex, ok := rv.(*ssa.Extract); ok {
					call, callee = c.asCall(ex.Tuple)
				}
				wi, isWrap := c.wrapInfoOf(callee)
				switch {
				case call != nil && isWrap && wi.handle >= 0 && len(call.Call.Args) > wi.handle:
					h, mc := c.closureOf(call.Call.Args[wi.handle])
					if hphi, isPhi := c.Resolve(call.Call.Args[wi.handle]).(*ssa.Phi); h == nil && isPhi && hphi.Parent() == s.F {
						// the handle chosen per stage and handed to one wrap call below the stages: each closure that can arrive
						// at this level is a handle of this site
						okAll, n := true, 0
						for _, hl := range phiLeaves(hphi, map[ssa.Value]bool{}) {
							if hl.Pred != nil && len(hl.Pred.Instrs) > 0 && !reach[hl.Pred.Instrs[len(hl.Pred.Instrs)-1]] {
								continue
							}
							if isNilConst(c.Resolve(hl.V)) {
								continue // no handle on this way: the wrap call is not reached with it (tested by the caller of the wrap)
							}
							h2, mc2 := c.closureOf(hl.V)
							if h2 == nil {
								okAll = false
								continue
							}
							n++
							uses = append(uses, handleUse{Site: s, Call: call, Ret: ret, Handle: h2, MC: mc2})
						}
						if okAll && n > 0 {
							if rr != nil {
								rr.OK(key, ret.Pos(), "failure after registration returns wrapErrorWithRetry(cause, <the stage's handle>): %d closures", n)
							}
							continue
						}
					}
					if h == nil {
						if rr != nil {
							rr.Undecided(key, ret.Pos(), "retry handle operand %s does not resolve to a closure", call.Call.Args[wi.handle].Name())
						}
						continue
					}
					uses = append(uses, handleUse{Site: s, Call: call, Ret: ret, Handle: h, MC: mc})
					if rr != nil {
						rr.OK(key, ret.Pos(), "failure after registration returns wrapErrorWithRetry(cause, %s)", FuncName(h))
					}
				case callee != nil && siteFns[callee]:
					// tail call into another stage which obeys the rule itself
					if rr != nil {
						rr.OK(key, ret.Pos(), "delegates to stage %s (checked separately)", FuncName(callee))
					}
				case callee != nil && callee.Pkg == c.Pkg && c.isWrapFn(callee) && len(call.Call.Args) > 0 && c.isGlobalLoad(call.Call.Args[0], "ErrInvalidSubAck"):
					if rr != nil {
						rr.OKt(key, ret.Pos(), "exempt by table: ErrInvalidSubAck — a SUBACK did arrive; the statement's consequent holds")
					}
				default:
					if rr != nil {
						rr.Bad(key, ret.Pos(), "a failure after the request was registered/written returns %s, which carries no retry handle: the retrying client drops the request instead of re-sending it", describeVal(rv))
					}
				}
			}
		}
	}
	return uses
}

func describeVal(v ssa.Value) string {
	if in, ok := v.(ssa.Instruction); ok {
		return in.String()
	}
	return v.String()
}

// ruleHandleReissues: R-C01-6 / R-C19-4 / R-C12-3 — each handle re-issues the same request on the client it is given.
func (c *Ctx) ruleHandleReissues(rr *RuleRep, uses []handleUse, opts ...string) {
	noCapture := len(opts) > 0 && opts[0] == "no-capture-checks"
	seen := map[*ssa.Function]bool{}
	for _, u := range uses {
		h := u.Handle
		if seen[h] {
			continue
		}
		seen[h] = true
		key := FuncName(h)
		if len(h.Params) != 2 {
			rr.Undecided(key, h.Pos(), "unexpected handle signature")
			continue
		}
		hctx, hcli := h.Params[0], h.Params[1]
		// (a) captures no client
		capturesCli := false
		for _, fv := range h.FreeVars {
			t := fv.Type()
			for i := 0; i < 2; i++ {
				if p, ok := t.(*types.Pointer); ok {
					t = p.Elem()
				}
			}
			if n, ok := t.(*types.Named); ok && n.Obj().Name() == "BaseClient" && !noCapture {
				capturesCli = true
				rr.Bad(key+"/captures-client", h.Pos(), "retry handle captures the original client (%s): part of the re-issued exchange would run against the old connection instead of the client given to Retry", fv.Name())
			}
		}
		// any other captured value that is derived from the old connection (signaller)
		for _, fv := range h.FreeVars {
			t := fv.Type()
			for i := 0; i < 2; i++ {
				if p, ok := t.(*types.Pointer); ok {
					t = p.Elem()
				}
			}
			if n, ok := t.(*types.Named); ok && n.Obj().Name() == "signaller" && !noCapture {
				capturesCli = true
				rr.Bad(key+"/captures-signaller", h.Pos(), "retry handle captures the original connection's signaller (%s): the waiter for the re-issued request would be registered on the old connection", fv.Name())
			}
		}
		if capturesCli {
			continue
		}
		// a bound method value x.M as handle: M itself must be a stage run on the (ctx, cli) it is given, for the request x stands for
		if h.Synthetic != "" && u.MC != nil && len(u.MC.Bindings) == 1 {
			var m *ssa.Function
			eachInstr(h, func(in ssa.Instruction) {
				if call, ok := in.(*ssa.Call); ok {
					if g := c.StaticCalleeOf(&call.Call); g != nil && g.Pkg == c.Pkg {
						m = g
					}
				}
			})
			var msite *reqSite
			for _, s := range c.cachedSites() {
				if s.F == m && (msite == nil || s.Kind == u.Site.Kind) {
					msite = s
				}
			}
			recv := c.Resolve(u.MC.Bindings[0])
			switch {
			case m == nil || len(m.Params) != 3 || msite == nil:
				rr.Bad(key, h.Pos(), "the bound method handed out as retry handle is not a stage of the exchange (it writes no request packet itself)")
			case msite.Ctx != ssa.Value(m.Params[1]) || msite.Cli != ssa.Value(m.Params[2]):
				rr.Bad(key, h.Pos(), "the method handed out as retry handle does not run on the context and client given to Retry")
			case func() bool {
				// the receiver holds no client, signaller or channel of the first attempt
				if pt, ok := m.Params[0].Type().Underlying().(*types.Pointer); ok {
					if st, ok := pt.Elem().Underlying().(*types.Struct); ok {
						for i := 0; i < st.NumFields(); i++ {
							t := st.Field(i).Type()
							if p, ok := t.(*types.Pointer); ok {
								t = p.Elem()
							}
							if n, ok := t.(*types.Named); ok && (n.Obj().Name() == "BaseClient" || n.Obj().Name() == "signaller") {
								return true
							}
							if _, isChan := t.Underlying().(*types.Chan); isChan {
								return true
							}
						}
					}
				}
				return false
			}() && !noCapture:
				rr.Bad(key+"/captures-client", h.Pos(), "the receiver of the method handed out as retry handle holds a client, signaller or channel of the first attempt")
			case !c.sameRequestObject(u.Site, msite, recv):
				rr.Bad(key, h.Pos(), "the retry handle is bound to an object that does not stand for the enclosing call's own request")
			default:
				rr.OK(key, h.Pos(), "handle = %s bound to the request object of the enclosing call; it is a stage run on the context and client given to Retry", FuncName(m))
			}
			continue
		}
		isStage := false
		for _, s := range c.cachedSites() {
			if s.F == h {
				isStage = true
			}
		}
		if isStage {
			// the handle is itself a stage (PUBREL stage): client and context uses are its own parameters by (a)
			if u.Site.F == h || true {
				rr.OK(key, h.Pos(), "handle is the stage closure itself; it captures no client, signaller or channel of the first attempt")
			}
			continue
		}
		// (b) body: exactly one call into the enclosing implementation with (ctx, cli, same request)
		impl := enclosingTop(h)
		var calls []*ssa.Call
		eachInstr(h, func(in ssa.Instruction) {
			if call, ok := in.(*ssa.Call); ok {
				if g := c.StaticCalleeOf(&call.Call); g != nil && g.Pkg == c.Pkg {
					calls = append(calls, call)
				}
			}
		})
		if len(calls) != 1 || c.StaticCalleeOf(&calls[0].Call) != impl {
			rr.Bad(key, h.Pos(), "retry handle does not consist of a single re-issue of %s", FuncName(impl))
			continue
		}
		call := calls[0]
		args := call.Call.Args
		nCtx, nCli := 0, 0
		var rest []int
		for i, a := range args {
			switch {
			case a == ssa.Value(hctx):
				nCtx++
			case a == ssa.Value(hcli):
				nCli++
			default:
				rest = append(rest, i)
			}
		}
		if len(args) < 3 || nCtx != 1 || nCli != 1 {
			rr.Bad(key, call.Pos(), "the re-issue is not made with the context and client given to Retry (args %v)", argNames(args))
			continue
		}
		// every other operand = the enclosing call's own parameter at that position (the same request), or dup=true
		reqOK, dupSeen := true, false
		for _, i := range rest {
			ra := c.Resolve(args[i])
			if b, isK := constBool(ra); isK {
				dupSeen = true
				if !b {
					reqOK = false
					rr.Bad(key+"/dup", call.Pos(), "a retransmission must be issued with dup=true (got %s)", args[i].String())
				}
				continue
			}
			if i < len(impl.Params) && impl.Params[i].Type().String() == "bool" {
				reqOK = false
				rr.Bad(key+"/dup", call.Pos(), "a retransmission must be issued with dup=true (got %s)", args[i].String())
				continue
			}
			if i >= len(impl.Params) || ra != ssa.Value(impl.Params[i]) {
				reqOK = false
				rr.Bad(key, call.Pos(), "the re-issued request operand (%s) is not the enclosing call's own request", describeVal(ra))
			}
		}
		if !reqOK {
			continue
		}
		// returns the call's error
		okRet := true
		for _, ret := range returnsOf(h) {
			ev := c.Resolve(c.errResult(ret))
			if ex, ok := ev.(*ssa.Extract); ok {
				ev = ex.Tuple
			}
			if ev != ssa.Value(call) {
				okRet = false
			}
		}
		if !okRet {
			rr.Bad(key, h.Pos(), "retry handle does not return the result of the re-issued request")
			continue
		}
		rr.OK(key, h.Pos(), "handle = %s(ctx, cli, <enclosing request>%s) on the client given to Retry", FuncName(impl), dupNote(len(args)))
		_ = dupSeen
	}
}

func dupNote(n int) string {
	if n >= 4 {
		return ", dup=true"
	}
	return ""
}

func argNames(args []ssa.Value) []string {
	var out []string
	for _, a := range args {
		out = append(out, a.Name())
	}
	return out
}

var sitesCache = map[*Ctx][]*reqSite{}

func (c *Ctx) cachedSites() []*reqSite {
	if s, ok := sitesCache[c]; ok {
		return s
	}
	s, _ := c.requestSites()
	sitesCache[c] = s
	return s
}

// ruleStageMonotone: R-C02-1 / R-C12-5 — after PUBREC nothing can lead back to PUBLISH.
func (c *Ctx) ruleStageMonotone(rr *RuleRep, sites []*reqSite, uses []handleUse) {
	var stage2 []*reqSite
	var pub2 *reqSite
	for _, s := range sites {
		if s.Kind == "pubrel" {
			stage2 = append(stage2, s)
		}
		if s.Kind == "publish" && s.QoS == 2 {
			pub2 = s
		}
	}
	if len(stage2) == 0 || pub2 == nil {
		rr.Lost("stage-2", "no PUBREL stage / QoS2 publish site found")
		return
	}
	packPublish := c.Method("pktPublish", "Pack")
	stage2Fns := map[*ssa.Function]bool{}
	for _, s := range stage2 {
		stage2Fns[s.F] = true
	}
	// (a) no call path from stage 2 back to PUBLISH
	for _, s := range stage2 {
		reach := c.reachableFuncs([]*ssa.Function{s.F}, true)
		bad := false
		for g := range reach {
			if g == packPublish || g == pub2.F {
				bad = true
				rr.Bad(s.Name+"/calls", s.F.Pos(), "the PUBREL stage can call %s: a PUBLISH could be sent after PUBREL", FuncName(g))
			}
		}
		if !bad {
			rr.OK(s.Name+"/calls", s.F.Pos(), "no call path from the PUBREL stage to (*pktPublish).Pack or %s (%d functions reachable)", FuncName(pub2.F), len(reach))
		}
	}
	// (b) every handle handed out by stage 2 is a stage-2 handle
	n := 0
	for _, u := range uses {
		if u.Site.Kind != "pubrel" {
			continue
		}
		n++
		key := u.Site.Name + "/handle"
		if stage2Fns[u.Handle] {
			rr.OK(key, u.Call.Pos(), "handle is the PUBREL stage itself")
		} else if reach := c.reachableFuncs([]*ssa.Function{u.Handle}, true); !reach[packPublish] && !reach[pub2.F] && func() bool {
			for g := range reach {
				if stage2Fns[g] {
					return true
				}
			}
			return false
		}() {
			rr.OK(key, u.Call.Pos(), "handle re-enters the PUBREL stage and has no call path to (*pktPublish).Pack or %s", FuncName(pub2.F))
		} else {
			rr.Bad(key, u.Call.Pos(), "after PUBREC the error hands out %s, which re-sends PUBLISH: a message whose PUBREL may already have reached the broker would be published again", FuncName(u.Handle))
		}
	}
	// (c) in publishImpl[QoS2], after the PUBREC receive no stage-1 handle is handed out
	for _, sel := range pub2.Selects {
		for _, cs := range selectCases(sel) {
			if cs.State == nil || !cs.HasEdge || pub2.RegChan == nil || c.ResolveQ(pub2.F, cs.State.Chan, pub2.Q) != pub2.RegChan {
				continue
			}
			for _, u := range uses {
				if u.Site != pub2 {
					continue
				}
				if DominatedByEdge(pub2.F, u.Call, cs.Edge.B, cs.Edge.K, pub2.Q) && !stage2Fns[u.Handle] {
					rr.Bad(pub2.Name+"/after-pubrec", u.Call.Pos(), "a stage-1 handle (%s) is handed out after PUBREC was received", FuncName(u.Handle))
				}
			}
			// the continuation after PUBREC is a call of the stage-2 closure with this call's ctx and client
			found := false
			eachInstr(pub2.F, func(in ssa.Instruction) {
				call, ok := in.(*ssa.Call)
				if !ok {
					return
				}
				g := c.StaticCalleeOf(&call.Call)
				if g != nil && stage2Fns[g] && DominatedByEdge(pub2.F, in, cs.Edge.B, cs.Edge.K, pub2.Q) {
					found = true
					nC, nL, other := 0, 0, 0
					for _, a := range call.Call.Args {
						ra := c.Resolve(a)
						switch {
						case ra == c.Resolve(pub2.Ctx):
							nC++
						case ra == pub2.Cli:
							nL++
						case a.Type().String() == "context.Context" || typeName(a.Type()) == "BaseClient":
							other++
						}
					}
					if nC == 1 && nL == 1 && other == 0 {
						rr.OK(pub2.Name+"/continuation", in.Pos(), "after PUBREC the exchange continues in %s with the call's own context and client", FuncName(g))
					} else {
						rr.Bad(pub2.Name+"/continuation", in.Pos(), "PUBREL stage is entered with a different context/client than the PUBLISH stage")
					}
				}
			})
			if !found {
				rr.Bad(pub2.Name+"/continuation", sel.Pos(), "after receiving PUBREC the publish does not continue with the PUBREL stage")
			}
		}
	}
	if n == 0 {
		rr.Lost("stage-2/handles", "no retry handle produced in the PUBREL stage")
	}
}

// ruleQoS0NoRetry: R-C12-6.
func (c *Ctx) ruleQoS0NoRetry(rr *RuleRep, sites []*reqSite) {
	wrapRetry := c.Func("wrapErrorWithRetry")
	for _, s := range sites {
		if s.Kind != "publish" || s.QoS != 0 {
			continue
		}
		w, ok := CanReach(s.F, nil, func(in ssa.Instruction) bool {
			k, isCall := in.(*ssa.Call)
			if !isCall {
				return false
			}
			wi, isWrap := c.wrapInfoOf(c.StaticCalleeOf(&k.Call))
			return isWrap && wi.handle >= 0
		}, s.Q)
		_ = wrapRetry
		if ok {
			rr.Bad(s.Name, w.Pos(), "a retry handle is produced for a QoS 0 publish: QoS 0 messages must never be retransmitted")
		} else {
			rr.OK(s.Name, s.F.Pos(), "on the QoS0-specialised CFG no wrapErrorWithRetry is reachable")
		}
		// and no waiter select
		if len(s.Selects) > 0 {
			rr.Bad(s.Name+"/wait", s.Selects[0].Pos(), "QoS 0 publish waits for an acknowledgement")
		}
	}
}

// errCauseNonNil: ev is a sentinel, or wrapError*(cause, ...) whose cause is a sentinel (package-level Err* variable),
// ctx.Err() after Done(), or a value known to be non-nil on this path.
func (c *Ctx) errCauseNonNil(f *ssa.Function, ev ssa.Value, at ssa.Instruction, narrow ...func(ssa.Value, ssa.Instruction) ssa.Value) bool {
	nonNil := func(v ssa.Value) bool {
		if n := c.globalLoadName(v); n != "" {
			return true
		}
		if c.isCtxMethodOf(v, "Err", nil) {
			return true
		}
		if al, ok := c.Resolve(v).(*ssa.Alloc); ok && al != nil {
			return true
		}
		if mi, ok := v.(*ssa.MakeInterface); ok {
			if _, ok := mi.X.(*ssa.Alloc); ok {
				return true
			}
		}
		for _, e := range nonNilEdges(f, c.Resolve(v)) {
			if DominatedByEdge(f, at, e.B, e.K, PathQ{}) {
				return true
			}
		}
		return false
	}
	if nonNil(ev) {
		return true
	}
	call, callee := c.asCall(ev)
	if call != nil && callee != nil && callee.Pkg == c.Pkg && c.isWrapFn(callee) && len(call.Call.Args) > 0 {
		if nonNil(call.Call.Args[0]) {
			return true
		}
		if len(narrow) > 0 {
			return nonNil(narrow[0](call.Call.Args[0], call))
		}
	}
	return false
}

// sameRequestObject: recv (the receiver a method-value handle is bound to) is the object whose message field is the message
// the enclosing site sends — the site's message is the value stored into a field of the freshly built recv, or a load of a
// field of recv — and the stage the handle enters sends a message field of its own receiver.
func (c *Ctx) sameRequestObject(site, msite *reqSite, recv ssa.Value) bool {
	if site.Msg == nil || msite.Msg == nil {
		return site.Kind != "publish" && site.Kind != "pubrel"
	}
	fieldOfObj := func(msg ssa.Value, obj ssa.Value) bool {
		if ld, ok := msg.(*ssa.UnOp); ok && ld.Op == token.MUL {
			if fa, ok := ld.X.(*ssa.FieldAddr); ok && c.Resolve(fa.X) == obj {
				return true
			}
		}
		if al, ok := obj.(*ssa.Alloc); ok {
			for _, u := range *al.Referrers() {
				if fa, ok := u.(*ssa.FieldAddr); ok {
					for _, uu := range *fa.Referrers() {
						if st, ok := uu.(*ssa.Store); ok && st.Addr == ssa.Value(fa) && c.Resolve(st.Val) == msg {
							return true
						}
					}
				}
			}
		}
		return false
	}
	if !fieldOfObj(site.Msg, recv) {
		return false
	}
	return len(msite.F.Params) > 0 && fieldOfObj(msite.Msg, ssa.Value(msite.F.Params[0]))
}

// cellValueAlong: the value the local variable `cell` holds at instruction `at` on the paths from the function's entry that
// take edge e — the one store, made after the edge, that reaches `at` with no other store to the variable in between — or
// nil when there is no single such store (or a path reaches `at` without storing after the edge).
func (c *Ctx) cellValueAlong(f *ssa.Function, e ifEdge, at ssa.Instruction, cell *ssa.Alloc) ssa.Value {
	selfStore := func(st *ssa.Store) bool {
		// `return x, err` with named results kept in memory stores err back into itself before the deferred calls run
		ld, ok := st.Val.(*ssa.UnOp)
		return ok && ld.Op == token.MUL && ld.X == ssa.Value(cell)
	}
	isStore := func(in ssa.Instruction) bool {
		st, ok := in.(*ssa.Store)
		return ok && st.Addr == ssa.Value(cell) && !selfStore(st)
	}
	for _, st := range c.cellStores[cell] {
		if st.Addr != ssa.Value(cell) || st.Parent() != f {
			return nil // written through an alias or from a closure
		}
	}
	if _, bare := canReachFrom(f, nil, nil, -1, func(in ssa.Instruction) bool { return in == at }, PathQ{MustEdge: &e, BlockInstr: isStore}); bare {
		return nil
	}
	region := ReachableViaEdge(f, e, PathQ{})
	var found *ssa.Store
	for _, st := range c.cellStores[cell] {
		if !region[st] || selfStore(st) {
			continue
		}
		if _, reaches := CanReach(f, st, func(in ssa.Instruction) bool { return in == at }, PathQ{BlockInstr: isStore}); !reaches {
			continue
		}
		if found != nil && found != st {
			return nil
		}
		found = st
	}
	if found == nil {
		return nil
	}
	return found.Val
}
