package main

import (
	"go/token"

	"golang.org/x/tools/go/ssa"
)

func init() {
	register("C01", "Decided: the hand-over points an accepted request passes through; if one of them can drop the request on some path the request is lost for the fault sequence driving that path (safety half of the property). R-C01-1 accepted => enqueued; R-C01-2 the wake-up of the task goroutine cannot be lost; R-C01-3 the task never discards a QoS>=1 request; R-C01-4 a failed request's handle is queued; R-C01-5 every failure after registration is retryable; R-C01-6 the handle re-issues this request on the client it is given; R-C01-7 Retry keeps what it does not complete; R-C01-8 the reconnect loop resumes the queue on every new connection and stops only on request (context done, Disconnect, graceful end). Not decided: that a reconnect eventually happens and the broker answers (liveness), Disconnect, process crash.", checkC01)
}

func checkC01(r *Run) {
	c := r.C
	r1 := r.Rule("R-C01-1", "accepted => enqueued: every nil-returning path of RetryClient.Publish/Subscribe/Unsubscribe passes pushTask with a closure that calls the request function with the API's own arguments; pushTask appends unless it returns ErrClosedClient")
	r2 := r.Rule("R-C01-2", "wake-up not lost: chTask has capacity >= 1; pushTask appends before its non-blocking send, both under mu; the consumer tests the queue under mu before waiting")
	r3 := r.Rule("R-C01-3", "the task never discards: direct invocation, or a queued closure invoking it with a copy, or QoS 0, or validation failure")
	r4 := r.Rule("R-C01-4", "failed request is kept: on err != nil the Retry handle of that error is appended to the retry queue and the connection is marked for recycling (unless not retryable / user cancelled)")
	r5 := r.Rule("R-C01-5", "every failure return after the waiter was registered carries a retry handle (wrapErrorWithRetry), or delegates to the next stage")
	r6 := r.Rule("R-C01-6", "each handle re-issues the enclosing request with the context and client given to Retry; it captures no client, signaller or channel of the first attempt")
	r7 := r.Rule("R-C01-7", "Retry re-queues the failed entry's continuation and every entry not yet attempted")
	r8 := r.Rule("R-C01-8", "reconnect resumes the queue: SetClient -> Connect -> Retry on every successful connection; the task goroutine resumes only after Connect succeeded and recycles the link after a failure")
	r5.Floor(8)
	r6.Floor(3)
	sites := c.sitesOrLost(r5)
	uses := c.ruleRetryableFailures(r5, sites)
	c.ruleHandleReissues(r6, uses)
	c.ruleRetryRequeue(r7, nil, "loss")
	c.ruleAcceptedEnqueued(r1)
	c.ruleWakeup(r2)
	c.ruleTaskNeverDiscards(r3)
	c.ruleDequeuedTaskRuns(r3)
	c.ruleFailedKept(r4, nil)
	c.ruleReconnectResumes(r8)
	if m, _ := c.reconnModel(); m != nil {
		c.ruleLoopStopsOnlyOnRequest(r8, m)
	}
	c.ruleErrBeforeDone(r8) // Done() before the error is recorded reads as a graceful end: the loop stops
	c.ruleWrapKeepsHandle(r5)
	c.ruleTaskContext(r4)
	c.ruleLoopOutlivesConnectCtx(r8)
}

// ruleDequeuedTaskRuns (R-C01-3, task goroutine side): a task leaves the task queue only by being popped from the front,
// and the popped task is executed on every path before the goroutine pops again or ends. A queue that is emptied or
// swapped out as a whole, or a pop whose element is not run on some path, loses accepted requests.
func (c *Ctx) ruleDequeuedTaskRuns(rr *RuleRep) {
	a := c.retryAnchors()
	if len(a.problems) > 0 {
		return
	}
	g := c.taskGoroutine(a)
	if g == nil {
		return
	}
	// invocations of an element of the task queue in the task goroutine
	calls := map[ssa.Instruction]bool{}
	eachInstr(g, func(in ssa.Instruction) {
		cc := callCommon(in)
		if cc == nil || cc.IsInvoke() || cc.StaticCallee() != nil {
			return
		}
		ld, ok := c.ResolveAt(cc.Value, in).(*ssa.UnOp)
		if !ok || ld.Op != token.MUL {
			return
		}
		ia, ok := ld.X.(*ssa.IndexAddr)
		if !ok {
			return
		}
		qld, ok := ia.X.(*ssa.UnOp)
		if !ok {
			return
		}
		if _, isTQ := isLoadOfField(qld, a.TaskQueue); !isTQ {
			return
		}
		// (which element: R-C03-1)
		if _, isCall := in.(*ssa.Call); isCall {
			calls[in] = true
		}
	})
	if len(calls) == 0 {
		return // the dequeue is not in this shape (R-C03-1 reports what it cannot place)
	}
	for _, f := range c.Funcs {
		for _, st := range storesToField(f, a.TaskQueue) {
			key := FuncName(f) + "/dequeue"
			base, elems, ok := c.appendChain(st.Val)
			if _, isTQ := isLoadOfField(base, a.TaskQueue); ok && isTQ && len(elems) >= 1 {
				continue // an append adds
			}
			pop := false
			if sl, ok := st.Val.(*ssa.Slice); ok {
				if _, isTQ := isLoadOfField(sl.X, a.TaskQueue); isTQ && sl.High == nil {
					if lo, ok := constInt(sl.Low); ok && lo == 1 {
						pop = true
					}
				}
			}
			if !pop || f != g {
				rr.Bad(key, st.Pos(), "tasks are taken out of the task queue other than one at a time from its front by the task goroutine: whatever is removed and not run is an accepted request that is lost")
				continue
			}
			w, leak := CanReach(g, st, func(in ssa.Instruction) bool { return realExit(in) || in == ssa.Instruction(st) }, PathQ{BlockInstr: func(in ssa.Instruction) bool { return calls[in] }})
			if leak {
				rr.Bad(key, w.Pos(), "a task popped from the queue is not executed on some path: the accepted request is dropped")
			} else {
				rr.OK(key, st.Pos(), "the popped task is executed on every path before the next pop")
			}
		}
	}
}
